(* Range / Length of valuemap.go under concurrency (Model/ValueMapScan.v):
   (A) they are NOT atomic snapshots (a concrete schedule, checked by computation);
   (B) what every schedule does guarantee (the weak contract);
   (C) the same for Length. *)
From stdpp Require Import gmap sorting.
From Coq Require Import NArith Lia.
From DS Require Import Model.ValueMap Proofs.ValueMapProofs.
From DS Require Import Model.ValueMapConc Proofs.ValueMapConcLin
  Proofs.ValueMapConcInv Proofs.ValueMapConcPrims Proofs.ValueMapConcProofs Model.ValueMapScan.

Local Open Scope N_scope.

(* name clashes between the sequential and the concurrent development *)
Local Notation Inv := ValueMapConcInv.Inv.
Local Notation abs_lookup := ValueMapConcInv.abs_lookup.

(* ========================================================================= *)
(* 0. The abstraction function                                                *)
(* ========================================================================= *)
Lemma abs_of_lookup s k : abs_of s !! k = abs_lookup s k.
Proof.
  unfold abs_of, abs_lookup, dget. rewrite lookup_omap.
  destruct (s_rd s !! k) as [e|] eqn:Hr.
  - by erewrite lookup_union_Some_l.
  - rewrite lookup_union_r by done. destruct (s_am s); [|by rewrite lookup_empty].
    destruct (s_dirty s) as [d|]; simpl; [|by rewrite lookup_empty].
    by destruct (d !! k).
Qed.

(* abs_of is the abstract map of the linearizability proof *)
Lemma abs_of_lin c g : Inv c g -> g_abs (g_l g) = abs_of (c_sh c).
Proof. intros Hi. apply map_eq. intros k. by rewrite abs_of_lookup, (i_abs _ _ Hi). Qed.

(* ========================================================================= *)
(* 1. Traces                                                                  *)
(* ========================================================================= *)
Lemma srun_snoc x ws w : srun x (ws ++ [w]) = sstep1 (srun x ws) w.
Proof. unfold srun. by rewrite fold_left_app. Qed.

Lemma srun_app x ws1 ws2 : srun x (ws1 ++ ws2) = srun (srun x ws1) ws2.
Proof. unfold srun. by rewrite fold_left_app. Qed.

Lemma strace_snoc x ws w : strace x (ws ++ [w]) = strace x ws ++ [sstep1 (srun x ws) w].
Proof.
  revert x. induction ws as [|w0 ws IH]; intros x; simpl; [done|].
  by rewrite IH.
Qed.

Lemma srun_in_strace x ws : srun x ws ∈ strace x ws.
Proof.
  revert x. induction ws as [|w0 ws IH]; intros x; simpl.
  - apply elem_of_list_here.
  - apply elem_of_list_further, IH.
Qed.

Lemma strace_last x ws : last (strace x ws) = Some (srun x ws).
Proof.
  revert x. induction ws as [|w0 ws IH]; intros x; [done|].
  simpl. specialize (IH (sstep1 x w0)).
  destruct (strace (sstep1 x w0) ws) eqn:E; [by destruct ws|]. exact IH.
Qed.

Lemma sstep1_sid x w : sc_sid (sstep1 x w) = sc_sid x.
Proof. destruct w; simpl; [done|]. by destruct (scstep _ _ _). Qed.

Lemma sstep1_th_pc x t : sc_pc (sstep1 x (Th t)) = sc_pc x.
Proof. done. Qed.

(* ========================================================================= *)
(* 2. (A) Range and Length are not atomic snapshots                           *)
(* ========================================================================= *)
(* boolean check: the abstract map is non-empty in every configuration of the trace in which
   the scan has been invoked *)
Definition nonempty_during (tr : list sconf) : bool :=
  forallb (fun x => sc_idle (sc_pc x) || negb (bool_decide (contents x = []))) tr.

Lemma nonempty_during_spec tr :
  nonempty_during tr = true ->
  forall x, x ∈ tr -> sc_pc x <> ScIdle -> abs_of (sc_sh x) <> ∅.
Proof.
  unfold nonempty_during. rewrite forallb_forall. intros Hall x Hx Hpc Hemp.
  specialize (Hall x (proj1 (elem_of_list_In _ _) Hx)).
  apply orb_true_iff in Hall as [Hi|Hn].
  - by destruct (sc_pc x).
  - apply negb_true_iff, bool_decide_eq_false in Hn. apply Hn.
    unfold contents. rewrite Hemp. apply map_to_list_empty.
Qed.

(* the whole run, step by step: (scanner pc is idle?, abstract contents of the map) *)
Example demo_trace :
  map (fun x => (sc_idle (sc_pc x), contents x)) (strace (sinit demo_threads) demo_sched)
  = repeat (true, []) 4 ++ repeat (true, [(1, 1)]) 3          (* Store(1,1) by thread 0 *)
    ++ repeat (false, [(1, 1)]) 5                               (* scan: invoke .. table {1} taken *)
    ++ repeat (false, [(1, 1)]) 3 ++ repeat (false, [(1, 1); (2, 3)]) 6   (* Store(2,3) *)
    ++ repeat (false, [(2, 3)]) 2                               (* LoadAndDelete(1) took effect *)
    ++ repeat (false, [(2, 3)]) 2.                              (* scan: load cell of key 1, return *)
Proof. vm_compute. reflexivity. Qed.

Example demo_history :
  history_of (sc_c (srun (sinit demo_threads) demo_sched))
  = [EInv 0 (CStore 1 1); ERet 0 RNone; EInv 1 (CStore 2 3); ERet 1 RNone;
     EInv 1 (CLoadAndDelete 1); ERet 1 (ROpt (Some 1))].
Proof. vm_compute. reflexivity. Qed.

(* A schedule in which the map is never empty between the invocation and the response of the
   scan, and yet Range visits nothing and Length returns 0.  No atomic-snapshot specification
   (ORange / OLength of Model/ValueMap.v, which answer with the contents at ONE instant) allows
   this: at every instant the contents were [(1,1)], [(1,1);(2,3)] or [(2,3)]. *)
Theorem range_not_atomic_snapshot :
  exists (threads : list (list cop)) (sched : list who),
    let tr := strace (sinit threads) sched in
    let fin := srun (sinit threads) sched in
    last tr = Some fin /\
    (* the scan was invoked and has returned, with nothing visited / count 0 *)
    range_result fin = Some [] /\ length_result fin = Some 0%nat /\
    (* at every instant from the invocation to the response the map is non-empty *)
    (forall x, x ∈ tr -> sc_pc x <> ScIdle -> abs_of (sc_sh x) <> ∅) /\
    (* in particular no instant of the run answers the sequential specification *)
    (forall x, x ∈ tr -> sc_pc x <> ScIdle ->
       (spec_step (abs_of (sc_sh x)) ORange).2 <> RPairs [] /\
       (spec_step (abs_of (sc_sh x)) OLength).2 <> RLen 0).
Proof.
  exists demo_threads, demo_sched. cbv zeta.
  assert (forall x, x ∈ strace (sinit demo_threads) demo_sched -> sc_pc x <> ScIdle ->
            abs_of (sc_sh x) <> ∅) as Hne.
  { apply nonempty_during_spec. vm_compute. reflexivity. }
  split; [apply strace_last|].
  split; [vm_compute; reflexivity|]. split; [vm_compute; reflexivity|].
  split; [exact Hne|].
  intros x Hx Hpc. specialize (Hne x Hx Hpc). simpl. split.
  - intros [= Heq]. apply Hne. apply map_to_list_empty_iff.
    apply Permutation_nil_r. rewrite <-Heq. symmetry. apply sort_pairs_perm.
  - intros [= Heq]. apply Hne. by apply map_size_empty_iff.
Qed.

(* ========================================================================= *)
(* 3. Reusing the invariant of the linearizability proof                      *)
(* ========================================================================= *)
(* The proofs of Proofs/ValueMapConc*.v establish, for every step of a point-operation thread,
   that the assertion of every OTHER thread survives (rely/guarantee).  To learn what a step
   preserves about an entry the scanner remembers, we add a phantom point-operation thread
   parked at a program point whose assertion says exactly that, apply the existing theorem
   `step_all`, and read the assertion back.  Nothing of the existing development is changed. *)

Definition add_thr (c : conf) (x : nat) (ts : tstate) : conf :=
  {| c_sh := c_sh c; c_thr := <[x := ts]> (c_thr c); c_hist := c_hist c |}.
Definition add_st (g : ghost) (x : nat) (st : gstatus) : ghost :=
  {| g_l := {| g_abs := g_abs (g_l g); g_th := <[x := st]> (g_th (g_l g)) |};
     g_ek := g_ek g; g_own := g_own g |}.

Lemma cstep_ann_frame c t x tsx :
  x <> t ->
  cstep_ann (add_thr c x tsx) t = (add_thr (cstep c t) x tsx, (cstep_ann c t).2).
Proof.
  intros Hne. unfold cstep, cstep_ann, add_thr. cbn [c_thr c_sh c_hist].
  rewrite lookup_insert_ne by done.
  destruct (c_thr c !! t) as [ts|] eqn:Ht; [|done].
  destruct (t_pc ts) eqn:Hp.
  1:{ destruct (t_todo ts); simpl; [done|]. by rewrite insert_commute. }
  1:{ simpl. by rewrite insert_commute. }
  all: match goal with |- context [sstep ?a ?b ?d] => destruct (sstep a b d) as [[s' p'] a'] end; simpl; by rewrite insert_commute.
Qed.

Lemma cstep_thr_None c t x : c_thr c !! x = None -> c_thr (cstep c t) !! x = None.
Proof.
  intros Hx. unfold cstep, cstep_ann.
  destruct (c_thr c !! t) as [ts|] eqn:Ht; [|done].
  assert (x <> t) by congruence.
  destruct (t_pc ts) eqn:Hp.
  1:{ destruct (t_todo ts); simpl; [done|]. by rewrite lookup_insert_ne. }
  1:{ simpl. by rewrite lookup_insert_ne. }
  all: match goal with |- context [sstep ?a ?b ?d] => destruct (sstep a b d) as [[s' p'] a'] end; simpl; by rewrite lookup_insert_ne.
Qed.

Lemma cstep_thr_Some c t x : is_Some (c_thr c !! x) -> is_Some (c_thr (cstep c t) !! x).
Proof.
  intros Hx. unfold cstep, cstep_ann.
  destruct (c_thr c !! t) as [ts|] eqn:Ht; [|done].
  assert (forall y, is_Some (<[t := y]> (c_thr c) !! x)) as Hi.
  { intros y. destruct (decide (x = t)) as [->|]; [by rewrite lookup_insert|].
    by rewrite lookup_insert_ne. }
  destruct (t_pc ts) eqn:Hp.
  1:{ destruct (t_todo ts); simpl; [done|]. apply Hi. }
  1:{ simpl. apply Hi. }
  all: match goal with |- context [sstep ?a ?b ?d] => destruct (sstep a b d) as [[s' p'] a'] end; simpl; apply Hi.
Qed.

(* adding a parked thread whose assertion holds *)
Lemma Inv_add_thr c g x p st :
  Inv c g -> c_thr c !! x = None -> s_lock (c_sh c) <> Some x ->
  holds_lock p = false ->
  (forall o seen, st = GInv o seen -> g_abs (g_l g) ∈ seen) ->
  TI (c_sh c) (add_st g x st) x p ->
  Inv (add_thr c x {| t_pc := p; t_todo := [] |}) (add_st g x st).
Proof.
  intros Hi Hx Hlk Hh Hst Hti.
  assert (forall t, t <> x -> status (add_st g x st) t = status g t) as Hoth.
  { intros t Hne. unfold status, add_st. simpl. by rewrite lookup_insert_ne. }
  assert (status (add_st g x st) x = Some st) as Hself.
  { unfold status, add_st. simpl. by rewrite lookup_insert. }
  split; simpl.
  - apply (i_wf _ _ Hi).
  - apply (i_abs _ _ Hi).
  - intros t o seen. destruct (decide (t = x)) as [->|Hne].
    + rewrite Hself. intros [= ->]. by eapply Hst.
    + rewrite Hoth by done. apply (i_cur _ _ Hi).
  - intros t ts. destruct (decide (t = x)) as [->|Hne].
    + rewrite lookup_insert. by intros [= <-].
    + rewrite lookup_insert_ne by done. intros Ht.
      eapply (TI_ghost_ext _ g); [by apply Hoth|done|done|]. by apply (i_thr _ _ Hi).
  - intros t. destruct (decide (t = x)) as [->|Hne]; [by rewrite lookup_insert|].
    rewrite lookup_insert_ne, Hoth by done. apply (i_nothr _ _ Hi).
  - intros t ts. destruct (decide (t = x)) as [->|Hne].
    + rewrite lookup_insert. intros [= <-]. simpl. rewrite Hh. split; [done|]. intros; done.
    + rewrite lookup_insert_ne by done. apply (i_lock _ _ Hi).
Qed.

(* a thread id that is neither t, nor a thread of c, nor the lock holder *)
Lemma fresh_tid (c : conf) (t : nat) :
  exists x, x <> t /\ c_thr c !! x = None /\ s_lock (c_sh c) <> Some x.
Proof.
  set (l := default t (s_lock (c_sh c))).
  set (X := ({[t]} ∪ dom (c_thr c) ∪ {[l]} : gset nat)).
  exists (fresh X). pose proof (is_fresh X) as Hf. split; [|split].
  - intros Heq. apply Hf. set_solver.
  - apply not_elem_of_dom. set_solver.
  - intros Heq. apply Hf. assert (l = fresh X) as <-; [|set_solver].
    unfold l. by rewrite Heq.
Qed.

(* after a step of thread t, the parked thread x is still parked, in the stepped configuration *)
Lemma phantom_step c g t x p st :
  Inv c g -> x <> t -> c_thr c !! x = None -> s_lock (c_sh c) <> Some x ->
  holds_lock p = false ->
  (forall o seen, st = GInv o seen -> g_abs (g_l g) ∈ seen) ->
  TI (c_sh c) (add_st g x st) x p ->
  let g1 := gstep (add_thr c x {| t_pc := p; t_todo := [] |}) t (add_st g x st) in
  Inv (cstep c t) (gstep c t g) /\
  TI (c_sh (cstep c t)) g1 x p /\
  g_ek g1 = g_ek (gstep c t g) /\ g_own g1 = g_own (gstep c t g) /\
  g_abs (g_l g1) = abs_of (c_sh (cstep c t)) /\
  (status g1 x = Some st \/
   exists o seen, st = GInv o seen /\
     status g1 x = Some (GInv o (abs_of (c_sh (cstep c t)) :: seen))).
Proof.
  intros Hi Hne Hx Hlk Hh Hst Hti g1.
  pose proof (Inv_add_thr c g x p st Hi Hx Hlk Hh Hst Hti) as Hi'.
  destruct (step_all _ _ t Hi') as [_ Hi1]. fold g1 in Hi1.
  destruct (step_all _ _ t Hi) as [_ Hi2].
  assert (cstep (add_thr c x {| t_pc := p; t_todo := [] |}) t
          = add_thr (cstep c t) x {| t_pc := p; t_todo := [] |}) as Hc.
  { unfold cstep at 1. by rewrite cstep_ann_frame. }
  rewrite Hc in Hi1.
  assert (g_abs (g_l g1) = abs_of (c_sh (cstep c t))) as Habs.
  { by rewrite (abs_of_lin _ _ Hi1). }
  split; [done|]. split; [|split; [|split; [|split; [done|]]]].
  - pose proof (i_thr _ _ Hi1 x {| t_pc := p; t_todo := [] |}) as H. simpl in H.
    rewrite lookup_insert in H. by apply H.
  - unfold g1, gstep. simpl. rewrite Hc. simpl. by rewrite lookup_insert_ne.
  - unfold g1, gstep. simpl. by rewrite lookup_insert_ne.
  - rewrite <-Habs. unfold status, g1, gstep. simpl g_l.
    destruct (lg_step_mono {| g_abs := g_abs (g_l g); g_th := <[x:=st]> (g_th (g_l g)) |} t
                (cstep_ann (add_thr c x {| t_pc := p; t_todo := [] |}) t).2 x Hne)
      as [He|(o & seen & H1 & H2)].
    + left. rewrite He. simpl. by rewrite lookup_insert.
    + right. simpl in H1. rewrite lookup_insert in H1. inversion H1; subst st.
      exists o, seen. split; [done|]. exact H2.
Qed.

(* what a point-operation step preserves about an entry that was once in the read map *)
Lemma point_step_ever c g t k e :
  Inv c g -> held (c_sh c) (g_ek g) k e -> ever (c_sh c) e ->
  held (c_sh (cstep c t)) (g_ek (gstep c t g)) k e /\ ever (c_sh (cstep c t)) e.
Proof.
  intros Hi Hh He. destruct (fresh_tid c t) as (x & Hne & Hx & Hlk).
  destruct (phantom_step c g t x (PStoreTry k 0 e) (GInv (CStore k 0) [g_abs (g_l g)])
              Hi Hne Hx Hlk eq_refl) as (_ & Hti & Hek & _).
  - intros o seen [= <- <-]. set_solver.
  - simpl. exists [g_abs (g_l g)]. split; [|done]. unfold status. simpl. by rewrite lookup_insert.
  - destruct Hti as (seen & _ & Hh' & He'). rewrite <-Hek. done.
Qed.

(* the entry of a key that stays live stays the current entry of that key *)
Lemma point_step_current c g t k e :
  Inv c g -> current (c_sh c) k e ->
  is_Some (abs_of (c_sh c) !! k) -> is_Some (abs_of (c_sh (cstep c t)) !! k) ->
  current (c_sh (cstep c t)) k e.
Proof.
  intros Hi Hc Hl0 Hl1. destruct (fresh_tid c t) as (x & Hne & Hx & Hlk).
  destruct (phantom_step c g t x (PLoadE k e) (GInv (CLoad k) [g_abs (g_l g)])
              Hi Hne Hx Hlk eq_refl) as (_ & Hti & _ & _ & _ & Hst).
  - intros o seen [= <- <-]. set_solver.
  - simpl. exists [g_abs (g_l g)]. split; [unfold status; simpl; by rewrite lookup_insert|].
    split; [|by left]. eapply current_held; [apply (i_wf _ _ Hi)|done].
  - destruct Hti as (seen & Hs & _ & [Hcur|[_ (σ & Hin & Hnone)]]); [done|].
    exfalso. rewrite (abs_of_lin _ _ Hi) in Hst, Hs.
    assert (σ = abs_of (c_sh c) \/ σ = abs_of (c_sh (cstep c t))) as [-> | ->].
    { destruct Hst as [Hst|(o & seen0 & [= <- <-] & Hst)]; rewrite Hst in Hs;
        inversion Hs; subst seen; set_solver. }
    + exact (proj1 (eq_None_not_Some _) Hnone Hl0).
    + exact (proj1 (eq_None_not_Some _) Hnone Hl1).
Qed.

(* ---- the mutex under point-operation steps --------------------------------- *)
Lemma s_lock_unexpunge s k e : s_lock (unexpunge s k e) = s_lock s.
Proof. unfold unexpunge, dput. destruct (s_cell s e); try done. simpl. by destruct (s_dirty s). Qed.
Lemma s_lock_miss_locked s : s_lock (miss_locked s) = s_lock s.
Proof. unfold miss_locked. by destruct (_ <? _)%nat. Qed.
Lemma s_lock_add_new s k v : s_lock (add_new s k v) = s_lock s.
Proof.
  unfold add_new, dput. destruct (s_am s); simpl.
  - by destruct (s_dirty s).
  - unfold dirty_locked. destruct (s_dirty s) eqn:E; simpl; rewrite ?E; done.
Qed.
Lemma s_lock_los_locked_entry s e v : s_lock (los_locked_entry s e v).1 = s_lock s.
Proof. unfold los_locked_entry. by destruct (s_cell s e). Qed.

Lemma sstep_lock t s p :
  s_lock (sstep t s p).1.1 = s_lock s \/
  (s_lock s = None /\ s_lock (sstep t s p).1.1 = Some t) \/
  (exists n, p = PUnlock n /\ s_lock (sstep t s p).1.1 = None).
Proof.
  destruct p; simpl; unfold try_lock;
  try (repeat case_match; simpl; rewrite ?s_lock_miss_locked, ?s_lock_add_new; simpl;
       rewrite ?s_lock_unexpunge; eauto; fail).
  - left. destruct (s_rd s !! k) as [e|].
    + pose proof (s_lock_los_locked_entry (unexpunge s k e) e v) as H.
      destruct (los_locked_entry (unexpunge s k e) e v) as [s1 r]. simpl in *.
      by rewrite H, s_lock_unexpunge.
    + destruct (dget s k) as [e|].
      * pose proof (s_lock_los_locked_entry s e v) as H.
        destruct (los_locked_entry s e v) as [s1 r]. simpl in *.
        by rewrite s_lock_miss_locked.
      * simpl. apply s_lock_add_new.
Qed.

Lemma cstep_lock_cases c t :
  s_lock (c_sh (cstep c t)) = s_lock (c_sh c) \/
  (s_lock (c_sh c) = None /\ s_lock (c_sh (cstep c t)) = Some t /\ is_Some (c_thr c !! t)) \/
  (exists ts n, c_thr c !! t = Some ts /\ t_pc ts = PUnlock n /\ s_lock (c_sh (cstep c t)) = None).
Proof.
  unfold cstep, cstep_ann. destruct (c_thr c !! t) as [ts|] eqn:Ht; [|by left].
  destruct (t_pc ts) eqn:Hp.
  1:{ destruct (t_todo ts); by left. }
  1:{ by left. }
  all: match goal with |- context [sstep ?a ?b ?d] =>
         pose proof (sstep_lock a b d) as Hl; destruct (sstep a b d) as [[s' p'] a'] end;
       cbn [fst snd c_sh] in *;
       destruct Hl as [Hl|[[H1 H2]|(n & Hn & Hl)]];
       [by left|right; left; eauto|right; right; exists ts; try discriminate Hn; eauto].
Qed.

(* under the invariant, a point-operation step never releases or steals a mutex it does not hold *)
Lemma cstep_lock_other c g t z :
  Inv c g -> c_thr c !! z = None ->
  (s_lock (c_sh (cstep c t)) = Some z <-> s_lock (c_sh c) = Some z).
Proof.
  intros Hi Hz. destruct (cstep_lock_cases c t) as [->|[(H1 & H2 & [ts Ht])|(ts & n & Ht & Hp & H2)]].
  - done.
  - rewrite H1, H2. split; [|done]. intros [= ->]. congruence.
  - rewrite H2. pose proof (proj1 (i_lock _ _ Hi _ _ Ht)) as Hl. rewrite Hp in Hl.
    rewrite (Hl eq_refl). split; [done|]. intros [= ->]. congruence.
Qed.

Lemma cstep_lock_holder c t z :
  s_lock (c_sh (cstep c t)) = Some z ->
  s_lock (c_sh c) = Some z \/ is_Some (c_thr (cstep c t) !! z).
Proof.
  destruct (cstep_lock_cases c t) as [->|[(H1 & H2 & Ht)|(ts & n & Ht & Hp & H2)]].
  - by left.
  - rewrite H2. intros [= <-]. right. by apply cstep_thr_Some.
  - by rewrite H2.
Qed.

(* ---- the scanner's own writes to the shared state -------------------------- *)
Lemma same_core_set_lock s l : same_core s (set_lock s l).
Proof. by repeat split. Qed.

Lemma Inv_set_lock c g l :
  Inv c g ->
  (forall t ts, c_thr c !! t = Some ts -> holds_lock (t_pc ts) = false) ->
  (forall t, l = Some t -> c_thr c !! t = None) ->
  Inv (with_sh c (set_lock (c_sh c) l)) g.
Proof.
  intros Hi Hnh Hl. split; simpl.
  - eapply same_core_WF; [apply same_core_set_lock|apply (i_wf _ _ Hi)].
  - intros k. rewrite (same_core_abs _ _ _ (same_core_set_lock _ _)). apply (i_abs _ _ Hi).
  - apply (i_cur _ _ Hi).
  - intros t ts Ht. apply TI_set_lock. by apply (i_thr _ _ Hi).
  - apply (i_nothr _ _ Hi).
  - intros t ts Ht. rewrite (Hnh _ _ Ht). split; [done|]. intros Heq.
    rewrite (Hl _ Heq) in Ht. done.
Qed.

Lemma Inv_promote c g :
  Inv c g -> s_am (c_sh c) = true -> Inv (with_sh c (promote (c_sh c))) g.
Proof.
  intros Hi Ham. destruct (fresh_tid c 0%nat) as (x & _ & Hx & _).
  set (thr' := <[x := {| t_pc := PIdle; t_todo := [] |}]> (c_thr c)).
  assert (OInv x (c_sh c) thr' g) as Ho.
  { split.
    - apply (i_wf _ _ Hi).
    - apply (i_abs _ _ Hi).
    - apply (i_cur _ _ Hi).
    - intros t' ts Hne Ht. unfold thr' in Ht. rewrite lookup_insert_ne in Ht by done.
      by apply (i_thr _ _ Hi).
    - intros t' Ht. destruct (decide (t' = x)) as [->|Hne]; [by apply (i_nothr _ _ Hi)|].
      unfold thr' in Ht. rewrite lookup_insert_ne in Ht by done. by apply (i_nothr _ _ Hi).
    - intros t' ts Hne Ht. unfold thr' in Ht. rewrite lookup_insert_ne in Ht by done.
      by apply (i_lock _ _ Hi). }
  assert (is_Some (thr' !! x)) as Hsx by (unfold thr'; by rewrite lookup_insert).
  pose proof (OInv_promote x _ _ _ Ho Hsx Ham) as Ho'.
  assert (forall t ts, c_thr c !! t = Some ts -> t <> x /\ thr' !! t = Some ts) as Hthr.
  { intros t ts Ht. assert (t <> x) by congruence. split; [done|].
    unfold thr'. by rewrite lookup_insert_ne. }
  split; simpl.
  - apply (o_wf _ _ _ _ Ho').
  - apply (o_abs _ _ _ _ Ho').
  - apply (o_cur _ _ _ _ Ho').
  - intros t ts Ht. destruct (Hthr _ _ Ht) as [Hne Ht']. by apply (o_thr _ _ _ _ Ho' t ts).
  - apply (i_nothr _ _ Hi).
  - intros t ts Ht. destruct (Hthr _ _ Ht) as [Hne Ht']. by apply (o_lock _ _ _ _ Ho' t ts).
Qed.

(* an entry that was once in the read map and holds a value is the entry of its key *)
Lemma ever_live_read s ek own k e v :
  WF s ek own -> held s ek k e -> ever s e -> kload (s_cell s e) = Some v ->
  s_rd s !! k = Some e /\ abs_of s !! k = Some v.
Proof.
  intros Hwf [Hk _] [[k' Hr]|Hx] Hv; [|by rewrite Hx in Hv].
  destruct (w_rd _ _ _ Hwf _ _ Hr) as [Hk' _]. assert (k' = k) as -> by congruence.
  split; [done|]. rewrite abs_of_lookup. unfold abs_lookup. by rewrite Hr.
Qed.

(* ========================================================================= *)
(* 4. The invariant of the combined system                                    *)
(* ========================================================================= *)
Definition sc_locked (p : spc) : bool :=
  match p with ScLocked | ScUnlock _ => true | _ => false end.

(* entry e was, at some earlier moment, the entry of key k in the read map *)
Definition entry_ok (s : shared) (g : ghost) (k : key) (e : eid) : Prop :=
  held s (g_ek g) k e /\ ever s e.

Definition table_ok (s : shared) (g : ghost) (p : spc) : Prop :=
  match p with
  | ScUnlock tbl => forall k e, tbl !! k = Some e -> entry_ok s g k e
  | ScEntry todo _ => forall k e, (k, e) ∈ todo -> entry_ok s g k e
  | _ => True
  end.

Record SInv (x : sconf) (g : ghost) : Prop := {
  v_inv : Inv (sc_c x) g;
  v_hist : HInv (c_hist (sc_c x)) (g_l g);
  v_sid : c_thr (sc_c x) !! sc_sid x = None;
  v_lock : s_lock (sc_sh x) = Some (sc_sid x) <-> sc_locked (sc_pc x) = true;
  v_holder : forall z, s_lock (sc_sh x) = Some z ->
             z = sc_sid x \/ is_Some (c_thr (sc_c x) !! z);
  v_tbl : table_ok (sc_sh x) g (sc_pc x);
}.

Definition sgstep (x : sconf) (w : who) (g : ghost) : ghost :=
  match w with Th t => gstep (sc_c x) t g | Scan => g end.

Lemma elem_of_sorted_tbl (m : gmap key eid) k e : (k, e) ∈ sorted_tbl m <-> m !! k = Some e.
Proof. unfold sorted_tbl. rewrite sort_pairs_perm. apply elem_of_map_to_list. Qed.

Lemma entry_ok_set_lock s g l k e : entry_ok s g k e -> entry_ok (set_lock s l) g k e.
Proof. done. Qed.

Lemma read_entry_ok s g k e :
  WF s (g_ek g) (g_own g) -> s_rd s !! k = Some e -> entry_ok s g k e.
Proof. intros Hwf Hr. split; [by eapply w_rd|]. left. by exists k. Qed.

Lemma SInv_th x g t : SInv x g -> SInv (sstep1 x (Th t)) (gstep (sc_c x) t g).
Proof.
  intros Hv. pose proof (v_inv _ _ Hv) as Hi.
  destruct (step_all _ _ t Hi) as [Hok Hi1].
  split; simpl.
  - done.
  - rewrite hist_step.
    change (g_l (gstep (sc_c x) t g)) with (lg_step (g_l g) t (cstep_ann (sc_c x) t).2).
    apply HInv_step; [apply (v_hist _ _ Hv)|done].
  - apply cstep_thr_None, (v_sid _ _ Hv).
  - unfold sc_sh. simpl. rewrite (cstep_lock_other _ _ _ _ Hi (v_sid _ _ Hv)).
    apply (v_lock _ _ Hv).
  - unfold sc_sh. simpl. intros z Hz. destruct (cstep_lock_holder _ _ _ Hz) as [Hz'|Hz']; [|by right].
    destruct (v_holder _ _ Hv z Hz') as [->|Hs]; [by left|]. right. by apply cstep_thr_Some.
  - pose proof (v_tbl _ _ Hv) as Ht. unfold sc_sh in *. simpl.
    destruct (sc_pc x); simpl in *; try done.
    + intros k e Hke. destruct (Ht k e Hke). by apply point_step_ever.
    + intros k e Hke. destruct (Ht k e Hke). by apply point_step_ever.
Qed.

Lemma SInv_scan x g : SInv x g -> SInv (sstep1 x Scan) g.
Proof.
  intros Hv. pose proof (v_inv _ _ Hv) as Hi. pose proof (i_wf _ _ Hi) as Hwf.
  pose proof (v_hist _ _ Hv) as Hh. pose proof (v_sid _ _ Hv) as Hsid.
  pose proof (v_lock _ _ Hv) as Hlk. pose proof (v_holder _ _ Hv) as Hho.
  pose proof (v_tbl _ _ Hv) as Ht.
  destruct x as [c sid p]. unfold sc_sh in *. simpl in *.
  assert (with_sh c (c_sh c) = c) as Hc by (by destruct c).
  destruct p as [| | | |tbl|todo acc|acc]; simpl.
  - (* invocation *) rewrite Hc. by split.
  - (* load of m.read *)
    destruct (s_am (c_sh c)); simpl; rewrite Hc; split; unfold sc_sh; simpl; try done.
    intros k e Hke. apply elem_of_sorted_tbl in Hke. by apply read_entry_ok.
  - (* Lock *)
    destruct (s_lock (c_sh c)) as [l|] eqn:Hl; simpl.
    { rewrite Hc. split; unfold sc_sh; simpl; rewrite ?Hl; done. }
    assert (forall t ts, c_thr c !! t = Some ts -> holds_lock (t_pc ts) = false) as Hnh.
    { intros t ts Hts. destruct (holds_lock (t_pc ts)) eqn:Hh'; [|done].
      apply (i_lock _ _ Hi _ _ Hts) in Hh'. congruence. }
    split; unfold sc_sh; simpl; try done.
    + apply Inv_set_lock; [done|done|]. by intros t [= <-].
    + intros z [= <-]. by left.
  - (* the locked region *)
    assert (s_lock (c_sh c) = Some sid) as Hl by (by apply Hlk).
    destruct (s_am (c_sh c)) eqn:Ham; simpl.
    + pose proof (Inv_promote _ _ Hi Ham) as Hi'. split; unfold sc_sh; simpl; try done.
      intros k e Hke. apply (read_entry_ok (promote (c_sh c)) g); [apply (i_wf _ _ Hi')|done].
    + rewrite Hc. split; unfold sc_sh; simpl; try done. intros k e Hke. by apply read_entry_ok.
  - (* Unlock *)
    assert (s_lock (c_sh c) = Some sid) as Hl by (by apply Hlk).
    assert (forall t ts, c_thr c !! t = Some ts -> holds_lock (t_pc ts) = false) as Hnh.
    { intros t ts Hts. destruct (holds_lock (t_pc ts)) eqn:Hh'; [|done].
      apply (i_lock _ _ Hi _ _ Hts) in Hh'. congruence. }
    split; unfold sc_sh; simpl; try done.
    + by apply Inv_set_lock.
    + intros k e Hke. apply elem_of_sorted_tbl in Hke. by apply entry_ok_set_lock, Ht.
  - (* one entry / response *)
    destruct todo as [|[k e] rest]; simpl; rewrite Hc; split; unfold sc_sh; simpl; try done.
    intros k' e' Hke. apply Ht. by apply elem_of_list_further.
  - rewrite Hc. by split.
Qed.

Lemma SInv_step x g w : SInv x g -> SInv (sstep1 x w) (sgstep x w g).
Proof. destruct w; [apply SInv_th|apply SInv_scan]. Qed.

Lemma init_thr_None threads z :
  (length threads <= z)%nat -> c_thr (init_conf threads) !! z = None.
Proof.
  intros Hz. simpl. apply not_elem_of_list_to_map_1. intros Hin.
  apply elem_of_list_fmap in Hin as ([i ts] & -> & Hin).
  apply elem_of_lookup_imap in Hin as (j & ops & Heq & Hl). inversion Heq; subst.
  apply lookup_lt_Some in Hl. simpl in Hz. lia.
Qed.

Lemma SInv_init threads : SInv (sinit threads) g_init.
Proof.
  split; simpl.
  - apply Inv_init.
  - apply HInv_init.
  - by apply init_thr_None.
  - done.
  - done.
  - done.
Qed.

Lemma SInv_run ws : forall x g, SInv x g -> exists g', SInv (srun x ws) g'.
Proof.
  induction ws as [|w ws IH]; intros x g Hv; simpl; [by exists g|].
  eapply IH, SInv_step, Hv.
Qed.

Lemma SInv_reachable threads ws : exists g, SInv (srun (sinit threads) ws) g.
Proof. eapply SInv_run, SInv_init. Qed.

(* The scanner does not disturb the point operations: in the combined system the history of
   Load / Store / LoadAndDelete / LoadOrStore invocations and responses is still linearizable,
   whatever the scanner does in between (including its promotion of the dirty map). *)
Theorem point_ops_linearizable_with_scan threads ws :
  ValueMapConc.linearizable (history_of (sc_c (srun (sinit threads) ws))).
Proof.
  destruct (SInv_reachable threads ws) as [g Hv].
  eapply HInv_linearizable, (v_hist _ _ Hv).
Qed.

(* induction over the runs of the combined system, with the trace so far *)
Lemma trace_ind (P : list sconf -> sconf -> Prop) x0 g0 :
  SInv x0 g0 -> P [x0] x0 ->
  (forall tr x g w, SInv x g -> x ∈ tr -> P tr x -> P (tr ++ [sstep1 x w]) (sstep1 x w)) ->
  forall ws, P (strace x0 ws) (srun x0 ws).
Proof.
  intros Hv0 H0 Hstep ws.
  assert (exists g, SInv (srun x0 ws) g /\ P (strace x0 ws) (srun x0 ws)) as (g & _ & HP); [|done].
  induction ws as [|w ws IH] using rev_ind.
  - exists g0. done.
  - destruct IH as (g & Hv & HP). rewrite srun_snoc, strace_snoc.
    exists (sgstep (srun x0 ws) w g). split; [by apply SInv_step|].
    eapply Hstep; [exact Hv|apply srun_in_strace|exact HP].
Qed.

(* ========================================================================= *)
(* 5. (B ii) every visited pair was in the map during the scan                *)
(* ========================================================================= *)
Definition visited (p : spc) : list (key * val) :=
  match p with ScEntry _ acc | ScDone acc => acc | _ => [] end.

(* the scanner's next action is the atomic load of the entry cell it holds for key k *)
Definition loading (k : key) (p : spc) : Prop :=
  exists e rest acc, p = ScEntry ((k, e) :: rest) acc.

Lemma loading_active k p : loading k p -> sc_active p = true.
Proof. by intros (e & rest & acc & ->). Qed.

Definition Seen (tr : list sconf) (p : spc) : Prop :=
  forall k v, (k, v) ∈ visited p ->
    exists x, x ∈ tr /\ loading k (sc_pc x) /\ abs_of (sc_sh x) !! k = Some v.

Lemma Seen_mono tr tr' p p' : tr ⊆ tr' -> visited p' = visited p -> Seen tr p -> Seen tr' p'.
Proof.
  intros Hsub Heq Hs k v Hkv. rewrite Heq in Hkv.
  destruct (Hs k v Hkv) as (x & Hx & H). exists x. split; [by apply Hsub|done].
Qed.

Lemma Seen_step tr x g w :
  SInv x g -> x ∈ tr -> Seen tr (sc_pc x) -> Seen (tr ++ [sstep1 x w]) (sc_pc (sstep1 x w)).
Proof.
  intros Hv Hx Hs.
  assert (forall y, tr ⊆ tr ++ [y]) as Hsub by set_solver.
  destruct w as [t|].
  { simpl. by refine (Seen_mono tr _ _ _ (Hsub _) _ Hs). }
  pose proof (v_tbl _ _ Hv) as Ht. pose proof (i_wf _ _ (v_inv _ _ Hv)) as Hwf.
  destruct x as [c sid p]. unfold sc_sh in *. simpl in *.
  destruct p as [| | | |tbl|todo acc|acc]; simpl.
  - intros k v Hkv. simpl in Hkv. by apply elem_of_nil in Hkv.
  - destruct (s_am (c_sh c)); intros k v Hkv; simpl in Hkv; by apply elem_of_nil in Hkv.
  - destruct (s_lock (c_sh c)); intros k v Hkv; simpl in Hkv; by apply elem_of_nil in Hkv.
  - intros k v Hkv; simpl in Hkv; by apply elem_of_nil in Hkv.
  - intros k v Hkv; simpl in Hkv; by apply elem_of_nil in Hkv.
  - destruct todo as [|[k e] rest]; simpl.
    { by refine (Seen_mono tr _ _ _ (Hsub _) _ Hs). }
    destruct (kload (s_cell (c_sh c) e)) as [v|] eqn:Hload; [|by refine (Seen_mono tr _ _ _ (Hsub _) _ Hs)].
    intros k' v' Hkv. simpl in Hkv. apply elem_of_app in Hkv as [Hkv|Hkv].
    + destruct (Hs k' v' Hkv) as (y & Hy & H). exists y. split; [by apply Hsub|done].
    + apply elem_of_list_singleton in Hkv. inversion Hkv; subst k' v'.
      exists {| sc_c := c; sc_sid := sid; sc_pc := ScEntry ((k, e) :: rest) acc |}.
      split; [by apply Hsub|]. split; [by exists e, rest, acc|].
      destruct (Ht k e) as [Hh He]; [apply elem_of_list_here|].
      unfold sc_sh. simpl. by destruct (ever_live_read _ _ _ _ _ _ Hwf Hh He Hload).
  - by refine (Seen_mono tr _ _ _ (Hsub _) _ Hs).
Qed.

Lemma Seen_run x0 g0 ws :
  SInv x0 g0 -> visited (sc_pc x0) = [] -> Seen (strace x0 ws) (sc_pc (srun x0 ws)).
Proof.
  intros Hv0 H0. apply (trace_ind (fun tr x => Seen tr (sc_pc x)) x0 g0); [done| |].
  - intros k v Hkv. rewrite H0 in Hkv. by apply elem_of_nil in Hkv.
  - intros tr x g w. apply Seen_step.
Qed.

(* (B ii) For every schedule: each pair (k, v) reported by Range was the binding of k in the
   abstract map at an instant strictly between the invocation and the response of the scan —
   namely the instant at which the scanner loaded the cell of k's entry. *)
Theorem range_visited_was_present threads ws res k v :
  range_result (srun (sinit threads) ws) = Some res -> (k, v) ∈ res ->
  exists x, x ∈ strace (sinit threads) ws /\ sc_active (sc_pc x) = true /\
            loading k (sc_pc x) /\ abs_of (sc_sh x) !! k = Some v.
Proof.
  intros Hres Hkv.
  pose proof (Seen_run (sinit threads) g_init ws (SInv_init threads) eq_refl) as Hs.
  unfold range_result in Hres. destruct (sc_pc (srun (sinit threads) ws)) eqn:Hp; try done.
  inversion Hres; subst acc. destruct (Hs k v Hkv) as (x & Hx & Hl & Ha).
  exists x. split; [done|]. split; [by eapply loading_active|done].
Qed.

(* ========================================================================= *)
(* 6. (B i) every key is visited at most once, in increasing key order        *)
(* ========================================================================= *)
Definition keys_sorted (p : spc) : Prop :=
  match p with
  | ScEntry todo acc => StronglySorted N.lt (acc.*1 ++ todo.*1)
  | ScDone acc => StronglySorted N.lt (acc.*1)
  | _ => True
  end.

Lemma key_lt_fst (l : list (key * val)) : StronglySorted key_lt l <-> StronglySorted N.lt (l.*1).
Proof.
  induction l as [|p l IH]; simpl.
  { split; constructor. }
  split; intros Hs; apply StronglySorted_inv in Hs as [Hs Hall]; constructor; try (by apply IH).
  - rewrite Forall_fmap. eapply Forall_impl; [exact Hall|]. done.
  - rewrite Forall_fmap in Hall. eapply Forall_impl; [exact Hall|]. done.
Qed.

Lemma sorted_tbl_sorted m : StronglySorted N.lt ((sorted_tbl m).*1).
Proof. apply key_lt_fst, sort_pairs_sorted, NoDup_fst_map_to_list. Qed.

Lemma StronglySorted_remove_middle {A} (R : relation A) l1 a l2 :
  StronglySorted R (l1 ++ a :: l2) -> StronglySorted R (l1 ++ l2).
Proof.
  induction l1 as [|b l1 IH]; simpl; intros Hs; apply StronglySorted_inv in Hs as [Hs Hall].
  - done.
  - constructor; [by apply IH|]. apply Forall_app in Hall as [H1 H2].
    apply Forall_cons in H2 as [_ H2]. by apply Forall_app.
Qed.

Lemma keys_sorted_step x w : keys_sorted (sc_pc x) -> keys_sorted (sc_pc (sstep1 x w)).
Proof.
  destruct w as [t|]; [done|]. destruct x as [c sid p]. simpl.
  destruct p as [| | | |tbl|todo acc|acc]; simpl; try done.
  - destruct (s_am (c_sh c)); simpl; [done|]. intros _. apply sorted_tbl_sorted.
  - by destruct (s_lock (c_sh c)).
  - intros _. apply sorted_tbl_sorted.
  - destruct todo as [|[k e] rest]; simpl.
    { by rewrite app_nil_r. }
    destruct (kload (s_cell (c_sh c) e)); simpl.
    + by rewrite fmap_app, <-app_assoc.
    + apply StronglySorted_remove_middle.
Qed.

Lemma keys_sorted_run ws : forall x, keys_sorted (sc_pc x) -> keys_sorted (sc_pc (srun x ws)).
Proof.
  induction ws as [|w ws IH]; intros x Hk; simpl; [done|]. by apply IH, keys_sorted_step.
Qed.

Lemma StronglySorted_lt_NoDup (l : list N) : StronglySorted N.lt l -> NoDup l.
Proof.
  induction l as [|a l IH]; intros Hs; [constructor|].
  apply StronglySorted_inv in Hs as [Hs Hall]. constructor; [|by apply IH].
  intros Hin. rewrite Forall_forall in Hall. specialize (Hall _ Hin). lia.
Qed.

(* (B i) For every schedule: the keys reported by Range are strictly increasing; in particular
   every key is visited at most once. *)
Theorem range_keys_increasing threads ws res :
  range_result (srun (sinit threads) ws) = Some res ->
  StronglySorted key_lt res /\ NoDup (res.*1).
Proof.
  intros Hres. pose proof (keys_sorted_run ws (sinit threads) I) as Hk.
  unfold range_result in Hres. destruct (sc_pc (srun (sinit threads) ws)) eqn:Hp; try done.
  inversion Hres; subst acc. simpl in Hk. split; [by apply key_lt_fst|by apply StronglySorted_lt_NoDup].
Qed.

(* ========================================================================= *)
(* 7. (B iv) a quiescent scan returns exactly the contents of the map         *)
(* ========================================================================= *)
Definition load_pair (s : shared) (ke : key * eid) : option (key * val) :=
  match kload (s_cell s ke.2) with Some v => Some (ke.1, v) | None => None end.

Lemma srun_scan_S x n : srun x (repeat Scan (S n)) = srun (sstep1 x Scan) (repeat Scan n).
Proof. done. Qed.

Lemma scan_done n : forall x acc,
  sc_pc x = ScDone acc ->
  sc_pc (srun x (repeat Scan n)) = ScDone acc /\ sc_sh (srun x (repeat Scan n)) = sc_sh x.
Proof.
  induction n as [|n IH]; intros x acc Hp; [done|].
  rewrite srun_scan_S. destruct x as [c sid p]. simpl in Hp. subst p.
  destruct (IH (sstep1 {| sc_c := c; sc_sid := sid; sc_pc := ScDone acc |} Scan) acc eq_refl)
    as [H1 H2].
  by rewrite H1, H2.
Qed.

(* the per-entry loop, run without interference *)
Lemma scan_entries n : forall x todo acc res,
  sc_pc x = ScEntry todo acc ->
  range_result (srun x (repeat Scan n)) = Some res ->
  res = acc ++ omap (load_pair (sc_sh x)) todo /\ sc_sh (srun x (repeat Scan n)) = sc_sh x.
Proof.
  induction n as [|n IH]; intros x todo acc res Hp Hres.
  { unfold range_result in Hres. simpl in Hres. by rewrite Hp in Hres. }
  rewrite srun_scan_S in *. destruct x as [c sid p]. simpl in Hp. subst p.
  destruct todo as [|[k e] rest].
  - destruct (scan_done n (sstep1 {| sc_c := c; sc_sid := sid; sc_pc := ScEntry [] acc |} Scan)
                acc eq_refl) as [H1 H2].
    unfold range_result in Hres. rewrite H1 in Hres. inversion Hres; subst res.
    rewrite H2. simpl. by rewrite app_nil_r.
  - destruct (IH (sstep1 {| sc_c := c; sc_sid := sid; sc_pc := ScEntry ((k, e) :: rest) acc |} Scan)
                rest
                (match kload (s_cell (c_sh c) e) with Some v => acc ++ [(k, v)] | None => acc end)
                res eq_refl Hres) as [H1 H2].
    split; [|exact H2]. rewrite H1. unfold sc_sh. simpl. unfold load_pair at 2. simpl.
    destruct (kload (s_cell (c_sh c) e)); simpl; [by rewrite <-app_assoc|done].
Qed.

Lemma scan_entries_rec n c sid todo acc res :
  range_result (srun {| sc_c := c; sc_sid := sid; sc_pc := ScEntry todo acc |} (repeat Scan n))
    = Some res ->
  res = acc ++ omap (load_pair (c_sh c)) todo /\
  sc_sh (srun {| sc_c := c; sc_sid := sid; sc_pc := ScEntry todo acc |} (repeat Scan n)) = c_sh c.
Proof.
  intros Hres.
  by apply (scan_entries n {| sc_c := c; sc_sid := sid; sc_pc := ScEntry todo acc |} todo acc res eq_refl) in Hres.
Qed.

Lemma omap_fst_sorted (f : key * eid -> option (key * val)) l :
  (forall a b, f a = Some b -> b.1 = a.1) ->
  StronglySorted key_lt l -> StronglySorted key_lt (omap f l).
Proof.
  intros Hf. induction l as [|a l IH]; intros Hs; simpl; [constructor|].
  apply StronglySorted_inv in Hs as [Hs Hall]. destruct (f a) as [b|] eqn:Hfa; [|by apply IH].
  constructor; [by apply IH|]. rewrite Forall_forall. intros b' Hb'.
  apply elem_of_list_omap in Hb' as (a' & Ha' & Hfa').
  rewrite Forall_forall in Hall. specialize (Hall _ Ha'). unfold key_lt in *.
  rewrite (Hf _ _ Hfa), (Hf _ _ Hfa'). done.
Qed.

(* scanning the sorted read map of a non-amended state yields the sorted abstract contents *)
Lemma scan_table_exact s :
  s_am s = false ->
  omap (load_pair s) (sorted_tbl (s_rd s)) = sort_pairs (map_to_list (abs_of s)).
Proof.
  intros Ham. apply (StronglySorted_unique key_lt).
  - apply omap_fst_sorted.
    + intros [k e] b. unfold load_pair. simpl. destruct (kload _); [|done]. by intros [= <-].
    + apply sort_pairs_sorted, NoDup_fst_map_to_list.
  - apply sort_pairs_sorted, NoDup_fst_map_to_list.
  - unfold sorted_tbl. rewrite !sort_pairs_perm. unfold abs_of. rewrite Ham.
    rewrite (right_id_L ∅ (∪)). rewrite map_to_list_omap_perm. done.
Qed.

Lemma quiescent_lock_free x g :
  SInv x g -> quiescent (sc_c x) -> sc_locked (sc_pc x) = false -> s_lock (sc_sh x) = None.
Proof.
  intros Hv Hq Hl. destruct (s_lock (sc_sh x)) as [z|] eqn:Hz; [|done]. exfalso.
  destruct (v_holder _ _ Hv z Hz) as [->|[ts Hts]].
  - apply (v_lock _ _ Hv) in Hz. congruence.
  - pose proof (i_lock _ _ (v_inv _ _ Hv) _ _ Hts) as Hi. rewrite (Hq _ _ Hts) in Hi.
    simpl in Hi. by apply Hi in Hz.
Qed.

(* (B iv) Once quiescent — no point operation in progress (every thread idle) when the scan is
   invoked, and only the scanner runs until it returns — Range returns exactly the abstract
   contents of the map, sorted by key, i.e. the answer of the sequential specification; the
   scan (including its promotion of the dirty map) leaves the abstract contents unchanged. *)
Theorem range_quiescent_exact_from x g n res :
  SInv x g -> sc_pc x = ScIdle -> quiescent (sc_c x) ->
  range_result (srun x (repeat Scan n)) = Some res ->
  res = sort_pairs (map_to_list (abs_of (sc_sh x))) /\
  abs_of (sc_sh (srun x (repeat Scan n))) = abs_of (sc_sh x).
Proof.
  intros Hv Hp Hq Hres.
  assert (forall y, range_result y = Some res -> sc_pc y = ScDone res) as Hna.
  { intros y. unfold range_result. destruct (sc_pc y); try done. by intros [= ->]. }
  (* invocation *)
  destruct n as [|n]; [apply Hna in Hres; simpl in Hres; congruence|].
  rewrite srun_scan_S in *. pose proof (SInv_scan _ _ Hv) as Hv1.
  destruct x as [c sid p]. simpl in Hp, Hq. subst p.
  change (sc_sh {| sc_c := c; sc_sid := sid; sc_pc := ScIdle |}) with (c_sh c).
  set (x1 := sstep1 _ Scan) in *.
  assert (x1 = {| sc_c := c; sc_sid := sid; sc_pc := ScLoadRead |}) as Hx1.
  { unfold x1. simpl. by destruct c. }
  clearbody x1. subst x1.
  (* load of m.read *)
  destruct n as [|n]; [by apply Hna in Hres|].
  rewrite srun_scan_S in *. pose proof (SInv_scan _ _ Hv1) as Hv2.
  set (x2 := sstep1 _ Scan) in *.
  destruct (s_am (c_sh c)) eqn:Ham.
  2:{ assert (x2 = {| sc_c := c; sc_sid := sid; sc_pc := ScEntry (sorted_tbl (s_rd (c_sh c))) [] |})
        as Hx2.
      { unfold x2. simpl. rewrite Ham. by destruct c. }
      clearbody x2. subst x2.
      destruct (scan_entries_rec n _ _ _ _ res Hres) as [-> Hsh].
      rewrite Hsh. unfold sc_sh. simpl. split; [|done]. by apply scan_table_exact. }
  assert (x2 = {| sc_c := c; sc_sid := sid; sc_pc := ScLock |}) as Hx2.
  { unfold x2. simpl. rewrite Ham. by destruct c. }
  clearbody x2. subst x2.
  (* Lock: the mutex is free *)
  destruct n as [|n]; [by apply Hna in Hres|].
  rewrite srun_scan_S in *. pose proof (SInv_scan _ _ Hv2) as Hv3.
  pose proof (quiescent_lock_free _ _ Hv2 Hq eq_refl) as Hfree. unfold sc_sh in Hfree. simpl in Hfree.
  set (x3 := sstep1 _ Scan) in *.
  set (s3 := set_lock (c_sh c) (Some sid)).
  assert (x3 = {| sc_c := with_sh c s3; sc_sid := sid; sc_pc := ScLocked |}) as Hx3.
  { unfold x3. simpl. by rewrite Hfree. }
  clearbody x3. subst x3.
  (* the locked region: promotion *)
  destruct n as [|n]; [by apply Hna in Hres|].
  rewrite srun_scan_S in *. pose proof (SInv_scan _ _ Hv3) as Hv4.
  set (x4 := sstep1 _ Scan) in *.
  set (s4 := promote s3).
  assert (x4 = {| sc_c := with_sh c s4; sc_sid := sid; sc_pc := ScUnlock (s_rd s4) |}) as Hx4.
  { unfold x4. simpl. by rewrite Ham. }
  clearbody x4. subst x4.
  (* Unlock *)
  destruct n as [|n]; [by apply Hna in Hres|].
  rewrite srun_scan_S in *. pose proof (SInv_scan _ _ Hv4) as Hv5.
  set (x5 := sstep1 _ Scan) in *.
  set (s5 := set_lock s4 None).
  assert (x5 = {| sc_c := with_sh c s5; sc_sid := sid; sc_pc := ScEntry (sorted_tbl (s_rd s5)) [] |})
    as Hx5.
  { unfold x5. done. }
  clearbody x5. subst x5.
  destruct (scan_entries_rec n _ _ _ _ res Hres) as [-> Hsh].
  rewrite Hsh. unfold sc_sh. simpl c_sh.
  assert (abs_of s5 = abs_of (c_sh c)) as Habs.
  { pose proof (abs_of_lin _ _ (v_inv _ _ Hv)) as E1. pose proof (abs_of_lin _ _ (v_inv _ _ Hv5)) as E2.
    simpl in E1, E2. congruence. }
  rewrite <-Habs. split; [|done]. by apply scan_table_exact.
Qed.

(* run alone from a quiescent state the scan does return (the theorems above are not vacuous) *)
Lemma scan_entries_terminate todo : forall c sid acc,
  exists res, range_result (srun {| sc_c := c; sc_sid := sid; sc_pc := ScEntry todo acc |}
                                 (repeat Scan (S (length todo)))) = Some res.
Proof.
  induction todo as [|[k e] rest IH]; intros c sid acc.
  - by exists acc.
  - simpl length. rewrite srun_scan_S. apply IH.
Qed.

Theorem range_quiescent_terminates x g :
  SInv x g -> sc_pc x = ScIdle -> quiescent (sc_c x) ->
  exists n res, range_result (srun x (repeat Scan n)) = Some res.
Proof.
  intros Hv Hp Hq. pose proof (SInv_scan _ _ Hv) as Hv1. pose proof (SInv_scan _ _ Hv1) as Hv2.
  destruct x as [c sid p]. simpl in Hp, Hq. subst p.
  assert (with_sh c (c_sh c) = c) as Hc by (by destruct c).
  destruct (s_am (c_sh c)) eqn:Ham.
  2:{ destruct (scan_entries_terminate (sorted_tbl (s_rd (c_sh c))) c sid []) as [res Hres].
      exists (S (S (S (length (sorted_tbl (s_rd (c_sh c))))))), res.
      do 2 rewrite srun_scan_S.
      assert (sstep1 (sstep1 {| sc_c := c; sc_sid := sid; sc_pc := ScIdle |} Scan) Scan
              = {| sc_c := c; sc_sid := sid; sc_pc := ScEntry (sorted_tbl (s_rd (c_sh c))) [] |}) as ->.
      { simpl. rewrite Ham. by destruct c. }
      exact Hres. }
  assert (sstep1 (sstep1 {| sc_c := c; sc_sid := sid; sc_pc := ScIdle |} Scan) Scan
          = {| sc_c := c; sc_sid := sid; sc_pc := ScLock |}) as Hx2.
  { simpl. rewrite Ham. by destruct c. }
  rewrite Hx2 in Hv2.
  pose proof (quiescent_lock_free _ _ Hv2 Hq eq_refl) as Hfree. unfold sc_sh in Hfree. simpl in Hfree.
  set (s5 := set_lock (promote (set_lock (c_sh c) (Some sid))) None).
  destruct (scan_entries_terminate (sorted_tbl (s_rd s5)) (with_sh c s5) sid []) as [res Hres].
  exists (5 + S (length (sorted_tbl (s_rd s5))))%nat, res.
  change (5 + S (length (sorted_tbl (s_rd s5))))%nat
    with (S (S (S (S (S (S (length (sorted_tbl (s_rd s5))))))))).
  do 2 rewrite srun_scan_S. rewrite Hx2. do 3 rewrite srun_scan_S.
  assert (sstep1 (sstep1 (sstep1 {| sc_c := c; sc_sid := sid; sc_pc := ScLock |} Scan) Scan) Scan
          = {| sc_c := with_sh c s5; sc_sid := sid; sc_pc := ScEntry (sorted_tbl (s_rd s5)) [] |}) as ->.
  { simpl. rewrite Hfree. simpl. rewrite Ham. done. }
  exact Hres.
Qed.

Theorem range_quiescent_exact threads pre n res :
  let x := srun (sinit threads) pre in
  sc_pc x = ScIdle -> quiescent (sc_c x) ->
  range_result (srun x (repeat Scan n)) = Some res ->
  res = sort_pairs (map_to_list (abs_of (sc_sh x))) /\
  RPairs res = (spec_step (abs_of (sc_sh x)) ORange).2 /\
  abs_of (sc_sh (srun x (repeat Scan n))) = abs_of (sc_sh x).
Proof.
  intros x Hp Hq Hres. destruct (SInv_reachable threads pre) as [g Hv]. fold x in Hv.
  destruct (range_quiescent_exact_from x g n res Hv Hp Hq Hres) as [-> Habs]. done.
Qed.

(* ... and these contents are those of a sequential execution of the point operations:
   abs_of is the state reached by replaying a linearization of the recorded history (marks
   between invocation and response, Model/ValueMapConc.v); in a quiescent state no operation is
   pending in that linearization, so it is a sequential order of exactly the completed ones. *)
Theorem abs_of_is_linearized_contents threads ws :
  let x := srun (sinit threads) ws in
  exists l st, erase l = history_of (sc_c x) /\
               replay (∅, ∅) l = Some (abs_of (sc_sh x), st) /\
               (quiescent (sc_c x) -> st = ∅).
Proof.
  intros x. destruct (SInv_reachable threads ws) as [g Hv]. fold x in Hv.
  pose proof (v_inv _ _ Hv) as Hi.
  destruct (v_hist _ _ Hv) as (l & He & Hr & _). exists l, (stat (g_l g)).
  split; [done|]. split; [by rewrite Hr, (abs_of_lin _ _ Hi)|].
  intros Hq. unfold stat. apply map_eq. intros t. rewrite lookup_fmap, lookup_empty.
  change (g_th (g_l g) !! t) with (status g t).
  destruct (c_thr (sc_c x) !! t) as [ts|] eqn:Ht.
  - pose proof (i_thr _ _ Hi _ _ Ht) as Hti. rewrite (Hq _ _ Ht) in Hti. simpl in Hti. by rewrite Hti.
  - by rewrite (i_nothr _ _ Hi _ Ht).
Qed.

(* ========================================================================= *)
(* 8. (B iii) a key that is live during the whole scan is visited             *)
(* ========================================================================= *)
Definition Live (k : key) (tr : list sconf) : Prop :=
  forall x, x ∈ tr -> sc_active (sc_pc x) = true -> is_Some (abs_of (sc_sh x) !! k).

Definition tracked (k : key) (s : shared) (p : spc) : Prop :=
  match p with
  | ScUnlock tbl => exists e, tbl !! k = Some e /\ current s k e
  | ScEntry todo acc => k ∈ acc.*1 \/ exists e, (k, e) ∈ todo /\ current s k e
  | ScDone acc => k ∈ acc.*1
  | _ => True
  end.

Lemma live_read s k : s_am s = false -> is_Some (abs_of s !! k) -> is_Some (s_rd s !! k).
Proof.
  intros Ham. rewrite abs_of_lookup. unfold abs_lookup. rewrite Ham.
  destruct (s_rd s !! k); [done|]. by intros [? ?].
Qed.

Lemma tracked_step k tr x g w :
  SInv x g -> x ∈ tr ->
  (Live k tr -> tracked k (sc_sh x) (sc_pc x)) ->
  Live k (tr ++ [sstep1 x w]) -> tracked k (sc_sh (sstep1 x w)) (sc_pc (sstep1 x w)).
Proof.
  intros Hv Hx IH Hlive.
  assert (Live k tr) as Hl0.
  { intros y Hy. apply Hlive. set_solver. }
  specialize (IH Hl0).
  assert (sc_active (sc_pc x) = true -> is_Some (abs_of (sc_sh x) !! k)) as Hnow by (by apply Hl0).
  assert (sc_active (sc_pc (sstep1 x w)) = true -> is_Some (abs_of (sc_sh (sstep1 x w)) !! k)) as Hnext.
  { apply Hlive. set_solver. }
  pose proof (v_inv _ _ Hv) as Hi. pose proof (i_wf _ _ Hi) as Hwf.
  destruct w as [t|].
  { (* a point-operation step *)
    unfold sc_sh in *. simpl in *.
    destruct (sc_pc x) eqn:Hp; simpl in *; try done.
    - destruct IH as (e & He & Hc). exists e. split; [done|].
      eapply point_step_current; eauto.
    - destruct IH as [Hin|(e & He & Hc)]; [by left|]. right. exists e. split; [done|].
      eapply point_step_current; eauto. }
  destruct x as [c sid p]. unfold sc_sh in *. simpl in *.
  assert (with_sh c (c_sh c) = c) as Hc by (by destruct c).
  destruct p as [| | | |tbl|todo acc|acc]; simpl in *.
  - done.
  - destruct (s_am (c_sh c)) eqn:Ham; simpl in *; [done|]. right.
    destruct (live_read _ _ Ham (Hnext eq_refl)) as [e He]. exists e.
    split; [by apply elem_of_sorted_tbl|by left].
  - by destruct (s_lock (c_sh c)).
  - set (s' := if s_am (c_sh c) then promote (c_sh c) else c_sh c) in *.
    assert (s_am s' = false) as Ham'.
    { unfold s'. by destruct (s_am (c_sh c)) eqn:E. }
    destruct (live_read _ _ Ham' (Hnext eq_refl)) as [e He]. exists e. split; [done|by left].
  - destruct IH as (e & He & Hcur). right. exists e. split; [by apply elem_of_sorted_tbl|].
    by apply (same_core_current _ _ _ _ (same_core_set_lock _ _)).
  - destruct todo as [|[k' e'] rest]; simpl in *.
    { destruct IH as [Hin|(e & He & _)]; [done|]. by apply elem_of_nil in He. }
    destruct IH as [Hin|(e & He & Hcur)].
    { left. destruct (kload _); [|done]. rewrite fmap_app. set_solver. }
    apply elem_of_cons in He as [[= <- <-]|He].
    + left. specialize (Hnow eq_refl). rewrite abs_of_lookup in Hnow.
      rewrite (abs_lookup_current _ _ _ _ _ Hwf Hcur) in Hnow. destruct Hnow as [v Hv'].
      rewrite Hv'. rewrite fmap_app. set_solver.
    + right. exists e. done.
  - done.
Qed.

Lemma tracked_run k x0 g0 ws :
  SInv x0 g0 -> sc_pc x0 = ScIdle ->
  Live k (strace x0 ws) -> tracked k (sc_sh (srun x0 ws)) (sc_pc (srun x0 ws)).
Proof.
  intros Hv0 H0.
  apply (trace_ind (fun tr x => Live k tr -> tracked k (sc_sh x) (sc_pc x)) x0 g0); [done| |].
  - rewrite H0. done.
  - intros tr x g w. apply tracked_step.
Qed.

(* (B iii) For every schedule: a key that is in the abstract map at every instant strictly
   between the invocation and the response of the scan is visited (exactly once by (B i), and
   with the value it had when its cell was loaded by (B ii)).  This covers in particular a key
   that is live with an unchanged entry during the whole scan — no hypothesis about the table
   is needed: such a key is always in the table the scanner takes. *)
Theorem range_live_key_visited threads ws res k :
  range_result (srun (sinit threads) ws) = Some res ->
  (forall x, x ∈ strace (sinit threads) ws -> sc_active (sc_pc x) = true ->
             is_Some (abs_of (sc_sh x) !! k)) ->
  k ∈ res.*1.
Proof.
  intros Hres Hlive.
  pose proof (tracked_run k (sinit threads) g_init ws (SInv_init threads) eq_refl Hlive) as Ht.
  unfold range_result in Hres. destruct (sc_pc (srun (sinit threads) ws)) eqn:Hp; try done.
  inversion Hres; subst acc. exact Ht.
Qed.

(* ========================================================================= *)
(* 9. (C) Length                                                              *)
(* ========================================================================= *)
(* Length performs the same scan and returns the number of entries whose cell held a value
   at the moment it was loaded: by definition, the length of the list Range would report. *)
Lemma length_result_spec x n :
  length_result x = Some n <-> exists res, range_result x = Some res /\ n = length res.
Proof.
  unfold length_result. destruct (range_result x) as [res|]; simpl.
  - split; [intros [= <-]; by exists res|]. by intros (res' & [= <-] & ->).
  - split; [done|]. by intros (? & ? & _).
Qed.

(* the table the scanner iterates over *)
Definition counted (p : spc) : option nat :=
  match p with
  | ScEntry todo acc => Some (length acc + length todo)%nat
  | ScDone acc => Some (length acc)
  | _ => None
  end.
Definition Tbl (tr : list sconf) (p : spc) : Prop :=
  forall m, counted p = Some m ->
    exists y todo0, y ∈ tr /\ sc_pc y = ScEntry todo0 [] /\ (m <= length todo0)%nat.

Lemma Tbl_step tr x w :
  x ∈ tr -> Tbl tr (sc_pc x) -> Tbl (tr ++ [sstep1 x w]) (sc_pc (sstep1 x w)).
Proof.
  intros Hx Ht.
  assert (forall p, (forall m, counted p = Some m -> exists m', counted (sc_pc x) = Some m' /\ (m <= m')%nat) ->
            Tbl (tr ++ [sstep1 x w]) p) as Hmono.
  { intros p Hp m Hm. destruct (Hp m Hm) as (m' & Hm' & Hle).
    destruct (Ht m' Hm') as (y & todo0 & Hy & Hpy & Hl). exists y, todo0.
    split; [set_solver|]. split; [done|lia]. }
  assert (forall todo0, sc_pc (sstep1 x w) = ScEntry todo0 [] ->
            Tbl (tr ++ [sstep1 x w]) (ScEntry todo0 [])) as Hnew.
  { intros todo0 Hp m [= <-]. exists (sstep1 x w), todo0. split; [set_solver|]. split; [done|simpl; lia]. }
  destruct w as [t|].
  { apply Hmono. intros m Hm. exists m. split; [done|lia]. }
  destruct x as [c sid p]. simpl in *.
  destruct p as [| | | |tbl|todo acc|acc]; simpl in *.
  - by intros m.
  - destruct (s_am (c_sh c)) eqn:Ham; simpl; [by intros m|]. by apply Hnew.
  - destruct (s_lock (c_sh c)); by intros m.
  - by intros m.
  - by apply Hnew.
  - destruct todo as [|[k e] rest]; simpl; apply Hmono; simpl.
    + intros m [= <-]. eexists. split; [done|lia].
    + intros m. destruct (kload _); intros [= <-]; eexists; (split; [done|]);
        rewrite ?app_length; simpl; lia.
  - apply Hmono. intros m Hm. exists m. split; [done|lia].
Qed.

Lemma Tbl_run x0 g0 ws :
  SInv x0 g0 -> counted (sc_pc x0) = None -> Tbl (strace x0 ws) (sc_pc (srun x0 ws)).
Proof.
  intros Hv0 H0. apply (trace_ind (fun tr x => Tbl tr (sc_pc x)) x0 g0); [done| |].
  - intros m Hm. congruence.
  - intros tr x g w _. apply Tbl_step.
Qed.

(* (C) For every schedule, Length() = n where, for the list res of pairs a Range with the same
   memory actions reports:  n = |res|;  the keys of res are distinct and each was in the map,
   with that value, at the instant its cell was loaded (so n <= number of keys that were live
   at some instant of the scan);  n <= number of keys of the table the scanner took;  and every
   key that is live during the whole scan is counted. *)
Theorem length_contract threads ws n :
  length_result (srun (sinit threads) ws) = Some n ->
  exists res,
    n = length res /\ NoDup (res.*1) /\
    (forall k v, (k, v) ∈ res ->
       exists x, x ∈ strace (sinit threads) ws /\ sc_active (sc_pc x) = true /\
                 loading k (sc_pc x) /\ abs_of (sc_sh x) !! k = Some v) /\
    (exists y todo0, y ∈ strace (sinit threads) ws /\ sc_pc y = ScEntry todo0 [] /\
                     (n <= length todo0)%nat) /\
    (forall ks, NoDup ks ->
       (forall k, k ∈ ks -> forall x, x ∈ strace (sinit threads) ws ->
                  sc_active (sc_pc x) = true -> is_Some (abs_of (sc_sh x) !! k)) ->
       (length ks <= n)%nat).
Proof.
  intros Hn. apply length_result_spec in Hn as (res & Hres & ->). exists res.
  split; [done|]. split; [by eapply range_keys_increasing|].
  split; [intros k v; by eapply range_visited_was_present|]. split.
  - pose proof (Tbl_run (sinit threads) g_init ws (SInv_init threads) eq_refl) as Ht.
    unfold range_result in Hres. destruct (sc_pc (srun (sinit threads) ws)) eqn:Hp; try done.
    inversion Hres; subst acc. by apply Ht.
  - intros ks Hnd Hlive. rewrite <-(fmap_length fst res). apply submseteq_length.
    apply NoDup_submseteq; [done|]. intros k Hk.
    eapply range_live_key_visited; [done|]. by apply Hlive.
Qed.

(* quiescent: Length is the exact size, the answer of the sequential specification *)
Theorem length_quiescent_exact threads pre n m :
  let x := srun (sinit threads) pre in
  sc_pc x = ScIdle -> quiescent (sc_c x) ->
  length_result (srun x (repeat Scan n)) = Some m ->
  m = size (abs_of (sc_sh x)) /\ RLen m = (spec_step (abs_of (sc_sh x)) OLength).2.
Proof.
  intros x Hp Hq Hm. apply length_result_spec in Hm as (res & Hres & ->).
  destruct (range_quiescent_exact threads pre n res Hp Hq Hres) as (-> & _ & _). fold x.
  assert (length (sort_pairs (map_to_list (abs_of (sc_sh x)))) = size (abs_of (sc_sh x))) as ->; [|done].
  by rewrite sort_pairs_perm.
Qed.

(* ========================================================================= *)
(* 10. Sanity checks of the statements on small runs (computed)               *)
(* ========================================================================= *)
(* quiescent scan after all operations of demo_threads: exactly the contents *)
Definition quiet_sched : list who := repeat (Th 0) 6 ++ repeat (Th 1) 14.

Example quiet_is_quiescent :
  let x := srun (sinit demo_threads) quiet_sched in
  sc_pc x = ScIdle /\
  map (fun ts => t_pc ts.2) (map_to_list (c_thr (sc_c x))) = [PIdle; PIdle] /\
  contents x = [(2, 3)] /\
  range_result (srun x (repeat Scan 8)) = Some [(2, 3)] /\
  length_result (srun x (repeat Scan 8)) = Some 1%nat.
Proof. vm_compute. repeat split; reflexivity. Qed.

(* the same scan started while thread 0 has stored key 1 (amended state: lock + promotion),
   run alone: returns the contents, and the mutex is released *)
Example quiet_promoting :
  let x := srun (sinit demo_threads) (repeat (Th 0) 6) in
  s_am (sc_sh x) = true /\
  range_result (srun x (repeat Scan 7)) = Some [(1, 1)] /\
  s_lock (sc_sh (srun x (repeat Scan 7))) = None /\
  s_am (sc_sh (srun x (repeat Scan 7))) = false.
Proof. vm_compute. repeat split; reflexivity. Qed.

(* the scanner waits for the mutex while a point operation holds it *)
Example scan_blocks_on_mutex :
  let x := srun (sinit demo_threads) (repeat (Th 0) 6 ++ repeat (Th 1) 3 ++ repeat Scan 9) in
  s_lock (sc_sh x) = Some 1%nat /\ sc_pc x = ScLock.
Proof. vm_compute. split; reflexivity. Qed.

(* a scan overlapping Store(2,3) may or may not see key 2 — both answers are within the contract *)
Example overlap_sees_new_key :
  range_result (srun (sinit demo_threads)
     (repeat (Th 0) 6 ++ repeat (Th 1) 4 ++ repeat Scan 2 ++ repeat (Th 1) 2 ++ repeat Scan 8))
  = Some [(1, 1); (2, 3)].
Proof. vm_compute. reflexivity. Qed.
Example overlap_misses_new_key :
  range_result (srun (sinit demo_threads)
     (repeat (Th 0) 6 ++ repeat Scan 5 ++ repeat (Th 1) 6 ++ repeat Scan 8))
  = Some [(1, 1)].
Proof. vm_compute. reflexivity. Qed.

Print Assumptions range_not_atomic_snapshot.
Print Assumptions range_visited_was_present.
Print Assumptions range_quiescent_exact.
Print Assumptions range_quiescent_terminates.
Print Assumptions abs_of_is_linearized_contents.
Print Assumptions range_keys_increasing.
Print Assumptions range_live_key_visited.
Print Assumptions length_contract.
Print Assumptions length_quiescent_exact.
Print Assumptions point_ops_linearizable_with_scan.
