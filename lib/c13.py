"""C13 — string literals and templates reproduce text exactly."""
import json
import os
import time

import common
from common import Broken

LEVEL = "proof"

HEADER = ("From Coq Require Import NArith ZArith List Bool.\n"
          "From DS Require Import Model.Str Model.StrLit Corr.Corr13.\n"
          "Import ListNotations.\nOpen Scope N_scope.\nSet Printing Width 1000000. Set Printing Depth 10000000.\n")

COQ_FILES = ["Model/StrLit.v", "Proofs/StrLitProofs.v", "Corr/Corr13.v"]
DELIMS = [b"'", b'"', b"`", b"\x1e"]
NEST_LIMIT = 20
NEST_MSG = "字符串模板嵌套层数过多"
T_STRING = 2
# the escapes of the language (roll.peg rule strEscape; docs/GUIDE.md does not list them) — the
# property-level expectation of the probes, written down here independently of the Coq table
DOCUMENTED = {ord("n"): 10, ord("r"): 13, ord("f"): 12, ord("t"): 9, 92: 92, 39: 39, 34: 34, 123: 123, 125: 125}
LITERAL_OPS = {"push.str", "ld.fs", "halt"}


def ensure_coq_built():
    """Compile this property's own Coq files when they are not (yet) listed in _CoqProject / are stale."""
    with common.Lock("coqmake"):
        newest_dep = 0.0
        for f in COQ_FILES:
            src = os.path.join(common.COQ, f)
            vo = src[:-2] + ".vo"
            stale = (not os.path.exists(vo)) or os.path.getmtime(vo) < os.path.getmtime(src) or os.path.getmtime(vo) < newest_dep
            if stale:
                t0 = time.time()
                r = common.sh(["timeout", "900", "coqc", "-q", "-Q", ".", "DS", f], cwd=common.COQ)
                common.log(f"[coq] coqc {f} rc={r.returncode} {time.time()-t0:.1f}s")
                if r.returncode != 0:
                    raise Broken("coq-build " + f, r.stdout[-4000:])
            newest_dep = max(newest_dep, os.path.getmtime(vo))


def bl(xs):
    return "[" + ";".join(str(int(x)) for x in xs) + "]"


def bll(xss):
    return "[" + ";".join(bl(x) for x in xss) + "]"


def is_full(r):
    return bool(r["ok"] and not r["rest"] and set(r["ops"].split()) <= LITERAL_OPS)


def obs_term(r):
    return (f"({bl(r['src'])}, {'true' if r['valid'] else 'false'}, {'true' if is_full(r) else 'false'}, "
            f"{bll(r['parts'])}, {bl(r['str'])})")


def obs_cases_v(rows):
    items = [f"({r['d']}, {obs_term(r)})" for r in rows]
    return (HEADER + "Definition cases : list c13_obs_case := [\n" + ";\n".join(items) + "].\n"
            "Definition bad := Eval vm_compute in bad13 c13_obs_ok 0 cases.\nPrint bad.\n")


def lit_cases_v(rows):
    items = []
    for r in rows:
        bits = "[" + ";".join("true" if b else "false" for b in r.get("bits", [])) + "]"
        items.append(f"({r['d']}, {bl(r.get('s', []))}, {bits}, {obs_term(r)})")
    return (HEADER + "Definition cases : list c13_lit_case := [\n" + ";\n".join(items) + "].\n"
            "Definition bad := Eval vm_compute in bad13 c13_lit_ok 0 cases.\nPrint bad.\n")


SKEL = {"S": 0, "B": 1, "E": 2, "L": 3, "X": 4}


def tmpl_cases_v(rows):
    items = []
    for r in rows:
        its = []
        for it in r["items"]:
            kind = 0 if not it["is_hole"] else (2 if it.get("void") else 1)
            its.append(f"({kind}, {bl(it['val'])})")
        items.append(f"([{';'.join(its)}], {max(r['ldfs'], 0)}, {bl(SKEL[c] for c in r['skel'])}, {bl(r['str'])})")
    return (HEADER + "Definition cases : list c13_tmpl_case := [\n" + ";\n".join(items) + "].\n"
            "Definition bad := Eval vm_compute in bad13 c13_tmpl_ok 0 cases.\nPrint bad.\n")


def hexs(xs):
    return bytes(xs).hex()


def show(xs):
    return bytes(xs).decode("utf-8", "backslashreplace")


def replay_of(r, what, **extra):
    p = {"what": what, "source_hex": hexs(r["src"]), "source_text": show(r["src"]),
         "how": "echo <source_hex> | harness c13-run   (or vm.Run(source) on a fresh VM)",
         "go": {k: r.get(k) for k in ("ok", "err", "panic", "t")}, "go_value_hex": hexs(r["str"]), "go_value_text": show(r["str"])}
    p.update(extra)
    return p


def loop_template_programs(rnd, n):
    """templates inside loops with break / continue leaving a hole, and templates holding whole loops: values known by construction"""
    out = []
    for _ in range(n):
        N, K = rnd.randrange(3, 70), rnd.randrange(2, 6)
        q = rnd.choice(["`", "\x1e"])
        fam = rnd.randrange(6)
        if fam == 0:      # continue from inside a hole: the assignment of that round does not happen
            src = f"r=''; i=0; while i<{N} {{ i=i+1; r = r + {q}<{{% if i%{K}==0 {{ continue }} %}}{{i}}>{q} }}; r"
            exp = repr("".join(f"<{i}>" for i in range(1, N + 1) if i % K))
        elif fam == 1:    # break from inside a hole
            B = rnd.randrange(1, N + 1)
            src = f"r=''; i=0; while i<{N} {{ i=i+1; r = r + {q}<{{% if i=={B} {{ break }} %}}{{i}}>{q} }}; [r, i]"
            exp = "[" + repr("".join(f"<{i}>" for i in range(1, B))) + f", {B}]"
        elif fam == 2:    # a hole that holds a whole loop with an inner template and an exit
            src = f"{q}A{{% i=0; while i<{N} {{ i=i+1; {q2(q)}x{{% if i=={K} {{ continue }} %}}{q2(q)} }}; i %}}B{q}"
            exp = repr(f"A{N}B")
        elif fam == 3:    # after such a loop a statement block still yields null, a later template still works
            if rnd.random() < 0.5:
                src = f"i=0; while i<{N} {{ i=i+1; x={q}a{{% if i%{K}==0 {{ continue }} %}}{q} }}; if 1 {{ 2 }}"
                exp = "null"
            else:
                src = f"i=0; while i<{N} {{ i=i+1; x={q}a{{% if i%{K}==0 {{ continue }} %}}{q} }}; {q}p{{i}}q{q}"
                exp = repr(f"p{N}q")
        elif fam == 4:    # the loop statement itself as the program's value
            src = f"i=0; while i<{N} {{ i=i+1; x={q}a{{% break %}}{q} }}"
            exp = "null"
        else:             # both exits, nested if inside the hole
            src = (f"r=''; i=0; while i<{N} {{ i=i+1; r = r + {q}{{% if i%2==0 {{ if i%{K}==0 {{ continue }} }}; if i>{N - 1} {{ break }} %}}{{i}},{q} }}; r")
            exp = repr("".join(f"{i}," for i in range(1, N) if not (i % 2 == 0 and i % K == 0)))
        out.append((src, exp))
    return out


def inner_template_pairs(rnd, n):
    """a template is a STRING whatever it holds: programs that use a small template (one hole only / text and holes) in a
    type-sensitive way — assigned, added, compared, put into an array or dict, returned from a function, passed to repr — inside a
    hole of an outer template, inside a function body, a computed value or at top level; paired with the same program in which
    the inner template is replaced by the quoted literal of its text. Both must evaluate to the same value."""
    out = []
    for _ in range(n):
        q = rnd.choice(["`", "\x1e"])
        qi = q2(q)
        v, text = rnd.choice([("7", "7"), ("1.5", "1.5"), ("0", "0"), ("-3", "-3"), ("2+3", "5"), ("'s'", "s"), ("[1]", "[1]"), ("null", "null"), ("true", "1")])
        form = rnd.randrange(4)
        if form == 0:
            inner, lit = f"{qi}{{{v}}}{qi}", f"'{text}'"
        elif form == 1:
            inner, lit = f"{qi}{{% 3; {v} %}}{qi}", f"'{text}'"
        elif form == 2:
            inner, lit = f"{qi}a{{{v}}}{qi}", f"'a{text}'"
        else:
            inner, lit = f"{qi}{{{v}}}{{{v}}}{qi}", f"'{text}{text}'"
        use = rnd.choice(["x = T; [x]", "T + T", "T == '7'", "[T, T]", "{'k': T}.k", "repr(T)", "T * 2", "T ? 1 : 2", "x = T; x + 1", "func g() { T }; [g()]",
                          "&cv = T; [cv]", "typeId(T)", "[T][0] + 'z'", "T == 7", "x = T; y = x; [y, x]"])
        place = rnd.randrange(4)
        def wrap(body):
            if place == 0:
                return f"{q}<{{% {body} %}}>{q}"
            if place == 1:
                return f"func outer() {{ {body} }}; outer()"
            if place == 2:
                return f"{q}<{{% func h() {{ {body} }}; h() %}}|{{% {body} %}}>{q}"
            return body
        out.append((wrap(use.replace("T", inner)), wrap(use.replace("T", lit))))
    return out


def q2(q):
    return "\x1e" if q == "`" else "`"


def run(res, tier, seed):
    common.build_harness()
    quick = tier == "quick"
    n_lit = 2000 if quick else 20000
    n_raw = 1000 if quick else 10000
    n_tmpl = 600 if quick else 8000
    probe, _ = common.run_harness(["c13-probe"])
    lit, _ = common.run_harness(["c13-lit", "-seed", seed, "-n", n_lit])
    raw, _ = common.run_harness(["c13-raw", "-seed", seed, "-n", n_raw])
    tmpl, _ = common.run_harness(["c13-tmpl", "-seed", seed, "-n", n_tmpl])
    nest, _ = common.run_harness(["c13-nest"])
    if len(probe) != 4 * 256 * 2 + 4 * 128 or len(lit) != n_lit or len(raw) != n_raw or len(tmpl) != n_tmpl or len(nest) != 23 * 6:
        raise Broken("harness-output", f"row counts probe={len(probe)} lit={len(lit)} raw={len(raw)} tmpl={len(tmpl)} nest={len(nest)}")

    # ------------------------------------------------------------ coverage bookkeeping
    dist = {"probe": len(probe), "literal_texts": len(lit), "malformed_bodies": len(raw), "templates": len(tmpl), "nest_chains": len(nest),
            "lit_by_delim": [0, 0, 0, 0], "lit_with_multibyte": 0, "lit_with_escapable": 0, "lit_raw_backslash_used": 0,
            "raw_full_literals": 0, "raw_errors": 0, "raw_illformed_utf8": 0, "tmpl_holes": {}, "tmpl_void_holes": 0, "tmpl_nested": 0}
    special = set(b"'\"`\x1e\\{}%\r\n\t\f\x00")
    for r in lit:
        s = bytes(r.get("s", []))
        dist["lit_by_delim"][r["d"]] += 1
        mb = any(b >= 0x80 for b in s)
        sp = any(b in special for b in s)
        dist["lit_with_multibyte"] += mb
        dist["lit_with_escapable"] += sp
        body = bytes(r["src"][1:-1])
        dist["lit_raw_backslash_used"] += (body.count(b"\\") > 0 and b"\\\\" not in body and 92 in s)
        res.count("lit:" + str(r["d"]) + ":" + hexs(r["src"]), nontrivial=mb or sp)
    for r in raw:
        dist["raw_full_literals"] += is_full(r)
        dist["raw_errors"] += (not r["ok"])
        dist["raw_illformed_utf8"] += (not r["valid"])
        res.count("raw:" + hexs(r["src"]), nontrivial=len(r["src"]) > 2)
    for r in probe:
        res.count("probe:" + hexs(r["src"]), nontrivial=True)
    for r in tmpl:
        k = sum(1 for it in r["items"] if it["is_hole"])
        dist["tmpl_holes"][str(k)] = dist["tmpl_holes"].get(str(k), 0) + 1
        dist["tmpl_void_holes"] += sum(1 for it in r["items"] if it.get("void"))
        dist["tmpl_nested"] += any(("`" in it.get("hole", "") or "\x1e" in it.get("hole", "")) for it in r["items"])
        res.count("tmpl:" + hexs(r["src"]), nontrivial=k >= 1)
    for r in nest:
        res.count("nest:" + hexs(r["src"]), nontrivial=True)
    res.cov["input_distribution"] = dist
    res.cov["rule"] = (
        "(probe) every byte b x 4 delimiters: <d>\\<b><d>, <d><b><d>, <d>\\<b>q<d> through the real parser+VM; "
        "(lit) random texts over an alphabet of quotes, backtick, 0x1E, backslash, braces, %, CR/LF/TAB/FF/NUL, the escape letters, "
        "2-/3-/4-byte runes incl. range boundaries, combining marks, U+FFFD, plus uniformly random runes, x 4 delimiters x "
        "(always-escape | always-raw | random per character) choices, printed by a mirror of Model/StrLit.escape; "
        "(raw) malformed stream: arbitrary bodies with raw delimiters, lone/trailing backslashes, ill-formed UTF-8, unterminated / "
        "doubled / trailing-space literals; (tmpl) backtick and 0x1E templates with 1..6 holes ({..} and {% .. %}) holding "
        "expressions, assignments, if/while blocks, multi-statement blocks and nested templates (2 levels), literal segments "
        "printed with random escapes; (nest) chains of 1..23 nested holes in 6 spellings. distinct = distinct source bytes; "
        "non-trivial = text contains a multi-byte rune or a character with special meaning / body non-empty / at least one hole")
    res.sample({"literal": show(lit[1]["src"]), "text_hex": hexs(lit[1].get("s", [])), "go_value_hex": hexs(lit[1]["str"])})
    res.sample({"template": tmpl[0]["src_text"], "go_value": show(tmpl[0]["str"]), "holes": [[it.get("hole"), show(it["val"])] for it in tmpl[0]["items"] if it["is_hole"]]})
    res.sample({"nest_depth": nest[-1]["depth"], "err": nest[-1].get("err", "")[:80]})
    res.cov["trusted_base"] += [
        "Model/StrLit.v is a hand-written model of roll.peg's fstring/strPart*/strEscape rules and of four VM opcodes; its escape table "
        "and negated classes are re-checked on every run by probing the real lexer with every byte, and `lex` is compared with the real "
        "parser on every generated literal",
        "the pigeon PEG runtime (ordered choice, greedy repetition) as read from roll.peg.go",
        "hole code is abstract in the VM fragment: the template theorems assume it does not read or write the stack below its own entries "
        "(prim_ok/framed); validated by the template runs, not proved for the whole instruction set",
    ]
    res.assumptions += [
        "texts are well-formed UTF-8 (the parser rejects ill-formed input with 'invalid encoding'; modelled and checked)",
        "a backtick cannot be written inside a `...` literal and 0x1E not inside a 0x1E literal: the grammar has no escape for them "
        "(representable, proved necessary and sufficient for the model)",
        "OpCountLimit/ParseExprLimit are off (defaults); the 1000-entry VM stack does not fill up (template theorems hold up to that error)",
    ]

    # ------------------------------------------------------------ property-level search (Go's own outputs)
    found = 0

    def violate(p):
        nonlocal found
        if found < 4:
            res.violation(p)
        found += 1

    # templates x loops x break / continue: values known by construction
    import random as _random
    import k2cases
    import c02 as _c02
    lt = loop_template_programs(_random.Random(seed * 31 + 7), 120 if tier == "quick" else 1500)
    lt_rows = k2cases.go_run([k2cases.mk_input(src, oplimit=200000) for src, _ in lt])
    lt_bad = 0
    for (src, exp), row in zip(lt, lt_rows):
        st = (row.get("steps") or [{}])[-1]
        got = _c02.go_value(st.get("val")) if st.get("ok") else "error: " + str(st.get("err") or st.get("perr") or row.get("fatal") or "?")
        if got != exp:
            lt_bad += 1
            violate({"what": "a template inside a loop (break / continue leaving a hole, or a hole holding a loop) does not evaluate to the "
                             "concatenation of its text and hole values", "source_text": src, "source_hex": src.encode().hex(), "expected": exp, "got": got})
    res.cov["loop_template_programs"] = {"programs": len(lt), "disagreements": lt_bad}
    # a template used in a type-sensitive way equals the quoted literal of its text (real VM on both programs)
    tp = inner_template_pairs(_random.Random(seed * 37 + 11), 300 if tier == "quick" else 3000)
    tp_rows = k2cases.go_run([k2cases.mk_input(x, oplimit=200000) for pair in tp for x in pair])
    tp_bad = 0
    def _val(row):
        st = (row.get("steps") or [{}])[-1]
        return _c02.go_value(st.get("val")) if st.get("ok") else "error: " + str(st.get("err") or st.get("perr") or row.get("fatal") or "?")[:60]
    for k, (a, b) in enumerate(tp):
        ga, gb = _val(tp_rows[2 * k]), _val(tp_rows[2 * k + 1])
        if ga != gb and tp_bad < 3:
            tp_bad += 1
            violate({"what": "a template used where its type matters does not behave like the string literal of its text",
                     "with_template": a, "with_literal": b, "value_with_template": ga, "value_with_literal": gb, "source_hex": a.encode().hex()})
    res.cov["typed_inner_templates"] = {"pairs": len(tp), "disagreements": tp_bad}

    for r in probe + lit + raw:
        if r.get("panic"):
            violate(replay_of(r, "Go panic while evaluating a string literal"))
    for r in tmpl + nest:
        if r.get("panic"):
            violate({"what": "Go panic while evaluating a template", "source_text": r["src_text"], "source_hex": hexs(r["src"]), "panic": r["panic"]})
    for r in lit:
        s = r.get("s", [])
        if not (r["ok"] and r["t"] == T_STRING and r["str"] == s and not r["rest"]):
            violate(replay_of(r, "the literal built with the escapes does not evaluate to the text", delimiter=show(DELIMS[r["d"]]),
                              text_hex=hexs(s), text=show(s), escape_choices=r.get("bits", [])))
    for r in probe:
        if r.get("esc") and len(r["src"]) == 5 and r["b"] < 128:      # <d>\<b>q<d>
            b = r["b"]
            d = DELIMS[r["d"]][0]
            if b == d and b not in DOCUMENTED:
                continue                                          # `\`q` : lone backslash, then the literal ends
            want = [DOCUMENTED[b], ord("q")] if b in DOCUMENTED else [92, b, ord("q")]
            if not (r["ok"] and r["str"] == want):
                violate(replay_of(r, "escape sequence does not denote the documented character", expected_hex=hexs(want)))
    for r in tmpl:
        herrs = [it for it in r["items"] if it.get("herr")]
        if herrs:
            dist.setdefault("tmpl_hole_errors", 0)
            dist["tmpl_hole_errors"] += 1
            continue
        want = [b for it in r["items"] for b in it["val"]]
        pieces = [{"hole": it.get("hole"), "form": it.get("form"), "value": show(it["val"])} if it["is_hole"] else {"literal": show(it["val"])}
                  for it in r["items"]]
        if not (r["ok"] and r["t"] == T_STRING and r["str"] == want and not r["rest"]):
            violate({"what": "template value is not the concatenation of its segments and hole values", "source_text": r["src_text"],
                     "source_hex": hexs(r["src"]), "prelude": "x=1;y=2;z=3;w='s';v=[1,2]", "go": {"ok": r["ok"], "err": r.get("err")},
                     "go_value": show(r["str"]), "expected": show(want), "pieces": pieces})
        elif r["vars1"] != r["vars2"]:
            violate({"what": "variables after the template differ from the variables after running the holes alone", "source_text": r["src_text"],
                     "source_hex": hexs(r["src"]), "vars": ["x", "y", "z", "w", "v", "u"], "after_template": r["vars1"], "after_holes": r["vars2"]})
    for r in nest:
        if r["depth"] <= NEST_LIMIT:
            if not (r["ok"] and r["str"] == r["expect"]):
                violate({"what": f"template nested {r['depth']} deep (within the limit {NEST_LIMIT}) does not evaluate to its text",
                         "source_text": r["src_text"], "go": {"ok": r["ok"], "err": r.get("err")}, "go_value": show(r["str"]), "expected": show(r["expect"])})
        else:
            if r["ok"] or NEST_MSG not in r.get("err", ""):
                violate({"what": f"template nested {r['depth']} deep (beyond the limit {NEST_LIMIT}) is not rejected with the nesting error",
                         "source_text": r["src_text"], "go": {"ok": r["ok"], "err": r.get("err"), "value": show(r["str"])}})

    # ------------------------------------------------------------ proofs + correspondence
    broken = None
    try:
        ensure_coq_built()
        info = common.check_property_file("C13")
        res.proof(info, "cd coq && coqc -Q . DS Model/StrLit.v Proofs/StrLitProofs.v Corr/Corr13.v Properties/C13.v  (Print Assumptions parsed)")
        jobs, index = [], []
        shard = 400
        for name, rows, mk in (("probe", probe, obs_cases_v), ("raw", raw, obs_cases_v), ("lit", lit, lit_cases_v)):
            for k in range(0, len(rows), shard):
                jobs.append((f"c13_{name}_{k}", mk(rows[k:k + shard])))
                index.append((name, rows, k))
        okt = [r for r in tmpl if r["ok"] and not any(it.get("herr") for it in r["items"])]
        for k in range(0, len(okt), shard):
            jobs.append((f"c13_tmpl_{k}", tmpl_cases_v(okt[k:k + shard])))
            index.append(("tmpl", okt, k))
        outs = common.coq_eval_many(jobs)
        bad = {"probe": [], "raw": [], "lit": [], "tmpl": []}
        for (name, rows, k), out in zip(index, outs):
            bad[name] += [rows[k + int(x.replace("%N", ""))] for x in common.parse_coq_list(out, "bad")]
        res.cov["correspondence"] = {"probe_cases": len(probe), "raw_cases": len(raw), "lit_cases": len(lit), "tmpl_cases": len(okt),
                                     "disagreements": {k: len(v) for k, v in bad.items()}}
        res.cov["traces_validated_against_impl"] = len(probe) + len(raw) + len(lit) + len(okt)
        for name, chk in (("probe", "c13_obs_ok (escape table / negated classes: Model/StrLit.lex vs the real lexer on every byte)"),
                          ("lit", "c13_lit_ok (Model/StrLit.escape+lex vs the literal Go ran)"),
                          ("raw", "c13_obs_ok (Model/StrLit.lex vs parser+VM on malformed bodies)"),
                          ("tmpl", "c13_tmpl_ok (VM fragment exec / byte-code skeleton vs real templates)")):
            if bad[name] and not broken:
                first = [{"source_hex": hexs(r["src"]), "source_text": show(r["src"]), "go_ok": r["ok"], "go_err": (r.get("err") or "")[:200],
                          "go_value_hex": hexs(r["str"]), "go_parts_hex": [hexs(p) for p in r.get("parts", [])] if "parts" in r else None,
                          "go_ops": r.get("ops", r.get("skel"))} for r in bad[name][:3]]
                broken = Broken("correspondence Corr13." + chk, {"first": first})
    except Broken as b:
        broken = b
    if broken and not found:
        # a disagreement between model and code with no property failure in hand: look harder on the real code
        hits = []
        for k in range(1, 6):
            more, _ = common.run_harness(["c13-lit", "-seed", seed * 1000 + k, "-n", 8000])
            hits = [r for r in more if not (r["ok"] and r["str"] == r.get("s", []) and not r["rest"])]
            if hits:
                break
        for r in hits[:2]:
            violate(replay_of(r, "the literal built with the escapes does not evaluate to the text (enlarged search)",
                              text_hex=hexs(r.get("s", [])), escape_choices=r.get("bits", [])))
    if broken and not found:
        res.violation({"broken": broken.what, "detail": broken.detail}, no_input=True)


def replay(path):
    p = json.load(open(path))
    print(json.dumps(p, indent=1, ensure_ascii=False))
    if "source_hex" in p:
        common.build_harness()
        rows, _ = common.run_harness(["c13-run"], stdin=p["source_hex"] + "\n")
        for r in rows:
            print("re-run:", {"ok": r["ok"], "err": r.get("err"), "panic": r.get("panic"), "value": show(r["str"]), "value_hex": hexs(r["str"])})
    return 0
