(* Correspondence checker for C04/C15: the five Roll* functions, exact totals,
   counters, detail text and post-call generator state. *)
From Coq Require Import String NArith ZArith List Bool.
From DS Require Import Model.PCG Model.Roll Model.Str Model.Dice Corr.Corr05.
Import ListNotations.
Open Scope Z_scope.

Inductive dcall :=
| CCommon (times d : Z) (dmin dmax : option Z) (keep low high mode : Z)
| CCoC (bonus : bool) (n mode : Z)
| CFate (mode : Z)
| CWod (addLine pool points threshold : Z) (isGE : bool) (mode : Z)
| CDc (addLine pool points mode : Z).

(* observed: numbers, text, post state *)
Definition dobs : Type := list Z * string * N * N.
Definition c04_case : Type := dcall * (N * N) * dobs.

Definition dice_fuel : nat := 256.
Definition round_fuel : nat := 4000.

Definition run_call (c : dcall) (s : pcg) : option dobs :=
  match c with
  | CCommon t d mn mx k lo hi_ m =>
    match roll_common pcg_next dice_fuel t d mn mx k lo hi_ m s with
    | Done ((num, txt), s') => Some ([num], txt, hi s', PCG.lo s')
    | OutOfFuel => None end
  | CCoC b n m =>
    match roll_coc pcg_next dice_fuel b n m s with
    | Done ((num, txt), s') => Some ([num], txt, hi s', PCG.lo s')
    | OutOfFuel => None end
  | CFate m =>
    match roll_fate pcg_next dice_fuel m s with
    | Done ((num, txt), s') => Some ([num], txt, hi s', PCG.lo s')
    | OutOfFuel => None end
  | CWod a p pts th ge m =>
    match roll_wod pcg_next round_fuel dice_fuel a p pts th ge m s with
    | Done ((x, y, z, txt), s') => Some ([x; y; z], txt, hi s', PCG.lo s')
    | OutOfFuel => None end
  | CDc a p pts m =>
    match roll_dc pcg_next round_fuel dice_fuel a p pts m s with
    | Done ((x, y, z, txt), s') => Some ([x; y; z], txt, hi s', PCG.lo s')
    | OutOfFuel => None end
  end.

Fixpoint zlist_eqb (a b : list Z) : bool :=
  match a, b with
  | [], [] => true
  | x :: r, y :: q => (x =? y) && zlist_eqb r q
  | _, _ => false
  end.

Definition dobs_eqb (a b : dobs) : bool :=
  let '(n1, t1, h1, l1) := a in let '(n2, t2, h2, l2) := b in
  zlist_eqb n1 n2 && String.eqb t1 t2 && (h1 =? h2)%N && (l1 =? l2)%N.

Definition c04_ok (c : c04_case) : bool :=
  let '(call, (h, l), obs) := c in
  match run_call call {| hi := h; lo := l |} with
  | Some o => dobs_eqb o obs
  | None => false
  end.
