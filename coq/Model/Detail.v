(* Model of rollvm.go `makeDetailStr` (default configuration: no Custom*Func hooks), of the
   annotation stripper and of a small arithmetic evaluator for the stripped text.

   Go                                   here
   ctx.parser.data                      data   : string (bytes)
   ctx.parser.pt.offset                 offset : nat
   details []BufferSpan                 spans  : list span  (Ret already rendered by ToString; a nil Ret is "NIL")
   ctx.Ret.ToString()                   ret    : string

   Panics of the Go code (index m[len(m)-1] on an empty m, item.spans[size-1], slicing of the
   buffer) are explicit: `make_detail_res` returns DPanic for them; DetailProofs shows that
   DPanic is unreachable for every input (the span filter guarantees the bounds). *)
From Coq Require Import String Ascii NArith ZArith List Bool.
From DS Require Import Model.Str.
Import ListNotations.
Open Scope string_scope.

(* ------------------------------------------------------------------ byte-string helpers *)
Fixpoint stake (n : nat) (s : string) : string :=
  match n, s with
  | O, _ => ""
  | S n', String c r => String c (stake n' r)
  | S _, EmptyString => ""
  end.
Fixpoint sdrop (n : nat) (s : string) : string :=
  match n, s with
  | O, _ => s
  | S n', String _ r => sdrop n' r
  | S _, EmptyString => ""
  end.
(* s[b:e] for b <= e <= len s *)
Definition ssub (s : string) (b e : nat) : string := stake (e - b) (sdrop b s).

Fixpoint srev_acc (s acc : string) : string :=
  match s with EmptyString => acc | String c r => srev_acc r (String c acc) end.
Definition srev (s : string) : string := srev_acc s "".

(* ------------------------------------------------------------------ strings.TrimSpace *)
(* unicode.IsSpace: \t \n \v \f \r space U+0085 U+00A0 U+1680 U+2000..U+200A U+2028 U+2029 U+202F U+205F U+3000.
   TrimSpace decodes runes from the left (DecodeRune) and from the right (DecodeLastRune); a
   white-space rune is recognised exactly when its UTF-8 encoding is a prefix (suffix). *)
Definition is_ascii_space (n : N) : bool :=
  ((n =? 9) || (n =? 10) || (n =? 11) || (n =? 12) || (n =? 13) || (n =? 32))%N.
Definition space2 (a b : N) : bool := ((a =? 194) && ((b =? 133) || (b =? 160)))%N.
Definition space3 (a b c : N) : bool :=
  (((a =? 225) && (b =? 154) && (c =? 128)) ||
   ((a =? 226) && (b =? 128) && (((128 <=? c) && (c <=? 138)) || (c =? 168) || (c =? 169) || (c =? 175))) ||
   ((a =? 226) && (b =? 129) && (c =? 159)) ||
   ((a =? 227) && (b =? 128) && (c =? 128)))%N.

(* remove one leading white-space rune *)
Definition space_head (s : string) : option string :=
  match s with
  | EmptyString => None
  | String c1 r1 =>
    if is_ascii_space (N_of_ascii c1) then Some r1 else
    match r1 with
    | EmptyString => None
    | String c2 r2 =>
      if space2 (N_of_ascii c1) (N_of_ascii c2) then Some r2 else
      match r2 with
      | EmptyString => None
      | String c3 r3 => if space3 (N_of_ascii c1) (N_of_ascii c2) (N_of_ascii c3) then Some r3 else None
      end
    end
  end.
(* the same on the reversed string: remove one trailing white-space rune *)
Definition space_last (s : string) : option string :=
  match s with
  | EmptyString => None
  | String c1 r1 =>
    if is_ascii_space (N_of_ascii c1) then Some r1 else
    match r1 with
    | EmptyString => None
    | String c2 r2 =>
      if space2 (N_of_ascii c2) (N_of_ascii c1) then Some r2 else
      match r2 with
      | EmptyString => None
      | String c3 r3 => if space3 (N_of_ascii c3) (N_of_ascii c2) (N_of_ascii c1) then Some r3 else None
      end
    end
  end.
Fixpoint trim_with (f : string -> option string) (fuel : nat) (s : string) : string :=
  match fuel with
  | O => s
  | S k => match f s with Some r => trim_with f k r | None => s end
  end.
Definition trim_left (s : string) : string := trim_with space_head (String.length s) s.
Definition trim_right (s : string) : string :=
  srev (trim_with space_last (String.length s) (srev s)).
Definition trim_space (s : string) : string := trim_right (trim_left s).

(* ------------------------------------------------------------------ spans and groups *)
Record span := mkSpan {
  sp_b : Z; sp_e : Z;            (* Begin, End (IntType) *)
  sp_ret : string;               (* Ret.ToString() *)
  sp_text : string; sp_expr : string; sp_tag : string;
  sp_textonly : bool; sp_suffix : string }.

Record group := mkGroup { g_b : Z; g_e : Z; g_tag : string; g_spans : list span }.

(* the filter added by the repair: spans that are not inside the matched text are ignored *)
Definition span_skipped (offset : Z) (i : span) : bool :=
  ((sp_b i <? 0) || (sp_e i <? sp_b i) || (offset <? sp_e i))%Z.

Inductive gres := GOk (m : list group) | GPanic.

(* the first loop; `m` is kept REVERSED (head = m[len(m)-1]) *)
Fixpoint build_groups (offset : Z) (l : list span) (lastEnd : Z) (m : list group) : gres :=
  match l with
  | [] => GOk m
  | i :: r =>
    if span_skipped offset i then build_groups offset r lastEnd m
    else
      let lastEnd' := if (lastEnd <? sp_e i)%Z then sp_e i else lastEnd in
      if (lastEnd <? sp_b i)%Z then
        build_groups offset r lastEnd' (mkGroup (sp_b i) (sp_e i) (sp_tag i) [i] :: m)
      else
        match m with
        | [] => GPanic                    (* m[len(m)-1] with len(m) = 0 *)
        | g :: m0 =>
          build_groups offset r lastEnd'
            (mkGroup (g_b g) (if (g_e g <? sp_e i)%Z then sp_e i else g_e g) (g_tag g) (g_spans g ++ [i]) :: m0)
        end
  end.

(* sort.Sort(spanByEnd): modelled by a STABLE insertion sort.  Go's sort.Sort is insertion sort (stable)
   up to 12 elements and pdqsort above; with equal End values in a group of more than 12 spans Go's order
   is implementation-defined — `group_tie_risk` flags such groups for the correspondence. *)
Fixpoint insert_end (x : span) (l : list span) : list span :=
  match l with
  | [] => [x]
  | y :: r => if (sp_e x <=? sp_e y)%Z then x :: l else y :: insert_end x r
  end.
Fixpoint sort_end (l : list span) : list span :=
  match l with [] => [] | x :: r => insert_end x (sort_end r) end.

Fixpoint has_dup_end (l : list span) : bool :=
  match l with
  | [] => false
  | x :: r => if existsb (fun y => (sp_e x =? sp_e y)%Z) r then true else has_dup_end r
  end.
Definition group_tie (g : group) : bool := has_dup_end (g_spans g).
Definition group_tie_risk (g : group) : bool :=
  if Nat.ltb 12 (length (g_spans g)) then group_tie g else false.

Definition nonempty (s : string) : bool := match s with EmptyString => false | _ => true end.

Definition dummy_span : span := mkSpan 0 0 "" "" "" "" false "".

(* the bracketed annotation of one group; `rd b e` reads bytes [b,e) of the buffer (Go: detailResult);
   ngroups = len(m) *)
Definition annotation_with (rd : nat -> nat -> string) (ngroups : nat) (g : group) : string :=
  let spans := sort_end (g_spans g) in
  let size := length spans in
  let lst := last spans dummy_span in
  let subs := removelast spans in
  let parts := filter nonempty
                 (map (fun s => rd (Z.to_nat (sp_b s)) (Z.to_nat (sp_e s)) ++ "=" ++ sp_ret s) subs) in
  let subtxt := if Nat.ltb 1 size then
                  (match parts with [] => "" | _ => "," ++ join "," parts end) else "" in
  let base := rd (Z.to_nat (g_b g)) (Z.to_nat (g_e g)) in
  let exprText := if nonempty (sp_expr lst) then sp_expr lst else base in
  let partRet := sp_ret lst in
  let suffix0 := if nonempty (sp_suffix lst) then sp_suffix lst else "=" in
  let suffix := if sp_textonly lst then "" else suffix0 in
  let d0 := if sp_textonly lst then "[" else "[" ++ exprText in
  let d1 := if nonempty (sp_text lst) && negb (String.eqb partRet (sp_text lst))       (* rule 1.1 *)
            then d0 ++ suffix ++ sp_text lst else d0 in
  let d2 :=
      if String.eqb (g_tag g) "load" then
        (if sp_textonly lst then
           (if nonempty (sp_text lst) then "[" ++ sp_text lst else d1 ++ "[-")
         else "[" ++ exprText ++ (if nonempty (sp_text lst) then "," ++ sp_text lst else ""))
      else if String.eqb (g_tag g) "load.computed" then d1 ++ suffix ++ partRet
      else d1 in
  let d3 := d2 ++ subtxt ++ "]" in
  let d4 := if Nat.eqb ngroups 1 && String.eqb d3 ("[" ++ base ++ "]") then "" else d3 in   (* rule 1.3 *)
  if Nat.ltb 400 (String.length d4) then "[略]" else d4.
Definition annotation (ngroups : nat) (cur : string) (g : group) : string :=
  annotation_with (ssub cur) ngroups g.

Definition group_ret (g : group) : string := sp_ret (last (sort_end (g_spans g)) dummy_span).

Inductive dres := DText (s : string) | DPanic.

(* every slice expression of one loop iteration must be in range of the current buffer *)
Definition slices_ok (cur : string) (g : group) : bool :=
  let n := Z.of_nat (String.length cur) in
  ((0 <=? g_b g) && (g_b g <=? g_e g) && (g_e g <=? n))%Z &&
  forallb (fun s => ((0 <=? sp_b s) && (sp_b s <=? sp_e s) && (sp_e s <=? n))%Z) (removelast (sort_end (g_spans g))).

(* one iteration of the second loop: splice `ret ++ annotation` over [begin, end) of the buffer *)
Definition render_group (ngroups : nat) (cur : dres) (g : group) : dres :=
  match cur with
  | DPanic => DPanic
  | DText cur =>
    match g_spans g with
    | [] => DPanic                        (* item.spans[size-1] *)
    | _ =>
      if slices_ok cur g then
        DText (stake (Z.to_nat (g_b g)) cur ++ group_ret g ++ annotation ngroups cur g ++ sdrop (Z.to_nat (g_e g)) cur)
      else DPanic
    end
  end.

(* final rule: trim, and the empty text when it equals the (trimmed) result *)
Definition finish (text ret : string) : string :=
  let t := trim_space text in
  if String.eqb t (trim_space ret) then "" else t.

Definition make_detail_res (data : string) (offset : nat) (spans : list span) (ret : string) : dres :=
  if negb (Nat.leb offset (String.length data)) then DPanic else      (* data[:offset] *)
  match build_groups (Z.of_nat offset) spans (-1)%Z [] with
  | GPanic => DPanic
  | GOk m =>       (* m reversed: folding from its head = Go's loop from len(m)-1 down to 0 *)
    match fold_left (render_group (length m)) m (DText (stake offset data)) with
    | DPanic => DPanic
    | DText t => DText (finish t ret)
    end
  end.

Definition make_detail (data : string) (offset : nat) (spans : list span) (ret : string) : string :=
  match make_detail_res data offset spans ret with DText t => t | DPanic => "<panic>" end.

(* GetDetailText: `ctx.DetailSpans != nil` holds exactly when the run appended at least one span (a nil slice
   otherwise); the cache is filled by the first non-empty text.  Returns (text, new cache). *)
Definition get_detail_text (data : string) (offset : nat) (spans : list span) (ret cache : string)
  : string * string :=
  match spans with
  | [] => ("", cache)
  | _ => if nonempty cache then (cache, cache)
         else let t := make_detail data offset spans ret in (t, t)
  end.

(* the part of the VM state that the property talks about; GetDetailText as a state transformer *)
Record vmstate (V R : Type) := mkVm {
  vm_ret : string;          (* Ret.ToString() *)
  vm_vars : V;              (* variables *)
  vm_rng : R;               (* generator state *)
  vm_data : string; vm_offset : nat; vm_spans : list span;
  vm_cache : string }.
Arguments mkVm {V R}. Arguments vm_ret {V R}. Arguments vm_vars {V R}. Arguments vm_rng {V R}.
Arguments vm_data {V R}. Arguments vm_offset {V R}. Arguments vm_spans {V R}. Arguments vm_cache {V R}.
Definition get_detail_text_vm {V R} (st : vmstate V R) : string * vmstate V R :=
  let '(t, c) := get_detail_text (vm_data st) (vm_offset st) (vm_spans st) (vm_ret st) (vm_cache st) in
  (t, mkVm (vm_ret st) (vm_vars st) (vm_rng st) (vm_data st) (vm_offset st) (vm_spans st) c).

(* the groups in source order (for statements) *)
Definition groups_of (offset : nat) (spans : list span) : list group :=
  match build_groups (Z.of_nat offset) spans (-1)%Z [] with GOk m => rev m | GPanic => [] end.

(* ------------------------------------------------------------------ independent forward splice *)
(* replace [b,e) by r for a list of separated ranges in increasing order; everything else byte-identical *)
Fixpoint splice (src : string) (pos : nat) (l : list (nat * nat * string)) : string :=
  match l with
  | [] => sdrop pos src
  | (b, e, r) :: l' => ssub src pos b ++ r ++ splice src e l'
  end.

Definition replacement (ngroups : nat) (src : string) (g : group) : nat * nat * string :=
  (Z.to_nat (g_b g), Z.to_nat (g_e g), group_ret g ++ annotation ngroups src g).
Definition value_only (g : group) : nat * nat * string :=
  (Z.to_nat (g_b g), Z.to_nat (g_e g), group_ret g).

(* ------------------------------------------------------------------ strip_annotations *)
Definition lbr : ascii := "["%char.
Definition rbr : ascii := "]"%char.
(* delete every top-level [...] group (brackets nest); a stray ']' at depth 0 is kept *)
Fixpoint strip_go (depth : nat) (s : string) : string :=
  match s with
  | EmptyString => EmptyString
  | String c r =>
    if Ascii.eqb c lbr then strip_go (S depth) r
    else match depth with
         | O => String c (strip_go O r)
         | S d => if Ascii.eqb c rbr then strip_go d r else strip_go depth r
         end
  end.
Definition strip_annotations (s : string) : string := strip_go 0 s.

(* ------------------------------------------------------------------ arithmetic evaluator *)
(* e ::= t (('+'|'-') t)*    t ::= u ('*' u)*    u ::= ('-'|'+') u | atom    atom ::= digits | '(' e ')'
   white space (space \t \r \n) between tokens.  Exact integers (Z): the int64 wrap of the VM is NOT modelled,
   the statements carry a no-overflow side condition. *)
Definition is_ws (c : ascii) : bool :=
  let n := N_of_ascii c in ((n =? 32) || (n =? 9) || (n =? 10) || (n =? 13))%N.
Definition is_digit (c : ascii) : bool :=
  let n := N_of_ascii c in ((48 <=? n) && (n <=? 57))%N.
Definition digit_val (c : ascii) : Z := Z.of_N (N_of_ascii c - 48).

Fixpoint skip_ws (s : string) : string :=
  match s with
  | String c r => if is_ws c then skip_ws r else s
  | EmptyString => s
  end.
Fixpoint read_digits (acc : Z) (s : string) : Z * string :=
  match s with
  | String c r => if is_digit c then read_digits (acc * 10 + digit_val c)%Z r else (acc, s)
  | EmptyString => (acc, s)
  end.

Definition ch_plus : ascii := "+"%char.
Definition ch_minus : ascii := "-"%char.
Definition ch_star : ascii := "*"%char.
Definition ch_lp : ascii := "("%char.
Definition ch_rp : ascii := ")"%char.

Section Eval.
  (* one level of fuel per nesting of the mutual recursion *)
  Variable parse_expr : string -> option (Z * string).

  Definition parse_atom (s : string) : option (Z * string) :=
    match skip_ws s with
    | String c r =>
      if is_digit c then Some (read_digits 0 (String c r))
      else if Ascii.eqb c ch_lp then
        match parse_expr r with
        | Some (v, rest) =>
          match skip_ws rest with
          | String c2 r2 => if Ascii.eqb c2 ch_rp then Some (v, r2) else None
          | EmptyString => None
          end
        | None => None
        end
      else None
    | EmptyString => None
    end.

  Fixpoint parse_unary (fuel : nat) (s : string) : option (Z * string) :=
    match skip_ws s with
    | String c r =>
      if Ascii.eqb c ch_minus then
        match fuel with
        | O => None
        | S k => match parse_unary k r with Some (v, rest) => Some ((- v)%Z, rest) | None => None end
        end
      else if Ascii.eqb c ch_plus then
        match fuel with
        | O => None
        | S k => parse_unary k r
        end
      else parse_atom s
    | EmptyString => None
    end.

  Fixpoint term_rest (fuel : nat) (acc : Z) (s : string) : option (Z * string) :=
    match skip_ws s with
    | String c r =>
      if Ascii.eqb c ch_star then
        match fuel with
        | O => None
        | S k => match parse_unary k r with
                 | Some (v, rest) => term_rest k (acc * v)%Z rest
                 | None => None
                 end
        end
      else Some (acc, s)
    | EmptyString => Some (acc, s)
    end.
  Definition parse_term (fuel : nat) (s : string) : option (Z * string) :=
    match parse_unary fuel s with
    | Some (v, rest) => term_rest fuel v rest
    | None => None
    end.

  Fixpoint expr_rest (fuel : nat) (acc : Z) (s : string) : option (Z * string) :=
    match skip_ws s with
    | String c r =>
      if Ascii.eqb c ch_plus then
        match fuel with
        | O => None
        | S k => match parse_term k r with
                 | Some (v, rest) => expr_rest k (acc + v)%Z rest
                 | None => None
                 end
        end
      else if Ascii.eqb c ch_minus then
        match fuel with
        | O => None
        | S k => match parse_term k r with
                 | Some (v, rest) => expr_rest k (acc - v)%Z rest
                 | None => None
                 end
        end
      else Some (acc, s)
    | EmptyString => Some (acc, s)
    end.
  Definition parse_expr_step (fuel : nat) (s : string) : option (Z * string) :=
    match parse_term fuel s with
    | Some (v, rest) => expr_rest fuel v rest
    | None => None
    end.
End Eval.

Fixpoint parse_expr (fuel : nat) (s : string) : option (Z * string) :=
  match fuel with
  | O => None
  | S k => parse_expr_step (parse_expr k) k s
  end.

(* the whole string must be one expression (trailing white space allowed) *)
Definition eval_arith (s : string) : option Z :=
  match parse_expr (S (String.length s)) s with
  | Some (v, rest) => match skip_ws rest with EmptyString => Some v | _ => None end
  | None => None
  end.

(* ------------------------------------------------------------------ fragment expressions (for the statements) *)
(* e ::= n | roll | -e | +e | (e) | e+e | e-e | e*e, printed with arbitrary white space; a roll is printed as
   its value (what stripping the annotations leaves).  `prec_ok` says the tree is the one the text denotes
   (operands of * are not sums, right operands are not left-nested). *)
Inductive binop := OAdd | OSub | OMul.
Inductive aexp :=
| ANum (n : N)
| ARoll (v : Z)
| ANeg (ws : string) (e : aexp)
| APos (ws : string) (e : aexp)
| AParen (ws1 : string) (e : aexp) (ws2 : string)
| ABin (op : binop) (l : aexp) (ws1 ws2 : string) (r : aexp).

Definition op_text (o : binop) : string := match o with OAdd => "+" | OSub => "-" | OMul => "*" end.
Fixpoint aprint (e : aexp) : string :=
  match e with
  | ANum n => show_N n
  | ARoll v => show_Z v
  | ANeg ws e => "-" ++ ws ++ aprint e
  | APos ws e => "+" ++ ws ++ aprint e
  | AParen ws1 e ws2 => "(" ++ ws1 ++ aprint e ++ ws2 ++ ")"
  | ABin o l ws1 ws2 r => aprint l ++ ws1 ++ op_text o ++ ws2 ++ aprint r
  end.
Fixpoint avalue (e : aexp) : Z :=
  match e with
  | ANum n => Z.of_N n
  | ARoll v => v
  | ANeg _ e => (- avalue e)%Z
  | APos _ e => avalue e
  | AParen _ e _ => avalue e
  | ABin OAdd l _ _ r => (avalue l + avalue r)%Z
  | ABin OSub l _ _ r => (avalue l - avalue r)%Z
  | ABin OMul l _ _ r => (avalue l * avalue r)%Z
  end.
(* binding level: 0 = sum, 1 = product, 2 = signed atom *)
Definition alevel (e : aexp) : nat :=
  match e with
  | ABin OMul _ _ _ _ => 1
  | ABin _ _ _ _ _ => 0
  | _ => 2
  end.
Fixpoint all_ws (s : string) : bool :=
  match s with EmptyString => true | String c r => is_ws c && all_ws r end.
Fixpoint prec_ok (e : aexp) : bool :=
  match e with
  | ANum _ | ARoll _ => true
  | ANeg ws e | APos ws e => all_ws ws && Nat.leb 2 (alevel e) && prec_ok e
  | AParen ws1 e ws2 => all_ws ws1 && all_ws ws2 && prec_ok e
  | ABin OMul l ws1 ws2 r => all_ws ws1 && all_ws ws2 && Nat.leb 1 (alevel l) && Nat.leb 2 (alevel r) && prec_ok l && prec_ok r
  | ABin _ l ws1 ws2 r => all_ws ws1 && all_ws ws2 && Nat.leb 1 (alevel r) && prec_ok l && prec_ok r
  end.
