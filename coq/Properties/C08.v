(* C08 — compiled code is well-formed on every path, not only the path taken.
   Only statements, `exact lemma`, Print Assumptions.

   What is PROVED here: the byte-code verifier of Model/Verify.v is sound for the shape machine of
   Model/Bytecode.v — an accepted program (and every function / computed body it defines) can reach no
   state in which it pops an empty stack, jumps outside [0, len], meets a missing / ill-typed operand,
   closes a block that is not open, or uses dice / detail / lastPop state nobody set up, whatever the
   branch outcomes; and every pc is reached with one fixed number of open blocks.
   What is VALIDATED case by case (lib/c08.py): that the implementation's compiler output is accepted —
   the proved verifier runs inside Coq on the byte-code dumped from the real parser. *)
From Coq Require Import NArith ZArith List Bool String.
From DS Require Import Model.Bytecode Model.Verify Proofs.VerifyProofs Model.Ast Model.Compile Proofs.CompileVerified Proofs.CompileInfer.
Import ListNotations.

(* an inductive annotation is preserved by every step, and no consistent state is stuck *)
Theorem C08_verify_sound c annot :
  check c annot = true ->
  forall st, consistent annot st ->
  match sstep c st with
  | Stuck _ => False
  | Next l => Forall (consistent annot) l
  | Halt => True
  end.
Proof. exact (verify_sound c annot). Qed.

(* lifted to everything reachable from the initial state, for every choice of branch outcomes *)
Theorem C08_no_stuck_reachable c annot :
  check c annot = true -> forall st, reachable c st -> forall r, sstep c st <> Stuck r.
Proof. exact (no_stuck_reachable c annot). Qed.

(* no path reaches an instruction with a different number of open blocks / template blocks *)
Theorem C08_block_depth_unique c annot :
  check c annot = true ->
  forall s1 s2, reachable c s1 -> reachable c s2 -> pc s1 = pc s2 ->
  List.length (blocks s1) = List.length (blocks s2) /\ List.length (fblocks s1) = List.length (fblocks s2).
Proof. exact (block_depth_unique c annot). Qed.

(* control never leaves [0, len] *)
Theorem C08_step_in_bounds c s l s' :
  pc s < List.length c -> sstep c s = Next l -> In s' l -> pc s' <= List.length c.
Proof. exact (step_in_bounds c s l s'). Qed.

(* the inference is untrusted: acceptance always comes with a checked annotation *)
Theorem C08_verify_has_annotation c : verify c = true -> exists annot, check c annot = true.
Proof. exact (verify_has_annotation c). Qed.

(* whole programs: the program and every body it (transitively) defines *)
Theorem C08_verify_all_safe c :
  verify_all c = true ->
  forall b, subprogram c b ->
  (forall st, reachable b st -> forall r, sstep b st <> Stuck r) /\
  (forall s1 s2, reachable b s1 -> reachable b s2 -> pc s1 = pc s2 ->
     List.length (blocks s1) = List.length (blocks s2) /\ List.length (fblocks s1) = List.length (fblocks s2)).
Proof. exact (verify_all_safe c). Qed.

(* ---- the compiler model: EVERY program of Model/Ast.v (all expression forms incl. ||, ternary, array literals, indexing,
   dice; if / else, while, break, continue — no fragment restriction, no size bound) compiles to code that the checker
   accepts under an annotation built by recursion on the syntax tree, hence is well-formed on every path: no reachable
   state of the shape machine is stuck (no stack underflow, no jump out of bounds, no block mismatch, no missing dice /
   detail state), and two arrivals at one instruction agree on the number of open blocks.  Model/Compile.v is tied to the
   real parser instruction by instruction (K4, lib/c02.py); for programs outside that AST the verifier runs on the real
   dumps, case by case. *)
Theorem C08_compile_never_stuck :
  forall (p : stmt) s, reachable (to_shape (compile p)) s -> forall r, sstep (to_shape (compile p)) s <> Stuck r.
Proof. exact compile_never_stuck. Qed.

(* ... and the INFERENCE itself (verify, what the check runs on real dumps) accepts every such program: no annotation has to
   be supplied *)
Theorem C08_compile_verified : forall p : stmt, verify (to_shape (compile p)) = true.
Proof. exact compile_verified. Qed.

Print Assumptions C08_compile_never_stuck.
Print Assumptions C08_compile_verified.
Print Assumptions C08_verify_sound.
Print Assumptions C08_no_stuck_reachable.
Print Assumptions C08_block_depth_unique.
Print Assumptions C08_step_in_bounds.
Print Assumptions C08_verify_has_annotation.
Print Assumptions C08_verify_all_safe.

(* non-vacuity: a real dump with a loop, an if, a break, a template hole and a dice term is accepted;
   a function body is verified; the bottom-of-stack template hole is accepted *)
Example C08_nonvacuous_accepted :
  (verify Examples.ex_loop = true /\ names_ok Examples.ex_loop = true) /\
  (verify_all Examples.ex_func = true /\ count_bodies Examples.ex_func = 1) /\
  verify Examples.ex_hole = true.
Proof. exact (conj Examples.ex_loop_accepted (conj Examples.ex_func_accepted Examples.ex_hole_accepted)). Qed.

(* ... and the verifier does reject: an underflow path that the machine really takes, jumps out of bounds,
   a nil jump operand, two block depths at one pc (really reachable), missing dice / detail / block state *)
Example C08_nonvacuous_rejected :
  diagnose Examples.ex_underflow = DReject 6 Underflow /\
  (exists s, reachable Examples.ex_underflow s /\ sstep Examples.ex_underflow s = Stuck Underflow) /\
  diagnose Examples.ex_badjump = DReject 1 BadJump /\
  diagnose Examples.ex_badjump_back = DReject 1 BadJump /\
  diagnose Examples.ex_niljump = DReject 1 BadOperand /\
  diagnose Examples.ex_mismatch = DReject 3 BlockMismatch /\
  (exists s1 s2, reachable Examples.ex_mismatch s1 /\ reachable Examples.ex_mismatch s2 /\ pc s1 = pc s2 /\
                 List.length (blocks s1) <> List.length (blocks s2)).
Proof.
  exact (conj Examples.ex_underflow_rejected (conj Examples.ex_underflow_stuck (conj Examples.ex_badjump_rejected
        (conj Examples.ex_badjump_back_rejected (conj Examples.ex_niljump_rejected
        (conj Examples.ex_mismatch_rejected Examples.ex_mismatch_real)))))).
Qed.

(* a jump left at its placeholder offset 0 is indistinguishable from a genuine `jmp 0`: only its
   consequences are seen (here: rejected when a consumer follows, accepted when none does) *)
Example C08_unpatched_zero_offset_only_by_consequence :
  diagnose Examples.ex_unpatched = DReject 2 Underflow /\ verify Examples.ex_unpatched_harmless = true.
Proof. exact (conj Examples.ex_unpatched_rejected Examples.ex_unpatched_not_detected). Qed.
