(* Compiler correctness for the core fragment: the reference compiler (Model/Compile.v) against the
   validated VM model (Model/VM.v), with the definitional semantics (Model/Denote.v) as specification. *)
From Coq Require Import String Ascii NArith ZArith List Bool Lia.
From DS Require Import Model.Str Model.PCG Model.Roll Model.Dice Model.Value Model.VM Model.Ast Model.Denote Model.Compile.
Import ListNotations.
Open Scope Z_scope.

(* ------------------------------------------------------------------ small facts *)
Lemma zlen_nil : forall A, @zlen A [] = 0. Proof. reflexivity. Qed.
Lemma zlen_cons : forall A (x : A) l, zlen (x :: l) = zlen l + 1.
Proof. intros; unfold zlen; cbn [length]; lia. Qed.
Lemma zlen_app : forall A (l1 l2 : list A), zlen (l1 ++ l2) = zlen l1 + zlen l2.
Proof. intros; unfold zlen; rewrite app_length; lia. Qed.
Lemma zlen_nonneg : forall A (l : list A), 0 <= zlen l.
Proof. intros; unfold zlen; lia. Qed.

Lemma nth_error_mid : forall A (pre post : list A) x, nth_error (pre ++ x :: post) (Z.to_nat (zlen pre)) = Some x.
Proof.
  intros. unfold zlen. rewrite Nat2Z.id. rewrite nth_error_app2 by lia. rewrite Nat.sub_diag. reflexivity.
Qed.

(* ------------------------------------------------------------------ value embedding *)
Definition inj (v : dv) : value :=
  match v with
  | DvInt z => VInt z
  | DvStr s => VStr s
  | DvNull => VNull
  | DvArr _ => VNull          (* arrays are outside the proved fragment *)
  end.
Definition scalar (v : dv) : Prop := match v with DvArr _ => False | _ => True end.
Definition inj_env (m : denv) : vmap := map (fun kv => (fst kv, inj (snd kv))) m.
Definition scalar_env (m : denv) : Prop := Forall (fun kv => scalar (snd kv)) m.

Lemma mget_inj : forall x m, mget x (inj_env m) = option_map inj (dget x m).
Proof. unfold inj_env; induction m as [|[k v] r IH]; cbn; [reflexivity|]. destruct (String.eqb x k); [reflexivity|exact IH]. Qed.
Lemma mset_inj : forall x v m, mset x (inj v) (inj_env m) = inj_env (dset x v m).
Proof. unfold inj_env; induction m as [|[k w] r IH]; cbn; [reflexivity|]. destruct (String.eqb x k); cbn; [reflexivity|]. rewrite IH; reflexivity. Qed.
Lemma dset_scalar : forall x v m, scalar v -> scalar_env m -> scalar_env (dset x v m).
Proof.
  induction m as [|[k w] r IH]; cbn; intros Hv Hm.
  - constructor; [exact Hv|constructor].
  - inversion Hm as [|? ? H1 H2]; subst. destruct (String.eqb x k).
    + constructor; [exact Hv|exact H2].
    + constructor; [exact H1|apply IH; assumption].
Qed.
Lemma dlookup_scalar : forall x m, scalar_env m -> scalar (dlookup x m).
Proof.
  unfold dlookup; induction m as [|[k w] r IH]; cbn; intros Hm; [exact Logic.I|].
  inversion Hm; subst. destruct (String.eqb x k); auto.
Qed.

Lemma aget_aset_same : forall A k (v : A) m, aget k (aset k v m) = Some v.
Proof.
  induction m as [|[k' v'] r IH]; cbn.
  - rewrite N.eqb_refl; reflexivity.
  - destruct (k =? k')%N eqn:E; cbn; rewrite ?N.eqb_refl, ?E; auto.
Qed.
Lemma get_map_set_map : forall id m h, get_map id (set_map id m h) = m.
Proof. intros; unfold get_map, set_map; cbn. rewrite aget_aset_same; reflexivity. Qed.

(* ------------------------------------------------------------------ machines of the shape the proof walks through *)
Record vol := { v_dead : list value; v_last : lastpop; v_details : list (Z * Z); v_ops : Z }.

Section Run.
  Variable E : env.
  Hypothesis Hlim : cfg_op_limit (e_cfg E) = 0.
  Variable prog : code.
  Variables (dice : list dstate) (wod : wodstate) (dc : dcstate) (src : option string)
            (pcg0 : pcg) (st0 : list stcall) (attrs : N).

  Definition M (pc : Z) (live : list value) (blocks : list Z) (h : heap) (j : vol) : machine :=
    {| m_fr := {| fr_code := prog; fr_pc := pc; fr_live := live; fr_dead := v_dead j; fr_top := zlen live;
                  fr_last := v_last j; fr_blocks := blocks; fr_fblocks := []; fr_dice := dice; fr_wod := wod;
                  fr_dc := dc; fr_details := v_details j; fr_src := src; fr_err := None |};
       m_w := {| w_heap := h; w_pcg := pcg0; w_st := st0; w_chain := [{| c_attrs := attrs; c_ops := v_ops j |}] |} |}.

  (* m reaches m' in some number of instructions, whatever fuel is left *)
  (* (at least one unit of fuel is left afterwards: a program always ends with `halt`, and the fuel left is
     also the recursion fuel of structural equality inside one instruction) *)
  Definition steps (m m' : machine) : Prop := exists n, forall fuel, exec (n + S fuel) E m = exec (S fuel) E m'.
  Lemma steps_refl : forall m, steps m m.
  Proof. intros; exists 0%nat; reflexivity. Qed.
  Lemma steps_trans : forall a b c, steps a b -> steps b c -> steps a c.
  Proof.
    intros a b c [n1 H1] [n2 H2]. exists (n1 + n2)%nat. intros fuel.
    replace (n1 + n2 + S fuel)%nat with (n1 + S (n2 + fuel))%nat by lia. rewrite H1.
    replace (S (n2 + fuel)) with (n2 + S fuel)%nat by lia. apply H2.
  Qed.

  Definition counted (j : vol) : vol :=
    {| v_dead := v_dead j; v_last := v_last j; v_details := v_details j;
       v_ops := fst (ops_add (e_cfg E) (v_ops j) 1) |}.

  Lemma ops_not_over : forall ops n, snd (ops_add (e_cfg E) ops n) = false.
  Proof. intros; unfold ops_add; cbn [snd]. rewrite Hlim. reflexivity. Qed.

  (* one turn of the loop of evaluate() *)
  Lemma exec_S : forall fuel pc live blocks h j ins,
    0 <= pc -> nth_error prog (Z.to_nat pc) = Some ins -> zlen live <> stack_size ->
    exec (S fuel) E (M pc live blocks h j) =
    match step (exec fuel E) fuel E ins (M pc live blocks h (counted j)) with
    | SNext m2 => exec fuel E {| m_fr := fr_set_pc (m_fr m2) (fr_pc (m_fr m2) + 1); m_w := m_w m2 |}
    | SStop m2 => Fin m2
    | SFail e m2 => Fail e m2
    | SPanic s => Panic s
    | SFuel => OutOfFuel
    | SUnsup s => Unsupported s
    end.
  Proof.
    intros fuel pc live blocks h j ins Hpc Hn Htop.
    assert (Hlt : zlen prog <=? pc = false).
    { apply Z.leb_gt. assert (Z.to_nat pc < length prog)%nat by (apply nth_error_Some; congruence). unfold zlen; lia. }
    cbn [exec]. cbn [M m_fr fr_code fr_pc]. rewrite Hlt.
    unfold count_op. cbn [M m_w w_self w_chain hd c_ops].
    destruct (ops_add (e_cfg E) (v_ops j) 1) as [ops' over] eqn:Eo.
    assert (over = false) by (pose proof (ops_not_over (v_ops j) 1) as X; rewrite Eo in X; exact X). subst over.
    cbn [fr_err fr_top]. 
    assert (Ht : (zlen live =? stack_size) = false) by (apply Z.eqb_neq; exact Htop). rewrite Ht.
    assert (Hp : (pc <? 0) = false) by (apply Z.ltb_ge; lia). rewrite Hp. rewrite Hn.
    unfold counted. rewrite Eo. cbn [fst]. reflexivity.
  Qed.

  Lemma leb_size : forall l : list value, zlen l < 999 -> (stack_size <=? zlen l) = false.
  Proof. intros; apply Z.leb_gt; unfold stack_size; lia. Qed.

  Ltac simp_m :=
    cbv beta iota delta [mk fr_set_stack fr_set_pc fr_set_blocks fr_set_details fr_set_err w_set_heap jump];
    cbn [m_fr m_w fr_code fr_pc fr_live fr_dead fr_top
         fr_last fr_blocks fr_fblocks fr_dice fr_wod fr_dc fr_details fr_src fr_err w_heap w_pcg w_st w_chain tl
         v_dead v_last v_details v_ops].

  Ltac one_step Hpc Hn Htop :=
    exists 1%nat; intros fuel; change (1 + S fuel)%nat with (S (S fuel));
    rewrite (exec_S (S fuel) _ _ _ _ _ _ Hpc Hn Htop).

  Ltac eq_m := unfold M; simp_m; rewrite ?zlen_cons; repeat f_equal; try lia.

  (* m fails with class c, leaving the variables vars *)
  Definition vars_of_m (m : machine) : vmap := get_map (c_attrs (w_self (m_w m))) (w_heap (m_w m)).
  Definition fails (m : machine) (c : eclass) (vars : vmap) : Prop :=
    exists n, forall fuel, exists m', exec (n + S (S fuel)) E m = Fail c m' /\ vars_of_m m' = vars.
  Lemma steps_fails : forall a b c vars, steps a b -> fails b c vars -> fails a c vars.
  Proof.
    intros a b c vars [n1 H1] [n2 H2]. exists (n1 + n2)%nat. intros fuel.
    destruct (H2 fuel) as [m' [Hm Hv]]. exists m'. split; [|exact Hv].
    replace (n1 + n2 + S (S fuel))%nat with (n1 + S (n2 + S fuel))%nat by lia. rewrite H1.
    replace (S (n2 + S fuel)) with (n2 + S (S fuel))%nat by lia. exact Hm.
  Qed.

  (* ---- pushes *)
  Lemma step_push : forall pc live blocks h j ins v,
    (forall call f m, step call f E ins m = do_push v (m_fr m) (m_w m)) ->
    0 <= pc -> nth_error prog (Z.to_nat pc) = Some ins -> zlen live < 999 ->
    exists j', steps (M pc live blocks h j) (M (pc + 1) (v :: live) blocks h j').
  Proof.
    intros pc live blocks h j ins v Hs Hpc Hn Htop.
    assert (Hne : zlen live <> stack_size) by (unfold stack_size; lia).
    exists {| v_dead := tl (v_dead j); v_last := v_last j; v_details := v_details j; v_ops := v_ops (counted j) |}.
    one_step Hpc Hn Hne. rewrite Hs.
    cbn [M m_fr m_w]. unfold do_push, push. cbn [fr_top].
    rewrite (leb_size live Htop). eq_m.
  Qed.

  Lemma step_mark : forall pc live blocks h j b e,
    0 <= pc -> nth_error prog (Z.to_nat pc) = Some (I OpMarkDetail (OSpan b e)) -> zlen live < 999 ->
    exists j', steps (M pc live blocks h j) (M (pc + 1) live blocks h j') /\ v_details j' <> [].
  Proof.
    intros pc live blocks h j b e Hpc Hn Htop.
    assert (Hne : zlen live <> stack_size) by (unfold stack_size; lia).
    exists {| v_dead := v_dead j; v_last := v_last j; v_details := (b, e) :: v_details j; v_ops := v_ops (counted j) |}.
    split; [|discriminate].
    one_step Hpc Hn Hne. cbn [step i_op i_arg M m_fr m_w]. eq_m.
  Qed.

  (* ---- variables *)
  Lemma load_scalar : forall call x h ops env,
    get_map attrs h = inj_env env -> scalar_env env -> mem_s x builtin_names = false ->
    load_name call E x false {| w_heap := h; w_pcg := pcg0; w_st := st0; w_chain := [{| c_attrs := attrs; c_ops := ops |}] |}
    = ROk (inj (dlookup x env)) {| w_heap := h; w_pcg := pcg0; w_st := st0; w_chain := [{| c_attrs := attrs; c_ops := ops |}] |}.
  Proof.
    intros call x h ops env Hh Hs Hb. unfold load_name. cbn [w_chain length load_walk nth_error c_attrs w_heap].
    rewrite Hh, mget_inj. unfold dlookup. unfold load_global. rewrite Hb.
    pose proof (dlookup_scalar x env Hs) as Hsc. unfold dlookup in Hsc.
    destruct (dget x env) as [v|]; cbn [option_map]; [|reflexivity].
    destruct v; cbn [inj rbind]; try reflexivity; contradiction.
  Qed.

  Lemma step_ldd : forall pc live blocks h j x env,
    get_map attrs h = inj_env env -> scalar_env env -> mem_s x builtin_names = false ->
    0 <= pc -> nth_error prog (Z.to_nat pc) = Some (I OpLdD (OStr x)) -> zlen live < 999 ->
    exists j', steps (M pc live blocks h j) (M (pc + 1) (inj (dlookup x env) :: live) blocks h j').
  Proof.
    intros pc live blocks h j x env Hh Hs Hb Hpc Hn Htop.
    assert (Hne : zlen live <> stack_size) by (unfold stack_size; lia).
    exists {| v_dead := tl (v_dead j); v_last := v_last j;
              v_details := match v_details j with [] => [(0, 0)] | _ => v_details j end; v_ops := v_ops (counted j) |}.
    one_step Hpc Hn Hne. cbn [step i_op i_arg M m_fr m_w arg_str].
    rewrite (load_scalar _ x h _ env Hh Hs Hb).
    unfold lift, check_err, last_detail. cbn [fr_details v_details counted].
    destruct (v_details j) eqn:Ed; simp_m; unfold do_push, push; simp_m; rewrite (leb_size live Htop); eq_m.
  Qed.

  Lemma step_store : forall pc v live blocks h j x,
    0 <= pc -> nth_error prog (Z.to_nat pc) = Some (I OpStore (OStr x)) -> zlen (v :: live) < 1000 ->
    exists j', steps (M pc (v :: live) blocks h j)
                     (M (pc + 1) (v :: live) blocks (set_map attrs (mset x v (get_map attrs h)) h) j').
  Proof.
    intros pc v live blocks h j x Hpc Hn Htop.
    assert (Hne : zlen (v :: live) <> stack_size) by (unfold stack_size; lia).
    exists (counted j).
    one_step Hpc Hn Hne. cbn [step i_op i_arg M m_fr m_w arg_str fr_live].
    unfold store_name, w_set_heap, w_self. simp_m. cbn [hd c_attrs]. eq_m.
  Qed.

  (* ---- truthiness *)
  Lemma as_bool_inj : forall fn h v, scalar v -> as_bool fn h (inj v) = truthy v.
  Proof. intros fn h v Hs; destruct v; cbn; try reflexivity; contradiction. Qed.

  (* ---- unary *)
  Lemma step_unary : forall pc a live blocks h j o,
    scalar a -> 0 <= pc -> nth_error prog (Z.to_nat pc) = Some (I (un_opcode o) ONil) -> zlen (inj a :: live) < 1000 ->
    match un_sem o a with
    | BV v => exists j', steps (M pc (inj a :: live) blocks h j) (M (pc + 1) (inj v :: live) blocks h j') /\ scalar v
    | BE c => fails (M pc (inj a :: live) blocks h j) c (get_map attrs h)
    | BU _ => True
    end.
  Proof.
    intros pc a live blocks h j o Hsa Hpc Hn Htop.
    assert (Hne : zlen (inj a :: live) <> stack_size) by (unfold stack_size; lia).
    assert (Hl : zlen live < 999) by (rewrite zlen_cons in Htop; lia).
    destruct a; try contradiction; cbn [un_sem inj].
    - (* int *)
      exists {| v_dead := v_dead j; v_last := LSlot (zlen live + 1 - 1); v_details := v_details j; v_ops := v_ops (counted j) |}.
      split; [|exact Logic.I].
      one_step Hpc Hn Hne. destruct o; cbn [un_opcode step i_op i_arg M m_fr m_w with_pop pop fr_live inj];
        simp_m; unfold do_push, push; simp_m; rewrite zlen_cons;
        (replace (stack_size <=? zlen live + 1 - 1) with false by (symmetry; apply Z.leb_gt; unfold stack_size; lia));
        eq_m.
    - exists 0%nat. intros fuel. eexists. split.
      + change (0 + S (S fuel))%nat with (S (S fuel)). rewrite (exec_S (S fuel) _ _ _ _ _ _ Hpc Hn Hne).
        destruct o; cbn [un_opcode step i_op i_arg M m_fr m_w with_pop pop fr_live]; reflexivity.
      + reflexivity.
    - exists 0%nat. intros fuel. eexists. split.
      + change (0 + S (S fuel))%nat with (S (S fuel)). rewrite (exec_S (S fuel) _ _ _ _ _ _ Hpc Hn Hne).
        destruct o; cbn [un_opcode step i_op i_arg M m_fr m_w with_pop pop fr_live]; reflexivity.
      + reflexivity.
  Qed.

  (* ---- binary operators: the VM's operator table against the documented rule (bin_sem), on scalars *)
  Lemma value_equal_scalar : forall r fn h a b, scalar a -> scalar b ->
    value_equal (S r) fn h (inj a) (inj b) = Some (dv_eqb a b).
  Proof. intros r fn h a b Ha Hb; destruct a, b; try contradiction; reflexivity. Qed.

  Lemma bin_op_spec : forall r o a b w, scalar a -> scalar b -> o <> BAnd ->
    match bin_sem (e_cfg E) o a b with
    | BV v => bin_op (S r) E (bin_opcode o) (inj a) (inj b) w = ROk (inj v) w /\ scalar v
    | BE c => bin_op (S r) E (bin_opcode o) (inj a) (inj b) w = RFail c w
    | BU _ => True
    end.
  Proof.
    intros r o a b w Ha Hb Ho.
    destruct o; try congruence;
      try (destruct a, b; try contradiction; cbn; try (split; [reflexivity|exact Logic.I]); try reflexivity; fail).
    - (* div *)
      destruct a, b; try contradiction; cbn; try reflexivity.
      destruct (z0 =? 0); [destruct (cfg_ignore_div0 (e_cfg E))|]; cbn; try (split; [reflexivity|exact Logic.I]); reflexivity.
    - (* mod *)
      destruct a, b; try contradiction; cbn; try reflexivity.
      destruct (z0 =? 0); cbn; try (split; [reflexivity|exact Logic.I]); reflexivity.
    - (* pow *)
      destruct a, b; try contradiction; cbn; try reflexivity.
      destruct (int_pow z z0); cbn; [split; [reflexivity|exact Logic.I]|exact Logic.I].
  Qed.

  Lemma step_bin_shape : forall call f o m, o <> BAnd ->
    step call f E (I (bin_opcode o) ONil) m =
    with_pop2 (m_fr m) (fun v1 v2 fr1 =>
      match bin_op f E (bin_opcode o) v1 v2 (m_w m), fr_err fr1 with
      | RFail EType w1, Some e => SFail e (mk fr1 w1)
      | r, _ => lift r fr1 (fun v w1 => do_push v fr1 w1)
      end).
  Proof. intros call f o m Ho; destruct o; try congruence; reflexivity. Qed.

  Lemma step_binop : forall pc a b live blocks h j o,
    scalar a -> scalar b -> o <> BAnd ->
    0 <= pc -> nth_error prog (Z.to_nat pc) = Some (I (bin_opcode o) ONil) -> zlen (inj b :: inj a :: live) < 1000 ->
    match bin_sem (e_cfg E) o a b with
    | BV v => exists j', steps (M pc (inj b :: inj a :: live) blocks h j) (M (pc + 1) (inj v :: live) blocks h j') /\ scalar v
    | BE c => fails (M pc (inj b :: inj a :: live) blocks h j) c (get_map attrs h)
    | BU _ => True
    end.
  Proof.
    intros pc a b live blocks h j o Ha Hb Ho Hpc Hn Htop.
    assert (Hne : zlen (inj b :: inj a :: live) <> stack_size) by (unfold stack_size; lia).
    assert (Hl : zlen live < 998) by (rewrite !zlen_cons in Htop; lia).
    destruct (bin_sem (e_cfg E) o a b) as [v|c|why] eqn:Es; [| |exact Logic.I].
    - exists {| v_dead := inj b :: v_dead j; v_last := LSlot (zlen live + 1 + 1 - 1 - 1); v_details := v_details j; v_ops := v_ops (counted j) |}.
      assert (Hsp : forall r w, bin_op (S r) E (bin_opcode o) (inj a) (inj b) w = ROk (inj v) w /\ scalar v).
      { intros r w. pose proof (bin_op_spec r o a b w Ha Hb Ho) as X. rewrite Es in X. exact X. }
      split; [|exact (proj2 (Hsp 0%nat (m_w (M pc live blocks h j))))].
      one_step Hpc Hn Hne. rewrite (step_bin_shape _ _ o _ Ho).
      cbn [M m_fr m_w with_pop2 with_pop pop fr_live]. simp_m. cbn [with_pop pop fr_live]. simp_m.
      rewrite (proj1 (Hsp fuel _)). unfold lift, check_err. simp_m. unfold do_push, push. simp_m. rewrite !zlen_cons.
      (replace (stack_size <=? zlen live + 1 + 1 - 1 - 1) with false by (symmetry; apply Z.leb_gt; unfold stack_size; lia)).
      eq_m.
    - assert (Hsp : forall r w, bin_op (S r) E (bin_opcode o) (inj a) (inj b) w = RFail c w).
      { intros r w. pose proof (bin_op_spec r o a b w Ha Hb Ho) as X. rewrite Es in X. exact X. }
      exists 0%nat. intros fuel. eexists. split.
      + change (0 + S (S fuel))%nat with (S (S fuel)).
        rewrite (exec_S (S fuel) _ _ _ _ _ _ Hpc Hn Hne). rewrite (step_bin_shape _ _ o _ Ho).
        cbn [M m_fr m_w with_pop2 with_pop pop fr_live]. simp_m. cbn [with_pop pop fr_live]. simp_m.
        rewrite (Hsp fuel _). destruct c; reflexivity.
      + reflexivity.
  Qed.

  (* ---- && : plain binary instruction, both operands already evaluated *)
  Lemma step_and : forall pc a b live blocks h j,
    scalar a -> scalar b ->
    0 <= pc -> nth_error prog (Z.to_nat pc) = Some (I OpAnd ONil) -> zlen (inj b :: inj a :: live) < 1000 ->
    exists j', steps (M pc (inj b :: inj a :: live) blocks h j)
                     (M (pc + 1) (inj (if truthy a then b else a) :: live) blocks h j').
  Proof.
    intros pc a b live blocks h j Ha Hb Hpc Hn Htop.
    assert (Hne : zlen (inj b :: inj a :: live) <> stack_size) by (unfold stack_size; lia).
    assert (Hl : zlen live < 998) by (rewrite !zlen_cons in Htop; lia).
    exists {| v_dead := inj b :: v_dead j; v_last := LSlot (zlen live + 1 + 1 - 1 - 1); v_details := v_details j; v_ops := v_ops (counted j) |}.
    one_step Hpc Hn Hne.
    cbn [step i_op i_arg M m_fr m_w with_pop2 with_pop pop fr_live]. simp_m. cbn [with_pop pop fr_live]. simp_m.
    rewrite (as_bool_inj _ _ a Ha). unfold do_push, push. simp_m. rewrite !zlen_cons.
    (replace (stack_size <=? zlen live + 1 + 1 - 1 - 1) with false by (symmetry; apply Z.leb_gt; unfold stack_size; lia)).
    destruct (truthy a); eq_m.
  Qed.

  (* ---- jumps *)
  Lemma step_jmp : forall pc live blocks h j off,
    0 <= pc -> nth_error prog (Z.to_nat pc) = Some (I OpJmp (OInt off)) -> zlen live < 1000 ->
    steps (M pc live blocks h j) (M (pc + off + 1) live blocks h (counted j)).
  Proof.
    intros pc live blocks h j off Hpc Hn Htop.
    assert (Hne : zlen live <> stack_size) by (unfold stack_size; lia).
    one_step Hpc Hn Hne. cbn [step i_op i_arg M m_fr m_w arg_int]. eq_m.
  Qed.

  Definition popped (v : value) (n : Z) (j : vol) : vol :=
    {| v_dead := v :: v_dead j; v_last := LSlot n; v_details := v_details j; v_ops := v_ops (counted j) |}.

  Lemma step_jne : forall pc a live blocks h j off,
    scalar a -> 0 <= pc -> nth_error prog (Z.to_nat pc) = Some (I OpJne (OInt off)) -> zlen (inj a :: live) < 1000 ->
    steps (M pc (inj a :: live) blocks h j)
          (M (if truthy a then pc + 1 else pc + off + 1) live blocks h (popped (inj a) (zlen live) j)).
  Proof.
    intros pc a live blocks h j off Ha Hpc Hn Htop.
    assert (Hne : zlen (inj a :: live) <> stack_size) by (unfold stack_size; lia).
    one_step Hpc Hn Hne.
    cbn [step i_op i_arg M m_fr m_w with_pop pop fr_live arg_int]. simp_m.
    rewrite (as_bool_inj _ _ a Ha). unfold popped. destruct (truthy a); eq_m.
  Qed.

  (* `je.dup k` on a truthy top: the value stays, k instructions are skipped *)
  Lemma step_jedup_true : forall pc a live blocks h j off,
    scalar a -> truthy a = true ->
    0 <= pc -> nth_error prog (Z.to_nat pc) = Some (I OpJeDup (OInt off)) -> zlen (inj a :: live) < 1000 ->
    exists j', steps (M pc (inj a :: live) blocks h j) (M (pc + off + 1) (inj a :: live) blocks h j').
  Proof.
    intros pc a live blocks h j off Ha Ht Hpc Hn Htop.
    assert (Hne : zlen (inj a :: live) <> stack_size) by (unfold stack_size; lia).
    assert (Hl : zlen live < 999) by (rewrite !zlen_cons in Htop; lia).
    exists {| v_dead := v_dead j; v_last := LSlot (zlen live + 1 - 1); v_details := v_details j; v_ops := v_ops (counted j) |}.
    one_step Hpc Hn Hne.
    cbn [step i_op i_arg M m_fr m_w with_pop pop fr_live arg_int]. simp_m.
    rewrite (as_bool_inj _ _ a Ha), Ht. unfold do_push, push. simp_m. rewrite !zlen_cons.
    (replace (stack_size <=? zlen live + 1 - 1) with false by (symmetry; apply Z.leb_gt; unfold stack_size; lia)).
    eq_m.
  Qed.

  (* `je.dup k` on a falsy top: the value is popped (it stays readable through lastPop) *)
  Lemma step_jedup_false : forall pc a live blocks h j off,
    scalar a -> truthy a = false ->
    0 <= pc -> nth_error prog (Z.to_nat pc) = Some (I OpJeDup (OInt off)) -> zlen (inj a :: live) < 1000 ->
    steps (M pc (inj a :: live) blocks h j) (M (pc + 1) live blocks h (popped (inj a) (zlen live) j)).
  Proof.
    intros pc a live blocks h j off Ha Ht Hpc Hn Htop.
    assert (Hne : zlen (inj a :: live) <> stack_size) by (unfold stack_size; lia).
    one_step Hpc Hn Hne.
    cbn [step i_op i_arg M m_fr m_w with_pop pop fr_live arg_int]. simp_m.
    rewrite (as_bool_inj _ _ a Ha), Ht. unfold popped. eq_m.
  Qed.

  (* push.last right after a pop: pushes the popped value back *)
  Lemma step_pushlast : forall pc v live blocks h j,
    0 <= pc -> nth_error prog (Z.to_nat pc) = Some (I OpPushLast ONil) -> zlen live < 999 ->
    exists j', steps (M pc live blocks h (popped v (zlen live) j)) (M (pc + 1) (v :: live) blocks h j').
  Proof.
    intros pc v live blocks h j Hpc Hn Htop.
    assert (Hne : zlen live <> stack_size) by (unfold stack_size; lia).
    exists {| v_dead := v_dead j; v_last := LSlot (zlen live); v_details := v_details j; v_ops := v_ops (counted (popped v (zlen live) j)) |}.
    one_step Hpc Hn Hne.
    cbn [step i_op i_arg M m_fr m_w fr_last popped counted v_last]. unfold read_slot. simp_m.
    pose proof (zlen_nonneg _ live) as Hnn.
    (replace (zlen live <? 0) with false by (symmetry; apply Z.ltb_ge; lia)).
    rewrite Z.ltb_irrefl, Z.sub_diag. cbn [Z.to_nat nth_error popped counted v_dead].
    unfold do_push, push. simp_m. rewrite (leb_size live Htop). cbn [popped counted v_dead v_last v_details v_ops]. eq_m.
  Qed.

  (* ---- code in context *)
  Definition code_at (pc : Z) (seg : code) : Prop := exists pre post, prog = pre ++ seg ++ post /\ zlen pre = pc.
  Lemma code_at_app_l : forall pc a b, code_at pc (a ++ b) -> code_at pc a.
  Proof. intros pc a b [pre [post [H1 H2]]]. exists pre, (b ++ post). split; [|exact H2]. rewrite H1, <- app_assoc. reflexivity. Qed.
  Lemma code_at_app_r : forall pc a b, code_at pc (a ++ b) -> code_at (pc + zlen a) b.
  Proof.
    intros pc a b [pre [post [H1 H2]]]. exists (pre ++ a), post. split.
    - rewrite H1, <- !app_assoc. reflexivity.
    - rewrite zlen_app; lia.
  Qed.
  Lemma code_at_head : forall pc i r, code_at pc (i :: r) -> 0 <= pc /\ nth_error prog (Z.to_nat pc) = Some i.
  Proof.
    intros pc i r [pre [post [H1 H2]]]. subst pc. split; [apply zlen_nonneg|].
    rewrite H1. cbn [app]. apply nth_error_mid.
  Qed.
  Lemma code_at_tail : forall pc i r, code_at pc (i :: r) -> code_at (pc + 1) r.
  Proof. intros pc i r H. apply (code_at_app_r pc [i] r) in H. rewrite zlen_cons, zlen_nil in H. exact H. Qed.

  (* ---- the fragment inside the induction *)
  Fixpoint core_expr (e : expr) : Prop :=
    match e with
    | EInt _ | EStr _ | ENull | ETrue | EFalse => True
    | EVar x => mem_s x builtin_names = false
    | EAssign _ e1 | EUn _ e1 => core_expr e1
    | EBin _ l r | EOr l r => core_expr l /\ core_expr r
    | ETern c a b => core_expr c /\ core_expr a /\ core_expr b
    | EArr _ | EIdx _ _ | ERoll _ _ => False
    end.

  (* operand-stack slots an expression needs above the current top *)
  Fixpoint need (e : expr) : Z :=
    match e with
    | EAssign _ e1 | EUn _ e1 => need e1
    | EBin _ l r => Z.max (need l) (1 + need r)
    | EOr l r => Z.max (need l) (need r)
    | ETern c a b => Z.max (need c) (Z.max (need a) (need b))
    | _ => 1
    end.
  Lemma need_pos : forall e, 1 <= need e.
  Proof. induction e; cbn [need]; lia. Qed.

  Lemma step_binop_all : forall pc a b live blocks h j o,
    scalar a -> scalar b ->
    0 <= pc -> nth_error prog (Z.to_nat pc) = Some (I (bin_opcode o) ONil) -> zlen (inj b :: inj a :: live) < 1000 ->
    match bin_sem (e_cfg E) o a b with
    | BV v => exists j', steps (M pc (inj b :: inj a :: live) blocks h j) (M (pc + 1) (inj v :: live) blocks h j') /\ scalar v
    | BE c => fails (M pc (inj b :: inj a :: live) blocks h j) c (get_map attrs h)
    | BU _ => True
    end.
  Proof.
    intros pc a b live blocks h j o Ha Hb Hpc Hn Htop.
    destruct o; try (apply step_binop; try assumption; discriminate).
    cbn [bin_sem]. destruct (step_and pc a b live blocks h j Ha Hb Hpc Hn Htop) as [j' Hj]. exists j'. split; [exact Hj|].
    destruct (truthy a); assumption.
  Qed.

  Ltac pcfix := repeat rewrite ?zlen_app, ?zlen_cons, ?zlen_nil; lia.

  Definition expr_post (e : expr) (env : denv) (pc : Z) (live : list value) (blocks : list Z) (h : heap) (j : vol) : Prop :=
    match dexpr (e_cfg E) e env with
    | EV v env' => exists h' j', steps (M pc live blocks h j) (M (pc + zlen (compile_expr e)) (inj v :: live) blocks h' j')
                                 /\ get_map attrs h' = inj_env env' /\ scalar v /\ scalar_env env'
    | EE c env' => fails (M pc live blocks h j) c (inj_env env')
    | EU _ => True
    end.

  Lemma expr_correct : forall e, core_expr e -> forall env pc live blocks h j,
    code_at pc (compile_expr e) -> get_map attrs h = inj_env env -> scalar_env env -> zlen live + need e <= 999 ->
    expr_post e env pc live blocks h j.
  Proof.
    induction e; intros Hcore env pc live blocks h j Hat Hh Hs Hneed; unfold expr_post; cbn [core_expr] in Hcore; try contradiction.
    - (* EInt *)
      cbn [dexpr compile_expr] in *. destruct (code_at_head _ _ _ Hat) as [Hpc Hn].
      destruct (step_push pc live blocks h j (I OpPushInt (OInt (lit_int n))) (VInt (lit_int n)) (fun _ _ _ => eq_refl) Hpc Hn) as [j' Hj]; [cbn [need] in Hneed; lia|].
      exists h, j'. rewrite zlen_cons, zlen_nil. repeat split; auto.
    - (* EStr *)
      cbn [dexpr compile_expr] in *. destruct (code_at_head _ _ _ Hat) as [Hpc Hn].
      destruct (step_push pc live blocks h j (I OpPushStr (OStr s)) (VStr s) (fun _ _ _ => eq_refl) Hpc Hn) as [j' Hj]; [cbn [need] in Hneed; lia|].
      exists h, j'. rewrite zlen_cons, zlen_nil. repeat split; auto.
    - (* ENull *)
      cbn [dexpr compile_expr] in *. destruct (code_at_head _ _ _ Hat) as [Hpc Hn].
      destruct (step_push pc live blocks h j (I OpPushNull ONil) VNull (fun _ _ _ => eq_refl) Hpc Hn) as [j' Hj]; [cbn [need] in Hneed; lia|].
      exists h, j'. rewrite zlen_cons, zlen_nil. repeat split; auto.
    - (* ETrue *)
      cbn [dexpr compile_expr] in *. destruct (code_at_head _ _ _ Hat) as [Hpc Hn].
      destruct (step_push pc live blocks h j (I OpPushInt (OInt 1)) (VInt 1) (fun _ _ _ => eq_refl) Hpc Hn) as [j' Hj]; [cbn [need] in Hneed; lia|].
      exists h, j'. rewrite zlen_cons, zlen_nil. repeat split; auto.
    - (* EFalse *)
      cbn [dexpr compile_expr] in *. destruct (code_at_head _ _ _ Hat) as [Hpc Hn].
      destruct (step_push pc live blocks h j (I OpPushInt (OInt 0)) (VInt 0) (fun _ _ _ => eq_refl) Hpc Hn) as [j' Hj]; [cbn [need] in Hneed; lia|].
      exists h, j'. rewrite zlen_cons, zlen_nil. repeat split; auto.
    - (* EVar *)
      cbn [dexpr compile_expr need] in *. destruct (code_at_head _ _ _ Hat) as [Hpc Hn].
      destruct (code_at_head _ _ _ (code_at_tail _ _ _ Hat)) as [Hpc2 Hn2].
      destruct (step_mark pc live blocks h j 0 0 Hpc Hn) as [j1 [Hj1 _]]; [lia|].
      destruct (step_ldd (pc + 1) live blocks h j1 x env Hh Hs Hcore Hpc2 Hn2) as [j2 Hj2]; [lia|].
      exists h, j2. repeat split; auto.
      + replace (pc + zlen [I OpMarkDetail (OSpan 0 0); I OpLdD (OStr x)]) with (pc + 1 + 1) by pcfix.
        eapply steps_trans; eassumption.
      + apply dlookup_scalar; assumption.
    - (* EAssign *)
      cbn [dexpr compile_expr need] in *.
      pose proof (IHe Hcore env pc live blocks h j (code_at_app_l _ _ _ Hat) Hh Hs Hneed) as IH. unfold expr_post in IH.
      destruct (dexpr (e_cfg E) e env) as [v env1|c env1|w]; [|exact IH|exact Logic.I].
      destruct IH as [h1 [j1 [Hst [Hh1 [Hv Hs1]]]]].
      destruct (code_at_head _ _ _ (code_at_app_r _ _ _ Hat)) as [Hpc Hn].
      destruct (step_store (pc + zlen (compile_expr e)) (inj v) live blocks h1 j1 x Hpc Hn) as [j2 Hj2].
      { rewrite zlen_cons. pose proof (need_pos e). lia. }
      exists (set_map attrs (mset x (inj v) (get_map attrs h1)) h1), j2. repeat split.
      + replace (pc + zlen (compile_expr e ++ [I OpStore (OStr x)])) with (pc + zlen (compile_expr e) + 1) by pcfix.
        eapply steps_trans; eassumption.
      + rewrite get_map_set_map, Hh1. apply mset_inj.
      + exact Hv.
      + apply dset_scalar; assumption.
    - (* EUn *)
      cbn [dexpr compile_expr need] in *.
      pose proof (IHe Hcore env pc live blocks h j (code_at_app_l _ _ _ Hat) Hh Hs Hneed) as IH. unfold expr_post in IH.
      destruct (dexpr (e_cfg E) e env) as [v env1|c env1|w]; [|exact IH|exact Logic.I].
      destruct IH as [h1 [j1 [Hst [Hh1 [Hv Hs1]]]]].
      destruct (code_at_head _ _ _ (code_at_app_r _ _ _ Hat)) as [Hpc Hn].
      pose proof (step_unary (pc + zlen (compile_expr e)) v live blocks h1 j1 o Hv Hpc Hn) as Hu.
      assert (Hb : zlen (inj v :: live) < 1000) by (rewrite zlen_cons; pose proof (need_pos e); lia).
      specialize (Hu Hb). destruct (un_sem o v) as [r|c|w]; cbn [lift_b].
      + destruct Hu as [j2 [Hj2 Hr]]. exists h1, j2. repeat split; auto.
        replace (pc + zlen (compile_expr e ++ [I (un_opcode o) ONil])) with (pc + zlen (compile_expr e) + 1) by pcfix.
        eapply steps_trans; eassumption.
      + rewrite <- Hh1. eapply steps_fails; eassumption.
      + exact Logic.I.
    - (* EBin *)
      cbn [dexpr compile_expr need] in *. destruct Hcore as [Hc1 Hc2].
      pose proof (IHe1 Hc1 env pc live blocks h j (code_at_app_l _ _ _ Hat) Hh Hs ltac:(lia)) as IH1. unfold expr_post in IH1.
      destruct (dexpr (e_cfg E) e1 env) as [a env1|c env1|w]; [|exact IH1|exact Logic.I].
      destruct IH1 as [h1 [j1 [Hst1 [Hh1 [Ha Hs1]]]]].
      pose proof (code_at_app_r _ _ _ Hat) as Hat2.
      pose proof (IHe2 Hc2 env1 (pc + zlen (compile_expr e1)) (inj a :: live) blocks h1 j1 (code_at_app_l _ _ _ Hat2) Hh1 Hs1) as IH2.
      assert (Hn2 : zlen (inj a :: live) + need e2 <= 999) by (rewrite zlen_cons; lia).
      specialize (IH2 Hn2). unfold expr_post in IH2.
      destruct (dexpr (e_cfg E) e2 env1) as [b env2|c env2|w]; [|eapply steps_fails; eassumption|exact Logic.I].
      destruct IH2 as [h2 [j2 [Hst2 [Hh2 [Hb Hs2]]]]].
      destruct (code_at_head _ _ _ (code_at_app_r _ _ _ Hat2)) as [Hpc Hn].
      pose proof (step_binop_all (pc + zlen (compile_expr e1) + zlen (compile_expr e2)) a b live blocks h2 j2 o Ha Hb Hpc Hn) as Hop.
      assert (Hb3 : zlen (inj b :: inj a :: live) < 1000) by (rewrite !zlen_cons; pose proof (need_pos e2); lia).
      specialize (Hop Hb3). destruct (bin_sem (e_cfg E) o a b) as [r|c|w]; cbn [lift_b].
      + destruct Hop as [j3 [Hj3 Hr]]. exists h2, j3. repeat split; auto.
        replace (pc + zlen (compile_expr e1 ++ compile_expr e2 ++ [I (bin_opcode o) ONil]))
          with (pc + zlen (compile_expr e1) + zlen (compile_expr e2) + 1) by pcfix.
        eapply steps_trans; [exact Hst1|]. eapply steps_trans; eassumption.
      + rewrite <- Hh2. eapply steps_fails; [exact Hst1|]. eapply steps_fails; eassumption.
      + exact Logic.I.
    - (* EOr *)
      cbn [dexpr compile_expr need] in *. destruct Hcore as [Hc1 Hc2].
      set (cl := compile_expr e1) in *. set (cr := compile_expr e2) in *.
      pose proof (IHe1 Hc1 env pc live blocks h j (code_at_app_l _ _ _ Hat) Hh Hs ltac:(lia)) as IH1. unfold expr_post in IH1.
      destruct (dexpr (e_cfg E) e1 env) as [a env1|c env1|w]; [|exact IH1|exact Logic.I].
      destruct IH1 as [h1 [j1 [Hst1 [Hh1 [Ha Hs1]]]]]. fold cl in Hst1.
      pose proof (code_at_app_r _ _ _ Hat) as Hat2.                       (* je.dup :: cr ++ [je.dup; push.last] *)
      cbn [app] in Hat2.
      destruct (code_at_head _ _ _ Hat2) as [Hpc1 Hn1].
      pose proof (code_at_tail _ _ _ Hat2) as Hat3.                       (* cr ++ [je.dup 1; push.last] *)
      assert (Hb1 : zlen (inj a :: live) < 1000) by (rewrite zlen_cons; pose proof (need_pos e1); lia).
      assert (Hend : pc + zlen (cl ++ I OpJeDup (OInt (zlen cr + 2)) :: cr ++ [I OpJeDup (OInt 1); I OpPushLast ONil])
                     = pc + zlen cl + zlen cr + 3) by pcfix.
      cbn [app]. rewrite Hend.
      destruct (truthy a) eqn:Ta.
      + destruct (step_jedup_true (pc + zlen cl) a live blocks h1 j1 _ Ha Ta Hpc1 Hn1 Hb1) as [j2 Hj2].
        exists h1, j2. repeat split; auto.
        replace (pc + zlen cl + zlen cr + 3) with (pc + zlen cl + (zlen cr + 2) + 1) by lia.
        eapply steps_trans; eassumption.
      + pose proof (step_jedup_false (pc + zlen cl) a live blocks h1 j1 _ Ha Ta Hpc1 Hn1 Hb1) as Hj2.
        pose proof (IHe2 Hc2 env1 (pc + zlen cl + 1) live blocks h1 (popped (inj a) (zlen live) j1)
                         (code_at_app_l _ _ _ Hat3) Hh1 Hs1 ltac:(lia)) as IH2. unfold expr_post in IH2.
        destruct (dexpr (e_cfg E) e2 env1) as [b env2|c env2|w];
          [|eapply steps_fails; [exact Hst1|]; eapply steps_fails; eassumption|exact Logic.I].
        destruct IH2 as [h2 [j2 [Hst2 [Hh2 [Hb Hs2]]]]]. fold cr in Hst2.
        pose proof (code_at_app_r _ _ _ Hat3) as Hat4.
        destruct (code_at_head _ _ _ Hat4) as [Hpc2 Hn2].
        destruct (code_at_head _ _ _ (code_at_tail _ _ _ Hat4)) as [Hpc3 Hn3].
        assert (Hb2 : zlen (inj b :: live) < 1000) by (rewrite zlen_cons; pose proof (need_pos e2); lia).
        assert (Hpre : steps (M pc live blocks h j) (M (pc + zlen cl + 1 + zlen cr) (inj b :: live) blocks h2 j2)).
        { eapply steps_trans; [exact Hst1|]. eapply steps_trans; eassumption. }
        destruct (truthy b) eqn:Tb.
        * destruct (step_jedup_true (pc + zlen cl + 1 + zlen cr) b live blocks h2 j2 _ Hb Tb Hpc2 Hn2 Hb2) as [j3 Hj3].
          exists h2, j3. repeat split; auto.
          replace (pc + zlen cl + zlen cr + 3) with (pc + zlen cl + 1 + zlen cr + 1 + 1) by lia.
          eapply steps_trans; eassumption.
        * pose proof (step_jedup_false (pc + zlen cl + 1 + zlen cr) b live blocks h2 j2 _ Hb Tb Hpc2 Hn2 Hb2) as Hj3.
          destruct (step_pushlast (pc + zlen cl + 1 + zlen cr + 1) (inj b) live blocks h2 j2 Hpc3 Hn3) as [j4 Hj4].
          { pose proof (need_pos e2); lia. }
          exists h2, j4. repeat split; auto.
          replace (pc + zlen cl + zlen cr + 3) with (pc + zlen cl + 1 + zlen cr + 1 + 1) by lia.
          eapply steps_trans; [exact Hpre|]. eapply steps_trans; eassumption.
    - (* ETern *)
      cbn [dexpr compile_expr need] in *. destruct Hcore as [Hc1 [Hc2 Hc3]].
      set (cc := compile_expr e1) in *. set (ca := compile_expr e2) in *. set (cb := compile_expr e3) in *.
      pose proof (IHe1 Hc1 env pc live blocks h j (code_at_app_l _ _ _ Hat) Hh Hs ltac:(lia)) as IH1. unfold expr_post in IH1.
      destruct (dexpr (e_cfg E) e1 env) as [vc env1|c env1|w]; [|exact IH1|exact Logic.I].
      destruct IH1 as [h1 [j1 [Hst1 [Hh1 [Hvc Hs1]]]]]. fold cc in Hst1.
      pose proof (code_at_app_r _ _ _ Hat) as Hat2. cbn [app] in Hat2.    (* jne :: ca ++ jmp :: cb *)
      destruct (code_at_head _ _ _ Hat2) as [Hpc1 Hn1].
      pose proof (code_at_tail _ _ _ Hat2) as Hat3.                       (* ca ++ jmp :: cb *)
      assert (Hb1 : zlen (inj vc :: live) < 1000) by (rewrite zlen_cons; pose proof (need_pos e1); lia).
      pose proof (step_jne (pc + zlen cc) vc live blocks h1 j1 _ Hvc Hpc1 Hn1 Hb1) as Hj.
      assert (Hend : pc + zlen (cc ++ I OpJne (OInt (zlen ca + 1)) :: ca ++ I OpJmp (OInt (zlen cb)) :: cb)
                     = pc + zlen cc + 1 + zlen ca + 1 + zlen cb) by pcfix.
      cbn [app]. rewrite Hend.
      destruct (truthy vc) eqn:Tc.
      + pose proof (IHe2 Hc2 env1 (pc + zlen cc + 1) live blocks h1 (popped (inj vc) (zlen live) j1)
                         (code_at_app_l _ _ _ Hat3) Hh1 Hs1 ltac:(lia)) as IH2. unfold expr_post in IH2.
        destruct (dexpr (e_cfg E) e2 env1) as [va env2|c env2|w];
          [|eapply steps_fails; [exact Hst1|]; eapply steps_fails; eassumption|exact Logic.I].
        destruct IH2 as [h2 [j2 [Hst2 [Hh2 [Hva Hs2]]]]]. fold ca in Hst2.
        destruct (code_at_head _ _ _ (code_at_app_r _ _ _ Hat3)) as [Hpc2 Hn2].
        assert (Hb2 : zlen (inj va :: live) < 1000) by (rewrite zlen_cons; pose proof (need_pos e2); lia).
        pose proof (step_jmp (pc + zlen cc + 1 + zlen ca) (inj va :: live) blocks h2 j2 _ Hpc2 Hn2 Hb2) as Hj2.
        exists h2, (counted j2). repeat split; auto.
        replace (pc + zlen cc + 1 + zlen ca + 1 + zlen cb) with (pc + zlen cc + 1 + zlen ca + zlen cb + 1) by lia.
        eapply steps_trans; [exact Hst1|]. eapply steps_trans; [exact Hj|]. eapply steps_trans; eassumption.
      + pose proof (code_at_tail _ _ _ (code_at_app_r _ _ _ Hat3)) as Hat4.
        pose proof (IHe3 Hc3 env1 (pc + zlen cc + 1 + zlen ca + 1) live blocks h1 (popped (inj vc) (zlen live) j1)
                         Hat4 Hh1 Hs1 ltac:(lia)) as IH3. unfold expr_post in IH3.
        replace (pc + zlen cc + (zlen ca + 1) + 1) with (pc + zlen cc + 1 + zlen ca + 1) in Hj by lia.
        destruct (dexpr (e_cfg E) e3 env1) as [vb env2|c env2|w];
          [|eapply steps_fails; [exact Hst1|]; eapply steps_fails; eassumption|exact Logic.I].
        destruct IH3 as [h2 [j2 [Hst2 [Hh2 [Hvb Hs2]]]]]. fold cb in Hst2.
        exists h2, j2. repeat split; auto.
        eapply steps_trans; [exact Hst1|]. eapply steps_trans; eassumption.
  Qed.

  (* ------------------------------------------------------------------ statements (loop-free fragment) *)
  Lemma step_blockpush : forall pc live blocks h j,
    0 <= pc -> nth_error prog (Z.to_nat pc) = Some (I OpBlockPush ONil) -> zlen live < 1000 -> zlen blocks < 20 ->
    steps (M pc live blocks h j) (M (pc + 1) live (zlen live :: blocks) h (counted j)).
  Proof.
    intros pc live blocks h j Hpc Hn Htop Hb.
    assert (Hne : zlen live <> stack_size) by (unfold stack_size; lia).
    one_step Hpc Hn Hne. cbn [step i_op i_arg M m_fr m_w fr_blocks].
    (replace (block_depth <=? zlen blocks) with false by (symmetry; apply Z.leb_gt; unfold block_depth; lia)).
    eq_m.
  Qed.

  Lemma lower_top_app : forall (a l d : list value), lower_top (length a) (a ++ l) d = (l, rev a ++ d).
  Proof.
    induction a as [|x a IH]; intros l d; cbn [length lower_top app rev]; [reflexivity|].
    rewrite IH, <- app_assoc. reflexivity.
  Qed.

  (* block.pop when the block left at least one value above the saved height: the deepest of them stays *)
  Lemma step_blockpop_lower : forall pc a y live blocks h j,
    0 <= pc -> nth_error prog (Z.to_nat pc) = Some (I OpBlockPop ONil) -> zlen (a ++ y :: live) < 1000 ->
    exists j', steps (M pc (a ++ y :: live) (zlen live + 1 :: blocks) h j) (M (pc + 1) (VNull :: y :: live) blocks h j').
  Proof.
    intros pc a y live blocks h j Hpc Hn Htop.
    assert (Hne : zlen (a ++ y :: live) <> stack_size) by (unfold stack_size; lia).
    rewrite zlen_app, zlen_cons in Htop. pose proof (zlen_nonneg _ a) as Ha. pose proof (zlen_nonneg _ live) as Hl.
    exists {| v_dead := tl (rev a ++ v_dead j); v_last := v_last j; v_details := v_details j; v_ops := v_ops (counted j) |}.
    one_step Hpc Hn Hne. cbn [step i_op i_arg M m_fr m_w fr_blocks]. unfold set_top. simp_m.
    rewrite zlen_app, zlen_cons.
    (replace (zlen live + 1 <=? zlen a + (zlen live + 1)) with true by (symmetry; apply Z.leb_le; lia)).
    replace (Z.to_nat (zlen a + (zlen live + 1) - (zlen live + 1))) with (length a) by (unfold zlen; lia).
    rewrite lower_top_app. simp_m. unfold do_push, push. simp_m.
    (replace (stack_size <=? zlen live + 1) with false by (symmetry; apply Z.leb_gt; unfold stack_size; lia)).
    simp_m. eq_m.
  Qed.

  (* block.pop when the block left nothing: the stale slot of the popped condition comes back *)
  Lemma step_blockpop_raise : forall pc y live blocks h j,
    0 <= pc -> nth_error prog (Z.to_nat pc) = Some (I OpBlockPop ONil) -> zlen live < 998 ->
    v_dead j = y :: tl (v_dead j) ->
    exists j', steps (M pc live (zlen live + 1 :: blocks) h j) (M (pc + 1) (VNull :: y :: live) blocks h j').
  Proof.
    intros pc y live blocks h j Hpc Hn Htop Hd.
    assert (Hne : zlen live <> stack_size) by (unfold stack_size; lia).
    exists {| v_dead := tl (tl (v_dead j)); v_last := v_last j; v_details := v_details j; v_ops := v_ops (counted j) |}.
    one_step Hpc Hn Hne. cbn [step i_op i_arg M m_fr m_w fr_blocks]. unfold set_top. simp_m.
    (replace (zlen live + 1 <=? zlen live) with false by (symmetry; apply Z.leb_gt; lia)).
    replace (Z.to_nat (zlen live + 1 - zlen live)) with 1%nat by lia.
    cbn [counted v_dead]. rewrite Hd. cbn [raise_top tl]. simp_m. unfold do_push, push. simp_m.
    (replace (stack_size <=? zlen live + 1) with false by (symmetry; apply Z.leb_gt; unfold stack_size; lia)).
    simp_m. eq_m.
  Qed.

  Lemma blockpop_after : forall pc junk live blocks h j y0,
    0 <= pc -> nth_error prog (Z.to_nat pc) = Some (I OpBlockPop ONil) -> zlen (junk ++ live) < 1000 -> zlen live < 998 ->
    (junk = [] -> v_dead j = y0 :: tl (v_dead j)) ->
    exists j' y, steps (M pc (junk ++ live) (zlen live + 1 :: blocks) h j) (M (pc + 1) (VNull :: y :: live) blocks h j').
  Proof.
    intros pc junk live blocks h j y0 Hpc Hn Htop Hl Hd.
    destruct junk as [|x r].
    - cbn [app]. destruct (step_blockpop_raise pc y0 live blocks h j Hpc Hn Hl (Hd eq_refl)) as [j' Hj]. exists j', y0. exact Hj.
    - destruct (@exists_last _ (x :: r) ltac:(discriminate)) as [a [y Hy]]. rewrite Hy in *. rewrite <- app_assoc in *. cbn [app] in *.
      destruct (step_blockpop_lower pc a y live blocks h j Hpc Hn Htop) as [j' Hj]. exists j', y. exact Hj.
  Qed.

  Fixpoint core_stmt (s : stmt) : Prop :=
    match s with
    | SNop => True
    | SExpr e => core_expr e
    | SSeq a b => core_stmt a /\ core_stmt b
    | SIf c t e => core_expr c /\ core_stmt t /\ core_stmt e
    | SWhile _ _ | SBreak | SContinue => False
    end.
  (* operand-stack slots a statement leaves behind / needs; block-stack depth it needs *)
  Fixpoint leaves (s : stmt) : Z :=
    match s with SExpr _ => 1 | SSeq a b => leaves a + leaves b | SIf _ _ _ => 2 | _ => 0 end.
  Fixpoint sneed (s : stmt) : Z :=
    match s with
    | SExpr e => need e
    | SSeq a b => Z.max (sneed a) (leaves a + sneed b)
    | SIf c t e => Z.max 2 (Z.max (need c) (Z.max (sneed t) (sneed e)))
    | _ => 0
    end.
  Fixpoint bneed (s : stmt) : Z :=
    match s with
    | SSeq a b => Z.max (bneed a) (bneed b)
    | SIf _ t e => 1 + Z.max (bneed t) (bneed e)
    | _ => 0
    end.
  Lemma leaves_le_sneed : forall s, leaves s <= sneed s.
  Proof. induction s; cbn [leaves sneed]; try lia. pose proof (need_pos e); lia. Qed.
  Lemma leaves_nonneg : forall s, 0 <= leaves s.
  Proof. induction s; cbn [leaves]; lia. Qed.
  Lemma sneed_nonneg : forall s, 0 <= sneed s.
  Proof. induction s; cbn [sneed]; try lia. pose proof (need_pos e); lia. Qed.
  Lemma bneed_nonneg : forall s, 0 <= bneed s.
  Proof. induction s; cbn [bneed]; lia. Qed.

  Lemma zlen_repeat : forall A (x : A) n, zlen (repeat x n) = Z.of_nat n.
  Proof. intros; unfold zlen; rewrite repeat_length; reflexivity. Qed.
  Lemma ssize_compile : forall s d bo ao, zlen (compile_stmt d bo ao s) = ssize d s.
  Proof.
    induction s; intros d bo ao; cbn [compile_stmt ssize]; rewrite ?zlen_app, ?zlen_cons, ?zlen_nil; unfold pops;
      rewrite ?zlen_app, ?zlen_cons, ?zlen_nil, ?zlen_repeat, ?IHs1, ?IHs2, ?IHs; lia.
  Qed.

  Definition stmt_post (d : nat) (bo ao : Z) (fuel : nat) (s : stmt) (env : denv)
             (pc : Z) (live : list value) (blocks : list Z) (h : heap) (j : vol) : Prop :=
    match dstmt (e_cfg E) fuel s env with
    | SNorm v env' =>
      exists h' j' junk,
        steps (M pc live blocks h j) (M (pc + zlen (compile_stmt d bo ao s)) (junk ++ live) blocks h' j')
        /\ get_map attrs h' = inj_env env' /\ scalar_env env' /\ zlen junk <= leaves s
        /\ match v with
           | Some x => scalar x /\ exists junk', junk = inj x :: junk'
           | None => junk = [] /\ compile_stmt d bo ao s = [] /\ h' = h /\ j' = j
           end
    | SErrR c env' => fails (M pc live blocks h j) c (inj_env env')
    | _ => True
    end.

  Lemma stmt_correct : forall s, core_stmt s -> forall d bo ao fuel env pc live blocks h j,
    code_at pc (compile_stmt d bo ao s) -> get_map attrs h = inj_env env -> scalar_env env ->
    zlen live + sneed s <= 999 -> zlen blocks + bneed s <= 20 ->
    stmt_post d bo ao fuel s env pc live blocks h j.
  Proof.
    induction s; intros Hcore d bo ao fuel env pc live blocks h j Hat Hh Hs Hneed Hbn; unfold stmt_post;
      cbn [core_stmt] in Hcore; try contradiction.
    - (* SNop *)
      cbn [dstmt compile_stmt leaves]. exists h, j, []. rewrite zlen_nil, Z.add_0_r. cbn [app].
      repeat split; auto; try lia; [apply steps_refl|rewrite zlen_nil; lia].
    - (* SExpr *)
      cbn [dstmt compile_stmt leaves sneed] in *.
      pose proof (expr_correct e Hcore env pc live blocks h j Hat Hh Hs Hneed) as IH. unfold expr_post in IH.
      destruct (dexpr (e_cfg E) e env) as [v env1|c env1|w]; [|exact IH|exact Logic.I].
      destruct IH as [h1 [j1 [Hst [Hh1 [Hv Hs1]]]]].
      exists h1, j1, [inj v]. cbn [app]. repeat split; auto; try (rewrite zlen_cons, zlen_nil; lia).
      exists []; reflexivity.
    - (* SSeq *)
      cbn [dstmt compile_stmt leaves sneed bneed] in *. destruct Hcore as [Hc1 Hc2].
      set (ca := compile_stmt d bo (ao + ssize d s2) s1) in *. set (cb := compile_stmt d (bo + ssize d s1) ao s2) in *.
      pose proof (IHs1 Hc1 d bo (ao + ssize d s2) fuel env pc live blocks h j (code_at_app_l _ _ _ Hat) Hh Hs ltac:(lia) ltac:(lia)) as IH1.
      unfold stmt_post in IH1. fold ca in IH1.
      destruct (dstmt (e_cfg E) fuel s1 env) as [v1 env1|e1|e1|c env1| |w]; try exact Logic.I; [|exact IH1].
      destruct IH1 as [h1 [j1 [junk1 [Hst1 [Hh1 [Hs1 [Hl1 Hv1]]]]]]].
      pose proof (IHs2 Hc2 d (bo + ssize d s1) ao fuel env1 (pc + zlen ca) (junk1 ++ live) blocks h1 j1
                       (code_at_app_r _ _ _ Hat) Hh1 Hs1) as IH2.
      assert (Hn2 : zlen (junk1 ++ live) + sneed s2 <= 999) by (rewrite zlen_app; lia).
      specialize (IH2 Hn2 ltac:(lia)). unfold stmt_post in IH2. fold cb in IH2.
      destruct (dstmt (e_cfg E) fuel s2 env1) as [v2 env2|e2|e2|c env2| |w]; try exact Logic.I;
        [|eapply steps_fails; eassumption].
      destruct IH2 as [h2 [j2 [junk2 [Hst2 [Hh2 [Hs2 [Hl2 Hv2]]]]]]].
      exists h2, j2, (junk2 ++ junk1). rewrite <- app_assoc. repeat split; auto.
      + replace (pc + zlen (ca ++ cb)) with (pc + zlen ca + zlen cb) by pcfix. eapply steps_trans; eassumption.
      + rewrite zlen_app; lia.
      + destruct v2 as [x2|].
        * destruct Hv2 as [Hx [junk' ->]]. split; [exact Hx|]. exists (junk' ++ junk1). reflexivity.
        * destruct Hv2 as [-> [Hcb [-> ->]]]. cbn [app]. destruct v1 as [x1|]; [exact Hv1|].
          destruct Hv1 as [-> [Hca [-> ->]]]. repeat split; auto. rewrite Hca, Hcb. reflexivity.
    - (* SIf *)
      cbn [dstmt compile_stmt leaves sneed bneed] in *. destruct Hcore as [Hc0 [Hc1 Hc2]].
      set (cc := compile_expr c) in *.
      set (T := compile_stmt (S d) (bo + zlen cc + 2) (ao + 1 + ssize (S d) s2 + 1) s1) in *.
      set (F := compile_stmt (S d) (bo + zlen cc + 2 + ssize (S d) s1 + 1) (ao + 1) s2) in *.
      assert (HT : ssize (S d) s1 = zlen T) by (symmetry; apply ssize_compile).
      assert (HF : ssize (S d) s2 = zlen F) by (symmetry; apply ssize_compile).
      rewrite HT, HF in Hat.
      pose proof (expr_correct c Hc0 env pc live blocks h j (code_at_app_l _ _ _ Hat) Hh Hs ltac:(lia)) as IH0. unfold expr_post in IH0.
      destruct (dexpr (e_cfg E) c env) as [vc env1|k env1|w]; [|exact IH0|exact Logic.I].
      destruct IH0 as [h1 [j1 [Hst0 [Hh1 [Hvc Hs1]]]]]. fold cc in Hst0.
      pose proof (code_at_app_r _ _ _ Hat) as Hat1. cbn [app] in Hat1.     (* block.push :: jne :: T ++ jmp :: F ++ [block.pop] *)
      destruct (code_at_head _ _ _ Hat1) as [Hpc1 Hn1].
      pose proof (code_at_tail _ _ _ Hat1) as Hat2.
      destruct (code_at_head _ _ _ Hat2) as [Hpc2 Hn2].
      pose proof (code_at_tail _ _ _ Hat2) as Hat3.                        (* T ++ jmp :: F ++ [block.pop] *)
      pose proof (need_pos c) as Hnc. pose proof (bneed_nonneg s1) as Hb1. pose proof (bneed_nonneg s2) as Hb2.
      pose proof (sneed_nonneg s1) as Hsn1. pose proof (sneed_nonneg s2) as Hsn2.
      assert (Hl1 : zlen (inj vc :: live) < 1000) by (rewrite zlen_cons; lia).
      pose proof (step_blockpush (pc + zlen cc) (inj vc :: live) blocks h1 j1 Hpc1 Hn1 Hl1 ltac:(lia)) as Hbp.
      rewrite zlen_cons in Hbp.
      pose proof (step_jne (pc + zlen cc + 1) vc live (zlen live + 1 :: blocks) h1 (counted j1) _ Hvc Hpc2 Hn2 Hl1) as Hj.
      set (jj := popped (inj vc) (zlen live) (counted j1)) in *.
      assert (Hpre : steps (M pc live blocks h j)
                           (M (if truthy vc then pc + zlen cc + 1 + 1 else pc + zlen cc + 1 + (zlen T + 1) + 1) live (zlen live + 1 :: blocks) h1 jj)).
      { eapply steps_trans; [exact Hst0|]. eapply steps_trans; eassumption. }
      assert (Hblk : zlen (zlen live + 1 :: blocks) + Z.max (bneed s1) (bneed s2) <= 20) by (rewrite zlen_cons; lia).
      assert (Hend : pc + zlen (cc ++ I OpBlockPush ONil :: I OpJne (OInt (zlen T + 1)) :: T ++ I OpJmp (OInt (zlen F)) :: F ++ [I OpBlockPop ONil])
                     = pc + zlen cc + 2 + zlen T + 1 + zlen F + 1) by pcfix.
      cbn [app]. rewrite HT, HF, Hend.
      pose proof (code_at_app_r _ _ _ Hat3) as Hat4.                       (* jmp :: F ++ [block.pop] *)
      destruct (code_at_head _ _ _ Hat4) as [Hpc4 Hn4].
      pose proof (code_at_tail _ _ _ Hat4) as Hat5.                        (* F ++ [block.pop] *)
      destruct (code_at_head _ _ _ (code_at_app_r _ _ _ Hat5)) as [Hpc6 Hn6].
      destruct (truthy vc) eqn:Tc.
      + (* then-branch *)
        pose proof (IHs1 Hc1 (S d) (bo + zlen cc + 2) (ao + 1 + ssize (S d) s2 + 1) fuel env1 (pc + zlen cc + 1 + 1) live
                         (zlen live + 1 :: blocks) h1 jj (code_at_app_l _ _ _ Hat3) Hh1 Hs1 ltac:(lia) ltac:(lia)) as IH1.
        unfold stmt_post in IH1. fold T in IH1.
        destruct (dstmt (e_cfg E) fuel s1 env1) as [v1 env2|e1|e1|k env2| |w]; try exact Logic.I;
          [|eapply steps_fails; eassumption].
        destruct IH1 as [h2 [j2 [junk [Hst1 [Hh2 [Hs2 [Hlv Hv1]]]]]]].
        pose proof (leaves_le_sneed s1) as Hls.
        assert (Hl2 : zlen (junk ++ live) < 1000) by (rewrite zlen_app; lia).
        pose proof (step_jmp (pc + zlen cc + 1 + 1 + zlen T) (junk ++ live) (zlen live + 1 :: blocks) h2 j2 _ Hpc4 Hn4 Hl2) as Hjmp.
        destruct (blockpop_after (pc + zlen cc + 1 + 1 + zlen T + zlen F + 1) junk live blocks h2 (counted j2) (inj vc)) as [j3 [y Hpop]].
        { lia. }
        { replace (pc + zlen cc + 1 + 1 + zlen T + zlen F + 1) with (pc + zlen cc + 1 + 1 + zlen T + 1 + zlen F) by lia. exact Hn6. }
        { exact Hl2. } { lia. }
        { intros ->. destruct v1 as [x|]; [destruct Hv1 as [_ [junk' Hx]]; discriminate|].
          destruct Hv1 as [_ [_ [_ ->]]]. reflexivity. }
        exists h2, j3, [VNull; y]. cbn [app]. repeat split; auto.
        * replace (pc + zlen cc + 2 + zlen T + 1 + zlen F + 1) with (pc + zlen cc + 1 + 1 + zlen T + zlen F + 1 + 1) by lia.
          eapply steps_trans; [exact Hpre|]. eapply steps_trans; [exact Hst1|]. eapply steps_trans; [exact Hjmp|]. exact Hpop.
        * rewrite !zlen_cons, zlen_nil; lia.
        * exists [y]; reflexivity.
      + (* else-branch *)
        pose proof (IHs2 Hc2 (S d) (bo + zlen cc + 2 + ssize (S d) s1 + 1) (ao + 1) fuel env1 (pc + zlen cc + 1 + (zlen T + 1) + 1) live
                         (zlen live + 1 :: blocks) h1 jj) as IH2.
        assert (Hat6 : code_at (pc + zlen cc + 1 + (zlen T + 1) + 1) (compile_stmt (S d) (bo + zlen cc + 2 + ssize (S d) s1 + 1) (ao + 1) s2)).
        { fold F. replace (pc + zlen cc + 1 + (zlen T + 1) + 1) with (pc + zlen cc + 1 + 1 + zlen T + 1) by lia.
          exact (code_at_app_l _ _ _ Hat5). }
        specialize (IH2 Hat6 Hh1 Hs1 ltac:(lia) ltac:(lia)). unfold stmt_post in IH2. fold F in IH2.
        destruct (dstmt (e_cfg E) fuel s2 env1) as [v1 env2|e1|e1|k env2| |w]; try exact Logic.I;
          [|eapply steps_fails; eassumption].
        destruct IH2 as [h2 [j2 [junk [Hst1 [Hh2 [Hs2 [Hlv Hv1]]]]]]].
        pose proof (leaves_le_sneed s2) as Hls.
        assert (Hl2 : zlen (junk ++ live) < 1000) by (rewrite zlen_app; lia).
        destruct (blockpop_after (pc + zlen cc + 1 + (zlen T + 1) + 1 + zlen F) junk live blocks h2 j2 (inj vc)) as [j3 [y Hpop]].
        { lia. }
        { replace (pc + zlen cc + 1 + (zlen T + 1) + 1 + zlen F) with (pc + zlen cc + 1 + 1 + zlen T + 1 + zlen F) by lia. exact Hn6. }
        { exact Hl2. } { lia. }
        { intros ->. destruct v1 as [x|]; [destruct Hv1 as [_ [junk' Hx]]; discriminate|].
          destruct Hv1 as [_ [_ [_ ->]]]. reflexivity. }
        exists h2, j3, [VNull; y]. cbn [app]. repeat split; auto.
        * replace (pc + zlen cc + 2 + zlen T + 1 + zlen F + 1) with (pc + zlen cc + 1 + (zlen T + 1) + 1 + zlen F + 1) by lia.
          eapply steps_trans; [exact Hpre|]. eapply steps_trans; [exact Hst1|]. exact Hpop.
        * rewrite !zlen_cons, zlen_nil; lia.
        * exists [y]; reflexivity.
  Qed.
End Run.

(* ------------------------------------------------------------------ whole programs *)
Definition vars_of_state (st : vmstate) : vmap := get_map (vs_attrs st) (vs_heap st).

Definition prog_post (cfg : config) (ftab : ftab) (fuel : nat) (p : stmt) (env : denv) (src : string) (st : vmstate) : Prop :=
  match denote fuel cfg p env with
  | DVal v env' =>
    exists fuel' st', run fuel' {| e_ftab := ftab; e_cfg := cfg |} (compile p) src st = Val (inj v) st'
                      /\ vars_of_state st' = inj_env env' /\ vs_attrs st' = vs_attrs st /\ scalar v /\ scalar_env env'
  | DErr c env' =>
    exists fuel' st', run fuel' {| e_ftab := ftab; e_cfg := cfg |} (compile p) src st = Err c st'
                      /\ vars_of_state st' = inj_env env'
  | DOutOfFuel | DUnsup _ => True
  end.

Theorem compile_correct_core : forall p, core_stmt p -> sneed p <= 999 -> bneed p <= 20 ->
  forall cfg ftab fuel env src st,
    cfg_op_limit cfg = 0 -> scalar_env env -> vars_of_state st = inj_env env ->
    prog_post cfg ftab fuel p env src st.
Proof.
  intros p Hcore Hsn Hbn cfg ftab fuel env src st Hlim Hs Hh. unfold prog_post, denote.
  set (E := {| e_ftab := ftab; e_cfg := cfg |}).
  set (prog := compile p).
  set (j0 := {| v_dead := []; v_last := LNone; v_details := []; v_ops := 0 |}).
  set (wod0 := {| w_pool := 0; w_points := 0; w_threshold := 0; w_isge := false |}).
  set (dc0 := {| c_pool := 0; c_points := 0 |}).
  assert (Hat : code_at prog 0 (compile_stmt 0 0 0 p)).
  { exists [], [I OpHalt ONil]. split; reflexivity. }
  pose proof (stmt_correct E Hlim prog [] wod0 dc0 (Some src) (vs_pcg st) [] (vs_attrs st) p Hcore 0%nat 0 0 fuel env 0 [] []
                           (vs_heap st) j0 Hat Hh Hs) as H.
  specialize (H ltac:(rewrite zlen_nil; lia) ltac:(rewrite zlen_nil; lia)). unfold stmt_post in H.
  change (e_cfg E) with cfg in H.
  assert (Hrun : forall f, run f E prog src st =
                           match exec f E (M prog [] wod0 dc0 (Some src) (vs_pcg st) [] (vs_attrs st) 0 [] [] (vs_heap st) j0) with
                           | Fin m => Val (match fr_live (m_fr m) with v :: _ => v | [] => VNull end) (state_of m)
                           | Fail e m => Err e (state_of m)
                           | Panic s => OPanic s
                           | OutOfFuel => OOutOfFuel
                           | Unsupported s => OUnsupported s
                           end) by (intros; reflexivity).
  destruct (dstmt cfg fuel p env) as [v env1|e1|e1|c env1| |w]; try exact Logic.I.
  - destruct H as [h1 [j1 [junk [[n Hst] [Hh1 [Hs1 [Hl Hv]]]]]]].
    assert (Hhalt : nth_error prog (Z.to_nat (0 + zlen (compile_stmt 0 0 0 p))) = Some (I OpHalt ONil)).
    { unfold prog, compile. rewrite Z.add_0_l. apply nth_error_mid. }
    pose proof (leaves_le_sneed p) as Hls. pose proof (zlen_nonneg _ (compile_stmt 0 0 0 p)) as Hnn.
    assert (Hne : zlen (junk ++ []) <> stack_size) by (rewrite zlen_app, zlen_nil; unfold stack_size; lia).
    exists (n + 1)%nat. eexists. rewrite Hrun, (Hst 0%nat).
    assert (Hpc : 0 <= 0 + zlen (compile_stmt 0 0 0 p)) by lia.
    rewrite (exec_S E Hlim prog [] wod0 dc0 (Some src) (vs_pcg st) [] (vs_attrs st) 0%nat _ _ _ _ _ _ Hpc Hhalt Hne).
    cbn [step i_op]. split; [|split; [|split; [|split]]].
    + f_equal. cbn [M m_fr fr_live]. destruct v as [x|].
      * destruct Hv as [_ [junk' ->]]. reflexivity.
      * destruct Hv as [-> _]. reflexivity.
    + unfold vars_of_state, state_of. cbn [M m_w w_heap w_self w_chain hd c_attrs vs_attrs vs_heap]. exact Hh1.
    + reflexivity.
    + destruct v as [x|]; [exact (proj1 Hv)|exact Logic.I].
    + exact Hs1.
  - destruct H as [n Hf]. destruct (Hf 0%nat) as [m' [Hm Hv]].
    exists (n + 2)%nat, (state_of m'). rewrite Hrun, Hm. split; [reflexivity|]. exact Hv.
Qed.

(* ------------------------------------------------------------------ per-operator rules, proved of the VM model *)
Section OpSpecs.
  Variable E : env.
  Variable r : nat.
  Variable w : world.

  (* + : ints wrap to int64, strings are joined, int + string is a type error *)
  Lemma op_add_spec :
    (forall a b, bin_op r E OpAdd (VInt a) (VInt b) w = ROk (VInt (wrap64 (a + b))) w) /\
    (forall a b, bin_op r E OpAdd (VStr a) (VStr b) w = ROk (VStr (a ++ b)) w) /\
    (forall a b, bin_op r E OpAdd (VInt a) (VStr b) w = RFail EType w) /\
    (forall a b, bin_op r E OpAdd (VStr a) (VInt b) w = RFail EType w).
  Proof. repeat split; reflexivity. Qed.

  (* / : truncating division; by zero an error, or the left operand under IgnoreDiv0 *)
  Lemma op_div_spec : forall a b,
    bin_op r E OpDiv (VInt a) (VInt b) w =
    if b =? 0 then (if cfg_ignore_div0 (e_cfg E) then ROk (VInt a) w else RFail EDiv0 w)
    else ROk (VInt (wrap64 (Z.quot a b))) w.
  Proof. intros; cbn. destruct (b =? 0); reflexivity. Qed.

  Definition is_int (v : value) : bool := match v with VInt _ => true | _ => false end.
  (* < <= >= > : ints only *)
  Lemma compare_spec :
    (forall a b, bin_op r E OpLt (VInt a) (VInt b) w = ROk (vbool (a <? b)) w) /\
    (forall a b, bin_op r E OpLe (VInt a) (VInt b) w = ROk (vbool (a <=? b)) w) /\
    (forall a b, bin_op r E OpGe (VInt a) (VInt b) w = ROk (vbool (b <=? a)) w) /\
    (forall a b, bin_op r E OpGt (VInt a) (VInt b) w = ROk (vbool (b <? a)) w) /\
    (forall op v1 v2, In op [OpLt; OpLe; OpGe; OpGt] -> is_int v1 && is_int v2 = false -> bin_op r E op v1 v2 w = RFail EType w).
  Proof.
    repeat split; try reflexivity.
    intros op v1 v2 Hop Hty. cbn [In] in Hop.
    destruct Hop as [<-|[<-|[<-|[<-|[]]]]]; destruct v1, v2; cbn in *; try discriminate; reflexivity.
  Qed.

  (* truthiness *)
  Lemma truthy_spec : forall fn h,
    (forall z, as_bool fn h (VInt z) = negb (z =? 0)) /\
    (forall s, as_bool fn h (VStr s) = negb (String.eqb s "")) /\
    as_bool fn h VNull = false /\
    (forall id, as_bool fn h (VArr id) = negb (Nat.eqb (length (get_arr id h)) 0)).
  Proof. intros; repeat split; try reflexivity. intros id; cbn. destruct (get_arr id h); reflexivity. Qed.
End OpSpecs.

(* ------------------------------------------------------------------ the full statement *)
(* the denotational value and the VM value denote the same thing (arrays through the heap) *)
Inductive vrel (h : heap) : dv -> value -> Prop :=
| vr_int : forall z, vrel h (DvInt z) (VInt z)
| vr_str : forall s, vrel h (DvStr s) (VStr s)
| vr_null : vrel h DvNull VNull
| vr_arr : forall l id, Forall2 (vrel h) l (get_arr id h) -> vrel h (DvArr l) (VArr id).
Definition env_rel (h : heap) (env : denv) (m : vmap) : Prop :=
  forall x, match dget x env, mget x m with
            | Some a, Some b => vrel h a b
            | None, None => True
            | _, _ => False
            end.

(* static well-formedness: break / continue inside loops only, no variable named like a builtin function,
   and a size / nesting bound that keeps every loop-free run inside the VM's capacity *)
Fixpoint e_names_ok (e : expr) : bool :=
  match e with
  | EVar x => negb (mem_s x builtin_names)
  | EAssign _ a | EUn _ a => e_names_ok a
  | EBin _ a b | EOr a b | EIdx a b | ERoll a b => e_names_ok a && e_names_ok b
  | ETern a b c => e_names_ok a && e_names_ok b && e_names_ok c
  | EArr l => (fix go (l : list expr) : bool := match l with [] => true | x :: r => e_names_ok x && go r end) l
  | _ => true
  end.
Fixpoint s_names_ok (s : stmt) : bool :=
  match s with
  | SExpr e => e_names_ok e
  | SSeq a b => s_names_ok a && s_names_ok b
  | SIf c t e => e_names_ok c && s_names_ok t && s_names_ok e
  | SWhile c b => e_names_ok c && s_names_ok b
  | _ => true
  end.
Fixpoint e_nodes (e : expr) : Z :=
  match e with
  | EAssign _ a | EUn _ a => 1 + e_nodes a
  | EBin _ a b | EOr a b | EIdx a b | ERoll a b => 1 + e_nodes a + e_nodes b
  | ETern a b c => 1 + e_nodes a + e_nodes b + e_nodes c
  | EArr l => 1 + (fix go (l : list expr) : Z := match l with [] => 0 | x :: r => e_nodes x + go r end) l
  | _ => 1
  end.
Fixpoint s_nodes (s : stmt) : Z :=
  match s with
  | SExpr e => e_nodes e
  | SSeq a b => s_nodes a + s_nodes b
  | SIf c t e => 1 + e_nodes c + s_nodes t + s_nodes e
  | SWhile c b => 1 + e_nodes c + s_nodes b
  | _ => 1
  end.
Fixpoint s_nest (s : stmt) : Z :=
  match s with
  | SSeq a b => Z.max (s_nest a) (s_nest b)
  | SIf _ t e => 1 + Z.max (s_nest t) (s_nest e)
  | SWhile _ b => 1 + s_nest b
  | _ => 0
  end.
Definition wf_prog (p : stmt) : bool :=
  loops_ok false p && s_names_ok p && (s_nodes p <=? 400) && (s_nest p <=? 19).

(* For EVERY well-formed program of the fragment of Model/Ast.v (all constructors: arrays, indexing, dice terms,
   while / break / continue included): a value of the definition is the value of the compiled program on the VM
   (and no amount of fuel makes the VM answer anything else than that value), an error of the definition is an
   error of the same class, with the same variables afterwards. *)
Definition compile_correct_statement : Prop :=
  forall p cfg ftab fuel env src st,
    wf_prog p = true -> cfg_op_limit cfg = 0 -> env_rel (vs_heap st) env (vars_of_state st) ->
    match denote fuel cfg p env with
    | DVal v env' =>
      (exists fuel' st' v', run fuel' {| e_ftab := ftab; e_cfg := cfg |} (compile p) src st = Val v' st'
                            /\ vrel (vs_heap st') v v' /\ env_rel (vs_heap st') env' (vars_of_state st'))
      /\ (forall fuel', match run fuel' {| e_ftab := ftab; e_cfg := cfg |} (compile p) src st with
                        | Val _ _ | OOutOfFuel => True
                        | _ => False
                        end)
    | DErr c env' =>
      exists fuel' st', run fuel' {| e_ftab := ftab; e_cfg := cfg |} (compile p) src st = Err c st'
                        /\ env_rel (vs_heap st') env' (vars_of_state st')
    | _ => True
    end.

(* the recorded defect while-body-stack-leak refutes it: `i=0; while i<2000 {i=i+1}; i` *)
Definition leak_witness : stmt :=
  SSeq (SExpr (EAssign "i" (EInt 0)))
       (SSeq (SWhile (EBin BLt (EVar "i") (EInt 2000)) (SExpr (EAssign "i" (EBin BAdd (EVar "i") (EInt 1)))))
             (SExpr (EVar "i"))).
Definition cfg0 : config :=
  {| cfg_ignore_div0 := false; cfg_min_mode := false; cfg_max_mode := false; cfg_op_limit := 0;
     cfg_def_expr_empty := true; cfg_st_callback := false |}.

Lemma leak_witness_denote : denote 2001 cfg0 leak_witness [] = DVal (DvInt 2000) [("i"%string, DvInt 2000)].
Proof. vm_compute. reflexivity. Qed.
Lemma leak_witness_run :
  exists st', run 20000 {| e_ftab := []; e_cfg := cfg0 |} (compile leak_witness) "" (init_vmstate {| hi := 1; lo := 2 |}) = Err EStack st'.
Proof. eexists. vm_compute. reflexivity. Qed.

Theorem compile_correct_statement_refuted : ~ compile_correct_statement.
Proof.
  intros H.
  specialize (H leak_witness cfg0 [] 2001%nat [] ""%string (init_vmstate {| hi := 1; lo := 2 |}) eq_refl eq_refl).
  assert (Henv : env_rel (vs_heap (init_vmstate {| hi := 1; lo := 2 |})) [] (vars_of_state (init_vmstate {| hi := 1; lo := 2 |}))).
  { intros x. vm_compute. exact Logic.I. }
  specialize (H Henv). rewrite leak_witness_denote in H. destruct H as [_ H].
  specialize (H 20000%nat). destruct leak_witness_run as [st' Hr]. rewrite Hr in H. exact H.
Qed.

(* ------------------------------------------------------------------ non-vacuity *)
(* a program with a loop, break and continue: the definition and compile + VM give the same value and variables *)
Definition example_prog : stmt :=
  SSeq (SExpr (EAssign "x" (EInt 0)))
  (SSeq (SExpr (EAssign "i" (EInt 0)))
  (SSeq (SWhile (EBin BLt (EVar "i") (EInt 10))
          (SSeq (SExpr (EAssign "i" (EBin BAdd (EVar "i") (EInt 1))))
          (SSeq (SIf (EBin BEq (EBin BMod (EVar "i") (EInt 2)) (EInt 0)) SContinue SNop)
          (SSeq (SIf (EBin BGt (EVar "i") (EInt 7)) SBreak SNop)
                (SExpr (EAssign "x" (EBin BAdd (EVar "x") (EVar "i"))))))))
        (SExpr (EOr (EBin BAnd (EVar "x") (EStr "")) (ETern (EVar "x") (EBin BMul (EVar "x") (EInt 2)) ENull))))).

Example example_loop_agrees :
  denote 100 cfg0 example_prog [] = DVal (DvInt 32) [("x"%string, DvInt 16); ("i"%string, DvInt 9)]
  /\ exists st', run 2000 {| e_ftab := []; e_cfg := cfg0 |} (compile example_prog) "" (init_vmstate {| hi := 1; lo := 2 |}) = Val (VInt 32) st'
                 /\ vars_of_state st' = inj_env [("x"%string, DvInt 16); ("i"%string, DvInt 9)].
Proof. split; [vm_compute; reflexivity|]. eexists. split; vm_compute; reflexivity. Qed.

(* the proved theorem is not vacuous: a loop-free program satisfies its hypotheses and evaluates to a value *)
Definition example_core : stmt :=
  SSeq (SExpr (EAssign "x" (EBin BSub (EInt 3) (EInt 5))))
       (SSeq (SIf (EBin BLt (EVar "x") (EInt 0)) (SExpr (EAssign "y" (EUn UNeg (EVar "x")))) (SExpr (EAssign "y" (EVar "x"))))
             (SExpr (EOr (EBin BAnd (EVar "y") ENull) (ETern (EVar "y") (EBin BAdd (EStr "a") (EStr "b")) (EInt 1))))).
Example example_core_ok :
  core_stmt example_core /\ sneed example_core <= 999 /\ bneed example_core <= 20 /\
  denote 0 cfg0 example_core [] = DVal (DvStr "ab") [("x"%string, DvInt (-2)); ("y"%string, DvInt 2)].
Proof. repeat split; vm_compute; try reflexivity; discriminate. Qed.
Example example_core_error :
  denote 0 cfg0 (SSeq (SExpr (EAssign "x" (EInt 1))) (SExpr (EBin BDiv (EVar "x") (EBin BSub (EVar "x") (EVar "x"))))) []
  = DErr EDiv0 [("x"%string, DvInt 1)].
Proof. vm_compute. reflexivity. Qed.
