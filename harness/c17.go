package main

// C17 — extension points are transparent unless they act.
//   c17        (A) Go vs Go: plain VM (twice) vs VM with never-matching custom dice, read-ahead stream parsers,
//              identity load/store hooks, identity detail rewriters, not-found global callbacks
//   c17-match  (B) matching custom dice `E(\d+)` (regex) and `#digits` (stream parser): handler invocation log,
//              groups / payload, used-by-copy (hostile handler run vs clean run), literal reference run
//   c17-k1     (C) Parse observations with the same matchers registered (for Corr/Corr17.v)

import (
	"bufio"
	"encoding/base64"
	"encoding/hex"
	"encoding/json"
	"fmt"
	"os"
	"sort"
	"strconv"
	"strings"

	ds "github.com/sealdice/dicescript"
	"golang.org/x/exp/rand"
)

// ---------- observations ----------
type c17Obs struct {
	Ok     bool   `json:"ok"`
	Err    string `json:"err"`
	Panic  string `json:"panic"`
	Val    string `json:"val"` // structural dump (JSON)
	Str    string `json:"str"`
	MHex   string `json:"mhex"`
	RHex   string `json:"rhex"`
	Detail string `json:"detail"`
	DPanic string `json:"dpanic"` // panic inside GetDetailText
	Vars   string `json:"vars"`   // structural dump of the variables, sorted by name (JSON)
	Seed   string `json:"seed"`   // final generator state
	Ops    int64  `json:"ops"`
}

func dumpVars(vm *ds.Context) string {
	type kv struct {
		K string `json:"k"`
		V *vdump `json:"v"`
	}
	var l []kv
	if vm.Attrs != nil {
		vm.Attrs.Range(func(key string, value *ds.VMValue) bool {
			l = append(l, kv{key, dumpValue(value)})
			return true
		})
	}
	sort.Slice(l, func(a, b int) bool { return l[a].K < l[b].K })
	b, _ := json.Marshal(l)
	return string(b)
}

// c17Observe runs src and reads every observable the property talks about. `between` (may be nil) is called after
// Run and before anything is read (used by the hostile handler to mutate the objects it returned).
func c17Observe(vm *ds.Context, src string, between func()) (o c17Obs) {
	func() {
		defer func() {
			if r := recover(); r != nil {
				o.Panic = fmt.Sprint(r)
			}
		}()
		err := vm.Run(src)
		o.Ops = int64(vm.NumOpCount)
		if err != nil {
			o.Err = err.Error()
			return
		}
		o.Ok = true
	}()
	if between != nil {
		between()
	}
	if o.Ok {
		b, _ := json.Marshal(dumpValue(vm.Ret))
		o.Val = string(b)
		func() {
			defer func() {
				if r := recover(); r != nil {
					o.Str = "<panic in ToString>"
				}
			}()
			o.Str = vm.Ret.ToString()
		}()
		o.MHex, o.RHex = hex.EncodeToString([]byte(vm.Matched)), hex.EncodeToString([]byte(vm.RestInput))
		func() {
			defer func() {
				if r := recover(); r != nil {
					o.DPanic = fmt.Sprint(r)
				}
			}()
			o.Detail = vm.GetDetailText()
		}()
	}
	o.Vars = dumpVars(vm)
	sb, _ := vm.GetCurSeed()
	o.Seed = hexs(sb)
	return
}

// ---------- (A) inert extensions ----------
const (
	xRegexNever = 1 << iota
	xStreamNil
	xStreamAhead
	xStreamZero
	xStreamReadExpr
	xHookPre
	xHookPost
	xHookStore
	xSpanRewrite
	xRewrite
	xGlobals
	xAll = 1<<iota - 1
)

type c17Counts struct {
	Handler   int `json:"handler"` // must stay 0
	Parser    int `json:"parser"`  // stream parser attempts
	ReadExpr  int `json:"readexpr"`
	Pre       int `json:"pre"`
	Post      int `json:"post"`
	Store     int `json:"store"`
	Span      int `json:"span"`
	Rewrite   int `json:"rewrite"`
	GLoad     int `json:"gload"`
	GOver     int `json:"gover"`
	GStore    int `json:"gstore"`
	RegErrors int `json:"regerrors"`
}

func installInert(vm *ds.Context, mask int, cnt *c17Counts) {
	handler := func(ctx *ds.Context, groups []string, payload any) (*ds.VMValue, string, error) {
		cnt.Handler++
		return ds.NewIntVal(424242), "INERT-HANDLER-RAN", nil
	}
	reg := func(err error) {
		if err != nil {
			cnt.RegErrors++
		}
	}
	if mask&xRegexNever != 0 {
		reg(vm.RegCustomDice(`ZZZ_never_(\d+)`, handler))
		// a pattern with a top-level alternation whose second branch occurs in the programs, but never at the start of an
		// operand (only inside string literals, comments and in the middle of identifiers): a match must START at the operand
		reg(vm.RegCustomDice(`ZZZ_never2_(\d+)|_zq(\d+)`, handler))
	}
	if mask&xStreamNil != 0 {
		// looks at up to four characters (Peek + Read), never resets, reports "no match" with a nil result
		reg(vm.RegCustomDiceParser(func(ctx *ds.Context, s *ds.CustomDiceStream) (*ds.CustomDiceParseResult, error) {
			cnt.Parser++
			for k := 0; k < 4; k++ {
				if _, ok := s.Peek(); !ok {
					break
				}
				s.Read()
			}
			return nil, nil
		}, handler))
	}
	if mask&xStreamAhead != 0 {
		// Read 3, Unread 1, ReadDigits, Current/Remaining, then Matched=false without ResetAttempt
		reg(vm.RegCustomDiceParser(func(ctx *ds.Context, s *ds.CustomDiceStream) (*ds.CustomDiceParseResult, error) {
			cnt.Parser++
			s.Read()
			s.Read()
			s.Read()
			s.Unread()
			s.ReadDigits()
			_ = s.Current()
			_ = s.Remaining()
			s.Commit()
			return &ds.CustomDiceParseResult{Matched: false, Groups: []string{"x", "y"}, Display: "AHEAD", Payload: 7}, nil
		}, handler))
	}
	if mask&xStreamZero != 0 {
		// reads ahead, resets, then claims a match: zero consumed bytes must count as no match
		reg(vm.RegCustomDiceParser(func(ctx *ds.Context, s *ds.CustomDiceStream) (*ds.CustomDiceParseResult, error) {
			cnt.Parser++
			s.Read()
			s.Read()
			s.ResetAttempt()
			return &ds.CustomDiceParseResult{Matched: true, Groups: []string{"", "z"}, Display: "ZERO", Payload: "p"}, nil
		}, handler))
	}
	if mask&xStreamReadExpr != 0 {
		// parses a whole expression ahead with ReadExpr (errors ignored), resets, no match
		reg(vm.RegCustomDiceParser(func(ctx *ds.Context, s *ds.CustomDiceStream) (*ds.CustomDiceParseResult, error) {
			cnt.Parser++
			r, ok := s.Peek()
			if ok && (r == '(' || (r >= '0' && r <= '9')) {
				cnt.ReadExpr++
				_, _, _ = s.ReadExpr("")
			}
			s.ResetAttempt()
			return &ds.CustomDiceParseResult{Matched: false}, nil
		}, handler))
	}
	if mask&xHookPre != 0 {
		vm.Config.HookValueLoadPre = func(ctx *ds.Context, name string) (string, *ds.VMValue) {
			cnt.Pre++
			return name, nil
		}
	}
	if mask&xHookPost != 0 {
		vm.Config.HookValueLoadPost = func(ctx *ds.Context, name string, curVal *ds.VMValue, doCompute func(curVal *ds.VMValue) *ds.VMValue, detail *ds.BufferSpan) *ds.VMValue {
			cnt.Post++
			return doCompute(curVal)
		}
	}
	if mask&xHookStore != 0 {
		vm.Config.HookValueStore = func(ctx *ds.Context, name string, v *ds.VMValue) (*ds.VMValue, bool) {
			cnt.Store++
			return nil, false
		}
	}
	if mask&xSpanRewrite != 0 {
		vm.Config.CustomDetailSpanRewriteFunc = func(ctx *ds.Context, defaultDetail string, span ds.BufferSpan, isRoot bool, data []byte, off int) string {
			cnt.Span++
			return defaultDetail
		}
	}
	if mask&xRewrite != 0 {
		vm.Config.CustomDetailRewriteFunc = func(ctx *ds.Context, cur string, span ds.BufferSpan, data []byte, off int) string {
			cnt.Rewrite++
			return cur
		}
	}
	if mask&xGlobals != 0 {
		vm.GlobalValueLoadFunc = func(name string) *ds.VMValue {
			cnt.GLoad++
			return nil
		}
		vm.GlobalValueLoadOverwriteFunc = func(name string, cur *ds.VMValue) *ds.VMValue {
			cnt.GOver++
			return cur
		}
		vm.GlobalValueStoreFunc = func(name string, v *ds.VMValue) { cnt.GStore++ }
	}
}

// c17VM: seeded VM, every syntax family on, extensions installed BEFORE the history runs (same history on both sides)
func c17VM(seed []byte, pre string, install func(vm *ds.Context)) *ds.Context {
	vm := &ds.Context{Seed: append([]byte{}, seed...)}
	vm.Init()
	allOn().apply(vm)
	if install != nil {
		install(vm)
	}
	if pre != "" {
		func() {
			defer func() { _ = recover() }()
			_ = vm.Run(pre)
		}()
		s := &rand.PCGSource{}
		_ = s.UnmarshalBinary(seed)
		vm.RandSrc = s
	}
	return vm
}

// ---------- (B) matching custom dice ----------
type c17Call struct {
	Which   string   `json:"which"`
	Groups  []string `json:"groups"`
	PayNil  bool     `json:"paynil"`
	PayN    string   `json:"payn"`   // digits recorded by the stream parser at parse time
	PayOff  int      `json:"payoff"` // absolute byte offset of the token recorded at parse time
	PayBad  bool     `json:"paybad"` // payload of an unexpected type
	Depth   int      `json:"depth"`
	Aliased bool     `json:"aliased"` // the groups slice handed to an earlier call was changed by the VM / shares memory
}

type c17Payload struct {
	n   string
	off int
	id  int
}

type c17Matcher struct {
	hostile     bool
	streamFirst bool // register the stream parser before the regex
	calls   []c17Call
	kept    []*ds.VMValue
	shared  *ds.VMValue
	parses  int
	nextID  int
	prevG   []string // groups slice received by the previous call (hostile mode scribbles on it)
}

func (m *c17Matcher) result(v int64) *ds.VMValue {
	if !m.hostile {
		return ds.NewIntVal(ds.IntType(v))
	}
	// hostile: every object handed out earlier is overwritten, and one shared cell is reused every other call
	for _, k := range m.kept {
		k.TypeId = ds.VMTypeString
		k.Value = "MUTATED-BETWEEN-CALLS"
	}
	if len(m.calls)%2 == 0 {
		if m.shared == nil {
			m.shared = ds.NewIntVal(0)
		}
		m.shared.TypeId = ds.VMTypeInt
		m.shared.Value = ds.IntType(v)
		return m.shared
	}
	r := ds.NewIntVal(ds.IntType(v))
	m.kept = append(m.kept, r)
	return r
}

func (m *c17Matcher) afterRun() {
	for _, k := range m.kept {
		k.TypeId = ds.VMTypeString
		k.Value = "MUTATED-AFTER-RUN"
	}
	if m.shared != nil {
		m.shared.TypeId = ds.VMTypeString
		m.shared.Value = "MUTATED-AFTER-RUN"
	}
}

func (m *c17Matcher) noteGroups(groups []string) {
	if m.hostile {
		// scribble on the slice received by the previous call: compiled groups must not share memory with it
		for i := range m.prevG {
			m.prevG[i] = "SCRIBBLED"
		}
		m.prevG = groups
	}
}

// the two syntaxes do not overlap (`E<digits>` / `#<digits>`), so the order of registration must not matter
func (m *c17Matcher) install(vm *ds.Context) {
	if m.streamFirst {
		m.installHash(vm)
		m.installE(vm)
		return
	}
	m.installE(vm)
	m.installHash(vm)
}

func (m *c17Matcher) installE(vm *ds.Context) {
	_ = vm.RegCustomDice(`E(\d+)`, func(ctx *ds.Context, groups []string, payload any) (*ds.VMValue, string, error) {
		c := c17Call{Which: "E", Groups: append([]string{}, groups...), PayNil: payload == nil, Depth: ctx.Depth()}
		m.noteGroups(groups)
		var n int64
		if len(groups) >= 2 {
			if v, err := strconv.ParseInt(groups[1], 10, 64); err == nil {
				n = v
			}
		}
		r := m.result(n + 1000)
		m.calls = append(m.calls, c)
		text := ""
		if n%2 == 1 {
			text = "custom:" + groups[0]
		}
		return r, text, nil
	})
}

func (m *c17Matcher) installHash(vm *ds.Context) {
	_ = vm.RegCustomDiceParser(func(ctx *ds.Context, s *ds.CustomDiceStream) (*ds.CustomDiceParseResult, error) {
		m.parses++
		total := len(s.Remaining())
		r, ok := s.Read()
		if !ok || r != '#' {
			s.Read() // read ahead before giving up
			return &ds.CustomDiceParseResult{Matched: false}, nil
		}
		digits, ok := s.ReadDigits()
		if !ok {
			s.ResetAttempt()
			return &ds.CustomDiceParseResult{Matched: false}, nil
		}
		m.nextID++
		// absolute offset of the token = len(data) - len(remaining at the start); the harness only needs it relative
		// to the whole source, which Remaining() gives as a suffix length
		return &ds.CustomDiceParseResult{Matched: true, Groups: []string{s.Current(), digits}, Display: "hash:" + digits,
			Payload: &c17Payload{n: digits, off: -total, id: m.nextID}}, nil
	}, func(ctx *ds.Context, groups []string, payload any) (*ds.VMValue, string, error) {
		c := c17Call{Which: "#", Groups: append([]string{}, groups...), PayNil: payload == nil, Depth: ctx.Depth()}
		m.noteGroups(groups)
		if p, ok := payload.(*c17Payload); ok {
			c.PayN, c.PayOff = p.n, p.off
		} else {
			c.PayBad = true
		}
		var n int64
		if len(groups) >= 2 {
			if v, err := strconv.ParseInt(groups[1], 10, 64); err == nil {
				n = v
			}
		}
		r := m.result(n + 2000)
		m.calls = append(m.calls, c)
		return r, "", nil // empty text: the process text must fall back to the parser's Display
	})
}

// ---------- commands ----------
func c17Lines(fn func(line []byte)) {
	sc := bufio.NewScanner(os.Stdin)
	sc.Buffer(make([]byte, 1<<20), 1<<26)
	for sc.Scan() {
		fn(sc.Bytes())
	}
}

func init() {
	cmds["c17"] = func(args []string) {
		fs, seed, _ := stdFlags("c17")
		fs.Parse(args)
		r := newRng(*seed)
		c17Lines(func(line []byte) {
			var in struct {
				B64  string `json:"b64"`
				Pre  string `json:"pre"`
				Mask int    `json:"mask"`
				Seed string `json:"seed"` // optional: 16 bytes hex (re-runs of a reported case)
				Reps int    `json:"reps"` // extra plain runs used to recognise map-order nondeterminism
			}
			if json.Unmarshal(line, &in) != nil {
				return
			}
			raw, _ := base64.StdEncoding.DecodeString(in.B64)
			pre, _ := base64.StdEncoding.DecodeString(in.Pre)
			mask := in.Mask
			if mask == 0 {
				mask = xAll
			}
			sb := seedBytes(r)
			if x, err := hex.DecodeString(in.Seed); err == nil && len(x) == 16 {
				sb = x
			}
			a := c17Observe(c17VM(sb, string(pre), nil), string(raw), nil)
			stable := true
			for k := 0; k < 1+in.Reps; k++ {
				if c17Observe(c17VM(sb, string(pre), nil), string(raw), nil) != a {
					stable = false
				}
			}
			var cnt c17Counts
			b := c17Observe(c17VM(sb, string(pre), func(vm *ds.Context) { installInert(vm, mask, &cnt) }), string(raw), nil)
			emit(map[string]any{"a": a, "b": b, "stable": stable, "same": a == b, "cnt": cnt, "mask": mask, "seed": hexs(sb)})
		})
	}

	cmds["c17-match"] = func(args []string) {
		fs, seed, _ := stdFlags("c17-match")
		fs.Parse(args)
		r := newRng(*seed)
		c17Lines(func(line []byte) {
			var in struct {
				B64 string `json:"b64"` // program with custom tokens
				Ref string `json:"ref"` // same program with the handlers' values written as literals
				Pre  string `json:"pre"`
				Seed string `json:"seed"`
				Reps int    `json:"reps"`
			}
			if json.Unmarshal(line, &in) != nil {
				return
			}
			raw, _ := base64.StdEncoding.DecodeString(in.B64)
			ref, _ := base64.StdEncoding.DecodeString(in.Ref)
			pre, _ := base64.StdEncoding.DecodeString(in.Pre)
			sb := seedBytes(r)
			if x, err := hex.DecodeString(in.Seed); err == nil && len(x) == 16 {
				sb = x
			}
			clean := &c17Matcher{}
			o1 := c17Observe(c17VM(sb, string(pre), clean.install), string(raw), nil)
			stable := true
			for k := 0; k < in.Reps; k++ {
				again := &c17Matcher{}
				if c17Observe(c17VM(sb, string(pre), again.install), string(raw), nil) != o1 {
					stable = false
				}
			}
			host := &c17Matcher{hostile: true}
			o2 := c17Observe(c17VM(sb, string(pre), host.install), string(raw), host.afterRun)
			swapped := &c17Matcher{streamFirst: true}
			o3 := c17Observe(c17VM(sb, string(pre), swapped.install), string(raw), nil)
			row := map[string]any{"order_same": o3 == o1, "swapped": o3, "clean": o1, "hostile": o2, "same": o1 == o2, "calls": clean.calls, "calls2": host.calls,
				"parses": clean.parses, "len": len(raw), "stable": stable, "seed": hexs(sb)}
			if len(ref) > 0 {
				row["ref"] = c17Observe(c17VM(sb, string(pre), nil), string(ref), nil)
			}
			emit(row)
		})
	}

	// plain VM only (used to tell whether a non-terminating case needs the extensions at all)
	cmds["c17-plain"] = func(args []string) {
		c17Lines(func(line []byte) {
			var in struct {
				B64  string `json:"b64"`
				Pre  string `json:"pre"`
				Seed string `json:"seed"`
			}
			if json.Unmarshal(line, &in) != nil {
				return
			}
			raw, _ := base64.StdEncoding.DecodeString(in.B64)
			pre, _ := base64.StdEncoding.DecodeString(in.Pre)
			sb, _ := hex.DecodeString(in.Seed)
			if len(sb) != 16 {
				sb = make([]byte, 16)
			}
			emit(map[string]any{"a": c17Observe(c17VM(sb, string(pre), nil), string(raw), nil)})
		})
	}

	cmds["c17-k1"] = func(args []string) {
		c17Lines(func(line []byte) {
			var in k1In
			if json.Unmarshal(line, &in) != nil {
				return
			}
			raw, err := base64.StdEncoding.DecodeString(in.B64)
			if err != nil {
				return
			}
			emit(c17Parse(string(raw), in.Flags))
		})
	}
}

// c17Parse = k1Parse with the family of matchers registered: never-matching regex, read-ahead-then-reset stream
// parser, `E(\d+)`, `#digits` (in this order: Go tries them in registration order)
func c17Parse(src string, flags []bool) (o k1Out) {
	vm := ds.NewVM()
	cfgFromFlags(flags).apply(vm)
	var cnt c17Counts
	installInert(vm, xRegexNever|xStreamAhead|xStreamZero, &cnt)
	m := &c17Matcher{}
	m.install(vm)
	o.CfgSame = true
	defer func() {
		if r := recover(); r != nil {
			o.Panic = fmt.Sprint(r)
		}
	}()
	err := vm.Parse(src)
	st := vm.VerifParseStats()
	o.Offset, o.ExprCnt, o.NErrs, o.Fail = st.Offset, st.ExprCnt, st.NErrs, [3]int{st.FailOff, st.FailLine, st.FailCol}
	if err != nil {
		o.Err = err.Error()
		return
	}
	o.Ok = true
	code := vm.VerifCode()
	o.NCode = len(code)
	set := map[int]bool{}
	collectOps(code, set)
	for k := range set {
		o.Ops = append(o.Ops, k)
	}
	sort.Ints(o.Ops)
	return
}

// a stream parser that reports only "matched" (no groups, no display text, no payload): the documented fallback gives the
// handler the matched source text as groups[0] and shows it in the process text — exactly what the equivalent regular
// expression registration gives
func init() {
	cmds["c17-bare"] = func(args []string) {
		progs := []string{"K12", "1 + K7 * 2", "[K3, K40]", "K5 rest", "K1 + K1", "x = K9; x + K2", "func g() { K6 }; g() + g()", "`a{K4}b`", "K007 - 7", "(K3)", "K3!", "K12+K5", "K", "K x", "Kx1", "1+K", "[K2,K,K3]", "K9力量", "g(K1)", "K1?K2:K3"}
		type obs struct {
			Ok     bool     `json:"ok"`
			Err    string   `json:"err"`
			Str    string   `json:"str"`
			Detail string   `json:"detail"`
			Rest   string   `json:"rest"`
			G0     []string `json:"g0"`
		}
		run := func(stream bool, style int, src string) (o obs) {
			vm := newVM(allOn(), 3, 4, true)
			h := func(ctx *ds.Context, groups []string, payload any) (*ds.VMValue, string, error) {
				g0 := "<none>"
				if len(groups) > 0 {
					g0 = groups[0]
				}
				o.G0 = append(o.G0, g0)
				n, _ := strconv.ParseInt(strings.TrimPrefix(g0, "K"), 10, 64)
				return ds.NewIntVal(ds.IntType(2 * n)), "", nil
			}
			if stream {
				_ = vm.RegCustomDiceParser(func(ctx *ds.Context, st *ds.CustomDiceStream) (*ds.CustomDiceParseResult, error) {
					readK := func() bool {
						ch, ok := st.Read()
						return ok && ch == 'K'
					}
					switch style {
					case 1:
						// two forms tried one after the other on the same stream: K<d>T<d> first (it fails on a peek-based check
						// behind the digits), the parser resets the attempt ITSELF and goes on with K<d>
						if readK() {
							if _, ok := st.ReadDigits(); ok {
								if ch, ok := st.Peek(); ok && ch == 'T' {
									st.Read()
									if _, ok := st.ReadDigits(); ok {
										return &ds.CustomDiceParseResult{Matched: true}, nil
									}
								}
							}
						}
						st.ResetAttempt()
					case 2:
						// looks ahead, steps back, asks where it is: none of this may change what is matched
						if ch, ok := st.Peek(); !ok || ch != 'K' {
							return nil, nil
						}
						_ = st.Remaining()
						st.Read()
						st.Unread()
						_ = st.Consumed()
						_, _ = st.Peek()
					case 3:
						// reads far ahead, resets, peeks, resets again
						for k := 0; k < 5; k++ {
							st.Read()
						}
						st.ResetAttempt()
						_, _ = st.Peek()
						st.ResetAttempt()
					}
					if !readK() {
						return nil, nil
					}
					if _, ok := st.ReadDigits(); !ok {
						return nil, nil
					}
					if style == 2 {
						// one past the token and back
						if _, ok := st.Read(); ok {
							st.Unread()
						}
						_ = st.Current()
					}
					return &ds.CustomDiceParseResult{Matched: true}, nil
				}, h)
			} else {
				_ = vm.RegCustomDice(`K\d+`, h)
			}
			r := runScript(vm, src, true)
			o.Ok, o.Err, o.Str, o.Detail, o.Rest = r.Ok, r.Err, r.Str, r.Detail, r.Rest
			return
		}
		for _, p := range progs {
			for style := 0; style < 4; style++ {
				emit(map[string]any{"src": p, "style": style, "stream": run(true, style, p), "regex": run(false, 0, p)})
			}
		}
	}
}
