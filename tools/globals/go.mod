module globalsscan

go 1.18
