#!/usr/bin/env python3
"""Regenerate every translator output under coq/Gen from the CURRENT /repo working tree:
Gen/Grammar.v (tools/gen_grammar.py), Gen/Globals.v (tools/gen_globals.py), Gen/Limits.v (tools/gen_limits.py).
Used by setup.sh (so that a fresh restore never builds against a stale committed table) and by the seed
tools after a seeded change has been undone (so that a table generated under a mutant is never left behind)."""
import os, sys
sys.path.insert(0, os.path.join(os.path.dirname(os.path.abspath(__file__)), "..", "lib"))
import common, pegcases, c11, c07

def main():
    common.build_harness()
    st = pegcases.regenerate_grammar() if hasattr(pegcases, "regenerate_grammar") else None
    g = c11.regenerate_globals()
    l = c07.regenerate_limits()
    print("regen ok", {"grammar": bool(st), "globals": len(g) if hasattr(g, "__len__") else g, "limits_missing": l.get("missing")})

if __name__ == "__main__":
    main()
