package main

// C13 — string literals and templates reproduce text exactly.
//
//   c13-probe            every byte b x every delimiter: <d>\<b><d> and <d><b><d> through the real
//                        parser+VM (checks the escape table and the negated classes of roll.peg)
//   c13-lit  -seed -n    random texts x 4 delimiters x random escape choices; the literal is printed
//                        by a Go mirror of Model/StrLit.escape (Coq re-computes it and must agree)
//   c13-raw  -seed -n    malformed stream: arbitrary bodies (raw delimiters, lone backslashes, braces,
//                        ill-formed UTF-8, missing/doubled delimiters)
//   c13-tmpl -seed -n    templates with k<=6 holes; hole values computed independently on a second VM
//   c13-nest             nested templates of depth 1..23
//   c13-run              hex sources on stdin (debugging / replay)
//
// All byte strings are emitted as arrays of ints (JSON strings cannot carry ill-formed UTF-8).

import (
	"bufio"
	"encoding/hex"
	"fmt"
	"os"
	"strings"
	"unicode/utf8"

	ds "github.com/sealdice/dicescript"
)

type c13Out struct {
	Kind  string  `json:"kind"`
	D     int     `json:"d"`              // 0 ' 1 " 2 ` 3 0x1E
	S     []int   `json:"s,omitempty"`    // the text (c13-lit)
	Bits  []int   `json:"bits,omitempty"` // escape choices (c13-lit)
	Esc   bool    `json:"esc,omitempty"`  // probe: with backslash
	B     int     `json:"b"`              // probe byte
	Src   []int   `json:"src"`
	Valid bool    `json:"valid"` // utf8.Valid(src)
	Ok    bool    `json:"ok"`
	Err   string  `json:"err,omitempty"`
	Panic string  `json:"panic,omitempty"`
	T     int     `json:"t"`
	Str   []int   `json:"str"`
	Rest  []int   `json:"rest"`
	Parts [][]int `json:"parts"`
	Ops   string  `json:"ops"` // space separated mnemonics
}

func c13Ints(b []byte) []int {
	o := make([]int, len(b))
	for i, x := range b {
		o[i] = int(x)
	}
	return o
}

var c13Delims = []byte{'\'', '"', '`', 0x1e}

func c13Run(vm *ds.Context, src []byte) (o c13Out) {
	o.Src = c13Ints(src)
	o.Valid = utf8.Valid(src)
	o.Str, o.Rest, o.Parts = []int{}, []int{}, [][]int{}
	r := runScript(vm, string(src), false)
	o.Ok, o.Err, o.Panic = r.Ok, r.Err, r.Panic
	o.T = -2
	if r.Ok {
		o.T = r.Val.T
		o.Str = c13Ints([]byte(r.Str))
		o.Rest = c13Ints([]byte(r.Rest))
		var names []string
		for _, op := range vm.VerifCode() {
			names = append(names, op.Name)
			if op.Name == "push.str" && op.S != nil {
				o.Parts = append(o.Parts, c13Ints([]byte(*op.S)))
			}
		}
		o.Ops = strings.Join(names, " ")
	}
	return
}

// ---------------------------------------------------------------- mirror of Model/StrLit.escape
var c13Table = [][2]byte{{'n', '\n'}, {'r', '\r'}, {'f', '\f'}, {'t', '\t'}, {'\\', '\\'}, {'\'', '\''}, {'"', '"'}, {'{', '{'}, {'}', '}'}}

func c13EscFor(b byte) (byte, bool) {
	for _, e := range c13Table {
		if e[1] == b {
			return e[0], true
		}
	}
	return 0, false
}
func c13IsKey(b byte) bool {
	for _, e := range c13Table {
		if e[0] == b {
			return true
		}
	}
	return false
}
func c13Stops(d int, b byte) bool {
	return b == c13Delims[d] || (d >= 2 && b == '{')
}
func c13RawLegal(d int, b byte, r []byte) bool {
	if b == '\\' {
		if len(r) == 0 {
			return !c13IsKey(c13Delims[d])
		}
		nb := r[0]
		return !c13IsKey(nb) && !c13Stops(d, nb) && nb != '\\'
	}
	return !c13Stops(d, b)
}
func c13Escape(d int, bits []int, s []byte) []byte {
	var out []byte
	forced := false
	for i, b := range s {
		if forced {
			out = append(out, b)
			forced = false
			continue
		}
		k, has := c13EscFor(b)
		if !has {
			out = append(out, b)
			continue
		}
		if c13RawLegal(d, b, s[i+1:]) && i < len(bits) && bits[i] == 1 {
			out = append(out, b)
			forced = b == '\\'
		} else {
			out = append(out, '\\', k)
		}
	}
	return out
}

// ---------------------------------------------------------------- text generator
var c13Alphabet = []string{
	"'", "\"", "`", "\x1e", "\\", "\\", "{", "}", "%", "\r", "\n", "\t", "\f", "\x00",
	"n", "r", "f", "t", "a", " ", "1", "x",
	"\u00e9", "\u4e2d", "\U0001F600", "\u0301", "\ufffd", "\u0080", "\u07ff", "\u0800", "\uffff",
	"\U00010000", "\U0010FFFF", "\ud7ff", "\ue000", "\u200d",
}

func c13Text(r *rng, d int, avoidDelim bool) []byte {
	n := r.intn(13)
	if r.chance(1, 12) {
		n = 20 + r.intn(60)
	}
	var out []byte
	for i := 0; i < n; i++ {
		var c string
		if r.chance(1, 10) {
			for {
				rn := rune(r.intn(0x110000))
				if utf8.ValidRune(rn) {
					c = string(rn)
					break
				}
			}
		} else {
			c = pick(r, c13Alphabet)
		}
		if avoidDelim && d >= 2 && c == string(rune(c13Delims[d])) {
			continue
		}
		out = append(out, c...)
	}
	return out
}

func c13Quote(d int, body []byte) []byte {
	o := []byte{c13Delims[d]}
	o = append(o, body...)
	return append(o, c13Delims[d])
}

// ---------------------------------------------------------------- templates
const c13Prelude = "x=1;y=2;z=3;w='s';v=[1,2]"

var c13Vars = []string{"x", "y", "z", "w", "v", "u"}

type c13Item struct {
	Lit  []int  `json:"lit,omitempty"`
	Hole string `json:"hole,omitempty"` // hole source (between the braces)
	Form string `json:"form,omitempty"` // "{" or "{%"
	Void bool   `json:"void,omitempty"` // statement block leaving no value: "" by GUIDE.md
	Val  []int  `json:"val"`            // string form of the hole, from the independent VM
	Err  string `json:"herr,omitempty"`
	IsH  bool   `json:"is_hole"`
}

type c13Tmpl struct {
	Kind   string    `json:"kind"`
	D      int       `json:"d"`
	Depth  int       `json:"depth,omitempty"`
	Src    []int     `json:"src"`
	SrcTxt string    `json:"src_text"`
	Items  []c13Item `json:"items"`
	Ok     bool      `json:"ok"`
	Err    string    `json:"err,omitempty"`
	Panic  string    `json:"panic,omitempty"`
	T      int       `json:"t"`
	Str    []int     `json:"str"`
	Rest   []int     `json:"rest"`
	Expect []int     `json:"expect"` // nest: computed by the generator
	Vars1  []string  `json:"vars1"`  // after the template
	Vars2  []string  `json:"vars2"`  // after the holes alone
	LdFs   int64     `json:"ldfs"`   // operand of the outermost ld.fs
	Skel   string    `json:"skel"`   // S push.str, B/E outermost fstr.block.push/pop, L ld.fs, X other
}

func c13Skeleton(vm *ds.Context) (string, int64) {
	var sb strings.Builder
	depth := 0
	var n int64 = -1
	for _, op := range vm.VerifCode() {
		switch op.Name {
		case "fstr.block.push":
			if depth == 0 {
				sb.WriteByte('B')
			}
			depth++
		case "fstr.block.pop":
			depth--
			if depth == 0 {
				sb.WriteByte('E')
			}
		case "halt":
		default:
			if depth == 0 {
				switch op.Name {
				case "push.str":
					sb.WriteByte('S')
				case "ld.fs":
					sb.WriteByte('L')
					if op.I != nil {
						n = *op.I
					}
				default:
					sb.WriteByte('X')
				}
			}
		}
	}
	return sb.String(), n
}

func c13ReadVars(vm *ds.Context) []string {
	var out []string
	for _, name := range c13Vars {
		r := runScript(vm, name, false)
		if r.Ok {
			out = append(out, fmt.Sprintf("%d:%s", r.Val.T, r.Str))
		} else {
			out = append(out, "ERR:"+r.Err+r.Panic)
		}
	}
	return out
}

func c13Expr(r *rng, depth int) string {
	switch r.intn(12) {
	case 0:
		return fmt.Sprint(r.intn(1000))
	case 1:
		return fmt.Sprintf("%d + %d", r.intn(50), r.intn(50))
	case 2:
		return pick(r, []string{"x", "y", "z", "w", "v", "u"})
	case 3:
		return pick(r, []string{"x", "y", "z"}) + pick(r, []string{" * 2 + ", "+", " - "}) + pick(r, []string{"x", "y", "z", "7"})
	case 4:
		return pick(r, []string{"'q'", "\"}\"", "'{'", "'%}'", "'a\\n'", "''", "'\\\\'"})
	case 5:
		// `v` is ONE array object of the prelude: several holes of a template may show the same container
		if r.chance(1, 2) {
			return pick(r, []string{"[1,2]", "[x, 'k']", "{'k': 1}", "v", "v", "[v, 0]", "[v, v]", "v"})
		}
		return pick(r, []string{"[1,2]", "[x, 'k']", "null", "1.5", "{'k': 1}", "true", "v", "v", "[v, 0]", "[v, v]",
			// every value type must show in a hole exactly as its own text form: floats of large and small magnitude, boundary ints
			"1000000.0", "0.00001", "123456789.25", "2.5 * 1000000", "1.0 / 3", "0.000001 * 0.001", "1e3", "100000000000000000000.0", "[1000000.0, 0.00001]",
			"9223372036854775807", "0 - 5", "-2.50", "toStr", "[1,2].len", "&u2", "this"})
	case 6:
		return pick(r, []string{"x", "y", "z"}) + " = " + fmt.Sprint(r.intn(100))
	case 7:
		return "w = w + " + pick(r, []string{"'!'", "'}'", "\"{\""})
	case 8, 9:
		if depth > 0 {
			d := pick(r, []int{2, 3})
			body, _ := c13TmplBody(r, d, depth-1, 1+r.intn(3))
			return string(c13Quote(d, body))
		}
		return "(x + y) * z"
	case 10:
		return "w + 'z'"
	}
	return fmt.Sprint(r.intn(10)) + " < " + pick(r, []string{"x", "5"})
}

// A newline separates statements only after some expressions: after a string literal, an array, a
// parenthesis, a dict or the keywords true/false/null the rest of the text is left unparsed ("a"\n1 evaluates to "a", rest "\n1").
// That is outside C13 (recorded as a side finding); the generator uses ';' there.
func c13Join(a, sep, b string) string {
	if !strings.Contains(sep, ";") {
		last := a[len(a)-1]
		alnum := last >= '0' && last <= '9' || last >= 'a' && last <= 'z' || last >= 'A' && last <= 'Z'
		block := (strings.HasPrefix(a, "if ") || strings.Contains(a, "while ")) && last == '}'
		kw := strings.HasSuffix(a, "true") || strings.HasSuffix(a, "false") || strings.HasSuffix(a, "null")
		if (!alnum && !block) || kw {
			sep = " ;\n"
		}
	}
	return a + sep + b
}

// statement block; void = leaves no value
func c13Block(r *rng, depth int) (string, bool) {
	sep := pick(r, []string{"; ", "\n", " ;\n "})
	if r.chance(1, 8) {
		// holes that execute nothing and leave nothing: only separators / only a comment
		return pick(r, []string{";", "; ;", " ; ", "// c\n", ";// c\n"}), true
	}
	switch r.intn(7) {
	case 0:
		return "if " + pick(r, []string{"1", "0", "x", "u"}) + " { " + c13Expr(r, 0) + " }", true
	case 1:
		return c13Join(pick(r, []string{"x", "y", "z"})+" = "+fmt.Sprint(r.intn(9)), sep, "if x { y = y + 1 } else { z = z + 1 }"), true
	case 2:
		return c13Join("i = 0", sep, "while i < "+fmt.Sprint(r.intn(4))+" { "+c13Join("i = i + 1", sep, "x = x + i }")), true
	case 3:
		return c13Join(c13Expr(r, depth), sep, c13Expr(r, depth)), false
	case 4:
		return c13Join("if x { y = "+fmt.Sprint(r.intn(9))+" }", sep, c13Expr(r, depth)), false
	case 5:
		return c13Join(c13Join(c13Expr(r, depth), sep, "if 1 { 2 }"), sep, pick(r, []string{"x", "y", "3"})), false
	}
	return c13Expr(r, depth), false
}

type c13Seg struct {
	lit  []byte
	hole string
	form string
	void bool
}

// body of a template with about k holes; returns the source bytes and the segments
func c13TmplBody(r *rng, d int, depth int, k int) ([]byte, []c13Seg) {
	var body []byte
	var segs []c13Seg
	addLit := func() {
		if r.chance(1, 4) {
			return
		}
		t := c13Text(r, d, true)
		if len(t) > 12 {
			t = t[:0]
		}
		if len(t) == 0 {
			return
		}
		bits := make([]int, len(t))
		for i := range bits {
			bits[i] = r.intn(2)
		}
		if t[len(t)-1] == '\\' {
			bits[len(t)-1] = 0 // a hole may follow: "\{" would be an escape
		}
		body = append(body, c13Escape(d, bits, t)...)
		if n := len(segs); n > 0 && segs[n-1].hole == "" {
			segs[n-1].lit = append(segs[n-1].lit, t...)
		} else {
			segs = append(segs, c13Seg{lit: t})
		}
	}
	addLit()
	for i := 0; i < k; i++ {
		var h string
		void := false
		form := "{"
		if r.chance(1, 2) {
			h, void = c13Block(r, depth)
			if r.chance(3, 4) {
				form = "{%"
			}
		} else {
			h = c13Expr(r, depth)
			if r.chance(1, 4) {
				form = "{%"
			}
		}
		pad1, pad2 := pick(r, []string{"", " ", "\n", "  "}), pick(r, []string{"", " ", "\n"})
		if form == "{%" {
			body = append(body, ("{%" + pad1 + h + pad2 + "%}")...)
		} else {
			if strings.HasPrefix(h, "%") || (pad1 == "" && strings.HasPrefix(h, "{")) {
				pad1 = " "
			}
			body = append(body, ("{" + pad1 + h + pad2 + "}")...)
		}
		segs = append(segs, c13Seg{hole: h, form: form, void: void})
		addLit()
	}
	return body, segs
}

func c13RunTmpl(kind string, d int, src []byte, segs []c13Seg) c13Tmpl {
	o := c13Tmpl{Kind: kind, D: d, Src: c13Ints(src), SrcTxt: string(src), Str: []int{}, Rest: []int{}, Expect: []int{}, T: -2}
	vm1 := newVM(allOn(), 1, 2, true)
	vm2 := newVM(allOn(), 1, 2, true)
	runScript(vm1, c13Prelude, false)
	runScript(vm2, c13Prelude, false)
	r := runScript(vm1, string(src), false)
	o.Ok, o.Err, o.Panic = r.Ok, r.Err, r.Panic
	if r.Ok {
		o.T = r.Val.T
		o.Str = c13Ints([]byte(r.Str))
		o.Rest = c13Ints([]byte(r.Rest))
		o.Skel, o.LdFs = c13Skeleton(vm1)
	}
	o.Vars1 = c13ReadVars(vm1)
	for _, s := range segs {
		if s.hole == "" {
			o.Items = append(o.Items, c13Item{Lit: c13Ints(s.lit), Val: c13Ints(s.lit)})
			continue
		}
		it := c13Item{Hole: s.hole, Form: s.form, Void: s.void, IsH: true, Val: []int{}}
		hr := runScript(vm2, s.hole, false)
		if !hr.Ok {
			it.Err = hr.Err + hr.Panic
		} else if hr.Rest != "" {
			it.Err = "hole source not consumed completely, rest: " + hr.Rest
		} else if !s.void {
			it.Val = c13Ints([]byte(hr.Str))
		}
		o.Items = append(o.Items, it)
	}
	o.Vars2 = c13ReadVars(vm2)
	return o
}

// `L1<{`L2<{ ... 1 ... }>`}>` with n open holes around the innermost value
func c13Nest(n int, d int, lits bool) ([]byte, []byte) {
	src, exp := []byte("7"), []byte("7")
	for i := n; i >= 1; i-- {
		pre, post := "", ""
		if lits {
			pre, post = fmt.Sprintf("L%d<", i), ">"
		}
		open, close := "{", "}"
		if i%3 == 0 {
			open, close = "{% ", " %}"
		}
		dd := d
		if d == 4 {
			dd = 2 + i%2
		}
		body := append([]byte(pre+open), src...)
		body = append(body, (close + post)...)
		src = c13Quote(dd, body)
		e := append([]byte(pre), exp...)
		exp = append(e, post...)
	}
	return src, exp
}

func init() {
	cmds["c13-run"] = func(args []string) {
		sc := bufio.NewScanner(os.Stdin)
		sc.Buffer(make([]byte, 1<<20), 1<<26)
		for sc.Scan() {
			b, err := hex.DecodeString(strings.TrimSpace(sc.Text()))
			if err != nil {
				continue
			}
			o := c13Run(newVM(allOn(), 1, 2, true), b)
			o.Kind = "run"
			emit(o)
		}
	}
	cmds["c13-probe"] = func(args []string) {
		for d := 0; d < 4; d++ {
			for b := 0; b < 256; b++ {
				for _, esc := range []bool{true, false} {
					var body []byte
					if esc {
						body = []byte{'\\', byte(b)}
					} else {
						body = []byte{byte(b)}
					}
					o := c13Run(newVM(allOn(), 1, 2, true), c13Quote(d, body))
					o.Kind, o.D, o.B, o.Esc = "probe", d, b, esc
					emit(o)
				}
			}
		}
		// the same with a harmless character after it (a lone backslash before the delimiter differs)
		for d := 0; d < 4; d++ {
			for b := 0; b < 128; b++ {
				o := c13Run(newVM(allOn(), 1, 2, true), c13Quote(d, []byte{'\\', byte(b), 'q'}))
				o.Kind, o.D, o.B, o.Esc = "probe", d, b, true
				emit(o)
			}
		}
	}
	cmds["c13-lit"] = func(args []string) {
		fs, seed, n := stdFlags("c13-lit")
		fs.Parse(args)
		r := newRng(*seed)
		for i := 0; i < *n; i++ {
			d := i % 4
			s := c13Text(r, d, true)
			bits := make([]int, len(s))
			mode := r.intn(4)
			for j := range bits {
				switch mode {
				case 0:
					bits[j] = 0
				case 1:
					bits[j] = 1
				default:
					bits[j] = r.intn(2)
				}
			}
			src := c13Quote(d, c13Escape(d, bits, s))
			o := c13Run(newVM(allOn(), 1, 2, true), src)
			o.Kind, o.D, o.S, o.Bits = "lit", d, c13Ints(s), bits
			if o.S == nil {
				o.S = []int{}
			}
			emit(o)
		}
	}
	cmds["c13-raw"] = func(args []string) {
		fs, seed, n := stdFlags("c13-raw")
		fs.Parse(args)
		r := newRng(*seed ^ 0x5bd1e995)
		for i := 0; i < *n; i++ {
			d := i % 4
			body := c13Text(r, d, false)
			if r.chance(1, 6) && len(body) > 0 { // ill-formed UTF-8
				p := r.intn(len(body))
				body[p] = byte(0x80 + r.intn(0x80))
			}
			if r.chance(1, 8) {
				body = append(body, '\\')
			}
			var src []byte
			switch r.intn(12) {
			case 0:
				src = append([]byte{c13Delims[d]}, body...) // unterminated
			case 1:
				src = append(c13Quote(d, nil), c13Quote(d, body)...) // empty literal first
			case 2:
				src = append(c13Quote(d, body), ' ')
			default:
				src = c13Quote(d, body)
			}
			o := c13Run(newVM(allOn(), 1, 2, true), src)
			o.Kind, o.D = "raw", d
			emit(o)
		}
	}
	cmds["c13-tmpl"] = func(args []string) {
		fs, seed, n := stdFlags("c13-tmpl")
		fs.Parse(args)
		r := newRng(*seed ^ 0x7f4a7c15)
		for i := 0; i < *n; i++ {
			d := 2 + i%2
			k := 1 + r.intn(6)
			body, segs := c13TmplBody(r, d, 2, k)
			if len(body) == 0 {
				body, segs = []byte("{1}"), []c13Seg{{hole: "1", form: "{"}}
			}
			emit(c13RunTmpl("tmpl", d, c13Quote(d, body), segs))
		}
	}
	cmds["c13-nest"] = func(args []string) {
		for n := 1; n <= 23; n++ {
			for _, d := range []int{2, 3, 4} {
				for _, lits := range []bool{false, true} {
					src, exp := c13Nest(n, d, lits)
					o := c13RunTmpl("nest", d, src, nil)
					o.Depth, o.Expect = n, c13Ints(exp)
					emit(o)
				}
			}
		}
	}
}
