(* C13 — string literals and templates reproduce text exactly.
   Only statements + `exact lemma` + Print Assumptions live here. *)
From Coq Require Import NArith ZArith List Bool.
From DS Require Import Model.Str Model.StrLit Proofs.StrLitProofs.
Import ListNotations.
Open Scope N_scope.

(* ---- literals: for EVERY escape table satisfying table_ok, every delimiter, every
   well-formed text that can be written at all, and every way of choosing between the
   named escape and the raw character, the literal lexes back to exactly the text (one
   push.str part), and the value the VM computes from that part is the text *)
Theorem C13_literal_roundtrip :
  forall (tbl : esc_table) (d : delim) (choice : nat -> N -> bool) (s : list N),
    table_ok tbl = true -> valid_text s -> representable tbl d s = true ->
    lex tbl d (quote d (escape tbl d choice s)) = Some [s] /\ lit_value d [s] = s.
Proof.
  intros tbl d choice s Ht Hv Hr. split.
  - exact (literal_roundtrip tbl Ht d choice s Hv Hr).
  - exact (literal_value d s).
Qed.
Print Assumptions C13_literal_roundtrip.

(* the table read off roll.peg (and re-checked against the real lexer on every run) *)
Theorem C13_actual_table_ok : table_ok actual_table = true.
Proof. exact actual_table_ok. Qed.
Print Assumptions C13_actual_table_ok.

(* which texts can be written: all of them in '...' and "...", all without the delimiter
   in `...` and 0x1E...0x1E  *)
Theorem C13_representable :
  (forall s, representable actual_table DSingle s = true) /\
  (forall s, representable actual_table DDouble s = true) /\
  (forall s, representable actual_table DBack s = true <-> ~ In 96 s) /\
  (forall s, representable actual_table DRS s = true <-> ~ In 30 s).
Proof.
  split; [exact representable_single|]. split; [exact representable_double|].
  split; intros s; [exact (representable_template DBack s eq_refl)|exact (representable_template DRS s eq_refl)].
Qed.
Print Assumptions C13_representable.

(* ... and that restriction is forced by the code: NO hole-free literal of a style
   evaluates to a text containing a byte that stops the style's part rule and has no
   escape (so no `...` literal contains a backtick, no 0x1E literal a 0x1E) *)
Theorem C13_representable_necessary :
  forall (d : delim) (src : list N) (parts : list (list N)),
    lex actual_table d src = Some parts -> representable actual_table d (concat parts) = true.
Proof. exact lex_representable. Qed.
Print Assumptions C13_representable_necessary.

(* byte-level reasoning is exact: in well-formed UTF-8 an ASCII byte (delimiters,
   backslash, braces, escape letters) is never part of a multi-byte rune *)
Theorem C13_ascii_not_in_multibyte :
  forall st b st', b < 128 -> ustep st b = Some st' -> st = U0 /\ st' = U0.
Proof. exact ascii_only_at_boundary. Qed.
Print Assumptions C13_ascii_not_in_multibyte.

(* non-vacuity: a text with every troublesome character, all four styles, three choice
   functions; and the hypotheses are satisfiable / not always satisfied *)
Example C13_nonvacuous_literal :
  let s := [39; 34; 96; 92; 110; 123; 125; 37; 13; 10; 9; 12; 0; 228; 184; 173; 240; 159; 152; 128; 204; 129; 92] in
  let s' := [39; 34; 30; 92; 110; 123; 125; 37; 13; 10; 9; 12; 0; 228; 184; 173; 240; 159; 152; 128; 204; 129; 92] in
  valid_text s /\
  representable actual_table DSingle s = true /\ representable actual_table DBack s = false /\
  representable actual_table DBack s' = true /\
  escape actual_table DBack (fun _ _ => true) s' =
    [39; 34; 30; 92; 92; 110; 92; 123; 125; 37; 13; 10; 9; 12; 0; 228; 184; 173; 240; 159; 152; 128; 204; 129; 92] /\
  lex actual_table DBack (quote DBack (escape actual_table DBack (fun _ _ => true) s')) = Some [s'] /\
  lex actual_table DSingle (quote DSingle (escape actual_table DSingle (fun i _ => Nat.even i) s)) = Some [s] /\
  lex actual_table DDouble (quote DDouble (escape actual_table DDouble (fun _ _ => false) s)) = Some [s] /\
  (* a raw backtick ends the literal early; a trailing backslash swallows the closing quote *)
  lex actual_table DBack [96; 97; 96; 98; 96] = None /\
  lex actual_table DSingle [39; 97; 92; 39] = None /\
  utf8_valid [39; 255; 39] = false.
Proof. vm_compute. repeat split. Qed.
