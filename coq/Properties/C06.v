(* C06 — seeded evaluation is reproducible and resumable. *)
From Coq Require Import NArith ZArith List Bool String.
From DS Require Import Model.PCG Model.Roll Proofs.RollProofs Model.Conc Gen.Globals Corr.Corr06.
Import ListNotations.

(* GetCurSeed then UnmarshalBinary gives back exactly the generator state *)
Theorem C06_seed_roundtrip : forall s, pcg_wf s -> pcg_unmarshal (pcg_marshal s) = Some s.
Proof. exact pcg_marshal_roundtrip. Qed.

(* a generator state captured and installed in a fresh source continues the identical sequence, for any number of draws *)
Theorem C06_resume :
  forall k s, pcg_wf s ->
    match pcg_unmarshal (pcg_marshal s) with Some s' => pcg_draws k s' = pcg_draws k s | None => False end.
Proof. exact pcg_resume. Qed.

(* drawing a words and then b words (e.g. across a save/restore point) is drawing a+b words *)
Theorem C06_draws_compose :
  forall a b s, pcg_draws (a + b) s =
    let '(v1, s1) := pcg_draws a s in let '(v2, s2) := pcg_draws b s1 in ((v1 ++ v2)%list, s2).
Proof. exact pcg_draws_app. Qed.

(* the captured seed is always 16 bytes; shorter seed material is rejected (Init keeps the zero state — stated) *)
Theorem C06_cur_seed_is_16_bytes : forall s, List.length (pcg_marshal s) = 16%nat.
Proof. exact pcg_marshal_length. Qed.
Theorem C06_short_seed_rejected : forall d, (List.length d < 16)%nat -> pcg_unmarshal d = None.
Proof. exact pcg_unmarshal_short. Qed.

(* states stay two 64-bit words, so every state a VM can reach is capturable *)
Theorem C06_states_wellformed : forall s, pcg_wf (pcg_step s).
Proof. exact pcg_step_wf. Qed.

(* min / max mode never touch the generator *)
Theorem C06_modes_consume_nothing :
  forall fuel d s, roll_pcg fuel d (-1) s = Done ((if (d =? 0)%Z then 0 else 1)%Z, s) /\ roll_pcg fuel d 1 s = Done (d, s).
Proof. intros fuel d s. exact (roll_minmax_consumes_nothing pcg pcg_next fuel d s). Qed.

(* on the footprint table regenerated from /repo: the package-level generator is touched only by the
   nil-source fallback of Roll and by GetCurSeed (both under the mutex), and no package-level
   math/rand function is called anywhere: all randomness a script can reach goes through the
   source handed to Roll, i.e. the context's generator when one is set *)
Theorem C06_package_generator_confined : rand_source_confined uses = true /\ rand_calls = [].
Proof. split; [vm_compute|]; reflexivity. Qed.

Print Assumptions C06_seed_roundtrip.
Print Assumptions C06_resume.
Print Assumptions C06_draws_compose.
Print Assumptions C06_cur_seed_is_16_bytes.
Print Assumptions C06_short_seed_rejected.
Print Assumptions C06_states_wellformed.
Print Assumptions C06_modes_consume_nothing.
Print Assumptions C06_package_generator_confined.

Example C06_nonvacuous : pcg_wf (init_from_seed [1;2;3;4;5;6;7;8;9;10;11;12;13;14;15;16]%N).
Proof. vm_compute. split; reflexivity. Qed.
