package main

import (
	"fmt"
	"math"

	ds "github.com/sealdice/dicescript"
)

type c04Case struct {
	Call string   `json:"call"`
	Args []string `json:"args"` // decimal int64s, meaning depends on call
	Dmin *string  `json:"dmin"`
	Dmax *string  `json:"dmax"`
	Flag bool     `json:"flag"` // isBonus / isGE
	Mode int      `json:"mode"`
	Hi   string   `json:"hi"`
	Lo   string   `json:"lo"`
	Out  []string `json:"out"`
	Text string   `json:"text"`
	Hi2  string   `json:"hi2"`
	Lo2  string   `json:"lo2"`
}

func optS(p *ds.IntType) *string {
	if p == nil {
		return nil
	}
	s := i(int64(*p))
	return &s
}

func c04Common(hi, lo uint64, times, sides int64, dmin, dmax *ds.IntType, keep, low, high int64, mode int) {
	src := mkSrc(hi, lo)
	num, text := ds.RollCommon(src, ds.IntType(times), ds.IntType(sides), dmin, dmax, ds.IntType(keep), ds.IntType(low), ds.IntType(high), mode)
	h2, l2 := srcState(src)
	emit(c04Case{Call: "common", Args: []string{i(times), i(sides), i(keep), i(low), i(high)}, Dmin: optS(dmin), Dmax: optS(dmax),
		Mode: mode, Hi: u(hi), Lo: u(lo), Out: []string{i(int64(num))}, Text: text, Hi2: u(h2), Lo2: u(l2)})
}

func c04CoC(hi, lo uint64, bonus bool, n int64, mode int) {
	src := mkSrc(hi, lo)
	num, text := ds.RollCoC(src, bonus, ds.IntType(n), mode)
	h2, l2 := srcState(src)
	emit(c04Case{Call: "coc", Args: []string{i(n)}, Flag: bonus, Mode: mode, Hi: u(hi), Lo: u(lo), Out: []string{i(int64(num))}, Text: text, Hi2: u(h2), Lo2: u(l2)})
}

func c04Fate(hi, lo uint64, mode int) {
	src := mkSrc(hi, lo)
	num, text := ds.RollFate(src, mode)
	h2, l2 := srcState(src)
	emit(c04Case{Call: "fate", Args: []string{}, Mode: mode, Hi: u(hi), Lo: u(lo), Out: []string{i(int64(num))}, Text: text, Hi2: u(h2), Lo2: u(l2)})
}

func c04Wod(hi, lo uint64, addLine, pool, points, threshold int64, isGE bool, mode int) {
	src := mkSrc(hi, lo)
	a, b, c, text := ds.RollWoD(src, ds.IntType(addLine), ds.IntType(pool), ds.IntType(points), ds.IntType(threshold), isGE, mode)
	h2, l2 := srcState(src)
	emit(c04Case{Call: "wod", Args: []string{i(addLine), i(pool), i(points), i(threshold)}, Flag: isGE, Mode: mode, Hi: u(hi), Lo: u(lo),
		Out: []string{i(int64(a)), i(int64(b)), i(int64(c))}, Text: text, Hi2: u(h2), Lo2: u(l2)})
}

func c04Dc(hi, lo uint64, addLine, pool, points int64, mode int) {
	src := mkSrc(hi, lo)
	a, b, c, text := ds.RollDoubleCross(src, ds.IntType(addLine), ds.IntType(pool), ds.IntType(points), mode)
	h2, l2 := srcState(src)
	emit(c04Case{Call: "dc", Args: []string{i(addLine), i(pool), i(points)}, Mode: mode, Hi: u(hi), Lo: u(lo),
		Out: []string{i(int64(a)), i(int64(b)), i(int64(c))}, Text: text, Hi2: u(h2), Lo2: u(l2)})
}

func optI(r *rng, vals []int64) *ds.IntType {
	k := r.intn(len(vals) + 2)
	if k >= len(vals) {
		return nil
	}
	v := ds.IntType(vals[k])
	return &v
}

func init() {
	// replay of the recorded finding: DC with sides > 10, a non-critical die above 10 after a critical one
	cmds["c04-dcorder"] = func(args []string) {
		for sd := uint64(1); sd < 4000; sd++ {
			src := mkSrc(sd, sd*7+1)
			res, all, rounds, text := ds.RollDoubleCross(src, 15, 2, 20, 0)
			// first round [x>=15, 10<y<15] gives y instead of 10
			var a, b int
			if n, _ := fmt.Sscanf(text, "出目%d/%d 轮数:%d {<%d>,%d}", new(int), new(int), new(int), &a, &b); n == 5 && b > 10 && b < 15 {
				emit(map[string]any{"found": true, "text": text, "res": int64(res), "all": int64(all), "rounds": int64(rounds)})
				return
			}
		}
		emit(map[string]any{"found": false})
	}

	cmds["c04"] = func(args []string) {
		fs, seed, n := stdFlags("c04")
		modes := fs.String("modes", "0", "which modes: 0 | all")
		fs.Parse(args)
		r := newRng(*seed)
		modeList := []int{0}
		if *modes == "all" {
			modeList = []int{0, -1, 1}
		}
		// WoD pools below the 15-dice display limit whose explosions carry the total past the 100-dice limit (the rounds already
		// recorded are then dropped from the text), and pools just above / below both limits
		for k := 0; k < 60; k++ {
			pool := int64(6 + r.intn(16))
			addLine := pick(r, []int64{2, 2, 3, 4})
			c04Wod(r.u64(), r.u64(), addLine, pool, 10, int64(1+r.intn(10)), r.chance(3, 4), 0)
		}
		// small deterministic grid (sampled: the full grid is huge; every axis value appears)
		sidesL := []int64{1, 2, 3, 6, 10, 100}
		for _, mode := range modeList {
			for times := int64(1); times <= 6; times++ {
				for _, sides := range sidesL {
					for keep := int64(0); keep <= 4; keep++ {
						for cnt := int64(-1); cnt <= 7; cnt += 1 + int64(r.intn(2)) {
							mm := []int64{0, 1, 3, sides, sides + 2}
							c04Common(r.u64(), r.u64(), times, sides, optI(r, mm), optI(r, mm), keep, cnt, cnt, mode)
						}
					}
				}
			}
		}
		for k := 0; k < *n; k++ {
			mode := pick(r, modeList)
			hi, lo := r.u64(), r.u64()
			switch r.intn(10) {
			case 0, 1, 2:
				times := int64(r.intn(12))
				sides := pick(r, []int64{1, 2, 3, 4, 6, 8, 10, 20, 100, 1000, 1 << 40, math.MaxInt64 - 1, int64(r.u64() >> uint(1+r.intn(62)))})
				if sides <= 0 {
					sides = 6
				}
				mm := []int64{-3, 0, 1, 2, 3, sides / 2, sides, sides + 2}
				keep := int64(r.intn(5))
				c04Common(hi, lo, times, sides, optI(r, mm), optI(r, mm), keep, int64(r.intn(14))-2, int64(r.intn(14))-2, mode)
			case 3, 4:
				c04CoC(hi, lo, r.chance(1, 2), int64(r.intn(7)), mode)
			case 5:
				c04Fate(hi, lo, mode)
			case 6, 7:
				pool := int64(1 + r.intn(22))
				points := pick(r, []int64{1, 2, 6, 10, 10, 10, 20, 100})
				addLine := pick(r, []int64{0, 0, 2, 5, 8, 9, 10, 11, points, points + 1})
				if mode == 1 && addLine != 0 && addLine <= points {
					addLine = points + 1 // max mode would explode forever (recorded under C07)
				}
				if mode == -1 && addLine == 1 {
					addLine = 2
				}
				if mode == 0 && addLine != 0 && addLine < points/10+2 {
					// every die explodes with probability (points-addLine+1)/points < 1, so the rounds die out; keep that probability
					// <= 0.9 (about ten dice rolled per die of the pool: totals beyond the 100-dice display limit do occur)
					addLine = points/10 + 2
				}
				c04Wod(hi, lo, addLine, pool, points, int64(1+r.intn(int(points)+1)), r.chance(3, 4), mode)
			default:
				pool := int64(1 + r.intn(22))
				points := pick(r, []int64{2, 6, 10, 10, 10, 20, 30})
				addLine := pick(r, []int64{2, 5, 7, 8, 9, 10, 11, points, points + 1})
				if mode == 1 && addLine <= points {
					addLine = points + 1
				}
				if mode == 0 && addLine < points/2+2 {
					addLine = points/2 + 2
				}
				if mode == -1 && addLine < 2 {
					addLine = 2
				}
				c04Dc(hi, lo, addLine, pool, points, mode)
			}
		}
	}
}
