(* Invariant of the interleaving model Model/ValueMapConc.v: definitions and
   lemmas about the primitives on the shared state. *)
From stdpp Require Import gmap.
From Coq Require Import NArith Lia.
From DS Require Import Model.ValueMap Model.ValueMapConc Proofs.ValueMapConcLin.

Local Open Scope N_scope.

(* ghost: linearization state, key of every entry, owner of an orphaned entry *)
Record ghost := { g_l : lghost; g_ek : eid -> key; g_own : eid -> option nat }.

Definition inrd (s : shared) (e : eid) : Prop := exists k, s_rd s !! k = Some e.
Definition ever (s : shared) (e : eid) : Prop := inrd s e \/ s_cell s e = KExp.
Definition indirty (s : shared) (e : eid) : Prop :=
  exists d k, s_dirty s = Some d /\ d !! k = Some e.
Definition current (s : shared) (k : key) (e : eid) : Prop :=
  s_rd s !! k = Some e \/ (s_rd s !! k = None /\ s_am s = true /\ dget s k = Some e).
Definition held (s : shared) (ek : eid -> key) (k : key) (e : eid) : Prop :=
  ek e = k /\ e < s_nexte s.
Definition seenk (seen : list spec) (k : key) (r : option val) : Prop :=
  exists σ, σ ∈ seen /\ σ !! k = r.
Definition SN (s : shared) (seen : list spec) (k : key) (e : eid) : Prop :=
  current s k e \/ (seenk seen k (kload (s_cell s e)) /\ seenk seen k None).

Definition abs_lookup (s : shared) (k : key) : option val :=
  match s_rd s !! k with
  | Some e => kload (s_cell s e)
  | None => if s_am s then match dget s k with Some e => kload (s_cell s e) | None => None end
            else None
  end.

Record WF (s : shared) (ek : eid -> key) (own : eid -> option nat) : Prop := {
  w_am : s_am s = true -> is_Some (s_dirty s);
  w_rd : forall k e, s_rd s !! k = Some e -> held s ek k e;
  w_d : forall d k e, s_dirty s = Some d -> d !! k = Some e -> held s ek k e /\ s_cell s e <> KExp;
  w_rd_d : forall d k e, s_dirty s = Some d -> s_rd s !! k = Some e -> s_cell s e <> KExp ->
           d !! k = Some e;
  w_exp : forall k e, s_rd s !! k = Some e -> s_cell s e = KExp ->
          exists d, s_dirty s = Some d /\ d !! k = None;
  w_clean : forall d k e, s_am s = false -> s_dirty s = Some d -> d !! k = Some e ->
            s_rd s !! k = Some e;
  w_own : forall e t, own e = Some t -> ~ ever s e /\ ~ indirty s e /\ e < s_nexte s;
}.

Definition holds_lock (p : pc) : bool :=
  match p with
  | PUnlock _ | PLoadLocked _ | PStoreLocked _ _ | PDelLocked _ | PLosLocked _ _ => true
  | _ => false
  end.

Definition status (g : ghost) (t : nat) := g_th (g_l g) !! t.

(* what a thread may assume at each program point *)
Fixpoint TI (s : shared) (g : ghost) (t : nat) (p : pc) : Prop :=
  match p with
  | PIdle => status g t = None
  | PRet r => status g t = Some (GLin r)
  | PUnlock next =>
    match next with
    | PRet _ | PLoadE _ _ | PDelE _ _ => TI s g t next
    | _ => False
    end
  | PLoad0 k | PLoadLock k | PLoadLocked k => exists seen, status g t = Some (GInv (CLoad k) seen)
  | PLoadE k e => exists seen, status g t = Some (GInv (CLoad k) seen) /\
                  held s (g_ek g) k e /\ SN s seen k e
  | PStore0 k v | PStoreLock k v | PStoreLocked k v =>
    exists seen, status g t = Some (GInv (CStore k v) seen)
  | PStoreTry k v e => exists seen, status g t = Some (GInv (CStore k v) seen) /\
                  held s (g_ek g) k e /\ ever s e
  | PStoreCas k v e c => exists seen, status g t = Some (GInv (CStore k v) seen) /\
                  held s (g_ek g) k e /\ ever s e /\ c <> KExp
  | PDel0 k | PDelLock k | PDelLocked k =>
    exists seen, status g t = Some (GInv (CLoadAndDelete k) seen)
  | PDelE k e =>
    held s (g_ek g) k e /\
    ((exists seen, status g t = Some (GInv (CLoadAndDelete k) seen) /\ ever s e /\ SN s seen k e) \/
     (status g t = Some (GLin (ROpt (kload (s_cell s e)))) /\ g_own g e = Some t))
  | PDelCas k e c =>
    held s (g_ek g) k e /\ is_val c = true /\
    ((exists seen, status g t = Some (GInv (CLoadAndDelete k) seen) /\ ever s e /\ SN s seen k e) \/
     (status g t = Some (GLin (ROpt (kload (s_cell s e)))) /\ g_own g e = Some t /\ c = s_cell s e))
  | PLos0 k v | PLosLock k v | PLosLocked k v =>
    exists seen, status g t = Some (GInv (CLoadOrStore k v) seen)
  | PLosE k v e | PLosCas k v e =>
    exists seen, status g t = Some (GInv (CLoadOrStore k v) seen) /\
                  held s (g_ek g) k e /\ ever s e
  end.

Record Inv (c : conf) (g : ghost) : Prop := {
  i_wf : WF (c_sh c) (g_ek g) (g_own g);
  i_abs : forall k, g_abs (g_l g) !! k = abs_lookup (c_sh c) k;
  i_cur : forall t o seen, status g t = Some (GInv o seen) -> g_abs (g_l g) ∈ seen;
  i_thr : forall t ts, c_thr c !! t = Some ts -> TI (c_sh c) g t (t_pc ts);
  i_nothr : forall t, c_thr c !! t = None -> status g t = None;
  i_lock : forall t ts, c_thr c !! t = Some ts ->
           (holds_lock (t_pc ts) = true <-> s_lock (c_sh c) = Some t);
}.

(* ---- what one step of thread t guarantees to the other threads ------------- *)
Record Rely (t : nat) (s : shared) (g : ghost) (s' : shared) (g' : ghost) : Prop := {
  y_nexte : s_nexte s <= s_nexte s';
  y_ek : forall e, e < s_nexte s -> g_ek g' e = g_ek g e;
  y_own : forall e t', g_own g e = Some t' -> t' <> t -> g_own g' e = Some t';
  y_ever : forall e, e < s_nexte s -> ever s e -> ever s' e;
  y_frozen : forall e t', g_own g e = Some t' -> t' <> t -> s_cell s' e = s_cell s e;
  y_sn : forall k e, held s (g_ek g) k e ->
     current s' k e \/
     ((kload (s_cell s' e) = abs_lookup s k \/ kload (s_cell s' e) = abs_lookup s' k) /\
      (abs_lookup s k = None \/ abs_lookup s' k = None)) \/
     (~ current s k e /\ (s_cell s' e = s_cell s e \/ kload (s_cell s' e) = None));
}.

(* how the ghost status of another thread may change *)
Definition status_mono (g g' : ghost) (t' : nat) : Prop :=
  status g' t' = status g t' \/
  exists o seen, status g t' = Some (GInv o seen) /\
                 status g' t' = Some (GInv o (g_abs (g_l g') :: seen)).

Lemma held_mono t s g s' g' k e :
  Rely t s g s' g' -> held s (g_ek g) k e -> held s' (g_ek g') k e.
Proof.
  intros Hy [Hk Hlt]. split; [by rewrite (y_ek _ _ _ _ _ Hy)|].
  pose proof (y_nexte _ _ _ _ _ Hy). lia.
Qed.

Lemma seenk_mono seen seen' k r : seen ⊆ seen' -> seenk seen k r -> seenk seen' k r.
Proof. intros Hs (σ & Hin & Hl). exists σ. split; [by apply Hs|done]. Qed.

Lemma SN_step t s g s' g' k e seen seen' :
  Rely t s g s' g' -> held s (g_ek g) k e ->
  (forall k, g_abs (g_l g) !! k = abs_lookup s k) ->
  (forall k, g_abs (g_l g') !! k = abs_lookup s' k) ->
  seen ⊆ seen' -> g_abs (g_l g) ∈ seen -> g_abs (g_l g') ∈ seen' ->
  SN s seen k e -> SN s' seen' k e.
Proof.
  intros Hy Hh Ha Ha' Hsub Hin Hin' Hsn.
  assert (seenk seen' k (abs_lookup s k)) as Hpre.
  { exists (g_abs (g_l g)). split; [by apply Hsub|apply Ha]. }
  assert (seenk seen' k (abs_lookup s' k)) as Hpost.
  { exists (g_abs (g_l g')). split; [done|apply Ha']. }
  destruct (y_sn _ _ _ _ _ Hy k e Hh) as [Hc|[(Hv & Hn)|(Hnc & Hv)]].
  - by left.
  - right. split.
    + destruct Hv as [-> | ->]; done.
    + destruct Hn as [<- | <-]; done.
  - destruct Hsn as [Hc|[H1 H2]]; [done|]. right.
    destruct Hv as [-> | ->]; split; try done; eapply seenk_mono; eauto.
Qed.

Lemma status_mono_inv g g' t' o seen :
  status_mono g g' t' -> status g t' = Some (GInv o seen) ->
  exists seen', status g' t' = Some (GInv o seen') /\ seen ⊆ seen'.
Proof.
  intros [He|(o1 & seen1 & H1 & H2)] Hs.
  - exists seen. by rewrite He.
  - rewrite Hs in H1. inversion H1; subst. eexists. split; [done|]. set_solver.
Qed.
Lemma status_mono_lin g g' t' r :
  status_mono g g' t' -> status g t' = Some (GLin r) -> status g' t' = Some (GLin r).
Proof.
  intros [He|(o1 & seen1 & H1 & H2)] Hs; [by rewrite He|]. rewrite Hs in H1. done.
Qed.
Lemma status_mono_none g g' t' :
  status_mono g g' t' -> status g t' = None -> status g' t' = None.
Proof.
  intros [He|(o1 & seen1 & H1 & H2)] Hs; [by rewrite He|]. rewrite Hs in H1. done.
Qed.

Section stable.
  Context (t t' : nat) (s s' : shared) (g g' : ghost).
  Hypothesis Hy : Rely t s g s' g'.
  Hypothesis Ha : forall k, g_abs (g_l g) !! k = abs_lookup s k.
  Hypothesis Ha' : forall k, g_abs (g_l g') !! k = abs_lookup s' k.
  Hypothesis Hcur : forall o seen, status g t' = Some (GInv o seen) -> g_abs (g_l g) ∈ seen.
  Hypothesis Hcur' : forall o seen, status g' t' = Some (GInv o seen) -> g_abs (g_l g') ∈ seen.
  Hypothesis Hst : status_mono g g' t'.
  Hypothesis Hne : t' <> t.

  Local Ltac inv_tac :=
    match goal with
    | H : status g t' = Some (GInv _ _) |- _ =>
      let seen' := fresh "seen'" in let Hs' := fresh "Hs'" in let Hsub := fresh "Hsub" in
      pose proof (Hcur _ _ H);
      destruct (status_mono_inv _ _ _ _ _ Hst H) as (seen' & Hs' & Hsub);
      pose proof (Hcur' _ _ Hs')
    end.

  Lemma TI_stable_base p :
    (match p with PUnlock _ => False | _ => True end) -> TI s g t' p -> TI s' g' t' p.
  Proof.
    intros Hb Hti. destruct p; simpl in *; try done.
    - by eapply status_mono_none.
    - by eapply status_mono_lin.
    - destruct Hti as (seen & Hs). inv_tac. eauto.
    - destruct Hti as (seen & Hs). inv_tac. eauto.
    - destruct Hti as (seen & Hs). inv_tac. eauto.
    - destruct Hti as (seen & Hs & Hh & Hsn). inv_tac. exists seen'.
      split; [done|]. split; [by eapply held_mono|]. eapply SN_step; eauto.
    - destruct Hti as (seen & Hs). inv_tac. eauto.
    - destruct Hti as (seen & Hs & Hh & He). inv_tac. exists seen'.
      split; [done|]. split; [by eapply held_mono|]. (eapply y_ever; [done|apply Hh|done]).
    - destruct Hti as (seen & Hs & Hh & He & Hc). inv_tac. exists seen'.
      split; [done|]. split; [by eapply held_mono|]. split; [(eapply y_ever; [done|apply Hh|done])|done].
    - destruct Hti as (seen & Hs). inv_tac. eauto.
    - destruct Hti as (seen & Hs). inv_tac. eauto.
    - destruct Hti as (seen & Hs). inv_tac. eauto.
    - destruct Hti as (seen & Hs). inv_tac. eauto.
    - destruct Hti as (seen & Hs). inv_tac. eauto.
    - destruct Hti as (Hh & [(seen & Hs & He & Hsn)|(Hs & Ho)]).
      + inv_tac. split; [by eapply held_mono|]. left. exists seen'.
        split; [done|]. split; [(eapply y_ever; [done|apply Hh|done])|]. eapply SN_step; eauto.
      + split; [by eapply held_mono|]. right.
        rewrite (y_frozen _ _ _ _ _ Hy _ _ Ho Hne). split; [by eapply status_mono_lin|].
        by eapply y_own.
    - destruct Hti as (Hh & Hv & [(seen & Hs & He & Hsn)|(Hs & Ho & Hc)]).
      + inv_tac. split; [by eapply held_mono|]. split; [done|]. left. exists seen'.
        split; [done|]. split; [(eapply y_ever; [done|apply Hh|done])|]. eapply SN_step; eauto.
      + split; [by eapply held_mono|]. split; [done|]. right.
        rewrite (y_frozen _ _ _ _ _ Hy _ _ Ho Hne). split; [by eapply status_mono_lin|].
        split; [by eapply y_own|done].
    - destruct Hti as (seen & Hs). inv_tac. eauto.
    - destruct Hti as (seen & Hs & Hh & He). inv_tac. exists seen'.
      split; [done|]. split; [by eapply held_mono|]. (eapply y_ever; [done|apply Hh|done]).
    - destruct Hti as (seen & Hs & Hh & He). inv_tac. exists seen'.
      split; [done|]. split; [by eapply held_mono|]. (eapply y_ever; [done|apply Hh|done]).
    - destruct Hti as (seen & Hs). inv_tac. eauto.
    - destruct Hti as (seen & Hs). inv_tac. eauto.
  Qed.

  Lemma TI_stable p : TI s g t' p -> TI s' g' t' p.
  Proof.
    destruct p; try (apply TI_stable_base; done).
    simpl. destruct p; try done; apply TI_stable_base; done.
  Qed.
End stable.

(* ---- generic facts about the linearization ghost --------------------------- *)
Lemma lg_step_mono l t a t' :
  t' <> t ->
  g_th (lg_step l t a) !! t' = g_th l !! t' \/
  exists o seen, g_th l !! t' = Some (GInv o seen) /\
                 g_th (lg_step l t a) !! t' = Some (GInv o (g_abs (lg_step l t a) :: seen)).
Proof.
  intros Hne. destruct a; simpl.
  - by left.
  - left. by rewrite lookup_insert_ne.
  - left. by rewrite lookup_delete_ne.
  - destruct (g_th l !! t) as [[o seen0|r0]|] eqn:Ht; try by left.
    destruct (spec_step (g_abs l) (vop_of o)) as [s' r]. simpl.
    rewrite lookup_insert_ne, lookup_fmap by done.
    destruct (g_th l !! t') as [[o1 seen1|r1]|]; simpl; eauto.
  - destruct (g_th l !! t) as [[o seen0|r0]|] eqn:Ht; try by left.
    simpl. left. by rewrite lookup_insert_ne.
Qed.

Lemma lg_step_cur l t a :
  (forall t' o seen, g_th l !! t' = Some (GInv o seen) -> g_abs l ∈ seen) ->
  forall t' o seen, g_th (lg_step l t a) !! t' = Some (GInv o seen) ->
                    g_abs (lg_step l t a) ∈ seen.
Proof.
  intros Hc t' o seen. destruct a; simpl.
  - apply Hc.
  - destruct (decide (t' = t)) as [->|Hne].
    + rewrite lookup_insert. intros [= <- <-]. set_solver.
    + rewrite lookup_insert_ne by done. apply Hc.
  - destruct (decide (t' = t)) as [->|Hne]; [by rewrite lookup_delete|].
    rewrite lookup_delete_ne by done. apply Hc.
  - destruct (g_th l !! t) as [[o0 seen0|r0]|] eqn:Ht; try apply Hc.
    destruct (spec_step (g_abs l) (vop_of o0)) as [s' r]. simpl.
    destruct (decide (t' = t)) as [->|Hne]; [by rewrite lookup_insert|].
    rewrite lookup_insert_ne, lookup_fmap by done.
    destruct (g_th l !! t') as [[o1 seen1|r1]|]; simpl; try done.
    intros [= <- <-]. set_solver.
  - destruct (g_th l !! t) as [[o0 seen0|r0]|] eqn:Ht; try apply Hc.
    simpl. destruct (decide (t' = t)) as [->|Hne]; [by rewrite lookup_insert|].
    rewrite lookup_insert_ne by done. apply Hc.
Qed.

(* ---- the invariant as seen by the stepping thread t: everything but t's own assertion.
   It is re-established after every micro-step (primitive) of a transition. ---- *)
Record OInv (t : nat) (s : shared) (thr : gmap nat tstate) (g : ghost) : Prop := {
  o_wf : WF s (g_ek g) (g_own g);
  o_abs : forall k, g_abs (g_l g) !! k = abs_lookup s k;
  o_cur : forall t' o seen, status g t' = Some (GInv o seen) -> g_abs (g_l g) ∈ seen;
  o_thr : forall t' ts, t' <> t -> thr !! t' = Some ts -> TI s g t' (t_pc ts);
  o_nothr : forall t', thr !! t' = None -> status g t' = None;
  o_lock : forall t' ts, t' <> t -> thr !! t' = Some ts ->
           (holds_lock (t_pc ts) = true <-> s_lock s = Some t');
}.

Lemma Inv_OInv c g t : Inv c g -> OInv t (c_sh c) (c_thr c) g.
Proof.
  intros Hi. split.
  - apply (i_wf _ _ Hi).
  - apply (i_abs _ _ Hi).
  - apply (i_cur _ _ Hi).
  - intros t' ts _. apply (i_thr _ _ Hi).
  - apply (i_nothr _ _ Hi).
  - intros t' ts _. apply (i_lock _ _ Hi).
Qed.

Lemma OInv_step t s thr g s' g' a :
  OInv t s thr g -> is_Some (thr !! t) ->
  g_l g' = lg_step (g_l g) t a ->
  WF s' (g_ek g') (g_own g') ->
  (forall k, g_abs (g_l g') !! k = abs_lookup s' k) ->
  Rely t s g s' g' ->
  (forall t', t' <> t -> s_lock s' = Some t' <-> s_lock s = Some t') ->
  OInv t s' thr g'.
Proof.
  intros Hi Ht Hl Hwf Habs Hy Hlk'.
  assert (forall t', t' <> t -> status_mono g g' t') as Hmono.
  { intros t' Hne. unfold status_mono, status. rewrite Hl. by apply lg_step_mono. }
  assert (forall t' o seen, status g' t' = Some (GInv o seen) -> g_abs (g_l g') ∈ seen) as Hcur'.
  { unfold status. rewrite Hl. apply lg_step_cur. apply (o_cur _ _ _ _ Hi). }
  split; try done.
  - intros t' ts' Hne Ht'.
    eapply (TI_stable t t' s s' g g'); eauto.
    + apply (o_abs _ _ _ _ Hi).
    + apply (o_cur _ _ _ _ Hi).
    + by apply (o_thr _ _ _ _ Hi).
  - intros t' Ht'. assert (t' <> t) as Hne by (intros ->; rewrite Ht' in Ht; by destruct Ht).
    eapply status_mono_none; [by apply Hmono|]. by apply (o_nothr _ _ _ _ Hi).
  - intros t' ts' Hne Ht'. rewrite (Hlk' _ Hne). by apply (o_lock _ _ _ _ Hi).
Qed.

Lemma OInv_Inv t s thr g ts p' todo' hist' :
  OInv t s thr g -> thr !! t = Some ts -> TI s g t p' ->
  (holds_lock p' = true <-> s_lock s = Some t) ->
  Inv {| c_sh := s; c_thr := <[t := {| t_pc := p'; t_todo := todo' |}]> thr; c_hist := hist' |} g.
Proof.
  intros Ho Ht Hti Hlk. split; simpl.
  - apply (o_wf _ _ _ _ Ho).
  - apply (o_abs _ _ _ _ Ho).
  - apply (o_cur _ _ _ _ Ho).
  - intros t' ts'. destruct (decide (t' = t)) as [->|Hne].
    + rewrite lookup_insert. by intros [= <-].
    + rewrite lookup_insert_ne by done. by apply (o_thr _ _ _ _ Ho).
  - intros t'. destruct (decide (t' = t)) as [->|Hne]; [by rewrite lookup_insert|].
    rewrite lookup_insert_ne by done. apply (o_nothr _ _ _ _ Ho).
  - intros t' ts'. destruct (decide (t' = t)) as [->|Hne].
    + rewrite lookup_insert. by intros [= <-].
    + rewrite lookup_insert_ne by done. by apply (o_lock _ _ _ _ Ho).
Qed.
