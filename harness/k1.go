package main

import (
	"bufio"
	"encoding/base64"
	"encoding/json"
	"fmt"
	"os"
	"sort"

	ds "github.com/sealdice/dicescript"
)

type k1In struct {
	B64   string `json:"b64"`
	Flags []bool `json:"flags"` // wod coc fate dc noBitwise noStmts noNDice
	Pre   string `json:"pre"`   // base64 of a source Run on the same VM before (history; may contain macros)
}

type k1Out struct {
	Ok      bool   `json:"ok"`
	Err     string `json:"err,omitempty"`
	Panic   string `json:"panic,omitempty"`
	Offset  int    `json:"offset"`
	ExprCnt uint64 `json:"cnt"`
	NErrs   int    `json:"nerrs"`
	Fail    [3]int `json:"fail"` // offset, line, col
	Ops     []int  `json:"ops"`  // sorted set of opcode numbers in the compiled code incl. nested bodies
	NCode   int    `json:"ncode"`
	CfgSame bool   `json:"cfgSame"` // ctx.Config flags unchanged by Parse
}

func collectOps(code []ds.VerifOp, set map[int]bool) {
	for _, c := range code {
		set[c.T] = true
		if c.Fn != nil && c.Fn.Code != nil {
			collectOps(c.Fn.Code, set)
		}
	}
}

func cfgFromFlags(f []bool) vmCfg {
	c := vmCfg{OpLimit: 200000}
	if len(f) >= 7 {
		c.WoD, c.CoC, c.Fate, c.DC, c.NoBitwise, c.NoStmts, c.NoNDice = f[0], f[1], f[2], f[3], f[4], f[5], f[6]
	}
	return c
}

func k1Parse(src string, flags []bool, pre string) (o k1Out) {
	vm := ds.NewVM()
	cfg := cfgFromFlags(flags)
	cfg.apply(vm)
	before := vm.Config
	if pre != "" {
		func() {
			defer func() { _ = recover() }()
			_ = vm.Run(pre)
		}()
	}
	defer func() {
		if r := recover(); r != nil {
			o.Panic = fmt.Sprint(r)
		}
	}()
	err := vm.Parse(src)
	st := vm.VerifParseStats()
	o.Offset, o.ExprCnt, o.NErrs, o.Fail = st.Offset, st.ExprCnt, st.NErrs, [3]int{st.FailOff, st.FailLine, st.FailCol}
	a, b := before, vm.Config
	o.CfgSame = a.EnableDiceWoD == b.EnableDiceWoD && a.EnableDiceCoC == b.EnableDiceCoC && a.EnableDiceFate == b.EnableDiceFate &&
		a.EnableDiceDoubleCross == b.EnableDiceDoubleCross && a.DisableBitwiseOp == b.DisableBitwiseOp && a.DisableStmts == b.DisableStmts && a.DisableNDice == b.DisableNDice
	if err != nil {
		o.Err = err.Error()
		return
	}
	o.Ok = true
	code := vm.VerifCode()
	o.NCode = len(code)
	set := map[int]bool{}
	collectOps(code, set)
	for k := range set {
		o.Ops = append(o.Ops, k)
	}
	sort.Ints(o.Ops)
	return
}

func init() {
	cmds["k1"] = func(args []string) {
		sc := bufio.NewScanner(os.Stdin)
		sc.Buffer(make([]byte, 1<<20), 1<<26)
		for sc.Scan() {
			var in k1In
			if json.Unmarshal(sc.Bytes(), &in) != nil {
				continue
			}
			raw, err := base64.StdEncoding.DecodeString(in.B64)
			if err != nil {
				continue
			}
			pre, _ := base64.StdEncoding.DecodeString(in.Pre)
			emit(k1Parse(string(raw), in.Flags, string(pre)))
		}
	}
}

// RunExpr is a second entry point that compiles text (lazily, in a sub-VM): what the syntax flags disable for Run must be disabled
// there too.  For each (input, flags): Run on one VM, RunExpr on another VM with the same configuration and generator state.
func init() {
	cmds["c16-runexpr"] = func(args []string) {
		sc := bufio.NewScanner(os.Stdin)
		sc.Buffer(make([]byte, 1<<20), 1<<26)
		for sc.Scan() {
			var in struct {
				B64   string `json:"b64"`
				Flags []bool `json:"flags"`
			}
			if json.Unmarshal(sc.Bytes(), &in) != nil {
				continue
			}
			raw, _ := base64.StdEncoding.DecodeString(in.B64)
			cfg := cfgFromFlags(in.Flags)
			cfg.OpLimit = 20000
			a := newVM(cfg, 7, 9, true)
			oa := runScript(a, string(raw), false)
			b := newVM(cfg, 7, 9, true)
			row := map[string]any{"run_ok": oa.Ok, "run_str": oa.Str, "run_rest": oa.Rest}
			func() {
				defer func() {
					if r := recover(); r != nil {
						row["expr_panic"] = fmt.Sprint(r)
					}
				}()
				v, err := b.RunExpr(string(raw), false)
				if err != nil {
					row["expr_err"] = err.Error()
				} else if v != nil {
					row["expr_ok"] = true
					row["expr_str"] = v.ToString()
				}
			}()
			// history on ONE VM: the same text is first evaluated under the permissive setting (everything enabled), then the
			// host flips the switches to this case's setting (and clears the variables, reseeds): both entry points must now behave
			// as on a fresh VM with this setting
			func() {
				defer func() {
					if r := recover(); r != nil {
						row["hist_panic"] = fmt.Sprint(r)
					}
				}()
				perm := allOn()
				perm.OpLimit = 20000
				c := newVM(perm, 7, 9, true)
				_, _ = c.RunExpr(string(raw), false)
				_ = c.Run(string(raw))
				cfg.apply(c)
				c.Attrs = &ds.ValueMap{}
				c.RandSrc = mkSrc(7, 9)
				c.NumOpCount = 0 // RunExpr deliberately keeps counting on a busy VM; the host starts a new evaluation here
				c.Error = nil
				v, err := c.RunExpr(string(raw), false)
				if err != nil {
					row["hist_expr_err"] = err.Error()
				} else if v != nil {
					row["hist_expr_ok"] = true
					row["hist_expr_str"] = v.ToString()
				}
				c.Attrs = &ds.ValueMap{}
				c.RandSrc = mkSrc(7, 9)
				oc := runScript(c, string(raw), false)
				row["hist_run_ok"], row["hist_run_str"], row["hist_run_rest"] = oc.Ok, oc.Str, oc.Rest
			}()
			emit(row)
		}
	}
}
