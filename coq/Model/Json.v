(* Model/Json.v — JSON snapshot / restore of dicescript values (C09, C10).

   What is modelled (sources: types_serialization.go, valuemap.go ToJSON/UnmarshalJSON,
   types.go VMValue & observers, builtin_functions.go builtinValues):

   * JSON ASTs.  Numbers are either integer-syntax literals (JInt z) or "a literal denoting the
     double with these IEEE bits" (JFloat bits): decimal float text is NOT modelled.  The text
     <-> AST relation is fixed by the harness: its renderer writes JFloat with a '.'/exponent
     (so Go's ParseInt rejects it), its parser maps integer-syntax literals other than "-0" to
     JInt.  Strings are byte strings assumed to be valid UTF-8 (encoding/json replaces invalid
     bytes by U+FFFD on both sides; the dicescript parser rejects invalid UTF-8 sources and
     slices strings by runes, so scripts cannot build such strings — validated, not proved).
   * the encoder `to_json` on tree values (None = error), generic in the tag/field-name table;
   * the decoder `of_json`, branch by branch as VMValue.UnmarshalJSON does it: phase 1 decodes
     only "t" (missing/null => 0), phase 2 decodes a per-type struct with "v".  encoding/json's
     tolerance rules are explicit: keys match struct fields case-insensitively (incl. the Kelvin
     sign and the long s), unknown keys are ignored, a missing field or a `null` leaves the zero
     value (nil for pointers/slices), a number with fraction/exponent or outside int64 is an
     error for an int field, integer literals are accepted (and rounded) by float fields,
     duplicate scalar keys are assigned in order.  The result type `rvalue` can express what a
     careless decoder leaves behind: nil pointers, tag without payload, tag/payload mismatch.
     Duplicate *struct-valued / slice-valued* keys ("v", "list", "params" given twice) are
     modelled as "inner entries concatenated / last slice wins"; Go re-uses the previous slice
     elements there, so for such documents the model is only an approximation (they are
     exercised by the crash battery, not by the correspondence).
   * heap graphs with wrapper identity and the "current path" cycle set of ToJSONRaw. *)
From Coq Require Import String Ascii NArith ZArith List Bool.
Import ListNotations.
Open Scope string_scope.

(* ------------------------------------------------------------------ JSON *)
Inductive json :=
| JNull
| JBool (b : bool)
| JInt (z : Z)
| JFloat (bits : N)
| JStr (s : string)
| JArr (l : list json)
| JObj (l : list (string * json)).

(* ------------------------------------------------------------------ table *)
Record json_tags := {
  (* type ids written by the encoder (arrays and dicts are written as literal text) *)
  e_int : Z; e_float : Z; e_str : Z; e_null : Z; e_computed : Z; e_array : Z; e_dict : Z;
  e_func : Z; e_native : Z; e_nobj : Z;
  (* type ids the decoder dispatches on (the VMType* constants) *)
  d_int : Z; d_float : Z; d_str : Z; d_null : Z; d_computed : Z; d_array : Z; d_dict : Z;
  d_func : Z; d_native : Z; d_nobj : Z;
  (* keys written by the encoder *)
  ek_t : string; ek_v : string; ek_cexpr : string; ek_cattrs : string; ek_list : string;
  ek_dict : string; ek_fexpr : string; ek_fname : string; ek_fparams : string;
  ek_nname : string; ek_oname : string;
  (* struct field names of the decoder *)
  dk_t : string; dk_v : string; dk_cexpr : string; dk_cattrs : string; dk_list : string;
  dk_dict : string; dk_fexpr : string; dk_fname : string; dk_fparams : string;
  dk_nname : string; dk_oname : string;
  (* names of builtinValues entries that are native functions *)
  natives : list string
}.

Definition actual_table : json_tags := {|
  e_int := 0; e_float := 1; e_str := 2; e_null := 4; e_computed := 5; e_array := 6; e_dict := 7;
  e_func := 8; e_native := 9; e_nobj := 10;
  d_int := 0; d_float := 1; d_str := 2; d_null := 4; d_computed := 5; d_array := 6; d_dict := 7;
  d_func := 8; d_native := 9; d_nobj := 10;
  ek_t := "t"; ek_v := "v"; ek_cexpr := "expr"; ek_cattrs := "attrs"; ek_list := "list";
  ek_dict := "dict"; ek_fexpr := "expr"; ek_fname := "name"; ek_fparams := "params";
  ek_nname := "name"; ek_oname := "name";
  dk_t := "t"; dk_v := "v"; dk_cexpr := "expr"; dk_cattrs := "attrs"; dk_list := "list";
  dk_dict := "dict"; dk_fexpr := "expr"; dk_fname := "name"; dk_fparams := "params";
  dk_nname := "name"; dk_oname := "name";
  natives := ["ceil"; "floor"; "round"; "abs"; "toInt"; "toFloat"; "toStr"; "toBool"; "repr";
              "load"; "loadRaw"; "store"; "dir"; "typeId"]
|}.

(* ------------------------------------------------------------------ numbers *)
Definition two63 : Z := 9223372036854775808.
Definition in_i64b (z : Z) : bool := ((- two63 <=? z) && (z <? two63))%Z.

Definition f_exp (b : N) : N := N.land (N.shiftr b 52) 2047.
Definition f_finite (b : N) : bool := (b <? 18446744073709551616)%N && negb (f_exp b =? 2047)%N.

(* ParseFloat of an integer literal: round to nearest, ties to even; None = out of range *)
Definition z2f (z : Z) : option N :=
  let a := Z.abs_N z in
  let sign := if (z <? 0)%Z then 9223372036854775808%N else 0%N in
  if (a =? 0)%N then Some 0%N
  else
    let L := N.size a in
    if (L <=? 53)%N then
      let mant := N.shiftl a (53 - L) in
      Some (sign + N.shiftl (L - 1 + 1023) 52 + (mant - 4503599627370496))%N
    else
      let sh := (L - 53)%N in
      let q := N.shiftr a sh in
      let r := (a - N.shiftl q sh)%N in
      let half := N.shiftl 1 (sh - 1) in
      let up := if (half <? r)%N then true else if (r =? half)%N then N.odd q else false in
      let q' := if up then (q + 1)%N else q in
      let '(m, e) := if (q' =? 9007199254740992)%N then (4503599627370496%N, L) else (q', (L - 1)%N) in
      if (1023 <? e)%N then None
      else Some (sign + N.shiftl (e + 1023) 52 + (m - 4503599627370496))%N.

(* ------------------------------------------------------------------ key matching *)
(* encoding/json matches object keys to struct fields by exact name or, failing that, by
   simple Unicode case folding; against ASCII field names only A-Z, the Kelvin sign U+212A
   (E2 84 AA) and the long s U+017F (C5 BF) matter. *)
Fixpoint fold_key (s : string) : string :=
  match s with
  | EmptyString => EmptyString
  | String c r =>
    let n := N_of_ascii c in
    if ((65 <=? n) && (n <=? 90))%N then String (ascii_of_N (n + 32)) (fold_key r)
    else
      match r with
      | String c2 r2 =>
        if ((n =? 197) && (N_of_ascii c2 =? 191))%N then String "s"%char (fold_key r2)
        else
          match r2 with
          | String c3 r3 =>
            if ((n =? 226) && (N_of_ascii c2 =? 132) && (N_of_ascii c3 =? 170))%N
            then String "k"%char (fold_key r3)
            else String c (fold_key r)
          | EmptyString => String c (fold_key r)
          end
      | EmptyString => String c EmptyString
      end
  end.

Definition key_match (k field : string) : bool := String.eqb (fold_key k) (fold_key field).

(* ------------------------------------------------------------------ raw values *)
(* what a *VMValue can look like after decoding: RNil = nil pointer; every other constructor
   carries the TypeId that was stored and the dynamic type of `Value` *)
Inductive rvalue :=
| RNil
| RNone (tag : Z)                                   (* Value == nil *)
| RInt (tag : Z) (z : Z)
| RFloat (tag : Z) (bits : N)
| RStr (tag : Z) (s : string)
| RArr (tag : Z) (l : list rvalue)                  (* *ArrayData *)
| RDict (tag : Z) (l : list (string * rvalue))      (* *DictData *)
| RFunc (tag : Z) (name : string) (params : option (list string)) (expr : string)
| RComputed (tag : Z) (expr : string) (attrs : option (list (string * rvalue)))
| RNative (tag : Z) (name : string)                 (* the builtinValues entry of that name *)
| RNObj (tag : Z) (name : string).

Definition is_nil (r : rvalue) : bool := match r with RNil => true | _ => false end.

Fixpoint has_key {A} (k : string) (l : list (string * A)) : bool :=
  match l with
  | [] => false
  | (k', _) :: r => if String.eqb k k' then true else has_key k r
  end.

Fixpoint nodup_keys {A} (l : list (string * A)) : bool :=
  match l with
  | [] => true
  | (k, _) :: r => if has_key k r then false else nodup_keys r
  end.

(* a Go map built from the entries in document order: the last occurrence of a key wins *)
Fixpoint dedup_last {A} (l : list (string * A)) : list (string * A) :=
  match l with
  | [] => []
  | (k, v) :: r => if has_key k r then dedup_last r else (k, v) :: dedup_last r
  end.

Fixpoint mem_str (s : string) (l : list string) : bool :=
  match l with
  | [] => false
  | x :: r => if String.eqb s x then true else mem_str s r
  end.

(* well-formedness: tag <-> payload agreement, no nil element / entry, native name known,
   ints in range, floats finite *)
Fixpoint wf (T : json_tags) (r : rvalue) : bool :=
  match r with
  | RNil => false
  | RNone t => (t =? d_null T)%Z
  | RInt t z => (t =? d_int T)%Z && in_i64b z
  | RFloat t b => (t =? d_float T)%Z && f_finite b
  | RStr t _ => (t =? d_str T)%Z
  | RArr t l => (t =? d_array T)%Z && forallb (wf T) l
  | RDict t l => (t =? d_dict T)%Z && forallb (fun kv => wf T (snd kv)) l && nodup_keys l
  | RFunc t _ _ _ => (t =? d_func T)%Z
  | RComputed t _ None => (t =? d_computed T)%Z
  | RComputed t _ (Some l) =>
    (t =? d_computed T)%Z && forallb (fun kv => wf T (snd kv)) l && nodup_keys l
  | RNative t n => (t =? d_native T)%Z && mem_str n (natives T)
  | RNObj t _ => (t =? d_nobj T)%Z
  end.

Definition wf_map (T : json_tags) (l : list (string * rvalue)) : bool :=
  forallb (fun kv => wf T (snd kv)) l && nodup_keys l.

(* ------------------------------------------------------------------ decoder *)
(* a JSON node together with, for every child, the outcome of VMValue.UnmarshalJSON on that
   child (None = error); computed bottom-up so that the decoder itself needs no recursion *)
Inductive ajson :=
| ANull
| ABool (b : bool)
| AInt (z : Z)
| AFloat (b : N)
| AStr (s : string)
| AArr (l : list (ajson * option rvalue))
| AObj (l : list (string * (ajson * option rvalue))).

Definition aentries := list (string * (ajson * option rvalue)).

(* json.Unmarshal of a node into a struct: null is a no-op, an object gives its entries *)
Definition obj_entries (a : ajson) : option aentries :=
  match a with
  | ANull => Some []
  | AObj l => Some l
  | _ => None
  end.

Definition field_vals (field : string) (fs : aentries) : list ajson :=
  map (fun kv => fst (snd kv)) (filter (fun kv => key_match (fst kv) field) fs).

(* successive assignments to one scalar field: None = error, Some None = no-op (null) *)
Fixpoint assign {A} (conv : ajson -> option (option A)) (cur : A) (vals : list ajson) : option A :=
  match vals with
  | [] => Some cur
  | a :: r =>
    match conv a with
    | None => None
    | Some None => assign conv cur r
    | Some (Some x) => assign conv x r
    end
  end.

Definition conv_int (a : ajson) : option (option Z) :=
  match a with
  | ANull => Some None
  | AInt z => if in_i64b z then Some (Some z) else None
  | _ => None
  end.

Definition conv_float (a : ajson) : option (option N) :=
  match a with
  | ANull => Some None
  (* strconv.ParseFloat: a finite double or ErrRange, never a non-finite value without error *)
  | AInt z => match z2f z with Some b => if f_finite b then Some (Some b) else None | None => None end
  | AFloat b => if f_finite b then Some (Some b) else None
  | _ => None
  end.

Definition conv_str (a : ajson) : option (option string) :=
  match a with
  | ANull => Some None
  | AStr s => Some (Some s)
  | _ => None
  end.

(* the nested struct behind "v": each occurrence must be an object or null *)
Fixpoint inner_entries (vals : list ajson) : option aentries :=
  match vals with
  | [] => Some []
  | ANull :: r => inner_entries r
  | AObj l :: r => match inner_entries r with Some l' => Some (l ++ l')%list | None => None end
  | _ :: _ => None
  end.

(* []*VMValue: null element => nil pointer, otherwise a fresh VMValue decoded by UnmarshalJSON *)
Fixpoint elems (l : list (ajson * option rvalue)) : option (list rvalue) :=
  match l with
  | [] => Some []
  | (ANull, _) :: r => match elems r with Some l' => Some (RNil :: l') | None => None end
  | (_, Some v) :: r => match elems r with Some l' => Some (v :: l') | None => None end
  | (_, None) :: _ => None
  end.

Definition conv_list (a : ajson) : option (option (list rvalue)) :=
  match a with
  | ANull => Some (Some [])
  | AArr l => match elems l with Some l' => Some (Some l') | None => None end
  | _ => None
  end.

Fixpoint str_elems (l : list (ajson * option rvalue)) : option (list string) :=
  match l with
  | [] => Some []
  | (AStr s, _) :: r => match str_elems r with Some l' => Some (s :: l') | None => None end
  | (ANull, _) :: r => match str_elems r with Some l' => Some (EmptyString :: l') | None => None end
  | _ :: _ => None
  end.

Definition conv_params (a : ajson) : option (option (option (list string))) :=
  match a with
  | ANull => Some (Some None)
  | AArr l => match str_elems l with Some l' => Some (Some (Some l')) | None => None end
  | _ => None
  end.

(* map[string]*VMValue *)
Fixpoint map_entries (l : aentries) : option (list (string * rvalue)) :=
  match l with
  | [] => Some []
  | (k, (ANull, _)) :: r => match map_entries r with Some l' => Some ((k, RNil) :: l') | None => None end
  | (k, (_, Some v)) :: r => match map_entries r with Some l' => Some ((k, v) :: l') | None => None end
  | (_, (_, None)) :: _ => None
  end.

(* ValueMap.UnmarshalJSON: decode into a Go map, reject nil entries, Clear, Store all *)
Definition dec_map (a : ajson) : option (list (string * rvalue)) :=
  match a with
  | ANull => Some []
  | AObj l =>
    match map_entries l with
    | None => None
    | Some es =>
      let m := dedup_last es in
      if existsb (fun kv => is_nil (snd kv)) m then None else Some m
    end
  | _ => None
  end.

Definition conv_dict (a : ajson) : option (option (list (string * rvalue))) :=
  match dec_map a with Some l => Some (Some l) | None => None end.

Inductive kind := KInt | KFloat | KStr | KNull | KComputed | KArray | KDict | KFunc | KNative | KNObj.

(* the `switch v0.TypeId` of UnmarshalJSON, in source order *)
Definition dispatch (T : json_tags) (t : Z) : option kind :=
  if (t =? d_int T)%Z then Some KInt
  else if (t =? d_float T)%Z then Some KFloat
  else if (t =? d_str T)%Z then Some KStr
  else if (t =? d_null T)%Z then Some KNull
  else if (t =? d_computed T)%Z then Some KComputed
  else if (t =? d_array T)%Z then Some KArray
  else if (t =? d_dict T)%Z then Some KDict
  else if (t =? d_func T)%Z then Some KFunc
  else if (t =? d_native T)%Z then Some KNative
  else if (t =? d_nobj T)%Z then Some KNObj
  else None.

Definition last_opt {A} (l : list A) : option A :=
  match rev l with [] => None | x :: _ => Some x end.

Definition dec_value (T : json_tags) (a : ajson) : option rvalue :=
  match obj_entries a with
  | None => None
  | Some fs =>
    match assign conv_int 0%Z (field_vals (dk_t T) fs) with
    | None => None
    | Some t =>
      let vs := field_vals (dk_v T) fs in
      match dispatch T t with
      | None => None                                        (* unsupported type id *)
      | Some KInt => option_map (RInt t) (assign conv_int 0%Z vs)
      | Some KFloat => option_map (RFloat t) (assign conv_float 0%N vs)
      | Some KStr => option_map (RStr t) (assign conv_str EmptyString vs)
      | Some KNull => Some (RNone t)                        (* "v" is never looked at *)
      | Some KComputed =>
        match inner_entries vs with
        | None => None
        | Some inner =>
          match assign conv_str EmptyString (field_vals (dk_cexpr T) inner) with
          | None => None
          | Some expr =>
            (* json.RawMessage: the last occurrence is kept verbatim, `null` included *)
            match last_opt (field_vals (dk_cattrs T) inner) with
            | None => Some (RComputed t expr None)
            | Some raw =>
              match dec_map raw with
              | None => None
              | Some m => Some (RComputed t expr (Some m))
              end
            end
          end
        end
      | Some KArray =>
        match inner_entries vs with
        | None => None
        | Some inner =>
          match assign conv_list [] (field_vals (dk_list T) inner) with
          | None => None
          | Some l => if existsb is_nil l then None else Some (RArr t l)
          end
        end
      | Some KDict =>
        match inner_entries vs with
        | None => None
        | Some inner =>
          option_map (RDict t) (assign conv_dict [] (field_vals (dk_dict T) inner))
        end
      | Some KFunc =>
        match inner_entries vs with
        | None => None
        | Some inner =>
          match assign conv_str EmptyString (field_vals (dk_fexpr T) inner),
                assign conv_str EmptyString (field_vals (dk_fname T) inner),
                assign conv_params None (field_vals (dk_fparams T) inner) with
          | Some e, Some n, Some p => Some (RFunc t n p e)
          | _, _, _ => None
          end
        end
      | Some KNative =>
        match inner_entries vs with
        | None => None
        | Some inner =>
          match assign conv_str EmptyString (field_vals (dk_nname T) inner) with
          | None => None
          | Some n => if mem_str n (natives T) then Some (RNative t n) else None
          end
        end
      | Some KNObj =>
        match inner_entries vs with
        | None => None
        | Some inner => option_map (RNObj t) (assign conv_str EmptyString (field_vals (dk_oname T) inner))
        end
      end
    end
  end.

Fixpoint annot (T : json_tags) (j : json) : ajson :=
  match j with
  | JNull => ANull
  | JBool b => ABool b
  | JInt z => AInt z
  | JFloat b => AFloat b
  | JStr s => AStr s
  | JArr l => AArr (map (fun x => let a := annot T x in (a, dec_value T a)) l)
  | JObj l => AObj (map (fun kv => let a := annot T (snd kv) in (fst kv, (a, dec_value T a))) l)
  end.

(* VMValueFromJSON (None = error) and json.Unmarshal into a *ValueMap *)
Definition of_json (T : json_tags) (j : json) : option rvalue := dec_value T (annot T j).
Definition of_json_map (T : json_tags) (j : json) : option (list (string * rvalue)) := dec_map (annot T j).

(* ------------------------------------------------------------------ tree values, encoder *)
Inductive value :=
| VInt (z : Z)
| VFloat (bits : N)
| VStr (s : string)
| VNull
| VArr (l : list value)
| VDict (l : list (string * value))
| VFunc (name : string) (params : option (list string)) (expr : string)
| VComputed (expr : string) (attrs : option (list (string * value)))
| VNative (name : string)
| VNObj (name : string).

Definition jstrs (l : list string) : json := JArr (map JStr l).

Definition map_opt {A B} (f : A -> option B) : list A -> option (list B) :=
  fix go (l : list A) : option (list B) :=
    match l with
    | [] => Some []
    | x :: r => match f x with
                | None => None
                | Some y => match go r with Some ys => Some (y :: ys) | None => None end
                end
    end.

(* ToJSONRaw on a tree (no sharing, hence no cycle); None = error (json.Marshal rejects
   non-finite floats; the first error aborts) *)
Fixpoint to_json (T : json_tags) (v : value) : option json :=
  match v with
  | VInt z => Some (JObj [(ek_t T, JInt (e_int T)); (ek_v T, JInt z)])
  | VFloat b => if f_finite b then Some (JObj [(ek_t T, JInt (e_float T)); (ek_v T, JFloat b)]) else None
  | VStr s => Some (JObj [(ek_t T, JInt (e_str T)); (ek_v T, JStr s)])
  | VNull => Some (JObj [(ek_t T, JInt (e_null T))])
  | VArr l =>
    match map_opt (to_json T) l with
    | None => None
    | Some js => Some (JObj [(ek_t T, JInt (e_array T)); (ek_v T, JObj [(ek_list T, JArr js)])])
    end
  | VDict l =>
    match map_opt (fun kv : string * value => let (k, x) := kv in match to_json T x with Some j => Some (k, j) | None => None end) l with
    | None => None
    | Some js => Some (JObj [(ek_t T, JInt (e_dict T)); (ek_v T, JObj [(ek_dict T, JObj js)])])
    end
  | VFunc n p e =>
    Some (JObj [(ek_t T, JInt (e_func T));
                (ek_v T, JObj [(ek_fexpr T, JStr e); (ek_fname T, JStr n);
                               (ek_fparams T, match p with None => JNull | Some l => jstrs l end)])])
  | VComputed e None =>
    Some (JObj [(ek_t T, JInt (e_computed T)); (ek_v T, JObj [(ek_cexpr T, JStr e)])])
  | VComputed e (Some l) =>
    match map_opt (fun kv : string * value => let (k, x) := kv in match to_json T x with Some j => Some (k, j) | None => None end) l with
    | None => None
    | Some js => Some (JObj [(ek_t T, JInt (e_computed T));
                             (ek_v T, JObj [(ek_cexpr T, JStr e); (ek_cattrs T, JObj js)])])
    end
  | VNative n => Some (JObj [(ek_t T, JInt (e_native T)); (ek_v T, JObj [(ek_nname T, JStr n)])])
  | VNObj n => Some (JObj [(ek_t T, JInt (e_nobj T)); (ek_v T, JObj [(ek_oname T, JStr n)])])
  end.

Definition to_json_items (T : json_tags) (l : list value) : option (list json) :=
  map_opt (to_json T) l.

Definition to_json_entries (T : json_tags) (l : list (string * value)) : option (list (string * json)) :=
  map_opt (fun kv : string * value => let (k, x) := kv in match to_json T x with Some j => Some (k, j) | None => None end) l.

(* ValueMap.ToJSON *)
Definition to_json_map (T : json_tags) (l : list (string * value)) : option json :=
  option_map JObj (to_json_entries T l).

(* the value as the VM holds it: TypeId is the VMType* constant *)
Fixpoint embed (T : json_tags) (v : value) : rvalue :=
  match v with
  | VInt z => RInt (d_int T) z
  | VFloat b => RFloat (d_float T) b
  | VStr s => RStr (d_str T) s
  | VNull => RNone (d_null T)
  | VArr l => RArr (d_array T) (map (embed T) l)
  | VDict l => RDict (d_dict T) (map (fun kv => (fst kv, embed T (snd kv))) l)
  | VFunc n p e => RFunc (d_func T) n p e
  | VComputed e None => RComputed (d_computed T) e None
  | VComputed e (Some l) => RComputed (d_computed T) e (Some (map (fun kv => (fst kv, embed T (snd kv))) l))
  | VNative n => RNative (d_native T) n
  | VNObj n => RNObj (d_nobj T) n
  end.

(* "a value a script can build": ints are int64, dict keys are unique, a native function is
   one of the builtins *)
Fixpoint tree_value (T : json_tags) (v : value) : bool :=
  match v with
  | VInt z => in_i64b z
  | VArr l => forallb (tree_value T) l
  | VDict l => forallb (fun kv => tree_value T (snd kv)) l && nodup_keys l
  | VComputed _ (Some l) => forallb (fun kv => tree_value T (snd kv)) l && nodup_keys l
  | VNative n => mem_str n (natives T)
  | _ => true
  end.

Fixpoint finite_floats (v : value) : bool :=
  match v with
  | VFloat b => f_finite b
  | VArr l => forallb finite_floats l
  | VDict l => forallb (fun kv => finite_floats (snd kv)) l
  | VComputed _ (Some l) => forallb (fun kv => finite_floats (snd kv)) l
  | _ => true
  end.

(* structural equality of raw values; dicts and attribute maps are compared as maps *)
Fixpoint lookup {A} (k : string) (l : list (string * A)) : option A :=
  match l with
  | [] => None
  | (k', v) :: r => if String.eqb k k' then Some v else lookup k r
  end.

Definition opt_eqb {A} (f : A -> A -> bool) (a b : option A) : bool :=
  match a, b with
  | None, None => true
  | Some x, Some y => f x y
  | _, _ => false
  end.

Definition list_eqb {A} (f : A -> A -> bool) : list A -> list A -> bool :=
  fix go (a b : list A) {struct a} : bool :=
    match a, b with
    | [], [] => true
    | x :: r, y :: s => f x y && go r s
    | _, _ => false
    end.

(* every entry of l has an equal entry under the same key in m *)
Definition sub_map {A} (f : A -> A -> bool) (l m : list (string * A)) : bool :=
  forallb (fun kv : string * A => let (k, x) := kv in
             match lookup k m with Some y => f x y | None => false end) l.

Fixpoint req (a b : rvalue) {struct a} : bool :=
  match a, b with
  | RNil, RNil => true
  | RNone t, RNone u => (t =? u)%Z
  | RInt t z, RInt u y => (t =? u)%Z && (z =? y)%Z
  | RFloat t x, RFloat u y => (t =? u)%Z && (x =? y)%N
  | RStr t x, RStr u y => (t =? u)%Z && String.eqb x y
  | RArr t l, RArr u m => (t =? u)%Z && list_eqb req l m
  | RDict t l, RDict u m => (t =? u)%Z && (length l =? length m)%nat && sub_map req l m
  | RFunc t n p e, RFunc u n' p' e' =>
    (t =? u)%Z && String.eqb n n' && opt_eqb (list_eqb String.eqb) p p' && String.eqb e e'
  | RComputed t e None, RComputed u e' None => (t =? u)%Z && String.eqb e e'
  | RComputed t e (Some l), RComputed u e' (Some m) =>
    (t =? u)%Z && String.eqb e e' && (length l =? length m)%nat && sub_map req l m
  | RNative t n, RNative u n' => (t =? u)%Z && String.eqb n n'
  | RNObj t n, RNObj u n' => (t =? u)%Z && String.eqb n n'
  | _, _ => false
  end.

Definition equal (T : json_tags) (v : value) (r : rvalue) : Prop := req (embed T v) r = true.

(* encoder and decoder agree on ids and names: what the round trip needs of the table *)
Fixpoint distinctZ (l : list Z) : bool :=
  match l with
  | [] => true
  | x :: r => negb (existsb (Z.eqb x) r) && distinctZ r
  end.

Definition tags_distinct (T : json_tags) : bool :=
  distinctZ [d_int T; d_float T; d_str T; d_null T; d_computed T; d_array T; d_dict T; d_func T;
             d_native T; d_nobj T].

Definition kind_tag (T : json_tags) (k : kind) : Z :=
  match k with
  | KInt => d_int T | KFloat => d_float T | KStr => d_str T | KNull => d_null T
  | KComputed => d_computed T | KArray => d_array T | KDict => d_dict T | KFunc => d_func T
  | KNative => d_native T | KNObj => d_nobj T
  end.

Definition kind_eqb (a b : kind) : bool :=
  match a, b with
  | KInt, KInt | KFloat, KFloat | KStr, KStr | KNull, KNull | KComputed, KComputed
  | KArray, KArray | KDict, KDict | KFunc, KFunc | KNative, KNative | KNObj, KNObj => true
  | _, _ => false
  end.

(* every VMType* constant reaches its own case of the switch *)
Definition dispatch_ok (T : json_tags) : bool :=
  forallb (fun k => match dispatch T (kind_tag T k) with Some k' => kind_eqb k k' | None => false end)
          [KInt; KFloat; KStr; KNull; KComputed; KArray; KDict; KFunc; KNative; KNObj].

Definition tags_ok (T : json_tags) : bool :=
  tags_distinct T && dispatch_ok T &&
  (e_int T =? d_int T)%Z && (e_float T =? d_float T)%Z && (e_str T =? d_str T)%Z &&
  (e_null T =? d_null T)%Z && (e_computed T =? d_computed T)%Z && (e_array T =? d_array T)%Z &&
  (e_dict T =? d_dict T)%Z && (e_func T =? d_func T)%Z && (e_native T =? d_native T)%Z &&
  (e_nobj T =? d_nobj T)%Z &&
  in_i64b (d_int T) && in_i64b (d_float T) && in_i64b (d_str T) && in_i64b (d_null T) &&
  in_i64b (d_computed T) && in_i64b (d_array T) && in_i64b (d_dict T) && in_i64b (d_func T) &&
  in_i64b (d_native T) && in_i64b (d_nobj T) &&
  (* VMValue: t / v *)
  key_match (ek_t T) (dk_t T) && negb (key_match (ek_v T) (dk_t T)) &&
  key_match (ek_v T) (dk_v T) && negb (key_match (ek_t T) (dk_v T)) &&
  (* computed: expr / attrs *)
  key_match (ek_cexpr T) (dk_cexpr T) && negb (key_match (ek_cattrs T) (dk_cexpr T)) &&
  key_match (ek_cattrs T) (dk_cattrs T) && negb (key_match (ek_cexpr T) (dk_cattrs T)) &&
  (* array, dict *)
  key_match (ek_list T) (dk_list T) && key_match (ek_dict T) (dk_dict T) &&
  (* function: expr / name / params *)
  key_match (ek_fexpr T) (dk_fexpr T) && negb (key_match (ek_fname T) (dk_fexpr T)) &&
  negb (key_match (ek_fparams T) (dk_fexpr T)) &&
  key_match (ek_fname T) (dk_fname T) && negb (key_match (ek_fexpr T) (dk_fname T)) &&
  negb (key_match (ek_fparams T) (dk_fname T)) &&
  key_match (ek_fparams T) (dk_fparams T) && negb (key_match (ek_fexpr T) (dk_fparams T)) &&
  negb (key_match (ek_fname T) (dk_fparams T)) &&
  (* native function / object *)
  key_match (ek_nname T) (dk_nname T) && key_match (ek_oname T) (dk_oname T).

(* ------------------------------------------------------------------ observers (C10) *)
(* crash-freedom only: the observers return Trap exactly where the Go code would panic
   (failed type assertion `v.Value.(X)`, nil pointer dereference) *)
Inductive outcome (A : Type) := Done (a : A) | Trap.
Arguments Done {A} a.
Arguments Trap {A}.

Definition obind {A B} (o : outcome A) (f : A -> outcome B) : outcome B :=
  match o with Done a => f a | Trap => Trap end.

Definition tag_of (r : rvalue) : option Z :=
  match r with
  | RNil => None
  | RNone t | RInt t _ | RFloat t _ | RStr t _ | RArr t _ | RDict t _ | RFunc t _ _ _
  | RComputed t _ _ | RNative t _ | RNObj t _ => Some t
  end.

(* AsBool: v.TypeId on a nil pointer panics; int/float/string compare the interface value
   (no assertion); computed / array / dict assert the payload type *)
Definition r_truthy (T : json_tags) (r : rvalue) : outcome bool :=
  match tag_of r with
  | None => Trap
  | Some t =>
    match dispatch T t with
    | Some KInt => Done (match r with RInt _ z => negb (z =? 0)%Z | _ => true end)
    | Some KFloat => Done (match r with RFloat _ b => negb ((b =? 0) || (b =? 9223372036854775808))%N | _ => true end)
    | Some KStr => Done (match r with RStr _ s => negb (String.eqb s EmptyString) | _ => true end)
    | Some KNull => Done false
    | Some KComputed => match r with RComputed _ e _ => Done (negb (String.eqb e EmptyString)) | _ => Trap end
    | Some KArray => match r with RArr _ l => Done (negb (length l =? 0)%nat) | _ => Trap end
    | Some KDict => match r with RDict _ l => Done (negb (length l =? 0)%nat) | _ => Trap end
    | Some KFunc | Some KNative | Some KNObj => Done true
    | None => Done false
    end
  end.

(* sequencing helpers (the function is a parameter outside the fix, as in List.map) *)
Definition all_unit {A} (f : A -> outcome unit) : list A -> outcome unit :=
  fix go (l : list A) : outcome unit :=
    match l with
    | [] => Done tt
    | x :: s => obind (f x) (fun _ => go s)
    end.

Inductive jres := JOk | JErr.

Definition all_json {A} (f : A -> outcome jres) : list A -> outcome jres :=
  fix go (l : list A) : outcome jres :=
    match l with
    | [] => Done JOk
    | x :: s => obind (f x) (fun o => match o with JErr => Done JErr | JOk => go s end)
    end.

Definition all_eq2 {A} (f : A -> A -> outcome bool) : list A -> list A -> outcome bool :=
  fix go (l m : list A) {struct l} : outcome bool :=
    match l, m with
    | [], _ => Done true
    | x :: r, y :: s => obind (f x y) (fun e => if e then go r s else Done false)
    | _ :: _, [] => Done false
    end.

Definition all_bool {A} (f : A -> outcome bool) : list A -> outcome bool :=
  fix go (l : list A) : outcome bool :=
    match l with
    | [] => Done true
    | x :: r => obind (f x) (fun e => if e then go r else Done false)
    end.

(* toStringRaw / toReprRaw: nil prints "NIL"; every typed branch asserts the payload type;
   unknown tags print "a value".  The text itself is not modelled. *)
Fixpoint r_to_string (T : json_tags) (r : rvalue) : outcome unit :=
  match tag_of r with
  | None => Done tt
  | Some t =>
    match dispatch T t with
    | Some KInt => match r with RInt _ _ => Done tt | _ => Trap end
    | Some KFloat => match r with RFloat _ _ => Done tt | _ => Trap end
    | Some KStr => match r with RStr _ _ => Done tt | _ => Trap end
    | Some KNull => Done tt
    | Some KArray => match r with RArr _ l => all_unit (r_to_string T) l | _ => Trap end
    | Some KComputed => match r with RComputed _ _ _ => Done tt | _ => Trap end
    | Some KDict =>
      match r with
      | RDict _ l => all_unit (fun kv : string * rvalue => let (_, x) := kv in r_to_string T x) l
      | _ => Trap
      end
    | Some KFunc => match r with RFunc _ _ _ _ => Done tt | _ => Trap end
    | Some KNative => match r with RNative _ _ => Done tt | _ => Trap end
    | Some KNObj => match r with RNObj _ _ => Done tt | _ => Trap end
    | None => Done tt
    end
  end.

(* ToJSONRaw on a raw tree: nil => error; unknown tag => (nil, nil), i.e. no error and no text;
   int/float/string are handed to json.Marshal whatever the payload; the other branches assert *)
Fixpoint r_to_json (T : json_tags) (r : rvalue) : outcome jres :=
  match tag_of r with
  | None => Done JErr
  | Some t =>
    match dispatch T t with
    | Some KInt | Some KStr | Some KNull => Done JOk
    | Some KFloat => Done (match r with RFloat _ b => if f_finite b then JOk else JErr | _ => JOk end)
    | Some KComputed =>
      match r with
      | RComputed _ _ None => Done JOk
      | RComputed _ _ (Some l) => all_json (fun kv : string * rvalue => let (_, x) := kv in r_to_json T x) l
      | _ => Trap
      end
    | Some KArray => match r with RArr _ l => all_json (r_to_json T) l | _ => Trap end
    | Some KDict =>
      match r with
      | RDict _ l => all_json (fun kv : string * rvalue => let (_, x) := kv in r_to_json T x) l
      | _ => Trap
      end
    | Some KFunc => match r with RFunc _ _ _ _ => Done JOk | _ => Trap end
    | Some KNative => match r with RNative _ _ => Done JOk | _ => Trap end
    | Some KNObj => match r with RNObj _ _ => Done JOk | _ => Trap end
    | None => Done JOk
    end
  end.

(* ValueEqual(a, b, _): nil-tolerant; same tag => array/dict/computed/native assert BOTH
   payloads, the default branch compares interface values (comparable dynamic types only).
   Dict: Range over a, MustLoad from b (nil when the key is missing). *)
Fixpoint r_equal (T : json_tags) (a b : rvalue) {struct a} : outcome bool :=
  match tag_of a, tag_of b with
  | None, None => Done true
  | None, _ | _, None => Done false
  | Some t, Some u =>
    if negb (t =? u)%Z then Done false
    else
      match dispatch T t with
      | Some KArray =>
        match a, b with
        | RArr _ l, RArr _ m => if (length l =? length m)%nat then all_eq2 (r_equal T) l m else Done false
        | _, _ => Trap
        end
      | Some KDict =>
        match a, b with
        | RDict _ l, RDict _ m =>
          if (length l =? length m)%nat
          then all_bool (fun kv : string * rvalue => let (k, x) := kv in
                           r_equal T x (match lookup k m with Some y => y | None => RNil end)) l
          else Done false
        | _, _ => Trap
        end
      | Some KComputed =>
        match a, b with
        | RComputed _ e _, RComputed _ e' _ => Done (String.eqb e e')
        | _, _ => Trap
        end
      | Some KNative =>
        match a, b with
        | RNative _ n, RNative _ n' => Done (String.eqb n n')
        | _, _ => Trap
        end
      | _ => Done (req a b)
      end
  end.

(* ------------------------------------------------------------------ heap graphs *)
(* The Go heap: *VMValue wrappers (the key of the cycle set `save map[*VMValue]bool`) point to
   payloads (ArrayData, ValueMap) that hold wrapper pointers again.  Assignment clones the
   wrapper (VMValue.Clone copies TypeId and the payload pointer), so `a=[1]; a.push(a)` is
   wrapper w0 -> payload p0 = [w1; w2] with w2 a clone pointing to p0 again.  Because the set
   is keyed by the wrapper, the second lap through p0 meets w2 again and reports the cycle. *)
Inductive wcell :=
| WInt (z : Z) | WFloat (b : N) | WStr (s : string) | WNull
| WArr (payload : nat)
| WDict (payload : nat)
| WComputed (expr : string) (attrs : option nat)
| WFunc (name : string) (params : option (list string)) (expr : string)
| WNative (name : string)
| WNObj (name : string).

Inductive pcell :=
| PList (l : list nat)                (* ArrayData.List: wrapper ids *)
| PMap (l : list (string * nat)).     (* ValueMap entries: wrapper ids *)

Record heap := { wrappers : list wcell; payloads : list pcell }.

Inductive gres := GOk (j : json) | GErr | GFuel.
Inductive lres (A : Type) := LOk (x : A) | LErr | LFuel.
Arguments LOk {A} x.
Arguments LErr {A}.
Arguments LFuel {A}.

Definition mem_nat (n : nat) (l : list nat) : bool := existsb (Nat.eqb n) l.
Definition del_nat (n : nat) (l : list nat) : list nat := filter (fun x => negb (Nat.eqb n x)) l.

Definition plist (h : heap) (p : nat) : list nat :=
  match nth_error (payloads h) p with Some (PList l) => l | _ => [] end.
Definition pmap (h : heap) (p : nat) : list (string * nat) :=
  match nth_error (payloads h) p with Some (PMap l) => l | _ => [] end.

(* ToJSONRaw with the cycle set threaded through (insert on entry, delete on exit).  A dangling
   wrapper id stands for a nil pointer (error "nil pointer").  Returns the result and the set
   as the callee leaves it.  `g_items` / `g_entries` are the loops over ArrayData.List and
   ValueMap.Range; `rec` is ToJSONRaw on one element. *)
Definition g_items (rec : list nat -> nat -> gres * list nat)
  : list nat -> list nat -> lres (list json) * list nat :=
  fix go (l : list nat) (save : list nat) : lres (list json) * list nat :=
    match l with
    | [] => (LOk [], save)
    | x :: r =>
      match rec save x with
      | (GOk j, save1) =>
        match go r save1 with
        | (LOk js, save2) => (LOk (j :: js), save2)
        | other => other
        end
      | (GErr, save1) => (LErr, save1)
      | (GFuel, save1) => (LFuel, save1)
      end
    end.

Definition g_entries (rec : list nat -> nat -> gres * list nat)
  : list (string * nat) -> list nat -> lres (list (string * json)) * list nat :=
  fix go (l : list (string * nat)) (save : list nat) : lres (list (string * json)) * list nat :=
    match l with
    | [] => (LOk [], save)
    | (k, x) :: r =>
      match rec save x with
      | (GOk j, save1) =>
        match go r save1 with
        | (LOk js, save2) => (LOk ((k, j) :: js), save2)
        | other => other
        end
      | (GErr, save1) => (LErr, save1)
      | (GFuel, save1) => (LFuel, save1)
      end
    end.

Fixpoint to_json_graph (T : json_tags) (h : heap) (fuel : nat) (save : list nat) (w : nat)
  : gres * list nat :=
  match fuel with
  | O => (GFuel, save)
  | S f =>
    match nth_error (wrappers h) w with
    | None => (GErr, save)
    | Some c =>
      match c with
      | WInt z => (GOk (JObj [(ek_t T, JInt (e_int T)); (ek_v T, JInt z)]), save)
      | WFloat b =>
        (if f_finite b then GOk (JObj [(ek_t T, JInt (e_float T)); (ek_v T, JFloat b)]) else GErr, save)
      | WStr s => (GOk (JObj [(ek_t T, JInt (e_str T)); (ek_v T, JStr s)]), save)
      | WNull => (GOk (JObj [(ek_t T, JInt (e_null T))]), save)
      | WFunc n p e =>
        (GOk (JObj [(ek_t T, JInt (e_func T));
                    (ek_v T, JObj [(ek_fexpr T, JStr e); (ek_fname T, JStr n);
                                   (ek_fparams T, match p with None => JNull | Some l => jstrs l end)])]), save)
      | WNative n => (GOk (JObj [(ek_t T, JInt (e_native T)); (ek_v T, JObj [(ek_nname T, JStr n)])]), save)
      | WNObj n => (GOk (JObj [(ek_t T, JInt (e_nobj T)); (ek_v T, JObj [(ek_oname T, JStr n)])]), save)
      | WComputed e None =>
        (GOk (JObj [(ek_t T, JInt (e_computed T)); (ek_v T, JObj [(ek_cexpr T, JStr e)])]), save)
      | WComputed e (Some p) =>
        if mem_nat w save then (GErr, save)
        else
          match g_entries (to_json_graph T h f) (pmap h p) (w :: save) with
          | (LOk js, save1) =>
            (GOk (JObj [(ek_t T, JInt (e_computed T));
                        (ek_v T, JObj [(ek_cexpr T, JStr e); (ek_cattrs T, JObj js)])]), del_nat w save1)
          | (LErr, save1) => (GErr, del_nat w save1)    (* delete(save, v) precedes the error check *)
          | (LFuel, save1) => (GFuel, save1)
          end
      | WArr p =>
        if mem_nat w save then (GErr, save)
        else
          match g_items (to_json_graph T h f) (plist h p) (w :: save) with
          | (LOk js, save1) =>
            (GOk (JObj [(ek_t T, JInt (e_array T)); (ek_v T, JObj [(ek_list T, JArr js)])]), del_nat w save1)
          | (LErr, save1) => (GErr, save1)              (* early return: w stays in the set *)
          | (LFuel, save1) => (GFuel, save1)
          end
      | WDict p =>
        if mem_nat w save then (GErr, save)
        else
          match g_entries (to_json_graph T h f) (pmap h p) (w :: save) with
          | (LOk js, save1) =>
            (GOk (JObj [(ek_t T, JInt (e_dict T)); (ek_v T, JObj [(ek_dict T, JObj js)])]), del_nat w save1)
          | (LErr, save1) => (GErr, del_nat w save1)
          | (LFuel, save1) => (GFuel, save1)
          end
      end
    end
  end.

Definition to_json_graph_top (T : json_tags) (h : heap) (w : nat) : gres :=
  fst (to_json_graph T h (S (length (wrappers h))) [] w).

(* edges of the wrapper graph *)
Definition children (h : heap) (w : nat) : list nat :=
  match nth_error (wrappers h) w with
  | Some (WArr p) => plist h p
  | Some (WDict p) => map snd (pmap h p)
  | Some (WComputed _ (Some p)) => map snd (pmap h p)
  | _ => []
  end.

Inductive reach (h : heap) : nat -> nat -> Prop :=
| reach_refl : forall w, reach h w w
| reach_step : forall w c x, In c (children h w) -> reach h c x -> reach h w x.

(* x lies on a cycle: some child of x reaches x *)
Definition on_cycle (h : heap) (x : nat) : Prop := exists c, In c (children h x) /\ reach h c x.
