(* C07 (VM half, call depth): the +100 that every call of a script function / every evaluation of a computed
   value charges to the operation counter bounds the NESTING DEPTH of sub-VM activations ("recursion is bounded").

   exec_depth              instrumented twin of VM.exec: also returns the maximum number of sub-VM activations
                           that were nested inside one another below the machine that is run
                           (0 = no call was started; a call whose callee starts no call = 1; ...)
   exec_depth_fst          it computes the result of VM.exec
   C07_call_depth_bounded  under a limit 0 < L <= MaxInt64 - 100, from a start counter c0 >= 0 (run_pre), on a chain
                           of contexts whose counters are int64 values (chain_i64: each <= MaxInt64):
                              depth <= max 0 ((L - c0) / 101) + 1
                           A callee starts at >= caller's start + 101 (one dispatch + the 100 of the call) and
                           at <= L.  The final "+ 1" is one activation started on behalf of a CALLING context whose
                           counter is within 100 of MaxInt64: the int64 addition wraps to a negative start counter,
                           the limit test passes, the first dispatch of that activation is the budget error and it
                           starts nothing (C07_call_depth_wrapped_level attains it).
   C07_call_depth_exact    when every counter of the chain lies in [0, L] (chain_in_budget: true of the chain `run`
                           starts on, and an invariant of every run) nothing wraps:
                              depth <= max 0 ((L - c0) / 101)          (attained: C07_call_depth_tight)
                           and the chain of a finished run is again within the budget.
   C07_call_depth_bounded_100  the first bound in the form (L - c0) / 100 + 1
   C07_run_call_depth      the machine that `run` starts: depth <= L / 101
   C07_callee_start_counter  the start counter of a sub-VM: wrapped (negative) or >= the context's counter + 100, <= L
   C07_call_depth_needs_int64_chain  without a hypothesis on the CALLING contexts the statement is false of the
                           model (a non-int64 counter 2^64 - 93 there wraps to a start counter of 7)
   The instrumentation does not touch Model/VM.v: the result component is computed by the functions of the
   model themselves, with the same `call` parameter; the twins below add the depth component at the two places
   where a sub-VM is started (computed_execute, func_invoke) and carry it through their callers
   (load_walk / load_name / load_local / attr_get / native_call / the five calling opcodes of step); each twin is
   proved to return the model function's result (lemmas ..._d_fst).
   Proof: one generic pass over the instructions (Section ChainPass) for an invariant of the context chain, used
   twice (counters int64 / counters within the budget), on top of VMSafety's step_ops_mono (the running context's
   counter never goes down) and C07_counter_never_lowered. *)
From Coq Require Import String Ascii NArith ZArith List Bool Lia.
From DS Require Import Model.Str Model.PCG Model.Roll Model.Dice Model.Value Model.VM Model.CodeWf Proofs.VMFacts Proofs.VMSafety.
Import ListNotations.
Open Scope Z_scope.

(* ================================================================== the instrumentation *)
Definition RD (A : Type) : Type := (R A * nat)%type.

Definition rbindd {A B} (r : RD A) (k : A -> world -> RD B) : RD B :=
  match fst r with
  | ROk a w => (fst (k a w), Nat.max (snd r) (snd (k a w)))
  | RFail e w => (RFail e w, snd r)
  | RPanic s => (RPanic s, snd r)
  | RFuel => (RFuel, snd r)
  | RUnsup s => (RUnsup s, snd r)
  end.
Definition rmapwd {A} (f : world -> world) (r : RD A) : RD A := (rmapw f (fst r), snd r).

Section OpsD.
  Variable call : machine -> result.      (* run a sub-VM: its result ... *)
  Variable cdepth : machine -> nat.       (* ... and the nesting depth reached below it *)
  Variable E : env.

  (* VM.computed_execute; where the sub-VM is started: 1 + the depth below it *)
  Definition computed_execute_d (cid : N) (k : nat) (w : world) : RD value :=
    match nth_error (w_chain w) k with
    | None => (RUnsup "context index", O)
    | Some t =>
      let pre := firstn k (w_chain w) in
      let rest := skipn (S k) (w_chain w) in
      let '(mapid, h1) := cattrs_force cid (w_heap w) in
      let ops1 := wrap64 (c_ops t + 100) in
      let t1 := {| c_attrs := c_attrs t; c_ops := ops1 |} in
      let w1 := w_set_chain (w_set_heap w h1) (chain_put pre t1 rest) in
      if limit_hit E ops1 then (RFail EBudget w1, O)
      else match f_lookup (e_ftab E) cid with
           | None => (RUnsup "function table", O)
           | Some d =>
             match f_code d with
             | None => (RUnsup "lazy body", O)
             | Some c =>
               let sub := {| m_fr := new_frame c (Some (f_expr d));
                             m_w := w_set_chain w1 ({| c_attrs := mapid; c_ops := ops1 |} :: t1 :: rest) |} in
               (match call sub with
                | Fin m' =>
                  match w_chain (m_w m') with
                  | s' :: t' :: rest' =>
                    let ret := match fr_live (m_fr m') with v :: _ => v | [] => VNull end in
                    ROk ret (w_set_chain (m_w m') (chain_put pre {| c_attrs := c_attrs t'; c_ops := c_ops s' |} rest'))
                  | _ => RUnsup "context chain"
                  end
                | Fail e m' =>
                  match w_chain (m_w m') with
                  | s' :: t' :: rest' =>
                    RFail e (w_set_chain (m_w m') (chain_put pre {| c_attrs := c_attrs t'; c_ops := Z.max (c_ops t') (c_ops s') |} rest'))
                  | _ => RUnsup "context chain"
                  end
                | Panic s => RPanic s
                | OutOfFuel => RFuel
                | Unsupported s => RUnsup s
                end, S (cdepth sub))
             end
           end
    end.

  (* VM.func_invoke *)
  Definition func_invoke_d (fid : N) (args : list value) (w : world) : RD value :=
    match f_lookup (e_ftab E) fid, w_chain w with
    | None, _ => (RUnsup "function table", O)
    | _, [] => (RUnsup "context chain", O)
    | Some d, self :: ups =>
      if negb (Nat.eqb (length (f_params d)) (length args)) then (RFail ECall w, O)
      else
        let '(mapid, h1) := alloc_map (bind_params (f_params d) args []) (w_heap w) in
        let ops1 := wrap64 (c_ops self + 100) in
        let self1 := {| c_attrs := c_attrs self; c_ops := ops1 |} in
        let w1 := w_set_chain (w_set_heap w h1) (self1 :: ups) in
        if limit_hit E ops1 then (RFail EBudget w1, O)
        else match f_code d with
             | None => (RUnsup "lazy body", O)
             | Some c =>
               let sub := {| m_fr := new_frame c None;
                             m_w := w_set_chain w1 ({| c_attrs := mapid; c_ops := ops1 |} :: self1 :: ups) |} in
               (match call sub with
                | Fin m' =>
                  match w_chain (m_w m') with
                  | s' :: t' :: rest' =>
                    let ret := match fr_live (m_fr m') with v :: _ => v | [] => VNull end in
                    ROk ret (w_set_chain (m_w m') ({| c_attrs := c_attrs t'; c_ops := c_ops s' |} :: rest'))
                  | _ => RUnsup "context chain"
                  end
                | Fail e m' =>
                  match w_chain (m_w m') with
                  | s' :: t' :: rest' =>
                    RFail e (w_set_chain (m_w m') ({| c_attrs := c_attrs t'; c_ops := Z.max (c_ops t') (c_ops s') |} :: rest'))
                  | [_] => RFail e (w_set_chain (m_w m') [])
                  | [] => RUnsup "context chain"
                  end
                | Panic s => RPanic s
                | OutOfFuel => RFuel
                | Unsupported s => RUnsup s
                end, S (cdepth sub))
             end
    end.

  (* VM.load_walk: several computed values may be evaluated one after the other: the maximum *)
  Fixpoint load_walk_d (n : nat) (k : nat) (name : string) (isRaw : bool) (w : world) : RD value :=
    match n with
    | O => (ROk (load_global name) w, O)
    | S n' =>
      match nth_error (w_chain w) k with
      | None => (ROk (load_global name) w, O)
      | Some c =>
        let val := match mget name (get_map (c_attrs c) (w_heap w)) with Some v => v | None => VNull end in
        let w0 := sync_to k w in
        rbindd (rmapwd (sync_back k)
                  (match val with
                   | VComp cid => if isRaw then (ROk val w0, O) else computed_execute_d cid k w0
                   | _ => (ROk val w0, O)
                   end))
               (fun v w' => match v with
                            | VNull => load_walk_d n' (S k) name isRaw w'
                            | _ => (ROk v w', O)
                            end)
      end
    end.
  Definition load_name_d (name : string) (isRaw : bool) (w : world) : RD value :=
    load_walk_d (length (w_chain w)) 0 name isRaw w.

  Definition load_local_d (name : string) (w : world) : RD value :=
    let val := match mget name (get_map (c_attrs (w_self w)) (w_heap w)) with Some v => v | None => VNull end in
    match val with
    | VComp cid => computed_execute_d cid 0 w
    | _ => (ROk val w, O)
    end.

  (* VM.attr_get starts a sub-VM only for `this.name` *)
  Definition attr_get_d (v : value) (name : string) (w : world) : RD (option value) :=
    match v with
    | VThis => rbindd (load_local_d name w) (fun x w' => (ROk (Some x) w', O))
    | _ => (attr_get call E v name w, O)
    end.

  (* VM.native_call starts a sub-VM only in load / loadRaw / Computed.compute *)
  Definition native_call_d (name : string) (self : vself) (args : list value) (w : world) : RD value :=
    let '(np, defaults) := native_sig name in
    let args' := (args ++ skipn (length args) defaults)%list in
    if negb (Nat.eqb (length args') np) then (RFail ECall w, O)
    else
      let a0 := nth 0 args' VNull in
      if String.eqb name "load" then
        match a0 with VStr n => load_name_d n false w | _ => (RFail EType w, O) end
      else if String.eqb name "loadRaw" then
        match a0 with VStr n => load_name_d n true w | _ => (RFail EType w, O) end
      else if String.eqb name "Computed.compute" then
        match self with SComp cid => computed_execute_d cid 0 w | _ => (RPanic "nil Self", O) end
      else (native_call call E name self args w, O).

  (* VM.step starts sub-VMs only in invoke, attr.get, ld, ld.raw, ld.d: the depth reached by ONE instruction *)
  Definition step_depth (ins : instr) (m : machine) : nat :=
    let fr := m_fr m in
    let w := m_w m in
    match i_op ins, i_arg ins with
    | OpInvoke, OInt n =>
      let '(args, fr1) := pop_n n fr in
      let '(f, fr2) := pop fr1 in
      match f with
      | VFunc fid => snd (func_invoke_d fid args w)
      | VNative name self => snd (native_call_d name self args w)
      | _ => O
      end
    | OpAttrGet, OStr name => let '(obj, fr1) := pop fr in snd (attr_get_d obj name w)
    | OpLd, OStr name => snd (load_name_d name false w)
    | OpLdRaw, OStr name => snd (load_name_d name true w)
    | OpLdD, OStr name => snd (load_name_d name false w)
    | _, _ => O
    end.

  (* ---- the twins compute the results of the model's functions *)
  Lemma rbind_ext : forall A B (r : R A) (k1 k2 : A -> world -> R B),
    (forall a w, k1 a w = k2 a w) -> rbind r k1 = rbind r k2.
  Proof. intros A B r k1 k2 H. destruct r; cbn; auto. Qed.

  Lemma fst_rbindd : forall A B (r : RD A) (k : A -> world -> RD B),
    fst (rbindd r k) = rbind (fst r) (fun a w => fst (k a w)).
  Proof. intros A B [r d] k. unfold rbindd. cbn [fst]. destruct r; reflexivity. Qed.

  Lemma computed_execute_d_fst : forall cid k w, fst (computed_execute_d cid k w) = computed_execute call E cid k w.
  Proof.
    intros cid k w. unfold computed_execute_d, computed_execute.
    destruct (nth_error (w_chain w) k); [|reflexivity].
    destruct (cattrs_force cid (w_heap w)) as [mapid h1]. cbv zeta.
    destruct (limit_hit E _); [reflexivity|].
    destruct (f_lookup (e_ftab E) cid) as [d|]; [|reflexivity].
    destruct (f_code d); reflexivity.
  Qed.

  Lemma func_invoke_d_fst : forall fid args w, fst (func_invoke_d fid args w) = func_invoke call E fid args w.
  Proof.
    intros fid args w. unfold func_invoke_d, func_invoke.
    destruct (f_lookup (e_ftab E) fid) as [d|]; [|reflexivity].
    destruct (w_chain w) as [|self ups]; [reflexivity|].
    destruct (negb _); [reflexivity|].
    destruct (alloc_map _ _) as [mapid h1]. cbv zeta.
    destruct (limit_hit E _); [reflexivity|].
    destruct (f_code d); reflexivity.
  Qed.

  Lemma load_walk_d_fst : forall n k name isRaw w, fst (load_walk_d n k name isRaw w) = load_walk call E n k name isRaw w.
  Proof.
    induction n as [|n IH]; intros k name isRaw w; cbn [load_walk_d load_walk]; [reflexivity|].
    destruct (nth_error (w_chain w) k) as [c|]; [|reflexivity]. cbv zeta.
    rewrite fst_rbindd. unfold rmapwd. cbn [fst].
    match goal with |- rbind (rmapw _ ?a) _ = rbind (rmapw _ ?b) _ => assert (Hab : a = b) end.
    { destruct (match mget name _ with Some v => v | None => VNull end); try reflexivity.
      destruct isRaw; [reflexivity|apply computed_execute_d_fst]. }
    rewrite Hab. apply rbind_ext. intros v w'. destruct v; try reflexivity. apply IH.
  Qed.

  Lemma load_name_d_fst : forall name isRaw w, fst (load_name_d name isRaw w) = load_name call E name isRaw w.
  Proof. intros; apply load_walk_d_fst. Qed.

  Lemma load_local_d_fst : forall name w, fst (load_local_d name w) = load_local call E name w.
  Proof.
    intros name w. unfold load_local_d, load_local. cbv zeta.
    destruct (match mget name _ with Some v => v | None => VNull end); try reflexivity. apply computed_execute_d_fst.
  Qed.

  Lemma attr_get_d_fst : forall v name w, fst (attr_get_d v name w) = attr_get call E v name w.
  Proof.
    intros v name w. destruct v; try reflexivity. cbn [attr_get_d attr_get].
    rewrite fst_rbindd, load_local_d_fst. reflexivity.
  Qed.

  Lemma native_call_d_fst : forall name self args w, fst (native_call_d name self args w) = native_call call E name self args w.
  Proof.
    intros name self args w. unfold native_call_d.
    destruct (String.eqb name "load") eqn:H1.
    { apply String.eqb_eq in H1. subst name. cbn.
      destruct (negb _); [reflexivity|]. destruct (nth 0 _ VNull); try reflexivity. apply load_name_d_fst. }
    destruct (String.eqb name "loadRaw") eqn:H2.
    { apply String.eqb_eq in H2. subst name. cbn.
      destruct (negb _); [reflexivity|]. destruct (nth 0 _ VNull); try reflexivity. apply load_name_d_fst. }
    destruct (String.eqb name "Computed.compute") eqn:H3.
    { apply String.eqb_eq in H3. subst name. cbn.
      destruct (negb _); [reflexivity|]. destruct self; try reflexivity. apply computed_execute_d_fst. }
    unfold native_call. destruct (native_sig name) as [np defaults]. cbv zeta.
    destruct (negb _); reflexivity.
  Qed.
End OpsD.

(* exactly VM.exec, also returning the maximum nesting depth of the sub-VM activations below this machine *)
Fixpoint exec_depth (fuel : nat) (E : env) (m : machine) : result * nat :=
  match fuel with
  | O => (OutOfFuel, O)
  | S f =>
    let fr := m_fr m in
    if zlen (fr_code fr) <=? fr_pc fr then
      (match fr_err fr with Some e => Fail e m | None => Fin m end, O)
    else
      let '(m1, over) := count_op E m in
      if over then (Fail EBudget m1, O)
      else match fr_err fr with Some e => (Fail e m1, O) | None =>
      if fr_top fr =? stack_size then (Fail EStack m1, O)
      else if fr_pc fr <? 0 then (Panic "code index negative", O)
      else match nth_error (fr_code fr) (Z.to_nat (fr_pc fr)) with
           | None => (Panic "code index out of range", O)
           | Some ins =>
             let next (m2 : machine) := {| m_fr := fr_set_pc (m_fr m2) (fr_pc (m_fr m2) + 1); m_w := m_w m2 |} in
             (* the sub-VMs this instruction starts run `exec f E`; their depths are those of `exec_depth f E` *)
             let d := step_depth (exec f E) (fun sub => snd (exec_depth f E sub)) E ins m1 in
             match step (exec f E) f E ins m1 with
             | SNext m2 => let '(r, n) := exec_depth f E (next m2) in (r, Nat.max d n)
             | SStop m2 => (Fin m2, d)
             | SFail e m2 => (Fail e m2, d)
             | SPanic s => (Panic s, d)
             | SFuel => (OutOfFuel, d)
             | SUnsup s => (Unsupported s, d)
             end
           end
      end
  end.

Lemma exec_depth_fst : forall fuel E m, fst (exec_depth fuel E m) = exec fuel E m.
Proof.
  induction fuel as [|f IH]; intros E m; [reflexivity|]. cbn [exec_depth exec].
  destruct (zlen (fr_code (m_fr m)) <=? fr_pc (m_fr m)); [reflexivity|].
  destruct (count_op E m) as [m1 over]. destruct over; [reflexivity|].
  destruct (fr_err (m_fr m)); [reflexivity|]. destruct (fr_top (m_fr m) =? stack_size); [reflexivity|].
  destruct (fr_pc (m_fr m) <? 0); [reflexivity|]. destruct (nth_error _ _); [|reflexivity]. cbv zeta.
  destruct (step (exec f E) f E i m1); try reflexivity.
  match goal with |- context [exec_depth f E ?x] => specialize (IH E x); destruct (exec_depth f E x) end. exact IH.
Qed.

(* ================================================================== the bound *)
(* every counter of the chain of contexts is an int64 value (only the upper bound matters) *)
Definition chain_i64 (w : world) : Prop := Forall (fun c => c_ops c <= MaxInt64) (w_chain w).
(* ... the calling contexts only *)
Definition CT (w : world) : Prop := Forall (fun c => c_ops c <= MaxInt64) (tl (w_chain w)).
(* every counter of the chain lies within the budget (true of the chain `run` starts on, and kept by every run) *)
Definition chain_in_budget (L : Z) (w : world) : Prop := Forall (fun c => 0 <= c_ops c <= L) (w_chain w).
(* ... the running context from above, the calling contexts from both sides *)
Definition PWL (L : Z) (w : world) : Prop := ops_of w <= L /\ Forall (fun c => 0 <= c_ops c <= L) (tl (w_chain w)).

Definition depth_bound (L c : Z) : Z := if c <? 0 then 0 else Z.max 0 ((L - c) / 101) + 1.

Lemma depth_bound_nonneg : forall L c, 0 <= depth_bound L c.
Proof. intros; unfold depth_bound. destruct (c <? 0); lia. Qed.

Lemma div101_mono : forall L c s, c <= s -> (L - s) / 101 <= (L - c) / 101.
Proof. intros; apply Z.div_le_mono; lia. Qed.

(* a callee that starts 101 later can nest one level less *)
Lemma div101_step : forall L c s, c + 101 <= s <= L -> 0 <= (L - s) / 101 <= (L - c) / 101 - 1.
Proof.
  intros L c s H. split; [apply Z.div_pos; lia|].
  replace (L - c) with ((L - c - 101) + 1 * 101) by lia. rewrite Z.div_add by lia.
  assert ((L - s) / 101 <= (L - c - 101) / 101) by (apply Z.div_le_mono; lia). lia.
Qed.

Lemma depth_bound_mono : forall L c s, 0 <= c <= s -> depth_bound L s <= depth_bound L c.
Proof.
  intros L c s H. unfold depth_bound.
  destruct (c <? 0) eqn:H1; [apply Z.ltb_lt in H1; lia|]. destruct (s <? 0) eqn:H2; [apply Z.ltb_lt in H2; lia|].
  pose proof (div101_mono L c s). lia.
Qed.

Lemma depth_bound_step : forall L c s, 0 <= c -> c + 101 <= s <= L -> depth_bound L s + 1 <= depth_bound L c.
Proof.
  intros L c s H0 H. unfold depth_bound.
  destruct (c <? 0) eqn:H1; [apply Z.ltb_lt in H1; lia|]. destruct (s <? 0) eqn:H2; [apply Z.ltb_lt in H2; lia|].
  pose proof (div101_step L c s H). lia.
Qed.

(* ---- lists *)
Lemma Forall_nth_error : forall A (P : A -> Prop) l k x, Forall P l -> nth_error l k = Some x -> P x.
Proof. intros A P l k x H Hn. rewrite Forall_forall in H. apply H. eapply nth_error_In; eauto. Qed.
Lemma Forall_firstn' : forall A (P : A -> Prop) k l, Forall P l -> Forall P (firstn k l).
Proof. induction k; intros l H; [constructor|]. destruct l; [constructor|]. inversion H; subst. cbn. constructor; auto. Qed.
Lemma Forall_skipn' : forall A (P : A -> Prop) k l, Forall P l -> Forall P (skipn k l).
Proof. induction k; intros l H; [exact H|]. destruct l; [constructor|]. inversion H; subst. cbn. auto. Qed.
Lemma Forall_tl : forall A (P : A -> Prop) l, Forall P l -> Forall P (tl l).
Proof. intros A P l H. destruct l; [constructor|]. inversion H; auto. Qed.

Lemma nth_error_chain_put : forall (l : list ctx) k x t, nth_error l k = Some t ->
  nth_error (chain_put (firstn k l) x (skipn (S k) l)) k = Some x.
Proof.
  intros l k x t H. unfold chain_put.
  assert (Hlen : (k < length l)%nat) by (apply nth_error_Some; congruence).
  rewrite nth_error_app2 by (rewrite firstn_length_le; lia).
  rewrite firstn_length_le by lia. rewrite Nat.sub_diag. reflexivity.
Qed.

Lemma tl_set_self_ops : forall w x, tl (w_chain (w_set_self_ops w x)) = tl (w_chain w).
Proof. intros w x. unfold w_set_self_ops. destruct (w_chain w) eqn:Hc; [rewrite Hc|]; reflexivity. Qed.

(* ---- int64 arithmetic of the two counters involved *)
Lemma wrap64_over : forall z, MaxInt64 < z <= MaxInt64 + two63 -> wrap64 z = z - two64.
Proof.
  intros z H. unfold wrap64.
  rewrite <- (Z.mod_unique (z + two63) two64 1 (z + two63 - two64)); unfold MaxInt64, two63, two64 in *; lia.
Qed.

(* a negative counter: numOpCountAdd's overflow test itself overflows and the counter saturates *)
Lemma ops_add_neg : forall c ops, 0 < cfg_op_limit c < MaxInt64 -> MinInt64 <= ops < 0 ->
  ops_add c ops 1 = (MaxInt64, true).
Proof.
  intros c ops HL H. unfold ops_add.
  rewrite (wrap64_over (MaxInt64 - ops)) by (unfold MaxInt64, MinInt64, two63 in *; lia).
  assert (A : MaxInt64 - ops - two64 <? 1 = true) by (apply Z.ltb_lt; unfold MaxInt64, MinInt64, two64 in *; lia).
  rewrite A. f_equal. apply andb_true_iff. split; apply Z.ltb_lt; lia.
Qed.

(* numOpCountAdd that does not report "over" leaves the counter within a positive limit *)
Lemma ops_add_le : forall c ops count, 0 < cfg_op_limit c -> snd (ops_add c ops count) = false ->
  fst (ops_add c ops count) <= cfg_op_limit c.
Proof.
  intros c ops count HL H. destruct (Z_le_gt_dec (fst (ops_add c ops count)) (cfg_op_limit c)) as [Hle|Hgt]; [exact Hle|].
  assert (X : snd (ops_add c ops count) = true) by (apply ops_add_over; lia). congruence.
Qed.

(* ... and so do the budgeted rounds that run to their end *)
Lemma wod_budget_le : forall n c addLine points threshold isGE mode pool succ ops s, 0 < cfg_op_limit c ->
  match wod_budget n c addLine points threshold isGE mode pool succ ops s with
  | RDone _ ops' _ => ops' <= cfg_op_limit c
  | _ => True
  end.
Proof.
  induction n; intros c addLine points threshold isGE mode pool succ ops s HL; cbn [wod_budget]; [exact Logic.I|].
  pose proof (ops_add_le c ops pool HL) as Ha. destruct (ops_add c ops pool) as [ops' over]. cbn [fst snd] in Ha.
  destruct over; [exact Logic.I|]. specialize (Ha eq_refl).
  destruct (wod_round _ _ _ _ _ _ _ _ _ _ _) as [[[[sc add] x] s1]|]; [|exact Logic.I].
  destruct (0 <? add); [|exact Ha]. apply IHn; exact HL.
Qed.
Lemma dc_budget_le : forall n c addLine points mode pool result ops s, 0 < cfg_op_limit c ->
  match dc_budget n c addLine points mode pool result ops s with
  | RDone _ ops' _ => ops' <= cfg_op_limit c
  | _ => True
  end.
Proof.
  induction n; intros c addLine points mode pool result ops s HL; cbn [dc_budget]; [exact Logic.I|].
  pose proof (ops_add_le c ops pool HL) as Ha. destruct (ops_add c ops pool) as [ops' over]. cbn [fst snd] in Ha.
  destruct over; [exact Logic.I|]. specialize (Ha eq_refl).
  destruct (dc_round _ _ _ _ _ _ _ _ _) as [[[[mx add] x] s1]|]; [|exact Logic.I].
  destruct (0 <? add); [|exact Ha]. apply IHn; exact HL.
Qed.

(* ------------------------------------------------------------------ one pass over the instructions, for any
   invariant PW of the context chain that (1) looks at the chain only, (2) survives raising the running
   context's counter to a value within the limit, (3) survives carrying the counter to a calling context and
   back, (4) is kept by the two operations that start a sub-VM, which also nest at most D deep *)
Section ChainPass.
  Variable call : machine -> result.
  Variable cdepth : machine -> nat.
  Variable rfuel : nat.
  Variable E : env.
  Variable L : Z.
  Hypothesis HL : cfg_op_limit (e_cfg E) = L.
  Hypothesis HLr : 0 < L <= MaxInt64 - 100.
  Hypothesis Hcall : forall m m', run_pre m -> call m = Fin m' -> ops_of (m_w m) <= ops_of (m_w m') <= MaxInt64.
  Variable c1 : Z.                       (* lower bound of the running context's counter during the instruction *)
  Hypothesis Hc1 : 0 <= c1.
  Variable D : nat.                      (* the depth allowed to one instruction *)
  Variable PW : world -> Prop.
  Hypothesis PW_chain : forall w w', w_chain w' = w_chain w -> PW w -> PW w'.
  Hypothesis PW_set_le : forall w x, x <= L -> PW w -> PW (w_set_self_ops w x).
  Hypothesis PW_sync_to : forall k w, W c1 w -> PW w -> PW (sync_to k w).
  Hypothesis PW_sync_back : forall k w, PW w -> PW (sync_back k w).

  Definition rct {A} (r : R A) : Prop := match r with ROk _ w => PW w | _ => True end.
  Definition PD {A} (rd : RD A) : Prop := rct (fst rd) /\ (snd rd <= D)%nat.

  Hypothesis CE_inv : forall cid k w, W c1 w -> PW w -> (k = 0%nat -> ops_of w <= L) ->
    (forall t, nth_error (w_chain w) k = Some t -> c1 <= c_ops t) ->
    PD (computed_execute_d call cdepth E cid k w).
  Hypothesis FI_inv : forall fid args w, W c1 w -> PW w -> ops_of w <= L ->
    PD (func_invoke_d call cdepth E fid args w).

  Lemma PD_ret : forall A (r : R A), rct r -> PD (r, O).
  Proof. intros A r H. split; [exact H|apply Nat.le_0_l]. Qed.

  Lemma PD_rbindd : forall A B (r : RD A) (k : A -> world -> RD B),
    PD r -> rmono c1 (fst r) -> (forall a w, W c1 w -> PW w -> PD (k a w)) -> PD (rbindd r k).
  Proof.
    intros A B [r d] k [P1 P2] Hm Hk. unfold rbindd, PD in *. cbn [fst snd] in *.
    destruct r; cbn [fst snd rct]; try (split; [exact Logic.I|exact P2]).
    destruct (Hk a w Hm P1) as [K1 K2]. split; [exact K1|apply Nat.max_lub; assumption].
  Qed.

  Lemma PD_rmapwd : forall A (f : world -> world) (r : RD A), (forall w, PW w -> PW (f w)) -> PD r -> PD (rmapwd f r).
  Proof. intros A f [r d] Hf [P1 P2]. unfold rmapwd, PD in *. cbn [fst snd] in *. split; [|exact P2]. destruct r; cbn; auto. Qed.

  (* after sync_to the calling context's counter is at least the running one's *)
  Lemma sync_to_ge : forall k w t0, W c1 w -> nth_error (w_chain w) k = Some t0 ->
    forall t, nth_error (w_chain (sync_to k w)) k = Some t -> c1 <= c_ops t.
  Proof.
    intros k w t0 Hw Hn t Ht. destruct (w_chain w) as [|x r] eqn:Hc; [destruct k; discriminate|].
    pose proof (W_head _ _ _ _ Hw Hc) as Hx.
    destruct k as [|k].
    - cbn [sync_to] in Ht. rewrite Hc in Ht. cbn in Ht, Hn. injection Ht as <-. lia.
    - unfold sync_to in Ht. unfold ops_at in Ht. rewrite Hc in Ht. rewrite Hn in Ht. cbn [nth_error] in Ht.
      destruct (c_ops t0 <? c_ops x) eqn:Hlt.
      + unfold set_ops_at in Ht. rewrite Hc, Hn in Ht. cbn [w_set_chain w_chain] in Ht.
        assert (Hp : Some t = Some {| c_attrs := c_attrs t0; c_ops := c_ops x |})
          by (rewrite <- Ht; exact (nth_error_chain_put (x :: r) (S k) _ t0 Hn)).
        injection Hp as ->. cbn [c_ops]. lia.
      + apply Z.ltb_ge in Hlt. rewrite Hc in Ht. assert (Hp : Some t = Some t0) by (rewrite <- Ht; exact Hn).
        injection Hp as ->. lia.
  Qed.

  Lemma load_walk_d_inv : forall n k name isRaw w, W c1 w -> PW w -> (k = 0%nat -> ops_of w <= L) ->
    PD (load_walk_d call cdepth E n k name isRaw w).
  Proof.
    induction n as [|n IH]; intros k name isRaw w Hw Hct Hk; cbn [load_walk_d]; [apply PD_ret; exact Hct|].
    destruct (nth_error (w_chain w) k) as [c|] eqn:Hn; [|apply PD_ret; exact Hct]. cbv zeta.
    assert (Hw0 : W c1 (sync_to k w)) by (apply W_sync_to; exact Hw).
    assert (Hct0 : PW (sync_to k w)) by (apply PW_sync_to; assumption).
    assert (Hk0 : k = 0%nat -> ops_of (sync_to k w) <= L) by (intros ->; cbn [sync_to]; apply Hk; reflexivity).
    apply PD_rbindd.
    - apply PD_rmapwd; [intros; apply PW_sync_back; assumption|].
      destruct (match mget name _ with Some v => v | None => VNull end); try (apply PD_ret; exact Hct0).
      destruct isRaw; [apply PD_ret; exact Hct0|].
      apply CE_inv; try assumption. intros t Ht. exact (sync_to_ge _ _ _ Hw Hn _ Ht).
    - unfold rmapwd. cbn [fst]. apply rmono_rmapw; [intros; apply W_sync_back; assumption|].
      destruct (match mget name _ with Some v => v | None => VNull end); try exact Hw0.
      destruct isRaw; [exact Hw0|]. rewrite computed_execute_d_fst.
      apply (computed_execute_mono call E L HLr Hcall c1 Hc1); assumption.
    - intros v w' Hw' Hct'. destruct v; try (apply PD_ret; exact Hct'). apply IH; [assumption|assumption|discriminate].
  Qed.

  Lemma load_name_d_inv : forall name isRaw w, W c1 w -> PW w -> ops_of w <= L -> PD (load_name_d call cdepth E name isRaw w).
  Proof. intros; apply load_walk_d_inv; auto. Qed.

  Lemma load_local_d_inv : forall name w, W c1 w -> PW w -> ops_of w <= L -> PD (load_local_d call cdepth E name w).
  Proof.
    intros name w Hw Hct Hk. unfold load_local_d. cbv zeta.
    destruct (match mget name _ with Some v => v | None => VNull end); try (apply PD_ret; exact Hct).
    apply CE_inv; auto. intros t Ht.
    destruct (w_chain w) as [|x r] eqn:Hc; [discriminate|]. cbn in Ht. injection Ht as <-.
    exact (proj1 (W_head _ _ _ _ Hw Hc)).
  Qed.

  (* ---- the helpers that start no sub-VM do not touch the chain *)
  Lemma rct_rbind : forall A B (r : R A) (k : A -> world -> R B),
    rct r -> (forall a w, PW w -> rct (k a w)) -> rct (rbind r k).
  Proof. intros A B r k H1 H2. destruct r; cbn; auto. Qed.

  Ltac pw_solve :=
    match goal with H : PW ?w |- PW ?w' => apply (PW_chain w w'); [reflexivity|exact H] end.
  Ltac ct_tac :=
    try match goal with |- PW (if ?b then _ else _) => destruct b end;
    first [ assumption | pw_solve ].

  Ltac rct_tac :=
    repeat first
      [ exact Logic.I
      | match goal with |- rct (ROk _ ?w) => change (PW w); ct_tac end
      | progress cbv zeta
      | apply rct_rbind; [|intros]
      | match goal with
        | |- rct (if ?b then _ else _) => destruct b
        | |- rct (match ?x with _ => _ end) => destruct x
        end ].

  Lemma new_arr_ct : forall l w, PW w -> rct (new_arr l w).
  Proof. intros l w Hw; unfold new_arr. destruct (alloc_arr _ _). change (PW (w_set_heap w h)). pw_solve. Qed.
  Lemma str_of_ct : forall E' b v w, PW w -> rct (str_of E' b v w).
  Proof. intros E' b v w Hw; unfold str_of. rct_tac. Qed.
  Lemma roll1_ct : forall n w, PW w -> rct (roll1 n w).
  Proof. intros n w Hw; unfold roll1. rct_tac. Qed.
  Lemma shuffle_loop_ct : forall i l w, PW w -> rct (shuffle_loop i l w).
  Proof.
    induction i; intros l w Hw; cbn [shuffle_loop]; [exact Hw|].
    apply rct_rbind; [apply roll1_ct; exact Hw|]. intros; apply IHi; assumption.
  Qed.
  Lemma shuffle_ct : forall l w, PW w -> rct (shuffle l w).
  Proof. intros; apply shuffle_loop_ct; assumption. Qed.
  Lemma array_repeat_ct : forall id t w, PW w -> rct (array_repeat id t w).
  Proof. intros id t w Hw; unfold array_repeat. rct_tac; apply new_arr_ct; exact Hw. Qed.
  Lemma attr_set_ct : forall v name x w, PW w -> rct (attr_set v name x w).
  Proof. intros v name x w Hw; unfold attr_set. rct_tac. Qed.
  Lemma item_get_ct : forall a b w, PW w -> rct (item_get a b w).
  Proof. intros a b w Hw; unfold item_get. rct_tac. Qed.
  Lemma item_set_ct : forall a b x w, PW w -> rct (item_set a b x w).
  Proof. intros a b x w Hw; unfold item_set. rct_tac. Qed.
  Lemma slice_get_ct : forall o a b w, PW w -> rct (slice_get o a b w).
  Proof. intros o a b w Hw; unfold slice_get. rct_tac; apply new_arr_ct; exact Hw. Qed.
  Lemma slice_set_ct : forall o a b x w, PW w -> rct (slice_set o a b x w).
  Proof. intros o a b x w Hw; unfold slice_set. rct_tac. Qed.
  Lemma bin_op_ct : forall op v1 v2 w, PW w -> rct (bin_op rfuel E op v1 v2 w).
  Proof.
    intros op v1 v2 w Hw. unfold bin_op.
    destruct op; try exact Logic.I; destruct v1; try exact Logic.I; destruct v2; try exact Logic.I;
      rct_tac; try (apply new_arr_ct; exact Hw); try (apply array_repeat_ct; exact Hw).
  Qed.
  Lemma push_range_ct : forall a b w, PW w -> rct (push_range a b w).
  Proof. intros a b w Hw; unfold push_range. rct_tac; apply new_arr_ct; exact Hw. Qed.

  (* attr.get on anything but `this` *)
  Lemma attr_get_ct : forall v name w, PW w -> v <> VThis -> rct (attr_get call E v name w).
  Proof. intros v name w Hw Hv. unfold attr_get. destruct v; try congruence; rct_tac. Qed.

  (* a native other than load / loadRaw / Computed.compute *)
  Lemma native_call_ct : forall name self args w, PW w ->
    String.eqb name "load" = false -> String.eqb name "loadRaw" = false -> String.eqb name "Computed.compute" = false ->
    rct (native_call call E name self args w).
  Proof.
    intros name self args w Hw H1 H2 H3. unfold native_call.
    destruct (native_sig name) as [np defaults]. cbv zeta. rewrite H1, H2, H3.
    repeat match goal with
    | |- rct (if ?b then _ else _) => destruct b
    end;
    try exact Logic.I;
    repeat match goal with
    | |- rct (new_arr _ _) => apply new_arr_ct; assumption
    | |- rct (shuffle _ _) => apply shuffle_ct; assumption
    | |- rct (roll1 _ _) => apply roll1_ct; assumption
    | |- rct (str_of _ _ _ _) => apply str_of_ct; assumption
    | |- rct (rbind _ _) => apply rct_rbind; [|intros]
    | |- rct (ROk _ ?w) => change (PW w); ct_tac
    | |- rct (if ?b then _ else _) => destruct b
    | |- rct (match ?x with _ => _ end) => destruct x
    | |- _ => exact Logic.I
    end.
  Qed.

  Lemma attr_get_d_inv : forall v name w, W c1 w -> PW w -> ops_of w <= L -> PD (attr_get_d call cdepth E v name w).
  Proof.
    intros v name w Hw Hct Hk.
    destruct v; try (apply PD_ret; apply attr_get_ct; [exact Hct|discriminate]).
    cbn [attr_get_d]. apply PD_rbindd.
    - apply load_local_d_inv; assumption.
    - rewrite load_local_d_fst. apply (load_local_mono call E L HLr Hcall c1 Hc1); assumption.
    - intros x w' Hw' Hct'. apply PD_ret. exact Hct'.
  Qed.

  Lemma native_call_d_inv : forall name self args w, W c1 w -> PW w -> ops_of w <= L ->
    PD (native_call_d call cdepth E name self args w).
  Proof.
    intros name self args w Hw Hct Hk. unfold native_call_d.
    destruct (native_sig name) as [np defaults]. cbv zeta.
    destruct (negb _); [apply PD_ret; exact Logic.I|].
    destruct (String.eqb name "load") eqn:H1.
    { destruct (nth 0 _ VNull); try (apply PD_ret; exact Logic.I). apply load_name_d_inv; assumption. }
    destruct (String.eqb name "loadRaw") eqn:H2.
    { destruct (nth 0 _ VNull); try (apply PD_ret; exact Logic.I). apply load_name_d_inv; assumption. }
    destruct (String.eqb name "Computed.compute") eqn:H3.
    { destruct self; try (apply PD_ret; exact Logic.I). apply CE_inv; auto.
      intros t Ht. destruct (w_chain w) as [|x r] eqn:Hc; [discriminate|]. cbn in Ht. injection Ht as <-.
      exact (proj1 (W_head _ _ _ _ Hw Hc)). }
    apply PD_ret. apply native_call_ct; assumption.
  Qed.

  (* ---- one instruction *)
  Definition QT (r : sresult) : Prop :=
    match r with SNext m => PW (m_w m) | SStop m => PW (m_w m) | _ => True end.
  (* the invariant is kept, and the sub-VMs the instruction starts nest at most D deep *)
  Definition step_inv (op : opcode) : Prop :=
    forall o m, W c1 (m_w m) -> PW (m_w m) -> ops_of (m_w m) <= L ->
    QT (step call rfuel E (I op o) m) /\ (step_depth call cdepth E (I op o) m <= D)%nat.
  Definition step_ct (op : opcode) : Prop :=
    forall o m, PW (m_w m) -> QT (step call rfuel E (I op o) m).

  Lemma QT_next : forall fr w, PW w -> QT (SNext (mk fr w)).
  Proof. intros; assumption. Qed.
  Lemma QT_do_push : forall v fr w, PW w -> QT (do_push v fr w).
  Proof. intros v fr w Hw. unfold do_push. destruct (push v fr); [exact Hw|exact Logic.I]. Qed.
  Lemma QT_dice_result : forall z fr w, PW w -> QT (dice_result z fr w).
  Proof. intros; unfold dice_result. apply QT_do_push; assumption. Qed.
  Lemma QT_lift : forall A (r : R A) fr k, rct r -> (forall a w, PW w -> QT (k a w)) -> QT (lift r fr k).
  Proof. intros A r fr k H1 H2. destruct r; cbn; auto. unfold check_err. destruct (fr_err fr); cbn; auto. Qed.

  (* the counter charged by a batch of dice that is within the budget *)
  Lemma PW_charged : forall w n s, over_by E w n = false -> PW w -> PW (w_set_pcg (charged E w n) s).
  Proof.
    intros w n s Hov Hw. apply (PW_chain (charged E w n)); [reflexivity|]. unfold charged. apply PW_set_le; [|exact Hw].
    rewrite <- HL. apply ops_add_le; [rewrite HL; lia|exact Hov].
  Qed.

  Ltac ct_bud := first [ ct_tac | apply PW_charged; assumption ].

  Ltac qt_r0 :=
    first [ apply attr_set_ct; assumption
          | apply item_get_ct; assumption | apply item_set_ct; assumption | apply slice_get_ct; assumption
          | apply slice_set_ct; assumption | apply bin_op_ct; assumption | apply push_range_ct; assumption ].
  Ltac qt_r :=
    first [ qt_r0 | exact Logic.I
          | match goal with H : _ = ?r |- rct ?r => rewrite <- H; qt_r0 end ].

  Ltac qt_go :=
    repeat (cbv beta iota zeta; first
      [ exact Logic.I
      | match goal with |- QT (SStop ?m) => change (PW (m_w m)); assumption end
      | match goal with |- QT (SNext ?m) => change (PW (m_w m)); assumption end
      | apply QT_do_push; ct_bud
      | apply QT_dice_result; ct_bud
      | apply QT_next; ct_bud
      | apply QT_lift; [qt_r | intros]
      | progress rewrite add_ops_spec
      | match goal with
        | |- QT (if ?b then _ else _) => destruct b eqn:?
        | |- QT (match ?x with _ => _ end) => destruct x eqn:?
        end ]).

  Ltac qt_start :=
    intros o m Hct; unfold step; cbn [i_op i_arg];
    unfold with_pop2, with_pop, with_pop_n, with_int, need_dice, arg_int, arg_str, upd_dice; rewrite ?add_ops_spec.

  Ltac by_cases tac :=
    let op := fresh "op" in let Hin := fresh "Hin" in
    intros op Hin; cbn [In] in Hin;
    repeat (destruct Hin as [<-|Hin]; [tac|]); contradiction.

  Lemma step_ct_plain : forall op,
    In op [OpPushInt; OpPushFlt; OpPushStr; OpPushArr; OpPushDict; OpPushComputed; OpPushFunc; OpPushNull; OpPushThis;
           OpPushRange; OpPushLast; OpPushDefExpr;
           OpAdd; OpSub; OpMul; OpDiv; OpMod; OpPow; OpNullCoalescing; OpLt; OpLe; OpEq; OpNe; OpGe; OpGt;
           OpBitAnd; OpBitOr; OpAnd; OpOr; OpNeg; OpPos; OpInvokeSelf;
           OpItemGet; OpItemSet; OpAttrSet; OpSliceGet; OpSliceSet;
           OpPop; OpPopN; OpNop; OpRet; OpHalt; OpPushGlobal; OpStoreGlobal; OpUnknown; OpDiceCustom;
           OpStSet; OpStMod; OpStX0; OpStX1; OpJmp; OpJe; OpJne; OpJeDup; OpStore; OpStoreLocal;
           OpBlockPush; OpBlockPop; OpFstrPush; OpMarkDetail;
           OpWodInit; OpWodPool; OpWodPoints; OpWodThreshold; OpWodThresholdQ; OpDcInit; OpDcPool; OpDcPoints;
           OpDiceInit; OpDiceSetTimes; OpDiceSetKeepLow; OpDiceSetKeepHigh; OpDiceSetDropLow; OpDiceSetDropHigh;
           OpDiceSetMin; OpDiceSetMax; OpDiceFate; OpFstrPop; OpDice; OpCocBonus; OpCocPenalty]
    -> step_ct op.
  Proof. by_cases ltac:(qt_start; qt_go). Qed.

  Lemma step_ct_OpLdFs : step_ct OpLdFs.
  Proof.
    qt_start. destruct o; try exact Logic.I.
    destruct ((0 <? z) && (fr_top (m_fr m) - z <? 0)); [exact Logic.I|].
    match goal with |- QT (?f ?l0 ?a0) => cut (forall l acc, QT (f l acc)); [intros Hx; apply Hx|] end.
    induction l as [|v l IH]; intros acc; cbv beta iota.
    - destruct (stack_size <=? fr_top (m_fr m) - z); [exact Logic.I|].
      destruct (set_top (m_fr m) (fr_top (m_fr m) - z)) as [fr1|]; [|exact Logic.I].
      apply QT_do_push; assumption.
    - destruct (to_string _ _ v); [apply IH|exact Logic.I].
  Qed.

  Lemma step_ct_OpDiceWod : step_ct OpDiceWod.
  Proof.
    qt_start. destruct (pop (m_fr m)) as [v fr1]. destruct v; try exact Logic.I. cbv beta iota zeta.
    destruct (negb (wod_check _ _ _ _)); [exact Logic.I|].
    match goal with |- context [wod_budget ?a ?b ?c ?d ?e ?f ?g ?h ?i ?j ?k] =>
      pose proof (wod_budget_le a b c d e f g h i j k) as Hm; destruct (wod_budget a b c d e f g h i j k) end;
      try exact Logic.I.
    apply QT_dice_result. apply (PW_chain (w_set_self_ops (m_w m) ops)); [reflexivity|].
    apply PW_set_le; [|assumption]. rewrite <- HL. apply Hm. rewrite HL; lia.
  Qed.

  Lemma step_ct_OpDiceDC : step_ct OpDiceDC.
  Proof.
    qt_start. destruct (pop (m_fr m)) as [v fr1]. destruct v; try exact Logic.I. cbv beta iota zeta.
    destruct (negb (dc_check _ _ _)); [exact Logic.I|].
    match goal with |- context [dc_budget ?a ?b ?c ?d ?e ?f ?g ?h ?i] =>
      pose proof (dc_budget_le a b c d e f g h i) as Hm; destruct (dc_budget a b c d e f g h i) end;
      try exact Logic.I.
    apply QT_dice_result. apply (PW_chain (w_set_self_ops (m_w m) ops)); [reflexivity|].
    apply PW_set_le; [|assumption]. rewrite <- HL. apply Hm. rewrite HL; lia.
  Qed.

  Lemma step_inv_of_ct : forall op, step_ct op ->
    (forall o m, step_depth call cdepth E (I op o) m = O) -> step_inv op.
  Proof. intros op H H0 o m Hw Hct Hk. split; [apply H; exact Hct|rewrite H0; apply Nat.le_0_l]. Qed.

  Ltac inv_start :=
    intros o m Hw Hct Hk; unfold step, step_depth; cbn [i_op i_arg];
    unfold with_pop2, with_pop, with_pop_n, arg_int, arg_str.

  Lemma step_inv_OpInvoke : step_inv OpInvoke.
  Proof.
    inv_start. destruct o; try (split; [exact Logic.I|apply Nat.le_0_l]).
    destruct (pop_n z (m_fr m)) as [args fr1]. destruct (pop fr1) as [f fr2].
    destruct f; try (split; [exact Hct|apply Nat.le_0_l]).
    - destruct (FI_inv fid args (m_w m) Hw Hct Hk) as [P1 P2]. rewrite func_invoke_d_fst in P1.
      split; [|exact P2]. apply QT_lift; [exact P1|]. intros; apply QT_do_push; assumption.
    - destruct (native_call_d_inv name self args (m_w m) Hw Hct Hk) as [P1 P2]. rewrite native_call_d_fst in P1.
      split; [|exact P2]. apply QT_lift; [exact P1|]. intros; apply QT_do_push; assumption.
  Qed.

  Lemma step_inv_OpAttrGet : step_inv OpAttrGet.
  Proof.
    inv_start. destruct (pop (m_fr m)) as [obj fr1].
    destruct o; try (split; [exact Logic.I|apply Nat.le_0_l]).
    destruct (attr_get_d_inv obj s (m_w m) Hw Hct Hk) as [P1 P2]. rewrite attr_get_d_fst in P1.
    split; [|exact P2]. apply QT_lift; [exact P1|]. intros r w1 Hw1. destruct r; [apply QT_do_push; assumption|exact Logic.I].
  Qed.

  Lemma step_inv_ld : forall op, In op [OpLd; OpLdRaw; OpLdD] -> step_inv op.
  Proof.
    by_cases ltac:(inv_start; destruct o; try (split; [exact Logic.I|apply Nat.le_0_l]);
      match goal with |- context [load_name call E ?n ?b ?w] =>
        destruct (load_name_d_inv n b w Hw Hct Hk) as [P1 P2]; rewrite load_name_d_fst in P1 end;
      (split; [|exact P2]); apply QT_lift; [exact P1|]; intros; apply QT_do_push; assumption).
  Qed.

  Theorem step_inv_all : forall op, step_inv op.
  Proof.
    intros op.
    destruct op;
      first [ apply step_inv_OpInvoke | apply step_inv_OpAttrGet | apply step_inv_ld; cbn; tauto
            | apply step_inv_of_ct;
              [first [apply step_ct_plain; cbn; tauto | apply step_ct_OpLdFs | apply step_ct_OpDiceWod | apply step_ct_OpDiceDC]
              | intros o m; unfold step_depth; cbn [i_op i_arg]; destruct o; reflexivity] ].
  Qed.
End ChainPass.

(* ------------------------------------------------------------------ invariant 1: the counters are int64 values *)
Section DepthI64.
  Variable call : machine -> result.
  Variable cdepth : machine -> nat.
  Variable E : env.
  Variable L : Z.
  Hypothesis HL : cfg_op_limit (e_cfg E) = L.
  Hypothesis HLr : 0 < L <= MaxInt64 - 100.
  Variable c1 : Z.
  Hypothesis Hc1 : 0 <= c1.
  Variable D : nat.
  (* what is known of the sub-VMs: started either on a wrapped (negative) counter or at >= c1 + 100 *)
  Hypothesis Hsub : forall sub,
    w_chain (m_w sub) <> [] -> MinInt64 <= ops_of (m_w sub) <= MaxInt64 ->
    (ops_of (m_w sub) < 0 \/ c1 + 100 <= ops_of (m_w sub) <= L) ->
    dice_ok (m_fr sub) -> chain_i64 (m_w sub) ->
    (S (cdepth sub) <= D)%nat /\ (forall m', call sub = Fin m' -> chain_i64 (m_w m')).

  Lemma CT_chain : forall w w', w_chain w' = w_chain w -> CT w -> CT w'.
  Proof. unfold CT; intros w w' H. rewrite H. auto. Qed.
  Lemma CT_set : forall w x, x <= L -> CT w -> CT (w_set_self_ops w x).
  Proof. unfold CT; intros w x _ H. rewrite tl_set_self_ops. exact H. Qed.

  Lemma W_CT_chain : forall w, W c1 w -> CT w -> chain_i64 w.
  Proof.
    unfold W, CT, chain_i64, ops_of, w_self. intros w [Hne Ho] Hct. destruct (w_chain w) as [|x r]; [congruence|].
    cbn in *. constructor; [lia|exact Hct].
  Qed.

  Lemma CT_sync_to : forall k w, W c1 w -> CT w -> CT (sync_to k w).
  Proof.
    intros k w Hw Hct. destruct k as [|k]; [exact Hct|]. unfold sync_to.
    destruct (_ <? _); [|exact Hct]. unfold set_ops_at.
    destruct (nth_error (w_chain w) (S k)) as [c|] eqn:Hn; [|exact Hct].
    unfold CT, chain_put, ops_at in *. cbn [w_set_chain w_chain].
    destruct (w_chain w) as [|x r] eqn:Hc; [discriminate|].
    pose proof (W_head _ _ _ _ Hw Hc) as Hx. cbn [firstn skipn app tl nth_error c_ops] in *.
    apply Forall_app. split; [apply Forall_firstn'; exact Hct|].
    constructor; [cbn [c_ops]; lia|]. apply (Forall_skipn' _ _ (S k)). exact Hct.
  Qed.

  Lemma CT_sync_back : forall k w, CT w -> CT (sync_back k w).
  Proof.
    intros k w Hct. destruct k as [|k]; [exact Hct|]. unfold sync_back. cbv zeta.
    destruct (_ <? _); [|exact Hct]. unfold set_ops_at.
    destruct (nth_error (w_chain w) 0) as [c|] eqn:Hn; [|exact Hct].
    unfold CT, chain_put in *. cbn [w_set_chain w_chain firstn app].
    destruct (w_chain w) as [|x r]; [discriminate|]. exact Hct.
  Qed.

  (* the start counter of a sub-VM started on behalf of a context whose counter is x *)
  Lemma sub_start : forall x, c1 <= x <= MaxInt64 -> limit_hit E (wrap64 (x + 100)) = false ->
    MinInt64 <= wrap64 (x + 100) <= MaxInt64 /\ (wrap64 (x + 100) < 0 \/ c1 + 100 <= wrap64 (x + 100) <= L).
  Proof.
    intros x Hx Hlim. split; [apply wrap64_range|].
    destruct (Z_le_gt_dec (x + 100) MaxInt64) as [Hle|Hgt].
    - right. rewrite wrap64_id in * by (unfold in_i64, two63, MaxInt64 in *; lia).
      unfold limit_hit in Hlim. rewrite HL in Hlim. apply andb_false_iff in Hlim.
      destruct Hlim as [Hlim|Hlim]; apply Z.ltb_ge in Hlim; lia.
    - left. rewrite wrap64_over by (unfold MaxInt64, two63 in *; lia). unfold MaxInt64, two64 in *. lia.
  Qed.

  Lemma computed_execute_d_inv : forall cid k w, W c1 w -> CT w -> (k = 0%nat -> ops_of w <= L) ->
    (forall t, nth_error (w_chain w) k = Some t -> c1 <= c_ops t) ->
    PD D CT (computed_execute_d call cdepth E cid k w).
  Proof.
    intros cid k w Hw Hct Hk Hge. pose proof (W_CT_chain _ Hw Hct) as Hch.
    unfold computed_execute_d.
    destruct (nth_error (w_chain w) k) as [t|] eqn:Hn; [|apply PD_ret; exact Logic.I].
    destruct (cattrs_force cid (w_heap w)) as [mapid h1]. cbv zeta.
    destruct (limit_hit E _) eqn:Hlim; [apply PD_ret; exact Logic.I|].
    destruct (f_lookup (e_ftab E) cid) as [d|]; [|apply PD_ret; exact Logic.I].
    destruct (f_code d) as [body|]; [|apply PD_ret; exact Logic.I].
    assert (Ht : c1 <= c_ops t <= MaxInt64).
    { split; [apply Hge; reflexivity|]. exact (Forall_nth_error _ _ _ _ _ Hch Hn). }
    destruct (sub_start _ Ht Hlim) as [Hr Hcase].
    match goal with |- context [call ?s] => set (sub := s) end.
    destruct (Hsub sub) as [Hd Hfin].
    { cbn. discriminate. }
    { exact Hr. }
    { exact Hcase. }
    { constructor. }
    { unfold chain_i64. cbn [sub m_w w_chain w_set_chain].
      constructor; [cbn [c_ops]; lia|]. constructor; [cbn [c_ops]; lia|]. apply Forall_skipn'. exact Hch. }
    split; [|exact Hd]. cbn [fst].
    destruct (call sub) as [m'|e m'| | |] eqn:Hcs; try exact Logic.I.
    - specialize (Hfin m' eq_refl). unfold chain_i64 in Hfin.
      destruct (w_chain (m_w m')) as [|s' [|t' rest']] eqn:Hc'; try exact Logic.I.
      cbv zeta. cbn [rct]. unfold CT. cbn [w_chain w_set_chain]. apply Forall_tl. unfold chain_put.
      pose proof (Forall_inv Hfin) as Hs'. cbv beta in Hs'. pose proof (Forall_inv_tail (Forall_inv_tail Hfin)) as Hrest'.
      apply Forall_app. split; [apply Forall_firstn'; exact Hch|]. constructor; [exact Hs'|exact Hrest'].
    - destruct (w_chain (m_w m')) as [|s' [|t' rest']]; exact Logic.I.
  Qed.

  Lemma func_invoke_d_inv : forall fid args w, W c1 w -> CT w -> ops_of w <= L ->
    PD D CT (func_invoke_d call cdepth E fid args w).
  Proof.
    intros fid args w Hw Hct Hk. pose proof (W_CT_chain _ Hw Hct) as Hch.
    unfold func_invoke_d.
    destruct (f_lookup (e_ftab E) fid) as [d|]; [|apply PD_ret; exact Logic.I].
    destruct (w_chain w) as [|self ups] eqn:Hc; [apply PD_ret; exact Logic.I|].
    destruct (negb _); [apply PD_ret; exact Logic.I|].
    destruct (alloc_map _ _) as [mapid h1]. cbv zeta.
    destruct (limit_hit E _) eqn:Hlim; [apply PD_ret; exact Logic.I|].
    destruct (f_code d) as [body|]; [|apply PD_ret; exact Logic.I].
    pose proof (W_head _ _ _ _ Hw Hc) as Ht.
    destruct (sub_start _ Ht Hlim) as [Hr Hcase].
    unfold chain_i64 in Hch. rewrite Hc in Hch. pose proof (Forall_inv Hch) as Hself. cbv beta in Hself. pose proof (Forall_inv_tail Hch) as Hups.
    match goal with |- context [call ?s] => set (sub := s) end.
    destruct (Hsub sub) as [Hd Hfin].
    { cbn. discriminate. }
    { exact Hr. }
    { exact Hcase. }
    { constructor. }
    { unfold chain_i64. cbn [sub m_w w_chain w_set_chain].
      constructor; [cbn [c_ops]; lia|]. constructor; [cbn [c_ops]; lia|]. exact Hups. }
    split; [|exact Hd]. cbn [fst].
    destruct (call sub) as [m'|e m'| | |] eqn:Hcs; try exact Logic.I.
    - specialize (Hfin m' eq_refl). unfold chain_i64 in Hfin.
      destruct (w_chain (m_w m')) as [|s' [|t' rest']] eqn:Hc'; try exact Logic.I.
      cbv zeta. cbn [rct]. unfold CT. cbn [w_chain w_set_chain tl].
      pose proof (Forall_inv Hfin) as Hs'. cbv beta in Hs'. pose proof (Forall_inv_tail (Forall_inv_tail Hfin)) as Hrest'. exact Hrest'.
    - destruct (w_chain (m_w m')) as [|s' [|t' rest']]; exact Logic.I.
  Qed.
End DepthI64.

(* ------------------------------------------------------------------ invariant 2: the counters lie within the budget *)
Section DepthExact.
  Variable call : machine -> result.
  Variable cdepth : machine -> nat.
  Variable E : env.
  Variable L : Z.
  Hypothesis HL : cfg_op_limit (e_cfg E) = L.
  Hypothesis HLr : 0 < L <= MaxInt64 - 100.
  Variable c1 : Z.
  Hypothesis Hc1 : 0 <= c1.
  Variable D : nat.
  (* here every sub-VM starts at >= c1 + 100 *)
  Hypothesis Hsub : forall sub,
    w_chain (m_w sub) <> [] -> c1 + 100 <= ops_of (m_w sub) <= L ->
    dice_ok (m_fr sub) -> chain_in_budget L (m_w sub) ->
    (S (cdepth sub) <= D)%nat /\ (forall m', call sub = Fin m' -> chain_in_budget L (m_w m')).

  Lemma PWL_chain : forall w w', w_chain w' = w_chain w -> PWL L w -> PWL L w'.
  Proof. unfold PWL, ops_of, w_self; intros w w' H. rewrite H. auto. Qed.

  Lemma PWL_set : forall w x, x <= L -> PWL L w -> PWL L (w_set_self_ops w x).
  Proof.
    unfold PWL; intros w x Hx [H1 H2]. rewrite tl_set_self_ops. split; [|exact H2].
    unfold ops_of, w_self, w_set_self_ops in *. destruct (w_chain w) eqn:Hc; [rewrite Hc; exact H1|exact Hx].
  Qed.

  Lemma W_PWL_chain : forall w, W c1 w -> PWL L w -> chain_in_budget L w.
  Proof.
    unfold W, PWL, chain_in_budget, ops_of, w_self. intros w [Hne Ho] [Hh Hct]. destruct (w_chain w) as [|x r]; [congruence|].
    cbn in *. constructor; [lia|exact Hct].
  Qed.

  Lemma chain_PWL : forall w, chain_in_budget L w -> PWL L w.
  Proof.
    unfold PWL, chain_in_budget, ops_of, w_self. intros w H. destruct (w_chain w) as [|x r]; cbn; [split; [lia|constructor]|].
    pose proof (Forall_inv H) as Hx. cbv beta in Hx. split; [lia|exact (Forall_inv_tail H)].
  Qed.

  Lemma PWL_sync_to : forall k w, W c1 w -> PWL L w -> PWL L (sync_to k w).
  Proof.
    intros k w Hw Hp. apply chain_PWL. pose proof (W_PWL_chain _ Hw Hp) as Hch.
    destruct k as [|k]; [exact Hch|]. unfold sync_to.
    destruct (_ <? _); [|exact Hch]. unfold set_ops_at.
    destruct (nth_error (w_chain w) (S k)) as [c|] eqn:Hn; [|exact Hch].
    unfold chain_in_budget, chain_put, ops_at in *. cbn [w_set_chain w_chain].
    apply Forall_app. split; [apply Forall_firstn'; exact Hch|].
    constructor; [|apply Forall_skipn'; exact Hch].
    destruct (w_chain w) as [|x r]; [discriminate|]. exact (Forall_inv Hch).
  Qed.

  Lemma PWL_sync_back : forall k w, PWL L w -> PWL L (sync_back k w).
  Proof.
    intros k w Hp. destruct k as [|k]; [exact Hp|]. unfold sync_back. cbv zeta.
    destruct (_ <? _) eqn:Hlt; [|exact Hp]. unfold set_ops_at.
    destruct (nth_error (w_chain w) 0) as [c|] eqn:Hn; [|exact Hp].
    destruct Hp as [Hh Ht]. unfold PWL, chain_put, ops_of, w_self, ops_at in *. cbn [w_set_chain w_chain firstn app].
    destruct (w_chain w) as [|x r]; [discriminate|]. cbn [tl hd c_ops nth_error] in *. split; [|exact Ht].
    destruct (nth_error r k) as [t|] eqn:Hk.
    - pose proof (Forall_nth_error _ _ _ _ _ Ht Hk) as Hb. cbv beta in Hb.
      rewrite wrap64_id by (unfold in_i64, two63, MaxInt64 in *; lia). lia.
    - rewrite wrap64_id by (unfold in_i64, two63; lia). lia.
  Qed.

  (* no wrap: the start counter is the context's counter + 100 *)
  Lemma sub_start_exact : forall x, c1 <= x <= L -> limit_hit E (wrap64 (x + 100)) = false ->
    wrap64 (x + 100) = x + 100 /\ x + 100 <= L.
  Proof.
    intros x Hx Hlim. rewrite wrap64_id in * by (unfold in_i64, two63, MaxInt64 in *; lia). split; [reflexivity|].
    unfold limit_hit in Hlim. rewrite HL in Hlim. apply andb_false_iff in Hlim.
    destruct Hlim as [Hlim|Hlim]; apply Z.ltb_ge in Hlim; lia.
  Qed.

  Lemma computed_execute_d_exact : forall cid k w, W c1 w -> PWL L w -> (k = 0%nat -> ops_of w <= L) ->
    (forall t, nth_error (w_chain w) k = Some t -> c1 <= c_ops t) ->
    PD D (PWL L) (computed_execute_d call cdepth E cid k w).
  Proof.
    intros cid k w Hw Hct Hk Hge. pose proof (W_PWL_chain _ Hw Hct) as Hch.
    unfold computed_execute_d.
    destruct (nth_error (w_chain w) k) as [t|] eqn:Hn; [|apply PD_ret; exact Logic.I].
    destruct (cattrs_force cid (w_heap w)) as [mapid h1]. cbv zeta.
    destruct (limit_hit E _) eqn:Hlim; [apply PD_ret; exact Logic.I|].
    destruct (f_lookup (e_ftab E) cid) as [d|]; [|apply PD_ret; exact Logic.I].
    destruct (f_code d) as [body|]; [|apply PD_ret; exact Logic.I].
    assert (Ht : c1 <= c_ops t <= L).
    { split; [apply Hge; reflexivity|]. exact (proj2 (Forall_nth_error _ _ _ _ _ Hch Hn)). }
    destruct (sub_start_exact _ Ht Hlim) as [Hr Hle]. rewrite Hr in *.
    match goal with |- context [call ?s] => set (sub := s) end.
    destruct (Hsub sub) as [Hd Hfin].
    { cbn. discriminate. }
    { change (ops_of (m_w sub)) with (c_ops t + 100). lia. }
    { constructor. }
    { unfold chain_in_budget. cbn [sub m_w w_chain w_set_chain].
      constructor; [cbn [c_ops]; lia|]. constructor; [cbn [c_ops]; lia|]. apply Forall_skipn'. exact Hch. }
    split; [|exact Hd]. cbn [fst].
    destruct (call sub) as [m'|e m'| | |] eqn:Hcs; try exact Logic.I.
    - specialize (Hfin m' eq_refl). unfold chain_in_budget in Hfin.
      destruct (w_chain (m_w m')) as [|s' [|t' rest']] eqn:Hc'; try exact Logic.I.
      cbv zeta. cbn [rct]. apply chain_PWL. unfold chain_in_budget. cbn [w_chain w_set_chain]. unfold chain_put.
      pose proof (Forall_inv Hfin) as Hs'. cbv beta in Hs'. pose proof (Forall_inv_tail (Forall_inv_tail Hfin)) as Hrest'.
      apply Forall_app. split; [apply Forall_firstn'; exact Hch|]. constructor; [exact Hs'|exact Hrest'].
    - destruct (w_chain (m_w m')) as [|s' [|t' rest']]; exact Logic.I.
  Qed.

  Lemma func_invoke_d_exact : forall fid args w, W c1 w -> PWL L w -> ops_of w <= L ->
    PD D (PWL L) (func_invoke_d call cdepth E fid args w).
  Proof.
    intros fid args w Hw Hct Hk. pose proof (W_PWL_chain _ Hw Hct) as Hch.
    unfold func_invoke_d.
    destruct (f_lookup (e_ftab E) fid) as [d|]; [|apply PD_ret; exact Logic.I].
    destruct (w_chain w) as [|self ups] eqn:Hc; [apply PD_ret; exact Logic.I|].
    destruct (negb _); [apply PD_ret; exact Logic.I|].
    destruct (alloc_map _ _) as [mapid h1]. cbv zeta.
    destruct (limit_hit E _) eqn:Hlim; [apply PD_ret; exact Logic.I|].
    destruct (f_code d) as [body|]; [|apply PD_ret; exact Logic.I].
    unfold chain_in_budget in Hch. rewrite Hc in Hch. pose proof (Forall_inv Hch) as Hself. cbv beta in Hself. pose proof (Forall_inv_tail Hch) as Hups.
    assert (Ht : c1 <= c_ops self <= L) by (pose proof (W_head _ _ _ _ Hw Hc); lia).
    destruct (sub_start_exact _ Ht Hlim) as [Hr Hle]. rewrite Hr in *.
    match goal with |- context [call ?s] => set (sub := s) end.
    destruct (Hsub sub) as [Hd Hfin].
    { cbn. discriminate. }
    { change (ops_of (m_w sub)) with (c_ops self + 100). lia. }
    { constructor. }
    { unfold chain_in_budget. cbn [sub m_w w_chain w_set_chain].
      constructor; [cbn [c_ops]; lia|]. constructor; [cbn [c_ops]; lia|]. exact Hups. }
    split; [|exact Hd]. cbn [fst].
    destruct (call sub) as [m'|e m'| | |] eqn:Hcs; try exact Logic.I.
    - specialize (Hfin m' eq_refl). unfold chain_in_budget in Hfin.
      destruct (w_chain (m_w m')) as [|s' [|t' rest']] eqn:Hc'; try exact Logic.I.
      cbv zeta. cbn [rct]. apply chain_PWL. unfold chain_in_budget. cbn [w_chain w_set_chain].
      pose proof (Forall_inv Hfin) as Hs'. cbv beta in Hs'. pose proof (Forall_inv_tail (Forall_inv_tail Hfin)) as Hrest'.
      constructor; [exact Hs'|exact Hrest'].
    - destruct (w_chain (m_w m')) as [|s' [|t' rest']]; exact Logic.I.
  Qed.
End DepthExact.

(* ================================================================== the run *)
Lemma exec_depth_aux : forall E L, cfg_op_limit (e_cfg E) = L -> 0 < L <= MaxInt64 - 100 ->
  forall fuel m, w_chain (m_w m) <> [] -> MinInt64 <= ops_of (m_w m) <= MaxInt64 -> dice_ok (m_fr m) -> chain_i64 (m_w m) ->
  (forall m', exec fuel E m = Fin m' -> chain_i64 (m_w m')) /\
  Z.of_nat (snd (exec_depth fuel E m)) <= depth_bound L (ops_of (m_w m)).
Proof.
  intros E L HL HLr. induction fuel as [|f IH]; intros m Hch Hr Hdice HCH.
  - cbn. split; [discriminate|apply depth_bound_nonneg].
  - pose proof (depth_bound_nonneg L (ops_of (m_w m))) as Hnn. cbn [exec_depth exec].
    destruct (zlen (fr_code (m_fr m)) <=? fr_pc (m_fr m)).
    { cbn [snd]. split; [|exact Hnn]. destruct (fr_err (m_fr m)); [discriminate|]. intros m' [= <-]. exact HCH. }
    rewrite count_op_spec.
    destruct (Z_lt_ge_dec (ops_of (m_w m)) 0) as [Hneg|Hpos].
    { (* a wrapped start counter: the first dispatch reports the budget error *)
      rewrite ops_add_neg by (rewrite ?HL; unfold MaxInt64 in *; lia). cbn [snd]. split; [discriminate|exact Hnn]. }
    assert (Hops : 0 <= ops_of (m_w m) <= MaxInt64) by lia.
    destruct (ops_add (e_cfg E) (ops_of (m_w m)) 1) as [new over] eqn:Ha. cbn [snd fst].
    assert (H01 : 0 <= 1) by lia.
    destruct (C07_ops_add_spec _ _ _ _ _ Hops H01 Ha) as (A1 & A2 & A3 & A4).
    destruct over; [cbn [snd]; split; [discriminate|exact Hnn]|].
    assert (Hnew : new = ops_of (m_w m) + 1 /\ new <= L).
    { assert (~ (0 < cfg_op_limit (e_cfg E) /\ cfg_op_limit (e_cfg E) < new)) by (intros X; apply A4 in X; discriminate).
      unfold MaxInt64 in *. lia. }
    destruct Hnew as [Hn1 Hn2].
    destruct (fr_err (m_fr m)); [cbn [snd]; split; [discriminate|exact Hnn]|].
    destruct (fr_top (m_fr m) =? stack_size); [cbn [snd]; split; [discriminate|exact Hnn]|].
    destruct (fr_pc (m_fr m) <? 0); [cbn [snd]; split; [discriminate|exact Hnn]|].
    destruct (nth_error _ _) as [[op o]|]; [|cbn [snd]; split; [discriminate|exact Hnn]]. cbv zeta.
    assert (Hm1 : ops_of (m_w (counted E m)) = new) by (rewrite counted_ops by exact Hch; rewrite Ha; reflexivity).
    assert (Hch1 : w_chain (m_w (counted E m)) <> []).
    { unfold counted, w_set_self_ops; cbn [m_w]. destruct (w_chain (m_w m)); [congruence|discriminate]. }
    assert (HW : W new (m_w (counted E m))) by (unfold W; rewrite Hm1; split; [exact Hch1|lia]).
    assert (HCT : CT (m_w (counted E m))).
    { unfold CT, counted; cbn [m_w]. rewrite tl_set_self_ops. apply Forall_tl. exact HCH. }
    assert (Hcall : forall m0 m', run_pre m0 -> exec f E m0 = Fin m' -> ops_of (m_w m0) <= ops_of (m_w m') <= MaxInt64)
      by (intros m0 m' P0; apply (C07_counter_never_lowered E L HL HLr f m0 m' P0)).
    assert (Hnew0 : 0 <= new) by lia.
    assert (HmL : ops_of (m_w (counted E m)) <= L) by (rewrite Hm1; exact Hn2).
    pose proof (step_ops_mono (exec f E) f E L HL HLr Hcall new Hnew0 op o (counted E m) HW HmL Hdice) as HQ.
    set (D := Z.to_nat (depth_bound L (ops_of (m_w m)))).
    assert (Hsub : forall sub,
      w_chain (m_w sub) <> [] -> MinInt64 <= ops_of (m_w sub) <= MaxInt64 ->
      (ops_of (m_w sub) < 0 \/ new + 100 <= ops_of (m_w sub) <= L) ->
      dice_ok (m_fr sub) -> chain_i64 (m_w sub) ->
      (S (snd (exec_depth f E sub)) <= D)%nat /\ (forall m', exec f E sub = Fin m' -> chain_i64 (m_w m'))).
    { intros sub S1 S2 S3 S4 S5. destruct (IH sub S1 S2 S4 S5) as [I1 I2]. split; [|exact I1].
      assert (Z.of_nat (snd (exec_depth f E sub)) + 1 <= depth_bound L (ops_of (m_w m))); [|unfold D; lia].
      destruct S3 as [S3|S3].
      - unfold depth_bound in I2 at 1. destruct (ops_of (m_w sub) <? 0) eqn:Hlt; [|apply Z.ltb_ge in Hlt; lia].
        unfold depth_bound. destruct (ops_of (m_w m) <? 0) eqn:Hlt0; [apply Z.ltb_lt in Hlt0; lia|]. lia.
      - pose proof (depth_bound_step L (ops_of (m_w m)) (ops_of (m_w sub))). lia. }
    destruct (step_inv_all (exec f E) (fun sub => snd (exec_depth f E sub)) f E L HL HLr Hcall new Hnew0 D CT
                CT_chain (CT_set L) (CT_sync_to new) CT_sync_back
                (computed_execute_d_inv _ _ E L HL HLr new Hnew0 D Hsub)
                (func_invoke_d_inv _ _ E L HL HLr new Hnew0 D Hsub)
                op o (counted E m) HW HCT HmL) as [HT HD].
    assert (HDz : Z.of_nat (step_depth (exec f E) (fun sub => snd (exec_depth f E sub)) E (I op o) (counted E m))
                  <= depth_bound L (ops_of (m_w m))) by (unfold D in HD; lia).
    destruct (step (exec f E) f E {| i_op := op; i_arg := o |} (counted E m)) as [m2|m2|e m2|s| |s];
      cbn [snd]; try (split; [discriminate|exact HDz]).
    + destruct HQ as [W1 D2]. cbn [QT] in HT.
      match goal with |- context [exec_depth f E ?x] => destruct (IH x) as [I1 I2] end.
      { exact (proj1 W1). }
      { cbn [m_w]. destruct W1 as [_ W1]. unfold MinInt64 in *. lia. }
      { exact D2. }
      { cbn [m_w]. exact (W_CT_chain new _ W1 HT). }
      cbn [m_w] in I1, I2.
      match goal with |- context [exec_depth f E ?x] => destruct (exec_depth f E x) as [r n] end.
      cbn [snd] in *. split; [exact I1|].
      assert (depth_bound L (ops_of (m_w m2)) <= depth_bound L (ops_of (m_w m)))
        by (apply depth_bound_mono; destruct W1 as [_ W1]; lia).
      lia.
    + cbn [Q2] in HQ. cbn [QT] in HT. split; [|exact HDz]. intros m' [= <-]. exact (W_CT_chain new _ HQ HT).
Qed.

(* MAIN: the nesting depth of sub-VM activations is bounded by the budget.  From a start counter c0 the first
   callee starts at >= c0 + 101 (one dispatch, + 100 for the call) and must start at <= L, and so on: at most
   (L - c0) / 101 levels; the last "+ 1" is one activation started for a calling context whose counter + 100
   wraps around int64 (possible only for a chain that already holds a counter > MaxInt64 - 100): it starts on
   a negative counter, its first dispatch is the budget error, it starts nothing *)
Theorem C07_call_depth_bounded : forall E L, cfg_op_limit (e_cfg E) = L -> 0 < L <= MaxInt64 - 100 ->
  forall fuel m, run_pre m -> chain_i64 (m_w m) ->
  fst (exec_depth fuel E m) = exec fuel E m /\
  Z.of_nat (snd (exec_depth fuel E m)) <= Z.max 0 ((L - ops_of (m_w m)) / 101) + 1.
Proof.
  intros E L HL HLr fuel m (Hch & Hops & Hdice) HCH. split; [apply exec_depth_fst|].
  destruct (exec_depth_aux E L HL HLr fuel m Hch) as [_ H]; [unfold MinInt64; lia|exact Hdice|exact HCH|].
  unfold depth_bound in H. destruct (ops_of (m_w m) <? 0) eqn:Hlt; [apply Z.ltb_lt in Hlt; lia|exact H].
Qed.

(* the same in the form "L / 100 + 1" *)
Corollary C07_call_depth_bounded_100 : forall E L, cfg_op_limit (e_cfg E) = L -> 0 < L <= MaxInt64 - 100 ->
  forall fuel m, run_pre m -> chain_i64 (m_w m) ->
  Z.of_nat (snd (exec_depth fuel E m)) <= Z.max 0 ((L - ops_of (m_w m)) / 100) + 1.
Proof.
  intros E L HL HLr fuel m Hpre HCH. destruct (C07_call_depth_bounded E L HL HLr fuel m Hpre HCH) as [_ H].
  assert ((L - ops_of (m_w m)) / 101 <= Z.max 0 ((L - ops_of (m_w m)) / 100)); [|lia].
  destruct (Z_lt_ge_dec (L - ops_of (m_w m)) 0) as [Hn|Hp].
  - assert ((L - ops_of (m_w m)) / 101 < 0) by (apply Z.div_lt_upper_bound; lia). lia.
  - assert ((L - ops_of (m_w m)) / 101 <= (L - ops_of (m_w m)) / 100) by (apply Z.div_le_compat_l; lia). lia.
Qed.

(* ---- the same induction with every counter of the chain within the budget: no wrapped start, no "+ 1" *)
Lemma exec_depth_exact_aux : forall E L, cfg_op_limit (e_cfg E) = L -> 0 < L <= MaxInt64 - 100 ->
  forall fuel m, w_chain (m_w m) <> [] -> dice_ok (m_fr m) -> chain_in_budget L (m_w m) ->
  (forall m', exec fuel E m = Fin m' -> chain_in_budget L (m_w m')) /\
  Z.of_nat (snd (exec_depth fuel E m)) <= Z.max 0 ((L - ops_of (m_w m)) / 101).
Proof.
  intros E L HL HLr. induction fuel as [|f IH]; intros m Hch Hdice HCH.
  - cbn. split; [discriminate|lia].
  - assert (Hops : 0 <= ops_of (m_w m) <= L).
    { unfold chain_in_budget, ops_of, w_self in *. destruct (w_chain (m_w m)) as [|x r]; [congruence|]. exact (Forall_inv HCH). }
    assert (Hnn : 0 <= Z.max 0 ((L - ops_of (m_w m)) / 101)) by lia. cbn [exec_depth exec].
    destruct (zlen (fr_code (m_fr m)) <=? fr_pc (m_fr m)).
    { cbn [snd]. split; [|exact Hnn]. destruct (fr_err (m_fr m)); [discriminate|]. intros m' [= <-]. exact HCH. }
    rewrite count_op_spec.
    assert (Hops' : 0 <= ops_of (m_w m) <= MaxInt64) by lia.
    destruct (ops_add (e_cfg E) (ops_of (m_w m)) 1) as [new over] eqn:Ha. cbn [snd fst].
    assert (H01 : 0 <= 1) by lia.
    destruct (C07_ops_add_spec _ _ _ _ _ Hops' H01 Ha) as (A1 & A2 & A3 & A4).
    destruct over; [cbn [snd]; split; [discriminate|exact Hnn]|].
    assert (Hnew : new = ops_of (m_w m) + 1 /\ new <= L).
    { assert (~ (0 < cfg_op_limit (e_cfg E) /\ cfg_op_limit (e_cfg E) < new)) by (intros X; apply A4 in X; discriminate).
      unfold MaxInt64 in *. lia. }
    destruct Hnew as [Hn1 Hn2].
    destruct (fr_err (m_fr m)); [cbn [snd]; split; [discriminate|exact Hnn]|].
    destruct (fr_top (m_fr m) =? stack_size); [cbn [snd]; split; [discriminate|exact Hnn]|].
    destruct (fr_pc (m_fr m) <? 0); [cbn [snd]; split; [discriminate|exact Hnn]|].
    destruct (nth_error _ _) as [[op o]|]; [|cbn [snd]; split; [discriminate|exact Hnn]]. cbv zeta.
    assert (Hm1 : ops_of (m_w (counted E m)) = new) by (rewrite counted_ops by exact Hch; rewrite Ha; reflexivity).
    assert (Hch1 : w_chain (m_w (counted E m)) <> []).
    { unfold counted, w_set_self_ops; cbn [m_w]. destruct (w_chain (m_w m)); [congruence|discriminate]. }
    assert (HW : W new (m_w (counted E m))) by (unfold W; rewrite Hm1; split; [exact Hch1|lia]).
    assert (HPW : PWL L (m_w (counted E m))).
    { unfold counted; cbn [m_w]. apply (PWL_set L); [rewrite Ha; exact Hn2|]. apply (chain_PWL L HLr). exact HCH. }
    assert (Hcall : forall m0 m', run_pre m0 -> exec f E m0 = Fin m' -> ops_of (m_w m0) <= ops_of (m_w m') <= MaxInt64)
      by (intros m0 m' P0; apply (C07_counter_never_lowered E L HL HLr f m0 m' P0)).
    assert (Hnew0 : 0 <= new) by lia.
    assert (HmL : ops_of (m_w (counted E m)) <= L) by (rewrite Hm1; exact Hn2).
    pose proof (step_ops_mono (exec f E) f E L HL HLr Hcall new Hnew0 op o (counted E m) HW HmL Hdice) as HQ.
    set (D := Z.to_nat (Z.max 0 ((L - ops_of (m_w m)) / 101))).
    assert (Hsub : forall sub,
      w_chain (m_w sub) <> [] -> new + 100 <= ops_of (m_w sub) <= L ->
      dice_ok (m_fr sub) -> chain_in_budget L (m_w sub) ->
      (S (snd (exec_depth f E sub)) <= D)%nat /\ (forall m', exec f E sub = Fin m' -> chain_in_budget L (m_w m'))).
    { intros sub S1 S3 S4 S5. destruct (IH sub S1 S4 S5) as [I1 I2]. split; [|exact I1].
      pose proof (div101_step L (ops_of (m_w m)) (ops_of (m_w sub))). unfold D. lia. }
    destruct (step_inv_all (exec f E) (fun sub => snd (exec_depth f E sub)) f E L HL HLr Hcall new Hnew0 D (PWL L)
                (PWL_chain L) (PWL_set L) (PWL_sync_to L HLr new Hnew0) (PWL_sync_back L HLr)
                (computed_execute_d_exact _ _ E L HL HLr new Hnew0 D Hsub)
                (func_invoke_d_exact _ _ E L HL HLr new Hnew0 D Hsub)
                op o (counted E m) HW HPW HmL) as [HT HD].
    assert (HDz : Z.of_nat (step_depth (exec f E) (fun sub => snd (exec_depth f E sub)) E (I op o) (counted E m))
                  <= Z.max 0 ((L - ops_of (m_w m)) / 101)) by (unfold D in HD; lia).
    destruct (step (exec f E) f E {| i_op := op; i_arg := o |} (counted E m)) as [m2|m2|e m2|s| |s];
      cbn [snd]; try (split; [discriminate|exact HDz]).
    + destruct HQ as [W1 D2]. cbn [QT] in HT.
      pose proof (W_PWL_chain L new Hnew0 _ W1 HT) as HC2.
      match goal with |- context [exec_depth f E ?x] => destruct (IH x) as [I1 I2] end.
      { exact (proj1 W1). }
      { exact D2. }
      { cbn [m_w]. exact HC2. }
      cbn [m_w] in I1, I2.
      match goal with |- context [exec_depth f E ?x] => destruct (exec_depth f E x) as [r n] end.
      cbn [snd] in *. split; [exact I1|].
      pose proof (div101_mono L (ops_of (m_w m)) (ops_of (m_w m2))). destruct W1 as [_ W1]. lia.
    + cbn [Q2] in HQ. cbn [QT] in HT. split; [|exact HDz]. intros m' [= <-]. exact (W_PWL_chain L new Hnew0 _ HQ HT).
Qed.

(* EXACT: when every counter of the chain lies within the budget (the chain `run` starts on; kept by every
   run), no start counter wraps and the depth is at most (L - c0) / 101; attained: C07_call_depth_tight *)
Theorem C07_call_depth_exact : forall E L, cfg_op_limit (e_cfg E) = L -> 0 < L <= MaxInt64 - 100 ->
  forall fuel m, w_chain (m_w m) <> [] -> dice_ok (m_fr m) -> chain_in_budget L (m_w m) ->
  fst (exec_depth fuel E m) = exec fuel E m /\
  Z.of_nat (snd (exec_depth fuel E m)) <= Z.max 0 ((L - ops_of (m_w m)) / 101) /\
  (forall m', exec fuel E m = Fin m' -> chain_in_budget L (m_w m')).
Proof.
  intros E L HL HLr fuel m Hch Hdice HCH. split; [apply exec_depth_fst|].
  destruct (exec_depth_exact_aux E L HL HLr fuel m Hch Hdice HCH) as [H1 H2]. split; assumption.
Qed.

(* every sub-VM starts on a counter that is either wrapped (negative) or at least 100 above the counter of the
   context it is started for, and within the limit: the fact the depth bound rests on *)
Theorem C07_callee_start_counter : forall E L x, cfg_op_limit (e_cfg E) = L -> 0 < L <= MaxInt64 - 100 ->
  0 <= x <= MaxInt64 -> limit_hit E (wrap64 (x + 100)) = false ->
  wrap64 (x + 100) < 0 \/ x + 100 <= wrap64 (x + 100) <= L.
Proof. intros E L x HL HLr Hx Hlim. refine (proj2 (sub_start E L HL HLr x (proj1 Hx) x _ Hlim)). lia. Qed.

(* the machine `run` starts: one context, counter 0 *)
Corollary C07_run_call_depth : forall E L c src st fuel, cfg_op_limit (e_cfg E) = L -> 0 < L <= MaxInt64 - 100 ->
  let m0 := {| m_fr := new_frame c (Some src);
               m_w := {| w_heap := vs_heap st; w_pcg := vs_pcg st; w_st := [];
                         w_chain := [{| c_attrs := vs_attrs st; c_ops := 0 |}] |} |} in
  Z.of_nat (snd (exec_depth fuel E m0)) <= L / 101.
Proof.
  intros E L c src st fuel HL HLr m0.
  destruct (C07_call_depth_exact E L HL HLr fuel m0) as (_ & H & _).
  { unfold m0; cbn. discriminate. }
  { unfold m0, dice_ok; cbn. constructor. }
  { unfold chain_in_budget, m0; cbn. constructor; [cbn; lia|constructor]. }
  change (ops_of (m_w m0)) with 0 in H. rewrite Z.sub_0_r in H.
  assert (0 <= L / 101) by (apply Z.div_pos; lia). lia.
Qed.
(* ================================================================== non-vacuity, tightness, the hypothesis *)
(* a computed value that evaluates itself: `x = &x` ... *)
Definition ftab_rec : ftab :=
  [ {| f_computed := true; f_name := "x"; f_params := []; f_expr := "x"; f_code := Some [I OpLd (OStr "x")] |} ].
Definition env_rec (L : Z) : env := {| e_ftab := ftab_rec; e_cfg := e_cfg (env_lim L) |}.
Definition mach (c : code) (w : world) : machine := {| m_fr := new_frame c (Some "x"%string); m_w := w |}.
Definition w_start : world :=
  {| w_heap := vs_heap st0; w_pcg := vs_pcg st0; w_st := []; w_chain := [{| c_attrs := vs_attrs st0; c_ops := 0 |}] |}.
Definition prog_rec : code := [I OpPushComputed (OFn 0%N); I OpStore (OStr "x"); I OpLd (OStr "x")].
(* ... and a script function that calls itself: `func f() { f() }; f()` *)
Definition ftab_f : ftab :=
  [ {| f_computed := false; f_name := "f"; f_params := []; f_expr := "f()";
       f_code := Some [I OpPushFunc (OFn 0%N); I OpInvoke (OInt 0)] |} ].
Definition is_budget (r : result) : bool := match r with Fail EBudget _ => true | _ => false end.
(* the hypotheses of the theorems, decided *)
Definition chain_i64b (w : world) : bool := forallb (fun c => c_ops c <=? MaxInt64) (w_chain w).
Lemma chain_i64b_ok : forall w, chain_i64b w = true -> chain_i64 w.
Proof.
  unfold chain_i64b, chain_i64. intros w H. rewrite forallb_forall in H. apply Forall_forall. intros c Hc.
  apply Z.leb_le. apply H. exact Hc.
Qed.
Definition chain_in_budgetb (L : Z) (w : world) : bool := forallb (fun c => (0 <=? c_ops c) && (c_ops c <=? L)) (w_chain w).
Lemma chain_in_budgetb_ok : forall L w, chain_in_budgetb L w = true -> chain_in_budget L w.
Proof.
  unfold chain_in_budgetb, chain_in_budget. intros L w H. rewrite forallb_forall in H. apply Forall_forall. intros c Hc.
  specialize (H c Hc). apply andb_true_iff in H. destruct H as [H1 H2]. apply Z.leb_le in H1, H2. lia.
Qed.
Definition run_preb (m : machine) : bool :=
  match w_chain (m_w m), fr_dice (m_fr m) with
  | c :: _, [] => (0 <=? c_ops c) && (c_ops c <=? MaxInt64)
  | _, _ => false
  end.
Lemma run_preb_ok : forall m, run_preb m = true -> run_pre m.
Proof.
  unfold run_preb, run_pre, ops_of, w_self, dice_ok. intros m H.
  destruct (w_chain (m_w m)) as [|c r]; [discriminate|]. destruct (fr_dice (m_fr m)); [|discriminate].
  apply andb_true_iff in H. destruct H as [H1 H2]. apply Z.leb_le in H1, H2.
  split; [discriminate|]. split; [cbn; lia|constructor].
Qed.

(* the recursion is stopped by the budget, after 2 (limit 250), 9 (limit 1000), 4 (function, limit 500) nested sub-VMs *)
Example C07_call_depth_example :
  (let r := exec_depth 50 (env_rec 250) (mach prog_rec w_start) in (is_budget (fst r), snd r) = (true, 2%nat)) /\
  (let r := exec_depth 50 (env_rec 1000) (mach prog_rec w_start) in (is_budget (fst r), snd r) = (true, 9%nat)) /\
  (let r := exec_depth 50 {| e_ftab := ftab_f; e_cfg := e_cfg (env_lim 500) |}
                       (mach [I OpPushFunc (OFn 0%N); I OpInvoke (OInt 0)] w_start) in
   (is_budget (fst r), snd r) = (true, 4%nat)).
Proof. vm_compute. repeat split; reflexivity. Qed.

(* the state after `x = &x` (no limit), with the counter put back to c *)
Definition w_x (c : Z) : world :=
  match exec 10 (env_rec 0) (mach [I OpPushComputed (OFn 0%N); I OpStore (OStr "x")] w_start) with
  | Fin m' => w_set_self_ops (m_w m') c
  | _ => w_start
  end.

(* (L - c0) / 101 is attained (C07_call_depth_exact is tight): limit 202, counter 0, code `x`: sub-VMs start at
   101 and 202; under limit 201 the second one is refused *)
Example C07_call_depth_tight :
  let m := mach [I OpLd (OStr "x")] (w_x 0) in
  chain_in_budget 201 (m_w m) /\ chain_in_budget 202 (m_w m) /\
  snd (exec_depth 50 (env_rec 202) m) = 2%nat /\ 202 / 101 = 2 /\
  snd (exec_depth 50 (env_rec 201) m) = 1%nat /\ 201 / 101 = 1.
Proof.
  split; [apply chain_in_budgetb_ok; vm_compute; reflexivity|].
  split; [apply chain_in_budgetb_ok; vm_compute; reflexivity|vm_compute; repeat split; reflexivity].
Qed.

(* the "+ 1" of C07_call_depth_bounded is attained on a chain that is int64 but not within the budget: a calling
   context whose counter is MaxInt64 holds x; under limit 50 (50 / 101 = 0) the evaluation of x for that context
   starts a sub-VM on the wrapped counter MinInt64 + 99; it fails at once *)
Definition w_up (c up : Z) : world :=
  let w := w_x c in
  let '(id, h) := alloc_map [] (w_heap w) in
  {| w_heap := h; w_pcg := w_pcg w; w_st := [];
     w_chain := [{| c_attrs := id; c_ops := c |}; {| c_attrs := c_attrs (w_self w); c_ops := up |}] |}.
Example C07_call_depth_wrapped_level :
  let m := mach [I OpLd (OStr "x")] (w_up 0 MaxInt64) in
  chain_i64 (m_w m) /\ (let r := exec_depth 50 (env_rec 50) m in (is_budget (fst r), snd r) = (true, 1%nat)).
Proof. split; [apply chain_i64b_ok; vm_compute; reflexivity|vm_compute; reflexivity]. Qed.

(* the hypothesis chain_i64 is needed: a calling context with the non-int64 counter 2^64 - 93 makes the sub-VM
   start at 7 although the running context is at 990 of 1000: 10 levels instead of at most 10 / 101 + 1 = 1 *)
Example C07_call_depth_needs_int64_chain :
  let m := mach [I OpLd (OStr "x")] (w_up 990 (two64 - 93)) in
  run_pre m /\ snd (exec_depth 50 (env_rec 1000) m) = 10%nat /\ Z.max 0 ((1000 - ops_of (m_w m)) / 101) + 1 = 1.
Proof. split; [apply run_preb_ok; vm_compute; reflexivity|vm_compute; split; reflexivity]. Qed.

Print Assumptions exec_depth_fst.
Print Assumptions C07_call_depth_bounded.
Print Assumptions C07_call_depth_exact.
Print Assumptions C07_call_depth_bounded_100.
Print Assumptions C07_callee_start_counter.
Print Assumptions C07_run_call_depth.
