"""C11 — independent VMs are race-free and behave exactly as when run alone."""
import base64
import json
import os
import random
import subprocess

import common
import gen
from common import Broken

LEVEL = "proof"


def regenerate_globals():
    tool = os.path.join(common.BIN, "globalsscan")
    r = common.sh(["go", "build", "-o", tool, "."], cwd=os.path.join(common.VERIF, "tools", "globals"), env=common.GOENV)
    if r.returncode != 0:
        raise Broken("build of tools/globals failed", r.stdout[-2000:])
    out = os.path.join(common.COQ, "Gen", "Globals.v")
    tmp = out + f".{os.getpid()}.tmp"
    r = subprocess.run(["python3", os.path.join(common.VERIF, "tools", "gen_globals.py"), tool, tmp], capture_output=True, text=True,
                       env=dict(os.environ, VERIF_REPO=common.REPO))
    if r.returncode != 0:
        raise Broken("translator tools/gen_globals.py failed", r.stderr[-2000:])
    with common.Lock("coqmake"):
        new = open(tmp).read()
        old = open(out).read() if os.path.exists(out) else None
        if new != old:
            os.replace(tmp, out)
            common.log("[gen] Gen/Globals.v changed")
        else:
            os.unlink(tmp)
    return json.loads(r.stdout.strip().splitlines()[-1])


def c06_nested():
    import c06
    return c06.NESTED + ["&a = d1000; a", "&a = 2d1000; func g(){ a }; g()"]


_FOREIGN = "i = 0; n = 0; while i < x.len() { if x[i] == 'patched' || x[i] == 42 || x[i] == 0 { n = n + 1 }; i = i + 1 }; [x.len(), n]"
METHOD_PROGRAMS = ["x = dir([1,2,3]); " + _FOREIGN, "x = dir({}); " + _FOREIGN, "x = dir('s'); " + _FOREIGN, "d + 2d",   # (dir() order is Go map order: compare order-insensitively) "func g(u) { d + u }; g(1)", "&cv = 2d; cv",      # readers first ...
                   "x = dir([]); x[0] = 'patched'; x[1] = 42; x.len()", "dir([]).shuffle().len()", "y = dir({}); y[0] = 0; y.len()",          # ... then writers
                   "[3,1,2].kh(1+1)", "[3,1,2].kl(2-1)", "[1,2,3].sum()", "[1,2,3].len()", "{'a':1}.keys()", "{'a':1}.values()", "{'a':1}.items()",
                   "[1,2,3].rand()", "[1,2,3,4].shuffle()", "[1,2,3,4].randSize(1+1)", "x=[3,1,2]; m=x.kh; m(2)", "x=[5,6]; x.push(7); x.pop(); x.shift()",
                   "&cv = 1 + 1; &cv.compute()", "[[1,2].sum(), [3,4].sum(), [5].len()]", "x = [1,2,3]; [x.kh(), x.kl(), x.sum(), x.len()]",
                   "func g(u) { u.sum() }; g([1,2]) + g([3])"]


def make_jobs(rnd, n):
    jobs = []
    for i in range(n):
        k = rnd.randrange(10)
        if i < 2 * len(METHOD_PROGRAMS):
            k = -1      # every run starts with bound-method programs on all goroutines (a receiver is bound between attr.get and invoke)
        g = gen.G(rnd, max_depth=rnd.choice([1, 2]))
        if k < 0:
            src = METHOD_PROGRAMS[i % len(METHOD_PROGRAMS)].encode()
        elif k < 5:
            src = g.program().encode()
        elif k < 7:
            src = rnd.choice(c06_nested() + ["2d6+1", "3d20k2", "b2+p", "5a8", "3c8", "f", "[1,2,3].rand()", "[1,2,3,4].shuffle()", "2d6 + 3d4 * 2", "d", "x=2d6; x+1"]).encode()
        else:
            src = rnd.choice(["(1+2", "1 +", "[1,2", "'abc", "if", "break", "x = = 1", ".\n", "`{% %}`", "1 ? 2", "func (", ")", "", " ", "\n", "\t\n ",
                              "/", "%", "1 +\n\n", "\xff"]).encode("latin-1")
        jobs.append({"nodetail": b"dir(" in src, "b64": base64.b64encode(src).decode(), "flags": [rnd.random() < 0.7 for _ in range(4)] + [rnd.random() < 0.2 for _ in range(3)],
                     "lang": rnd.randrange(3), "hi": str(rnd.getrandbits(64)), "lo": str(rnd.getrandbits(64)), "seeded": rnd.random() < 0.85, "viaseed": rnd.random() < 0.5,
                     # the same default-sides text under different syntax flags (bit-wise operators on / off): compiled per VM
                     "defexpr": rnd.choice(["", "", "1024|3", "1024|3", "d4", "20", "8&12"])})
    # rejected inputs under each language (error values are per VM: rendered later they still speak their VM's language)
    for bad in ("", " ", "(1+2", "/", "1 +\n", "[1,"):
        for lang in (0, 1, 2):
            jobs.append({"nodetail": False, "b64": base64.b64encode(bad.encode()).decode(), "flags": [True] * 4 + [False] * 3, "lang": lang,
                         "hi": str(rnd.getrandbits(64)), "lo": str(rnd.getrandbits(64)), "seeded": True, "viaseed": False, "defexpr": ""})
    # the same default-sides text compiled under different syntax flags in different VMs (each VM compiles it for itself)
    # (max mode: a bare `d` is exactly the number of sides, 1024|3 = 1027 with bit-wise operators, 1024 when they are disabled and `|3` is left unread)
    for prog, k in (("d + 2d", 3), ("func g(u) { d + u }; g(0)", 1), ("&cv = 2d; cv", 2), ("d", 1)):
        for nobit in (True, False, True, False):
            jobs.append({"nodetail": False, "b64": base64.b64encode(prog.encode()).decode(), "flags": [True] * 4 + [nobit, False, False], "lang": 0,
                         "hi": str(rnd.getrandbits(64)), "lo": str(rnd.getrandbits(64)), "seeded": True, "viaseed": False, "defexpr": "1024|3",
                         "mode": 1, "expect": str(k * (1024 if nobit else 1027))})
    return jobs


def run(res, tier, seed):
    common.build_harness()
    rnd = random.Random(seed)
    stats = regenerate_globals()
    res.cov["translator"] = stats
    jobs = make_jobs(rnd, 120 if tier == "quick" else 400)
    stdin = "\n".join(json.dumps(j) for j in jobs) + "\n"
    g, rounds = (8, 2) if tier == "quick" else (16, 6)

    # plain build: result comparison under real concurrency
    rows, proc = common.run_harness(["c11", "-g", g, "-rounds", rounds], stdin=stdin, timeout=900, check=False)
    found = 0
    if proc.returncode != 0 or not rows:
        res.violation({"what": "concurrent run crashed", "stderr": proc.stderr[-3000:]})
        found += 1
        rows = [{"runs": 0, "diffs": []}]
    out = rows[0]
    for d in (out.get("diffs") or [])[:3]:
        j = jobs[d["job"]]
        res.violation({"what": "a VM run concurrently with other VMs returned something else than when run alone",
                       "source": base64.b64decode(j["b64"]).decode("utf-8", "replace"), "config": {k: j.get(k) for k in ("flags", "lang", "hi", "lo", "seeded", "viaseed", "defexpr")},
                       "got": d["got"], "want": d["want"], "goroutines": g})
        found += 1
    for d in (out.get("deferred") or [])[:3]:
        j = jobs[d["job"]]
        res.violation({"what": "an error value obtained from one VM changed its text after ANOTHER VM (configured with another language) parsed the same input",
                       "source": base64.b64decode(j["b64"]).decode("utf-8", "replace"), "lang": j["lang"], "other_vm_lang": d["otherLang"],
                       "got": d["got"], "want": d["want"]})
        found += 1
    # race detector build
    race_info = {"ran": False}
    try:
        common.build_harness(race=True)
        rrows, rproc = common.run_harness(["c11", "-g", g, "-rounds", 1 if tier == "quick" else 3], stdin=stdin, timeout=1500, race=True, check=False)
        race_info = {"ran": True, "exit": rproc.returncode, "reports": rproc.stderr.count("WARNING: DATA RACE")}
        if race_info["reports"]:
            first = rproc.stderr[rproc.stderr.find("WARNING: DATA RACE"):][:2500]
            res.violation({"what": "the Go race detector reports a data race between independent VMs", "first_report": first, "jobs": len(jobs), "goroutines": g})
            found += 1
    except Broken as b:
        race_info = {"ran": False, "why": b.what}
    for j in jobs:
        res.count(j["b64"] + str(j["flags"]) + str(j["lang"]) + j["hi"], nontrivial=j["seeded"])
    res.cov["rule"] = (f"{len(jobs)} jobs (generated programs, dice expressions of every family, array random methods, rejected inputs) each with its own VM, "
                       f"random syntax flags, one of the 3 error languages, 85% seeded; run by {g} goroutines concurrently ({out.get('runs', 0)} runs) and compared "
                       "with the same job run alone (value, error text incl. language, process text, final generator state); the same workload under "
                       "`go build -race`; distinct = distinct (source, config, seed); non-trivial = seeded jobs (compared exactly)")
    res.cov["input_distribution"] = {"jobs": len(jobs), "seeded": sum(1 for j in jobs if j["seeded"]), "concurrent_runs": out.get("runs", 0),
                                     "race_detector": race_info}
    res.sample({"source": base64.b64decode(jobs[0]["b64"]).decode("utf-8", "replace"), "lang": jobs[0]["lang"], "seeded": jobs[0]["seeded"]})
    res.cov["trusted_base"] += [
        "translator tools/globals (go/ast scan of the non-test, non-hook sources) + tools/gen_globals.py: footprint table Gen/Globals.v regenerated every run",
        "the schedule-independence theorem is about steps that are FUNCTIONS of (immutable shared state, own state); that the Go steps are such functions is "
        "what the footprint table supports (no unsynchronised writes of package state outside init) — values shared through builtin tables are only read",
        "data-race freedom in the sense of the Go memory model is evidence from `go build -race` runs, not a Coq theorem (partial: schedules are sampled)",
    ]
    res.assumptions += ["VMs that share no values: each job builds its own VM", "unseeded VMs share the package generator under a mutex: only race-freedom is claimed for them"]

    broken = None
    try:
        info = common.check_property_file("C11")
        res.proof(info, "tools/globals + tools/gen_globals.py (regenerate Gen/Globals.v); cd coq && make && coqc -Q . DS Properties/C11.v")
    except Broken as b:
        broken = b
    if broken and not found:
        # a failing obligation here means: some package-level variable is now written outside init without a lock.
        # Name it (from the regenerated table) and hammer harder with the race detector.
        detail = {"broken": broken.what, "detail": broken.detail}
        try:
            scan = json.loads(subprocess.run([os.path.join(common.BIN, "globalsscan"), common.REPO], capture_output=True, text=True).stdout)
            sus = [u for u in scan["uses"] if u["kind"] != "read" and not u["locked"] and u["func"] not in ("init", "<initializer>", "_init2")
                   and not (u["var"] == "parseErrorLanguage" and u["func"] == "SetParseErrorLanguage") and "Lock" not in u["var"]]
            detail["unsynchronised_writes"] = sus[:10]
            detail["rand_calls"] = scan.get("randCalls")
        except Exception:
            pass
        if race_info.get("ran"):
            rrows, rproc = common.run_harness(["c11", "-g", 16, "-rounds", 6], stdin=stdin, timeout=1500, race=True, check=False)
            if "WARNING: DATA RACE" in rproc.stderr:
                first = rproc.stderr[rproc.stderr.find("WARNING: DATA RACE"):][:2500]
                res.violation(dict(detail, what="data race between independent VMs (enlarged run)", first_report=first))
                found += 1
            elif rrows and rrows[0].get("diffs"):
                d = rrows[0]["diffs"][0]
                res.violation(dict(detail, what="result differs under concurrency (enlarged run)", got=d["got"], want=d["want"],
                                   source=base64.b64decode(jobs[d["job"]]["b64"]).decode("utf-8", "replace")))
                found += 1
        if not found:
            res.violation(detail, no_input=True)


def replay(path):
    p = json.load(open(path))
    print(json.dumps(p, indent=1, ensure_ascii=False))
    return 0
