#!/usr/bin/env python3
"""Rewrite DESIGN.md §11 from seeded/*/meta.json (authoring helper; not used by any check)."""
import glob
import json
import os
import re

ROOT = os.path.dirname(os.path.dirname(os.path.abspath(__file__)))
rows = []
for d in sorted(glob.glob(os.path.join(ROOT, "seeded", "*"))):
    m = json.load(open(os.path.join(d, "meta.json")))
    sid = os.path.basename(d)
    summ = re.sub(r"\s+", " ", m.get("summary", "")).replace("|", "\\|")
    if len(summ) > 330:
        summ = summ[:327] + "…"
    ver = []
    for c, v in sorted(m.get("checks_run_against_it", {}).items()):
        how = {"violation-with-replay": "VIOLATION with a concrete replay", "no-failing-input-found": "VIOLATION, `no-failing-input-found`",
               "missed": "**missed**"}[v["verdict"]]
        what = ""
        fr = v.get("first_replay") or {}
        w = fr.get("what") or fr.get("broken") or ""
        if w:
            what = " — " + re.sub(r"\s+", " ", str(w))[:140].replace("|", "\\|")
        ver.append(f"`{c}`: {how}{what}")
    note = m.get("note_after_strengthening", "")
    rows.append(f"| {sid} | {', '.join(m.get('files', []))} | {summ} | {'<br>'.join(ver)}{('<br>' + note) if note else ''} |")

head = ("## 11. Seeded changes and which checks catch them\n\n"
        "Each change was produced by an independent sub-agent that saw only the property's text and a scratch worktree, and was\n"
        "confirmed by me in a scratch worktree (applies, compiles, the unedited suite passes, its demonstration passes without and\n"
        "fails with the change) before it was stored under `seeded/<id>/` (`patch.diff`, `demo_test.go`, `meta.json`). The verdicts\n"
        "below are from `./check <Cnn> --tier quick` with the patch applied to `/repo`'s working tree (then undone); they are the\n"
        "verdicts of the machinery as committed (re-run after every strengthening with `tools/seedrun.py`).\n\n"
        "| change | files | what it does | verdict of the checks |\n|---|---|---|---|\n")
p = os.path.join(ROOT, "DESIGN.md")
s = open(p).read()
i = s.index("## 11. Seeded changes and which checks catch them")
m2 = re.search(r"\n## 11\.1 ", s[i:])
tail = s[i + m2.start():] if m2 else ""
s = s[:i] + head + "\n".join(rows) + "\n" + tail
open(p, "w").write(s)
print(len(rows), "rows")
