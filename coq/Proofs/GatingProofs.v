(* Soundness of the static flag-gating analysis Model/Gating.v with respect to the
   packrat interpreter Model/Peg.pe:  when `gated` holds, the flag has its blocking value
   and the input does not contain the enabling literal, no opcode of X is ever emitted and
   the flag keeps its blocking value. *)
From Coq Require Import NArith List Bool Lia FMapPositive ZifyBool PeanoNat.
From DS Require Import Model.Peg Model.Gating.
Import ListNotations.
Open Scope N_scope.

(* ---------- generic list / map facts ------------------------------------------ *)
Lemma succ_pos_inj : forall a b, N.succ_pos a = N.succ_pos b -> a = b.
Proof.
  intros a b H. apply N.succ_inj. rewrite <- !N.succ_pos_spec. now rewrite H.
Qed.

Lemma mkey_inj : forall pos id pos' id',
  mkey pos id = mkey pos' id' -> id < NODES -> id' < NODES -> pos = pos' /\ id = id'.
Proof.
  unfold mkey, NODES. intros pos id pos' id' H H1 H2. apply succ_pos_inj in H. lia.
Qed.

Lemma nth_error_skipn : forall (A : Type) (l : list A) k c,
  nth_error l k = Some c -> skipn k l = c :: skipn (S k) l.
Proof.
  induction l as [|x l IH]; intros [|k] c H; simpl in *; try discriminate.
  - now inversion H.
  - now apply IH.
Qed.

Lemma list_eqb_eq : forall a b, list_eqb a b = true -> a = b.
Proof.
  induction a as [|x a IH]; intros [|y b] H; simpl in *; try discriminate; auto.
  destruct (x =? y) eqn:E; try discriminate. apply N.eqb_eq in E. subst. f_equal. auto.
Qed.

Lemma occurs_prefix : forall v bytes, v <> [] -> occurs v bytes = false ->
  forall k, prefix_eqb v (skipn k bytes) = false.
Proof.
  intros v bytes Hv. induction bytes as [|b q IH]; intros H k.
  - destruct k; simpl; (destruct v; [exfalso; now apply Hv | reflexivity]).
  - cbn [occurs] in H. destruct (prefix_eqb v (b :: q)) eqn:E; try discriminate.
    destruct k as [|k]; [exact E|]. simpl. now apply IH.
Qed.

Lemma setf_nth : forall c n m b,
  nth m (setf c n b) false = nth m c false \/ (n = m /\ nth m (setf c n b) false = b).
Proof.
  induction c as [|x c IH]; intros n m b.
  - left. destruct n; reflexivity.
  - destruct n as [|n], m as [|m]; simpl; auto.
    destruct (IH n m b) as [H|[H1 H2]]; auto.
Qed.

Lemma mk_input_find : forall l i m o,
  PositiveMap.find (N.succ_pos o) (mk_input l i m) =
  if o <? i then PositiveMap.find (N.succ_pos o) m
  else match nth_error l (N.to_nat (o - i)) with
       | Some b => Some b
       | None => PositiveMap.find (N.succ_pos o) m
       end.
Proof.
  induction l as [|b r IH]; intros i m o.
  - simpl. destruct (o <? i); auto. destruct (N.to_nat (o - i)); reflexivity.
  - simpl mk_input. rewrite IH.
    destruct (o <? i) eqn:E1.
    + replace (o <? i + 1) with true by lia.
      rewrite PositiveMap.gso; auto. intro H. apply succ_pos_inj in H. lia.
    + destruct (o <? i + 1) eqn:E2.
      * assert (o = i) by lia. subst o. rewrite PositiveMap.gss.
        replace (i - i) with 0 by lia. reflexivity.
      * replace (N.to_nat (o - i)) with (S (N.to_nat (o - (i + 1)))) by lia.
        simpl nth_error. destruct (nth_error r (N.to_nat (o - (i + 1)))); auto.
        rewrite PositiveMap.gso; auto. intro H. apply succ_pos_inj in H. lia.
Qed.

Lemma byte_at_nth : forall bytes o b,
  byte_at (mk_input bytes 0 (PositiveMap.empty _)) (N.of_nat (length bytes)) o = Some b ->
  nth_error bytes (N.to_nat o) = Some b.
Proof.
  intros bytes o b. unfold byte_at. destruct (o <? N.of_nat (length bytes)); try discriminate.
  rewrite mk_input_find. replace (o <? 0) with false by lia.
  replace (o - 0) with o by lia.
  destruct (nth_error bytes (N.to_nat o)); auto. rewrite PositiveMap.gempty. discriminate.
Qed.

Lemma decode_ascii : forall input ilen o r n,
  decode input ilen o = (r, n) -> r < 128 -> byte_at input ilen o = Some r /\ n = 1.
Proof.
  intros input ilen o r n. unfold decode, cont, RuneError.
  destruct (byte_at input ilen o) as [b0|]; [|intros H; inversion H; lia].
  destruct (b0 <? 128) eqn:E0; [intros H; inversion H; auto|].
  destruct (b0 <? 194) eqn:E1; [intros H; inversion H; lia|].
  destruct (b0 <? 224) eqn:E2.
  { destruct (byte_at input ilen (o + 1)) as [b1|]; [|intros H; inversion H; lia].
    destruct ((128 <=? b1) && (b1 <=? 191)) eqn:E; intros H; inversion H; lia. }
  destruct (b0 <? 240) eqn:E3.
  { destruct (byte_at input ilen (o + 1)) as [b1|]; [|intros H; inversion H; lia].
    destruct (byte_at input ilen (o + 2)) as [b2|]; [|intros H; inversion H; lia].
    cbv zeta.
    destruct (b0 =? 224) eqn:Ea; destruct (b0 =? 237) eqn:Eb;
    match goal with |- (if ?c then _ else _) = _ -> _ => destruct c eqn:E end;
    intros H; inversion H; lia. }
  destruct (b0 <? 245) eqn:E4.
  { destruct (byte_at input ilen (o + 1)) as [b1|]; [|intros H; inversion H; lia].
    destruct (byte_at input ilen (o + 2)) as [b2|]; [|intros H; inversion H; lia].
    destruct (byte_at input ilen (o + 3)) as [b3|]; [|intros H; inversion H; lia].
    cbv zeta.
    destruct (b0 =? 240) eqn:Ea; destruct (b0 =? 244) eqn:Eb;
    match goal with |- (if ?c then _ else _) = _ -> _ => destruct c eqn:E end;
    intros H; inversion H; lia. }
  intros H; inversion H; lia.
Qed.

(* ---------- every PRef points to an existing rule (boolean check) ------------- *)
Fixpoint refs_ok (n : N) (e : pexpr) : bool :=
  match e with
  | PRef _ r => r <? n
  | PAction _ _ e1 | PLabel _ _ _ e1 | PAnd _ e1 | PNot _ e1 | PAndL _ e1 | PNotL _ e1
  | POpt _ e1 | PStar _ e1 | PPlus _ e1 => refs_ok n e1
  | PSeq _ es | PChoice _ es =>
    (fix all (l : list pexpr) : bool := match l with [] => true | x :: r => refs_ok n x && all r end) es
  | _ => true
  end.
(* the start rule exists and every PRef is in range *)
Definition refs_ok_rules (rules : list pexpr) : bool :=
  match rules with [] => false | _ => forallb (refs_ok (N.of_nat (length rules))) rules end.
(* an out-of-range PRef r is interpreted as PAny 0: harmless when node id 0 is not a
   must-fail id; otherwise all references must be in range *)
Definition default_ok (gids : list N) (rules : list pexpr) : bool :=
  negb (mem_N 0 gids) || refs_ok_rules rules.

(* ---------- one unfolding of the interpreter ---------------------------------- *)
Section Body.
  Variable input : PositiveMap.t N.
  Variable ilen : N.
  Variable cmatch : N -> option N.
  Variable rules : list pexpr.
  Variable classes : list (list (N * N * N)).
  Variable acts : list (list aeff).
  Variable preds : list psum.
  Variable P : pexpr -> pst -> bool * pst.

  Definition seq_go (start : pt) :=
    fix go (l : list pexpr) (st : pst) : bool * pst :=
      match l with
      | [] => (true, st)
      | x :: r => let '(ok, st1) := P x st in
                  if ok then go r st1 else (false, restore st1 start)
      end.
  Definition choice_go :=
    fix go (l : list pexpr) (st : pst) : bool * pst :=
      match l with
      | [] => (false, st)
      | x :: r => let '(ok, st1) := P x st in
                  if ok then (true, st1) else go r st1
      end.
  Definition star_loop (e1 : pexpr) :=
    fix loop (k : nat) (st : pst) : bool * pst :=
      match k with
      | O => (true, set_fuelout st)
      | S k => let '(ok, st1) := P e1 st in if ok then loop k st1 else (true, st1)
      end.

  Definition step (fuel : nat) (e : pexpr) (s : pst) : bool * pst :=
    match e with
    | PAction _ fn e1 =>
      if skip s then P e1 s
      else
        let '(ok, s1) := P e1 s in
        if ok then (true, run_action input ilen cmatch acts fn s1) else (false, s1)
    | PSeq _ es => seq_go (cur s) es s
    | PChoice _ es => choice_go es s
    | PLabel _ lab _ e1 =>
      let so := off (cur s) in
      let '(ok, s1) := P e1 s in
      if ok then
        if skip s1 then (true, s1)
        else if lab =? 1 then (true, upd_caps s1 (so, off (cur s1)) (cap_on s1))
        else if lab =? 2 then (true, upd_caps s1 (cap_id s1) (so, off (cur s1)))
        else (true, s1)
      else (false, s1)
    | PAnd _ e1 =>
      let start := cur s in let sk := skip s in
      let '(ok, s1) := P e1 (upd_skip s true) in
      (ok, restore (upd_skip s1 sk) start)
    | PAndL _ e1 =>
      let start := cur s in let sk := skip s in
      let '(ok, s1) := P e1 (upd_skip s true) in
      ((if ok then negb (off (cur s1) =? off start) else false), restore (upd_skip s1 sk) start)
    | PNot _ e1 =>
      let start := cur s in let sk := skip s in
      let '(ok, s1) := P e1 (upd_inv (upd_skip s true) (negb (inv s))) in
      (negb ok, restore (upd_inv (upd_skip s1 sk) (inv s)) start)
    | PNotL _ e1 =>
      let start := cur s in let sk := skip s in
      let '(ok, s1) := P e1 (upd_inv (upd_skip s true) (negb (inv s))) in
      ((if ok then false else negb (off (cur s1) =? off start)), restore (upd_inv (upd_skip s1 sk) (inv s)) start)
    | POpt _ e1 => let '(_, s1) := P e1 s in (true, s1)
    | PStar _ e1 => star_loop e1 fuel s
    | PPlus _ e1 =>
      let '(ok, s1) := P e1 s in
      if ok then star_loop e1 fuel s1 else (false, s1)
    | PRef _ r => P (nth (N.to_nat r) rules (PAny 0)) s
    | PAndCode _ fn => run_pred input ilen cmatch preds fn s
    | PNotCode _ fn => let '(b, s1) := run_pred input ilen cmatch preds fn s in (negb b, s1)
    | PCode _ fn ns => if (if ns then false else skip s) then (true, s) else (true, run_action input ilen cmatch acts fn s)
    | PLit _ v ic =>
      let start := cur s in
      let '(ok, s1) := match_lit input ilen v ic s in
      if ok then (true, fail_at true start s1)
      else (false, restore (fail_at false start s1) start)
    | PClass _ chars ranges cls ic inv_ =>
      let p := cur s in
      if at_eof p then (false, fail_at false p s) else
      let r := if ic then to_lower (rn p) else rn p in
      let hit := if mem_N r chars then true else if in_ranges r ranges then true else in_any_class classes r cls in
      if xorb hit inv_ then (true, read input ilen (fail_at true p s)) else (false, fail_at false p s)
    | PAny _ =>
      let p := cur s in
      if at_eof p then (false, fail_at false p s) else (true, read input ilen (fail_at true p s))
    end.

  Definition pe_body (fuel : nat) (e : pexpr) (s0 : pst) : bool * pst :=
    let s := tick s0 in
    let id := node_id e in
    match memo_get s id with
    | Some (b, p) => (b, restore s p)
    | None =>
      let pos := off (cur s) in
      let '(ok, s1) := step fuel e s in
      (ok, memo_put s1 pos id (ok, cur s1))
    end.
End Body.

Lemma pe_S : forall input ilen cmatch rules classes acts preds fuel e s0,
  pe input ilen cmatch rules classes acts preds (S fuel) e s0 =
  pe_body input ilen cmatch rules classes acts preds (pe input ilen cmatch rules classes acts preds fuel) fuel e s0.
Proof. reflexivity. Qed.

(* ============================================================================== *)
Section Soundness.
  Variable cmatch : N -> option N.    (* arbitrary registered custom dice parsers *)
  Variable rules : list pexpr.
  Variable classes : list (list (N * N * N)).
  Variable acts : list (list aeff).
  Variable preds : list psum.
  Variable f : N.
  Variable bv : bool.
  Variables X mlit gids U : list N.
  Variable bytes : list N.

  Local Notation input := (mk_input bytes 0 (PositiveMap.empty N)).
  Local Notation ilen := (N.of_nat (length bytes)).
  Local Notation MF := (must_fail preds f bv mlit).
  Local Notation GUARD := (is_guard preds f bv mlit).
  Local Notation IDOK := (id_ok preds f bv mlit gids).
  Local Notation SAFE := (safe acts preds f bv X mlit gids U).
  Local Notation FNBAD := (fn_bad acts f bv X).
  Local Notation PE := (pe input ilen cmatch rules classes acts preds).
  Local Notation READ := (read input ilen).
  Local Notation DEC := (decode input ilen).
  Local Notation nrules := (N.of_nat (length rules)).

  (* ---------- the invariant --------------------------------------------------- *)
  Definition cons_pt (p : pt) : Prop := (rn p, w p) = DEC (off p).

  Definition MemoOK (m : PositiveMap.t (bool * pt)) : Prop :=
    (forall pos id b p, id < NODES -> mem_N id gids = true ->
       PositiveMap.find (mkey pos id) m = Some (b, p) -> b = false) /\
    (forall k b p, PositiveMap.find k m = Some (b, p) -> cons_pt p).

  Definition DI (cf : flags) (fs : list flags) (em : list N) : Prop :=
    getf cf f = bv /\
    Forall (fun c => getf c f = bv) fs /\
    (forall op, In op em -> mem_N op X = false).

  Record InvC (c : pt) (m1 m2 : PositiveMap.t (bool * pt)) (cf : flags) (fs : list flags) (em : list N) : Prop := {
    I_data : DI cf fs em;
    I_memo1 : MemoOK m1;
    I_memo2 : MemoOK m2;
    I_cur : cons_pt c }.

  Definition Inv (s : pst) : Prop :=
    InvC (cur s) (memo1 s) (memo2 s) (cfg s) (fstack s) (emitted s).

  (* the invariant spelled out *)
  Lemma Inv_spec : forall s, Inv s <->
    ( getf (cfg s) f = bv
    /\ Forall (fun c => getf c f = bv) (fstack s)
    /\ (forall op, In op (emitted s) -> mem_N op X = false)
    /\ (forall m, m = memo1 s \/ m = memo2 s ->
          forall pos id b p, id < NODES -> mem_N id gids = true ->
            PositiveMap.find (mkey pos id) m = Some (b, p) -> b = false)
    /\ ((rn (cur s), w (cur s)) = DEC (off (cur s))
        /\ forall m, m = memo1 s \/ m = memo2 s ->
             forall k b p, PositiveMap.find k m = Some (b, p) -> (rn p, w p) = DEC (off p))).
  Proof.
    intros s. split.
    - intros [(H1 & H2 & H3) [A1 A2] [B1 B2] Hc]. repeat split; auto.
      + intros m [E|E]; subst; auto.
      + intros m [E|E]; subst; eauto.
    - intros (H1 & H2 & H3 & H4 & H5 & H6). constructor.
      + repeat split; auto.
      + split; [apply H4|apply H6]; auto.
      + split; [apply H4|apply H6]; auto.
      + exact H5.
  Qed.

  (* ---------- updaters --------------------------------------------------------- *)
  Lemma Inv_tick : forall s, Inv s -> Inv (tick s).
  Proof. intros s H; exact H. Qed.
  Lemma Inv_upd_skip : forall s b, Inv s -> Inv (upd_skip s b).
  Proof. intros s b H; exact H. Qed.
  Lemma Inv_upd_inv : forall s b, Inv s -> Inv (upd_inv s b).
  Proof. intros s b H; exact H. Qed.
  Lemma Inv_upd_mf : forall s m, Inv s -> Inv (upd_mf s m).
  Proof. intros s m H; exact H. Qed.
  Lemma Inv_add_err : forall s, Inv s -> Inv (add_err s).
  Proof. intros s H; exact H. Qed.
  Lemma Inv_upd_caps : forall s a b, Inv s -> Inv (upd_caps s a b).
  Proof. intros s a b H; exact H. Qed.
  Lemma Inv_set_fuelout : forall s, Inv s -> Inv (set_fuelout s).
  Proof. intros s H; exact H. Qed.

  Lemma Inv_upd_cur : forall s p, Inv s -> cons_pt p -> Inv (upd_cur s p).
  Proof. intros s p [H1 H2 H3 H4] Hp. constructor; assumption. Qed.

  Lemma Inv_restore : forall s p, Inv s -> cons_pt p -> Inv (restore s p).
  Proof.
    intros s p H Hp. unfold restore. destruct (off p =? off (cur s)); auto using Inv_upd_cur.
  Qed.

  Lemma Inv_fail_at : forall m p s, Inv s -> Inv (fail_at m p s).
  Proof.
    intros m p s H. unfold fail_at. destruct (Bool.eqb m (inv s)); auto.
    destruct (mf s) as [[mo l] c]. destruct (mo <? off p); auto using Inv_upd_mf.
  Qed.

  Lemma read_cons : forall s, cons_pt (cur (READ s)).
  Proof.
    intros s. unfold read. cbv zeta.
    destruct (DEC (off (cur s) + w (cur s))) as [r n] eqn:E.
    destruct ((r =? RuneError) && (n =? 1)); destruct (r =? 10); unfold cons_pt; simpl; auto.
  Qed.

  Lemma read_off : forall s, off (cur (READ s)) = off (cur s) + w (cur s).
  Proof.
    intros s. unfold read. cbv zeta.
    destruct (DEC (off (cur s) + w (cur s))) as [r n] eqn:E.
    destruct ((r =? RuneError) && (n =? 1)); destruct (r =? 10); reflexivity.
  Qed.

  Lemma Inv_read_gen : forall s,
    DI (cfg s) (fstack s) (emitted s) -> MemoOK (memo1 s) -> MemoOK (memo2 s) -> Inv (READ s).
  Proof.
    intros s H1 H2 H3. pose proof (read_cons s) as Hc. revert Hc. unfold read. cbv zeta.
    destruct (DEC (off (cur s) + w (cur s))) as [r n].
    destruct ((r =? RuneError) && (n =? 1)); intros Hc; constructor; assumption.
  Qed.

  Lemma Inv_read : forall s, Inv s -> Inv (READ s).
  Proof. intros s [H1 H2 H3 H4]. apply Inv_read_gen; assumption. Qed.

  Lemma MemoOK_add : forall m pos id b p,
    MemoOK m -> id < NODES -> (mem_N id gids = true -> b = false) -> cons_pt p ->
    MemoOK (PositiveMap.add (mkey pos id) (b, p) m).
  Proof.
    intros m pos id b p [H1 H2] Hid Hb Hp. split.
    - intros pos' id' b' p' Hlt Hg Hf.
      destruct (Pos.eq_dec (mkey pos' id') (mkey pos id)) as [E|E].
      + rewrite E, PositiveMap.gss in Hf. inversion Hf; subst.
        apply mkey_inj in E; auto. destruct E; subst. auto.
      + rewrite PositiveMap.gso in Hf; eauto.
    - intros k b' p' Hf. destruct (Pos.eq_dec k (mkey pos id)) as [E|E].
      + subst. rewrite PositiveMap.gss in Hf. inversion Hf; subst; auto.
      + rewrite PositiveMap.gso in Hf; eauto.
  Qed.

  Lemma Inv_memo_put : forall s pos id b p,
    Inv s -> id < NODES -> (mem_N id gids = true -> b = false) -> cons_pt p ->
    Inv (memo_put s pos id (b, p)).
  Proof.
    intros s pos id b p [H1 H2 H3 H4] Hid Hb Hp. unfold memo_put.
    destruct (skip s); constructor; try assumption; apply MemoOK_add; assumption.
  Qed.

  Definition DInv (d : pdata) : Prop := DI (d_cfg d) (d_fstack d) (d_emitted d).

  Lemma Inv_put_data : forall s d, Inv s -> DInv d -> Inv (put_data s d).
  Proof. intros s d [H1 H2 H3 H4] Hd. constructor; assumption. Qed.

  Lemma DInv_get_data : forall s, Inv s -> DInv (get_data s).
  Proof. intros s [H1 H2 H3 H4]. exact H1. Qed.

  (* ---------- (a) actions without bad effects keep the data part -------------- *)
  Lemma getf_setf_ok : forall c n b,
    getf c f = bv -> (n = N.to_nat f -> b = bv) -> getf (setf c n b) f = bv.
  Proof.
    intros c n b H Hn. unfold getf in *.
    destruct (setf_nth c n (N.to_nat f) b) as [E|[E1 E2]]; [rewrite E; auto|rewrite E2; auto].
  Qed.

  Lemma run_effs_ok : forall fuel cid con co l d,
    existsb (eff_bad f bv X) l = false -> DInv d ->
    DInv (run_effs input ilen fuel cid con co l d).
  Proof.
    induction fuel as [|fuel IH]; intros cid con co l d Hl Hd; [exact Hd|].
    destruct l as [|a rest]; [exact Hd|].
    cbn [existsb] in Hl. apply orb_false_iff in Hl. destruct Hl as [Ha Hr].
    destruct Hd as (H1 & H2 & H3).
    destruct a; cbn [eff_bad] in Ha; cbn [run_effs];
      try (apply IH; [assumption | repeat split; assumption]);
      try (repeat match goal with |- DInv (match ?x with _ => _ end) => destruct x end;
           try (apply IH; [assumption|]); repeat split; assumption).
    - (* AEmit *) apply IH; auto. repeat split; auto. intros op' [E|Hin]; subst; auto.
    - (* ASetFlag *) apply IH; auto. repeat split; auto. cbn.
      apply getf_setf_ok; auto. intros E. assert (f0 = f) by lia. subst f0.
      rewrite N.eqb_refl in Ha. simpl in Ha. apply negb_false_iff in Ha. now apply eqb_prop in Ha.
    - (* AFlagsSwitch *) apply IH; auto. repeat split; auto. cbn.
      repeat match goal with |- context [span_eq ?a ?b ?c ?d] => destruct (span_eq a b c d) end;
        auto; apply getf_setf_ok; auto; intros; lia.
    - (* AFlagsPush *) apply IH; auto. repeat split; auto. cbn. constructor; auto.
    - (* AFlagsPop *) destruct (d_fstack d) as [|c r] eqn:E; [repeat split; cbn; try rewrite E; auto|].
      inversion H2; subst. apply IH; auto. repeat split; auto.
    - (* AIfLoop0 *) apply orb_false_iff in Ha. destruct Ha as [Ht He].
      destruct (d_loop d =? 0); apply IH; try (repeat split; assumption);
        rewrite existsb_app, ?Ht, ?He, Hr; reflexivity.
  Qed.

  (* ConsumeCustomDice only moves the current point, through `read` *)
  Lemma Inv_read_until : forall k target s, Inv s -> Inv (read_until input ilen k target s).
  Proof.
    induction k as [|k IH]; intros target s H; cbn [read_until]; auto.
    destruct (off (cur s) <? target); auto using Inv_read.
  Qed.

  Lemma Inv_custom_consume : forall s, Inv s -> Inv (custom_consume input ilen cmatch s).
  Proof.
    intros s H. unfold custom_consume. destruct (cmatch (off (cur s))) as [len|]; auto.
    destruct (0 <? len); auto using Inv_read_until.
  Qed.

  Lemma Inv_run_action : forall fn s,
    Inv s -> FNBAD fn = false -> Inv (run_action input ilen cmatch acts fn s).
  Proof.
    intros fn s H Hb. unfold run_action. cbv zeta.
    assert (Hp : Inv (put_data s (run_effs input ilen 4096 (cap_id s) (cap_on s) (off (cur s))
                        (nth (N.to_nat fn) acts [AUnknown]) (get_data s)))).
    { apply Inv_put_data; auto. apply run_effs_ok; auto using DInv_get_data. }
    destruct (has_consume (nth (N.to_nat fn) acts [AUnknown])); auto using Inv_custom_consume.
  Qed.

  (* ---------- (b) predicates ------------------------------------------------------ *)
  Lemma Inv_run_pred : forall fn s b s',
    Inv s -> run_pred input ilen cmatch preds fn s = (b, s') -> Inv s'.
  Proof.
    intros fn s b s' H. unfold run_pred.
    destruct (nth (N.to_nat fn) preds PUnknownP) as [f' v|b' err| |]; intros E.
    - inversion E; subst; auto.
    - inversion E; subst. destruct err; auto using Inv_add_err.
    - (* PCustomP: in skip mode the helper advances over the matched text *)
      destruct (cmatch (off (cur s))) as [len|] eqn:Ec; [|inversion E; subst; auto].
      destruct (0 <? len); inversion E; subst; auto.
      destruct (skip s); auto using Inv_custom_consume.
    - inversion E; subst; auto.
  Qed.

  Lemma guard_and_fails : forall i fn s b s',
    GUARD (PAndCode i fn) = true -> Inv s -> run_pred input ilen cmatch preds fn s = (b, s') -> b = false.
  Proof.
    intros i fn s b s' Hg [(H1 & _) _ _ _]. unfold run_pred. cbn [is_guard] in Hg.
    destruct (nth (N.to_nat fn) preds PUnknownP) as [f' v|b' err| |]; try discriminate.
    intros E. injection E as Eb Es. rewrite <- Eb.
    apply andb_true_iff in Hg. destruct Hg as [Hf Hv].
    assert (Ef : f' = f) by lia. rewrite Ef, H1.
    revert Hv. generalize bv. intros [|]; destruct v; simpl; auto.
  Qed.

  Lemma guard_not_fails : forall i fn s b s',
    GUARD (PNotCode i fn) = true -> Inv s -> run_pred input ilen cmatch preds fn s = (b, s') -> negb b = false.
  Proof.
    intros i fn s b s' Hg [(H1 & _) _ _ _]. unfold run_pred. cbn [is_guard] in Hg.
    destruct (nth (N.to_nat fn) preds PUnknownP) as [f' v|b' err| |]; try discriminate.
    intros E. injection E as Eb Es. rewrite <- Eb.
    apply andb_true_iff in Hg. destruct Hg as [Hf Hv].
    assert (Ef : f' = f) by lia. rewrite Ef, H1.
    revert Hv. generalize bv. intros [|]; destruct v; simpl; auto.
  Qed.

  (* ---------- (c) the absent literal ---------------------------------------------- *)
  Lemma Inv_match_lit : forall l ic s ok s',
    Inv s -> match_lit input ilen l ic s = (ok, s') -> Inv s'.
  Proof.
    induction l as [|c r IH]; intros ic s ok s' H E; cbn [match_lit] in E.
    - inversion E; subst; auto.
    - destruct ((if ic then to_lower (rn (cur s)) else rn (cur s)) =? c).
      + eapply IH; [|exact E]. now apply Inv_read.
      + inversion E; subst; auto.
  Qed.

  Lemma match_lit_prefix : forall v s s',
    Forall (fun c => c < 128) v -> cons_pt (cur s) ->
    match_lit input ilen v false s = (true, s') ->
    prefix_eqb v (skipn (N.to_nat (off (cur s))) bytes) = true.
  Proof.
    induction v as [|c r IH]; intros s s' Hv Hc E; [reflexivity|].
    cbn [match_lit] in E. inversion Hv as [|? ? Hc128 Hr]; subst.
    destruct (rn (cur s) =? c) eqn:Ec; [|discriminate]. apply N.eqb_eq in Ec.
    unfold cons_pt in Hc. symmetry in Hc. rewrite Ec in Hc.
    apply decode_ascii in Hc; auto. destruct Hc as [Hb Hw].
    apply byte_at_nth in Hb. rewrite (nth_error_skipn _ _ _ _ Hb).
    cbn [prefix_eqb]. rewrite N.eqb_refl.
    specialize (IH (READ s) s' Hr (read_cons s) E).
    rewrite read_off, Hw in IH.
    replace (N.to_nat (off (cur s) + 1)) with (S (N.to_nat (off (cur s)))) in IH by lia.
    exact IH.
  Qed.

  Hypothesis Hlit : mlit = [] \/ occurs mlit bytes = false.
  Hypothesis Hascii : Forall (fun c => c < 128) mlit.

  Lemma guard_lit_fails : forall i v ic s ok s',
    GUARD (PLit i v ic) = true -> Inv s -> match_lit input ilen v ic s = (ok, s') -> ok = false.
  Proof.
    intros i v ic s ok s' Hg H E.
    assert (Hx : mlit <> [] /\ (negb ic && list_eqb v mlit) = true).
    { revert Hg. cbn [is_guard]. destruct mlit; [discriminate|].
      intros Hg; split; [discriminate|exact Hg]. }
    destruct Hx as [Hne Hx]. apply andb_true_iff in Hx. destruct Hx as [Hic Hv].
    apply list_eqb_eq in Hv. destruct ic; [discriminate|]. rewrite Hv in E.
    destruct ok; auto. exfalso.
    apply match_lit_prefix in E; auto; [|apply H].
    destruct Hlit as [Hl|Hl]; [contradiction|].
    rewrite occurs_prefix in E; auto; discriminate.
  Qed.


  (* ---------- unfolding the static analysis ----------------------------------------- *)
  Fixpoint any_mf (l : list pexpr) : bool :=
    match l with [] => false | x :: r => MF x || any_mf r end.
  Fixpoint all_mf (l : list pexpr) : bool :=
    match l with [] => true | x :: r => MF x && all_mf r end.
  Definition mf_rest (e : pexpr) : bool :=
    match e with
    | PSeq _ es => any_mf es
    | PChoice _ es => all_mf es
    | PAction _ _ e1 | PLabel _ _ _ e1 | PPlus _ e1 => MF e1
    | _ => false
    end.
  Lemma mf_unf : forall e, MF e = GUARD e || mf_rest e.
  Proof. destruct e; try reflexivity. destruct es; reflexivity. Qed.

  Fixpoint safe_seq (l : list pexpr) : bool :=
    match l with [] => true | x :: r => SAFE x && (MF x || safe_seq r) end.
  Fixpoint safe_all (l : list pexpr) : bool :=
    match l with [] => true | x :: r => SAFE x && safe_all r end.
  Definition safe_rest (e : pexpr) : bool :=
    match e with
    | PAction _ fn e1 => SAFE e1 && (MF e1 || negb (FNBAD fn))
    | PCode _ fn _ => negb (FNBAD fn)
    | PSeq _ es => safe_seq es
    | PChoice _ es => safe_all es
    | PLabel _ _ _ e1 | PAnd _ e1 | PNot _ e1 | PAndL _ e1 | PNotL _ e1 | POpt _ e1 | PStar _ e1 | PPlus _ e1 => SAFE e1
    | PRef _ r => negb (mem_N r U)
    | PAndCode _ _ | PNotCode _ _ | PLit _ _ _ | PClass _ _ _ _ _ _ | PAny _ => true
    end.
  Lemma safe_unf : forall e, SAFE e = IDOK e && safe_rest e.
  Proof. destruct e; reflexivity. Qed.

  Lemma id_ok_spec : forall e, IDOK e = true -> node_id e < NODES /\ mem_N (node_id e) gids = MF e.
  Proof.
    intros e H. unfold id_ok in H. apply andb_true_iff in H. destruct H as [H1 H2].
    apply eqb_prop in H2. split; [lia|exact H2].
  Qed.

  (* references *)
  Definition rok (e : pexpr) : bool := negb (mem_N 0 gids) || refs_ok nrules e.

  Lemma rok_seq : forall i es, rok (PSeq i es) = true -> forall x, In x es -> rok x = true.
  Proof.
    unfold rok. intros i es. destruct (mem_N 0 gids); [|reflexivity]. cbn [negb orb refs_ok].
    induction es as [|y es IH]; intros H x []; apply andb_true_iff in H; destruct H; subst; auto.
  Qed.
  Lemma rok_choice : forall i es, rok (PChoice i es) = true -> forall x, In x es -> rok x = true.
  Proof.
    unfold rok. intros i es. destruct (mem_N 0 gids); [|reflexivity]. cbn [negb orb refs_ok].
    induction es as [|y es IH]; intros H x []; apply andb_true_iff in H; destruct H; subst; auto.
  Qed.

  Lemma check_rules_nth : forall rs i k d,
    check_rules acts preds f bv X mlit gids U i rs = true ->
    (k < length rs)%nat -> mem_N (i + N.of_nat k) U = false ->
    SAFE (nth k rs d) = true.
  Proof.
    induction rs as [|r rs IH]; intros i k d H Hk Hm; simpl in Hk; [lia|].
    cbn [check_rules] in H. apply andb_true_iff in H. destruct H as [H1 H2].
    destruct k as [|k].
    - replace (i + N.of_nat 0) with i in Hm by lia. rewrite Hm in H1. exact H1.
    - cbn [nth]. apply (IH (i + 1) k d); auto; [lia|].
      replace (i + 1 + N.of_nat k) with (i + N.of_nat (S k)) by lia. exact Hm.
  Qed.

  Hypothesis Hgated : gated acts preds f bv X mlit gids rules U = true.
  Hypothesis Hrefs : default_ok gids rules = true.

  Lemma rule_ok : forall r,
    mem_N r U = false -> (mem_N 0 gids = false \/ (N.to_nat r < length rules)%nat) ->
    SAFE (nth (N.to_nat r) rules (PAny 0)) = true /\ rok (nth (N.to_nat r) rules (PAny 0)) = true.
  Proof.
    intros r Hr Hc.
    pose proof Hgated as Hg. unfold gated in Hg. apply andb_true_iff in Hg. destruct Hg as [_ Hcr].
    destruct (Nat.lt_ge_cases (N.to_nat r) (length rules)) as [Hlt|Hge].
    - split.
      + apply (check_rules_nth rules 0); auto. now replace (0 + N.of_nat (N.to_nat r)) with r by lia.
      + unfold rok. pose proof Hrefs as Hd. unfold default_ok in Hd.
        destruct (mem_N 0 gids); [|reflexivity].
        cbn [negb orb] in *. unfold refs_ok_rules in Hd.
        assert (Hall : forallb (refs_ok nrules) rules = true) by (destruct rules; [discriminate|exact Hd]).
        rewrite forallb_forall in Hall. apply Hall. now apply nth_In.
    - destruct Hc as [Hc|Hc]; [|lia]. rewrite nth_overflow by exact Hge. split.
      + rewrite safe_unf. unfold id_ok. cbn [node_id safe_rest]. rewrite Hc. reflexivity.
      + unfold rok. rewrite Hc. reflexivity.
  Qed.

  Lemma ref_ok : forall i r,
    mem_N r U = false -> rok (PRef i r) = true ->
    SAFE (nth (N.to_nat r) rules (PAny 0)) = true /\ rok (nth (N.to_nat r) rules (PAny 0)) = true.
  Proof.
    intros i r Hr Hk. apply rule_ok; auto. unfold rok in Hk. cbn [refs_ok] in Hk.
    destruct (mem_N 0 gids); [right; cbn in Hk; lia|left; reflexivity].
  Qed.

  (* ---------- one interpreter step, given the property for the recursive calls --- *)
  Section Step.
    Variable P : pexpr -> pst -> bool * pst.
    Hypothesis IHP : forall e s ok s',
      SAFE e = true -> rok e = true -> Inv s -> P e s = (ok, s') ->
      Inv s' /\ (MF e = true -> ok = false).

    Lemma seq_go_ok : forall start l st ok st',
      cons_pt start -> safe_seq l = true -> (forall x, In x l -> rok x = true) -> Inv st ->
      seq_go P start l st = (ok, st') -> Inv st' /\ (any_mf l = true -> ok = false).
    Proof.
      intros start. induction l as [|x r IH]; intros st ok st' Hs Hsafe Hrok Hinv Hgo; cbn [seq_go] in Hgo.
      - injection Hgo as E1 E2. rewrite <- E2. split; auto. cbn. discriminate.
      - destruct (P x st) as [ok1 st1] eqn:E1.
        cbn [safe_seq] in Hsafe. apply andb_true_iff in Hsafe. destruct Hsafe as [Hx Hr].
        destruct (IHP _ _ _ _ Hx (Hrok x (or_introl eq_refl)) Hinv E1) as [Hi1 Hm1].
        destruct ok1.
        + destruct (MF x) eqn:Em; [specialize (Hm1 eq_refl); discriminate|]. cbn [orb] in Hr.
          destruct (IH st1 ok st' Hs Hr (fun y Hy => Hrok y (or_intror Hy)) Hi1 Hgo) as [A B].
          split; auto. cbn [any_mf]. rewrite Em. exact B.
        + injection Hgo as E2 E3. rewrite <- E2, <- E3. split; auto using Inv_restore.
    Qed.

    Lemma choice_go_ok : forall l st ok st',
      safe_all l = true -> (forall x, In x l -> rok x = true) -> Inv st ->
      choice_go P l st = (ok, st') -> Inv st' /\ (all_mf l = true -> ok = false).
    Proof.
      induction l as [|x r IH]; intros st ok st' Hsafe Hrok Hinv Hgo; cbn [choice_go] in Hgo.
      - injection Hgo as E1 E2. rewrite <- E1, <- E2. split; auto.
      - destruct (P x st) as [ok1 st1] eqn:E1.
        cbn [safe_all] in Hsafe. apply andb_true_iff in Hsafe. destruct Hsafe as [Hx Hr].
        destruct (IHP _ _ _ _ Hx (Hrok x (or_introl eq_refl)) Hinv E1) as [Hi1 Hm1].
        destruct ok1.
        + injection Hgo as E2 E3. rewrite <- E2, <- E3. split; auto.
          cbn [all_mf]. intros Hm. apply andb_true_iff in Hm. destruct Hm as [Hm _].
          specialize (Hm1 Hm). discriminate.
        + destruct (IH st1 ok st' Hr (fun y Hy => Hrok y (or_intror Hy)) Hi1 Hgo) as [A B].
          split; auto. cbn [all_mf]. intros Hm. apply andb_true_iff in Hm. destruct Hm as [_ Hm]. auto.
    Qed.

    Lemma star_loop_ok : forall e1 k st ok st',
      SAFE e1 = true -> rok e1 = true -> Inv st ->
      star_loop P e1 k st = (ok, st') -> Inv st'.
    Proof.
      intros e1. induction k as [|k IH]; intros st ok st' Hsafe Hrok Hinv Hgo; cbn [star_loop] in Hgo.
      - injection Hgo as E1 E2. rewrite <- E2. now apply Inv_set_fuelout.
      - destruct (P e1 st) as [ok1 st1] eqn:E1.
        destruct (IHP _ _ _ _ Hsafe Hrok Hinv E1) as [Hi1 _].
        destruct ok1; [eapply IH; eauto|].
        injection Hgo as E2 E3. now rewrite <- E3.
    Qed.

    Lemma step_ok : forall fuel e s ok s1,
      SAFE e = true -> rok e = true -> Inv s ->
      step input ilen cmatch rules classes acts preds P fuel e s = (ok, s1) ->
      Inv s1 /\ (MF e = true -> ok = false).
    Proof.
      intros fuel e s ok s1 Hsafe Hrok Hinv Hstep.
      rewrite safe_unf in Hsafe. apply andb_true_iff in Hsafe. destruct Hsafe as [_ Hrest].
      rewrite mf_unf.
      destruct e; cbn [step] in Hstep; cbn [safe_rest] in Hrest; cbn [mf_rest].
      - (* PAction *)
        apply andb_true_iff in Hrest. destruct Hrest as [Hs1 Hfn]. cbn [is_guard orb].
        destruct (skip s); [eapply IHP; eauto|].
        destruct (P e s) as [ok1 s'] eqn:E1.
        destruct (IHP _ _ _ _ Hs1 Hrok Hinv E1) as [Hi1 Hm1].
        destruct ok1; injection Hstep as E2 E3; rewrite <- E2, <- E3; [|split; auto].
        destruct (MF e) eqn:Em; [specialize (Hm1 eq_refl); discriminate|]. cbn [orb] in Hfn.
        split; [|discriminate]. apply Inv_run_action; auto. now apply negb_true_iff in Hfn.
      - (* PSeq *)
        cbn [is_guard orb].
        eapply seq_go_ok; eauto; [apply Hinv|]. eapply rok_seq; eauto.
      - (* PChoice *)
        cbn [is_guard orb].
        eapply choice_go_ok; eauto. eapply rok_choice; eauto.
      - (* PLabel *)
        cbn [is_guard orb]. cbv zeta in Hstep.
        destruct (P e s) as [ok1 s'] eqn:E1.
        destruct (IHP _ _ _ _ Hrest Hrok Hinv E1) as [Hi1 Hm1].
        destruct ok1.
        + split; [|intros Hm; specialize (Hm1 Hm); discriminate].
          destruct (skip s'); [|destruct (label =? 1); [|destruct (label =? 2)]];
            injection Hstep as E2 E3; rewrite <- E3; auto using Inv_upd_caps.
        + injection Hstep as E2 E3; rewrite <- E2, <- E3. auto.
      - (* PAnd *)
        cbn [is_guard orb]. cbv zeta in Hstep. split; [|discriminate].
        destruct (P e (upd_skip s true)) as [ok1 s'] eqn:E1.
        destruct (IHP _ _ _ _ Hrest Hrok (Inv_upd_skip s true Hinv) E1) as [Hi1 _].
        injection Hstep as E2 E3; rewrite <- E3.
        apply Inv_restore; [now apply Inv_upd_skip|apply Hinv].
      - (* PNot *)
        cbn [is_guard orb]. cbv zeta in Hstep. split; [|discriminate].
        destruct (P e (upd_inv (upd_skip s true) (negb (inv s)))) as [ok1 s'] eqn:E1.
        destruct (IHP _ _ _ _ Hrest Hrok (Inv_upd_inv _ (negb (inv s)) (Inv_upd_skip s true Hinv)) E1) as [Hi1 _].
        injection Hstep as E2 E3; rewrite <- E3.
        apply Inv_restore; [now apply Inv_upd_inv, Inv_upd_skip|apply Hinv].
      - (* PAndL *)
        cbn [is_guard orb]. cbv zeta in Hstep. split; [|discriminate].
        destruct (P e (upd_skip s true)) as [ok1 s'] eqn:E1.
        destruct (IHP _ _ _ _ Hrest Hrok (Inv_upd_skip s true Hinv) E1) as [Hi1 _].
        injection Hstep as E2 E3; rewrite <- E3.
        apply Inv_restore; [now apply Inv_upd_skip|apply Hinv].
      - (* PNotL *)
        cbn [is_guard orb]. cbv zeta in Hstep. split; [|discriminate].
        destruct (P e (upd_inv (upd_skip s true) (negb (inv s)))) as [ok1 s'] eqn:E1.
        destruct (IHP _ _ _ _ Hrest Hrok (Inv_upd_inv _ (negb (inv s)) (Inv_upd_skip s true Hinv)) E1) as [Hi1 _].
        injection Hstep as E2 E3; rewrite <- E3.
        apply Inv_restore; [now apply Inv_upd_inv, Inv_upd_skip|apply Hinv].
      - (* POpt *)
        cbn [is_guard orb]. split; [|discriminate].
        destruct (P e s) as [ok1 s'] eqn:E1.
        destruct (IHP _ _ _ _ Hrest Hrok Hinv E1) as [Hi1 _].
        injection Hstep as E2 E3; now rewrite <- E3.
      - (* PStar *)
        cbn [is_guard orb]. split; [|discriminate]. eapply star_loop_ok; eauto.
      - (* PPlus *)
        cbn [is_guard orb].
        destruct (P e s) as [ok1 s'] eqn:E1.
        destruct (IHP _ _ _ _ Hrest Hrok Hinv E1) as [Hi1 Hm1].
        destruct ok1.
        + split; [eapply star_loop_ok; eauto|]. intros Hm. specialize (Hm1 Hm). discriminate.
        + injection Hstep as E2 E3; rewrite <- E2, <- E3. auto.
      - (* PRef *)
        cbn [is_guard orb]. apply negb_true_iff in Hrest.
        destruct (ref_ok id r Hrest Hrok) as [A B].
        destruct (IHP _ _ _ _ A B Hinv Hstep) as [Hi1 _]. split; [auto|discriminate].
      - (* PAndCode *)
        split; [eapply Inv_run_pred; eauto|]. rewrite orb_false_r. intros Hg.
        eapply guard_and_fails; eauto.
      - (* PNotCode *)
        destruct (run_pred input ilen cmatch preds fn s) as [b s'] eqn:E1.
        injection Hstep as E2 E3; rewrite <- E2, <- E3.
        split; [eapply Inv_run_pred; eauto|]. rewrite orb_false_r. intros Hg.
        eapply guard_not_fails; eauto.
      - (* PCode *)
        cbn [is_guard orb]. split; [|discriminate]. apply negb_true_iff in Hrest.
        destruct (if notskip then false else skip s); injection Hstep as E2 E3; rewrite <- E3; auto.
        now apply Inv_run_action.
      - (* PLit *)
        cbv zeta in Hstep.
        destruct (match_lit input ilen v ic s) as [ok1 s'] eqn:E1.
        pose proof (Inv_match_lit _ _ _ _ _ Hinv E1) as Hi1.
        rewrite orb_false_r.
        destruct ok1; injection Hstep as E2 E3; rewrite <- E2, <- E3.
        + split; [now apply Inv_fail_at|]. intros Hg.
          pose proof (guard_lit_fails _ _ _ _ _ _ Hg Hinv E1). discriminate.
        + split; auto. apply Inv_restore; [now apply Inv_fail_at|apply Hinv].
      - (* PClass *)
        cbn [is_guard orb]. cbv zeta in Hstep. split; [|discriminate].
        destruct (at_eof (cur s)); [injection Hstep as E2 E3; rewrite <- E3; now apply Inv_fail_at|].
        match type of Hstep with (if ?c then _ else _) = _ => destruct c end;
          injection Hstep as E2 E3; rewrite <- E3; auto using Inv_fail_at, Inv_read.
      - (* PAny *)
        cbn [is_guard orb]. cbv zeta in Hstep. split; [|discriminate].
        destruct (at_eof (cur s)); injection Hstep as E2 E3; rewrite <- E3; auto using Inv_fail_at, Inv_read.
    Qed.
  End Step.


  (* ---------- the main lemma: induction on the fuel ------------------------------- *)
  Lemma pe_ok : forall fuel e s ok s',
    SAFE e = true -> rok e = true -> Inv s -> PE fuel e s = (ok, s') ->
    Inv s' /\ (MF e = true -> ok = false).
  Proof.
    induction fuel as [|fuel IH]; intros e s ok s' Hsafe Hrok Hinv Hpe.
    - cbn [pe] in Hpe. injection Hpe as E1 E2. rewrite <- E1, <- E2. split; auto using Inv_set_fuelout.
    - rewrite pe_S in Hpe. unfold pe_body in Hpe. cbv zeta in Hpe.
      pose proof (Inv_tick s Hinv) as Ht.
      assert (Hid : IDOK e = true).
      { rewrite safe_unf in Hsafe. apply andb_true_iff in Hsafe. apply Hsafe. }
      apply id_ok_spec in Hid. destruct Hid as [Hlt Hg].
      destruct (memo_get (tick s) (node_id e)) as [[b p]|] eqn:Em.
      + injection Hpe as E1 E2. rewrite <- E1, <- E2. unfold memo_get in Em.
        assert (HM : MemoOK (if skip (tick s) then memo2 (tick s) else memo1 (tick s))).
        { destruct (skip (tick s)); apply Ht. }
        destruct HM as [HM1 HM2]. split.
        * apply Inv_restore; eauto.
        * intros Hm. rewrite <- Hg in Hm. eapply HM1; eauto.
      + destruct (step input ilen cmatch rules classes acts preds (PE fuel) fuel e (tick s)) as [ok1 s1] eqn:Es.
        injection Hpe as E1 E2. rewrite <- E1, <- E2.
        destruct (step_ok (PE fuel) IH fuel e (tick s) ok1 s1 Hsafe Hrok Ht Es) as [A B].
        split; auto. apply Inv_memo_put; [exact A|exact Hlt| |apply A].
        intros Hm. apply B. now rewrite <- Hg.
  Qed.

  Lemma start_ok :
    SAFE (nth 0 rules (PAny 0)) = true /\ rok (nth 0 rules (PAny 0)) = true.
  Proof.
    pose proof Hgated as Hg. unfold gated in Hg. apply andb_true_iff in Hg. destruct Hg as [H0 _].
    apply negb_true_iff in H0.
    apply (rule_ok 0 H0).
    pose proof Hrefs as Hd. unfold default_ok in Hd. destruct (mem_N 0 gids); [|left; reflexivity].
    right. cbn [negb orb] in Hd. unfold refs_ok_rules in Hd. destruct rules; [discriminate|cbn; lia].
  Qed.

  Lemma MemoOK_empty : MemoOK (PositiveMap.empty _).
  Proof. split; intros; rewrite PositiveMap.gempty in *; discriminate. Qed.

  Lemma Inv_init : forall fl, getf fl f = bv -> Inv (READ (init_pst fl)).
  Proof.
    intros fl Hfl. apply Inv_read_gen; cbn; auto using MemoOK_empty.
    repeat split; auto. intros op [].
  Qed.

  (* the main lemma in the form of the specification *)
  Theorem pe_preserves : forall fuel e s,
    SAFE e = true -> rok e = true -> Inv s ->
    let '(ok, s') := PE fuel e s in
    Inv s' /\ (MF e = true -> ok = false).
  Proof.
    intros fuel e s Hsafe Hrok Hinv. destruct (PE fuel e s) as [ok s'] eqn:E.
    eapply pe_ok; eauto.
  Qed.

  Lemma parse_inv : forall fl fuel, getf fl f = bv ->
    let r := parse_custom cmatch rules classes acts preds fuel fl bytes in
    getf (r_cfg r) f = bv /\ (forall op, In op (r_emitted r) -> mem_N op X = false).
  Proof.
    intros fl fuel Hfl. unfold parse_custom. cbv zeta.
    destruct start_ok as [A B].
    destruct (PE fuel (nth 0 rules (PAny 0)) (READ (init_pst fl))) as [ok s1] eqn:E.
    destruct (pe_ok _ _ _ _ _ A B (Inv_init fl Hfl) E) as [[(H1 & H2 & H3) _ _ _] _].
    cbn [r_cfg r_emitted]. split; assumption.
  Qed.

  Theorem gating_sound_sec : forall fl, getf fl f = bv ->
    forall fuel op, mem_N op X = true ->
    ~ In op (r_emitted (parse_custom cmatch rules classes acts preds fuel fl bytes)).
  Proof.
    intros fl Hfl fuel op Hop Hin.
    destruct (parse_inv fl fuel Hfl) as [_ H]. apply H in Hin. congruence.
  Qed.

  Theorem gating_flag_stays_sec : forall fl, getf fl f = bv ->
    forall fuel, getf (r_cfg (parse_custom cmatch rules classes acts preds fuel fl bytes)) f = bv.
  Proof. intros fl Hfl fuel. apply (parse_inv fl fuel Hfl). Qed.
End Soundness.

(* ---------- the user-facing theorems ---------------------------------------------- *)
(* whatever custom dice parsers are registered *)
Theorem gating_sound_custom : forall cmatch rules classes acts preds f bv X mlit gids U bytes fl,
  gated acts preds f bv X mlit gids rules U = true ->
  (mlit = [] \/ occurs mlit bytes = false) ->
  Forall (fun c => c < 128) mlit ->
  default_ok gids rules = true ->
  getf fl f = bv ->
  forall fuel op, mem_N op X = true ->
  ~ In op (r_emitted (parse_custom cmatch rules classes acts preds fuel fl bytes)).
Proof. intros. eapply gating_sound_sec; eauto. Qed.

Theorem gating_flag_stays_custom : forall cmatch rules classes acts preds f bv X mlit gids U bytes fl,
  gated acts preds f bv X mlit gids rules U = true ->
  (mlit = [] \/ occurs mlit bytes = false) ->
  Forall (fun c => c < 128) mlit ->
  default_ok gids rules = true ->
  getf fl f = bv ->
  forall fuel, getf (r_cfg (parse_custom cmatch rules classes acts preds fuel fl bytes)) f = bv.
Proof. intros. eapply gating_flag_stays_sec; eauto. Qed.

(* no custom dice registered: parse = parse_custom (fun _ => None) *)
Theorem gating_sound : forall rules classes acts preds f bv X mlit gids U bytes fl,
  gated acts preds f bv X mlit gids rules U = true ->
  (mlit = [] \/ occurs mlit bytes = false) ->
  Forall (fun c => c < 128) mlit ->
  default_ok gids rules = true ->
  getf fl f = bv ->
  forall fuel op, mem_N op X = true ->
  ~ In op (r_emitted (parse rules classes acts preds fuel fl bytes)).
Proof. intros. unfold parse. eapply gating_sound_custom; eauto. Qed.

Theorem gating_flag_stays : forall rules classes acts preds f bv X mlit gids U bytes fl,
  gated acts preds f bv X mlit gids rules U = true ->
  (mlit = [] \/ occurs mlit bytes = false) ->
  Forall (fun c => c < 128) mlit ->
  default_ok gids rules = true ->
  getf fl f = bv ->
  forall fuel, getf (r_cfg (parse rules classes acts preds fuel fl bytes)) f = bv.
Proof. intros. unfold parse. eapply gating_flag_stays_custom; eauto. Qed.

(* ---------- C17: custom dice parsers that never match are transparent --------------- *)
Section Transparent.
  Variable input : PositiveMap.t N.
  Variable ilen : N.
  Variable cmatch : N -> option N.
  Variable rules : list pexpr.
  Variable classes : list (list (N * N * N)).
  Variable acts : list (list aeff).
  Variable preds : list psum.
  Hypothesis Hnone : forall o, cmatch o = None.

  Lemma run_pred_none : forall fn s,
    run_pred input ilen cmatch preds fn s = run_pred input ilen (fun _ => None) preds fn s.
  Proof.
    intros fn s. unfold run_pred. destruct (nth (N.to_nat fn) preds PUnknownP); auto.
    now rewrite Hnone.
  Qed.

  Lemma run_action_none : forall fn s,
    run_action input ilen cmatch acts fn s = run_action input ilen (fun _ => None) acts fn s.
  Proof.
    intros fn s. unfold run_action. cbv zeta.
    destruct (has_consume (nth (N.to_nat fn) acts [AUnknown])); auto.
    unfold custom_consume. now rewrite Hnone.
  Qed.

  Section Ext.
    Variables P Q : pexpr -> pst -> bool * pst.
    Hypothesis HPQ : forall e s, P e s = Q e s.

    Lemma seq_go_ext : forall start l st, seq_go P start l st = seq_go Q start l st.
    Proof.
      intros start. induction l as [|x r IH]; intros st; cbn [seq_go]; auto.
      rewrite HPQ. destruct (Q x st) as [[|] st1]; auto.
    Qed.
    Lemma choice_go_ext : forall l st, choice_go P l st = choice_go Q l st.
    Proof.
      induction l as [|x r IH]; intros st; cbn [choice_go]; auto.
      rewrite HPQ. destruct (Q x st) as [[|] st1]; auto.
    Qed.
    Lemma star_loop_ext : forall e1 k st, star_loop P e1 k st = star_loop Q e1 k st.
    Proof.
      intros e1. induction k as [|k IH]; intros st; cbn [star_loop]; auto.
      rewrite HPQ. destruct (Q e1 st) as [[|] st1]; auto.
    Qed.

    Lemma step_none : forall fuel e s,
      step input ilen cmatch rules classes acts preds P fuel e s =
      step input ilen (fun _ => None) rules classes acts preds Q fuel e s.
    Proof.
      intros fuel e s. destruct e; cbn [step]; cbv zeta;
        rewrite ?HPQ, ?run_pred_none, ?run_action_none;
        auto using seq_go_ext, choice_go_ext, star_loop_ext.
      - (* PAction *) destruct (skip s); auto. destruct (Q e s) as [[|] s1]; auto.
        now rewrite run_action_none.
      - (* PPlus *) destruct (Q e s) as [[|] s1]; auto using star_loop_ext.
    Qed.

    Lemma pe_body_none : forall fuel e s,
      pe_body input ilen cmatch rules classes acts preds P fuel e s =
      pe_body input ilen (fun _ => None) rules classes acts preds Q fuel e s.
    Proof. intros fuel e s. unfold pe_body. now rewrite step_none. Qed.
  End Ext.

  Theorem never_matching_custom_transparent : forall fuel e s,
    pe input ilen cmatch rules classes acts preds fuel e s =
    pe input ilen (fun _ => None) rules classes acts preds fuel e s.
  Proof.
    induction fuel as [|fuel IH]; intros e s; [reflexivity|].
    rewrite !pe_S. now apply pe_body_none.
  Qed.
End Transparent.

Theorem never_matching_custom_parse : forall cmatch rules classes acts preds fuel fl bytes,
  (forall o, cmatch o = None) ->
  parse_custom cmatch rules classes acts preds fuel fl bytes = parse rules classes acts preds fuel fl bytes.
Proof.
  intros cmatch rules classes acts preds fuel fl bytes H. unfold parse, parse_custom. cbv zeta.
  now rewrite (never_matching_custom_transparent _ _ cmatch rules classes acts preds H).
Qed.

(* the two ways of discharging `default_ok` *)
Lemma default_ok_refs : forall gids rules, refs_ok_rules rules = true -> default_ok gids rules = true.
Proof. intros gids rules H. unfold default_ok. rewrite H. apply orb_true_r. Qed.
Lemma default_ok_id0 : forall gids rules, mem_N 0 gids = false -> default_ok gids rules = true.
Proof. intros gids rules H. unfold default_ok. rewrite H. reflexivity. Qed.

Check Inv_spec.
Check pe_preserves.
Print Assumptions pe_preserves.
Print Assumptions gating_sound.
Print Assumptions gating_flag_stays.
Print Assumptions gating_sound_custom.
Print Assumptions gating_flag_stays_custom.
Print Assumptions never_matching_custom_transparent.
Print Assumptions never_matching_custom_parse.

(* ---------- non-vacuity: a tiny grammar ------------------------------------------- *)
Module Example.
  (* flag 4 with blocking value true; predicate 0 is "flag 4 == false" *)
  Definition ex_preds : list psum := [PFlag 4 false].
  (* action 0 emits opcode 7 (forbidden), action 1 emits opcode 3 (free) *)
  Definition ex_acts : list (list aeff) := [[AEmit 7]; [AEmit 3]].
  Definition ex_mlit : list N := [35; 69].          (* "#E" *)
  Definition ex_rules : list pexpr :=
    [ PChoice 0 [PRef 1 1; PRef 15 4; PRef 2 2];
      (* emits 7, behind the flag guard; rule 3 is only reachable behind the guard *)
      PAction 3 0 (PSeq 4 [PAndCode 5 0; PRef 10 3]);
      (* free action *)
      PAction 7 1 (PLit 8 [97] false);
      (* unguarded code block emitting 7: must be in U *)
      PCode 9 0 true;
      (* emits 7 behind the literal "#E" *)
      PSeq 12 [PLit 13 [35; 69] false; PCode 14 0 true] ].
  Definition ex_gids : list N := flat_map (guard_ids ex_preds 4 true ex_mlit) ex_rules.
  Definition ex_U : list N := compute_U ex_acts ex_preds 4 true [7] ex_mlit ex_gids 10 ex_rules [].

  Example ex_gids_val : ex_gids = [3; 4; 5; 12; 13].
  Proof. vm_compute. reflexivity. Qed.
  Example ex_U_val : ex_U = [3].
  Proof. vm_compute. reflexivity. Qed.

  Example ex_gated : gated ex_acts ex_preds 4 true [7] ex_mlit ex_gids ex_rules ex_U = true.
  Proof. vm_compute. reflexivity. Qed.

  Example ex_sound : forall bytes fl fuel,
    occurs ex_mlit bytes = false -> getf fl 4 = true ->
    ~ In 7 (r_emitted (parse ex_rules [] ex_acts ex_preds fuel fl bytes)) /\
    getf (r_cfg (parse ex_rules [] ex_acts ex_preds fuel fl bytes)) 4 = true.
  Proof.
    intros bytes fl fuel Hocc Hfl.
    assert (Ha : Forall (fun c => c < 128) ex_mlit) by (repeat constructor).
    assert (Hd : default_ok ex_gids ex_rules = true) by (vm_compute; reflexivity).
    split.
    - eapply (gating_sound ex_rules [] ex_acts ex_preds 4 true [7] ex_mlit ex_gids ex_U bytes fl
                ex_gated (or_intror Hocc) Ha Hd Hfl fuel 7). reflexivity.
    - exact (gating_flag_stays ex_rules [] ex_acts ex_preds 4 true [7] ex_mlit ex_gids ex_U bytes fl
                ex_gated (or_intror Hocc) Ha Hd Hfl fuel).
  Qed.

  Example ex_sound_custom : forall cmatch bytes fl fuel,
    occurs ex_mlit bytes = false -> getf fl 4 = true ->
    ~ In 7 (r_emitted (parse_custom cmatch ex_rules [] ex_acts ex_preds fuel fl bytes)).
  Proof.
    intros cmatch bytes fl fuel Hocc Hfl.
    assert (Ha : Forall (fun c => c < 128) ex_mlit) by (repeat constructor).
    assert (Hd : default_ok ex_gids ex_rules = true) by (vm_compute; reflexivity).
    eapply (gating_sound_custom cmatch ex_rules [] ex_acts ex_preds 4 true [7] ex_mlit ex_gids ex_U bytes fl
              ex_gated (or_intror Hocc) Ha Hd Hfl fuel 7). reflexivity.
  Qed.

  (* the hypotheses matter: with the flag at its non-blocking value, or with the literal
     present, the model does emit opcode 7; under the hypotheses the free action still runs *)
  Definition fl_block : flags := [false; false; false; false; true; false; false].
  Definition fl_open : flags := [false; false; false; false; false; false; false].
  Example ex_run_open : r_emitted (parse ex_rules [] ex_acts ex_preds 20 fl_open [97]) = [7; 7].
  Proof. vm_compute. reflexivity. Qed.
  Example ex_run_lit : r_emitted (parse ex_rules [] ex_acts ex_preds 20 fl_block [35; 69]) = [7].
  Proof. vm_compute. reflexivity. Qed.
  Example ex_run_block : r_emitted (parse ex_rules [] ex_acts ex_preds 20 fl_block [97]) = [3].
  Proof. vm_compute. reflexivity. Qed.

  (* the same grammar without the flag guard is rejected, whatever U is *)
  Definition bad_rules : list pexpr :=
    [ PChoice 0 [PRef 1 1; PRef 15 4; PRef 2 2];
      PAction 3 0 (PSeq 4 [PRef 10 3]);
      PAction 7 1 (PLit 8 [97] false);
      PCode 9 0 true;
      PSeq 12 [PLit 13 [35; 69] false; PCode 14 0 true] ].
  Definition bad_gids : list N := flat_map (guard_ids ex_preds 4 true ex_mlit) bad_rules.
  Example bad_not_gated_computed :
    gated ex_acts ex_preds 4 true [7] ex_mlit bad_gids bad_rules
          (compute_U ex_acts ex_preds 4 true [7] ex_mlit bad_gids 10 bad_rules []) = false.
  Proof. vm_compute. reflexivity. Qed.
  Example bad_not_gated : forall U,
    gated ex_acts ex_preds 4 true [7] ex_mlit bad_gids bad_rules U = false.
  Proof.
    intros U. unfold gated. destruct (mem_N 0 U) eqn:E0; [reflexivity|].
    cbn [negb andb]. unfold bad_rules. cbn [check_rules]. rewrite E0.
    change (0 + 1) with 1. destruct (mem_N 1 U) eqn:E1.
    - (* rule 0 refers to rule 1, which is in U *)
      vm_compute (bad_gids). cbn. rewrite E1. reflexivity.
    - (* rule 1 itself is unsafe *)
      match goal with |- ?a && (?b && _) = false => replace b with false; [apply andb_false_r|] end.
      vm_compute (bad_gids). cbn. destruct (mem_N 3 U); reflexivity.
  Qed.
End Example.
