(* C04 — generated once by tools/mkprops.py from the lemma statements; only statements,
   `exact lemma` and Print Assumptions live here. *)
From Coq Require Import String Ascii NArith ZArith List Bool Sorted Permutation.
From DS Require Import Model.PCG Model.Roll Model.Str Model.Dice Proofs.RollProofs Proofs.DiceProofs Proofs.PoolText.
Import ListNotations.
Open Scope string_scope.
Open Scope Z_scope.

Section Source.
  Variable S : Type.
  Variable next : S -> N * S.
  Hypothesis next_word : forall s, (fst (next s) < W64)%N.

(* every die drawn is clamp(raw) with raw in 1..sides, and exactly `times` dice are drawn *)
Theorem C04_roll_many_legal fuel k d mode dmin dmax s l s' :
    1 <= d <= MaxInt64 - 1 ->
    roll_many next fuel k d mode dmin dmax s = Done (l, s') ->
    length l = k /\
    Forall (fun x => exists raw, 1 <= raw <= d /\ x = clampdie dmin dmax raw) l.
Proof. first [ exact (roll_many_legal S next next_word fuel k d mode dmin dmax s l s') | exact (roll_many_legal S next fuel k d mode dmin dmax s l s') | exact (roll_many_legal fuel k d mode dmin dmax s l s') | exact (roll_many_legal S fuel k d mode dmin dmax s l s') ]. Qed.

(* XdY with keep/drop/min/max: the dice shown are a permutation of the dice drawn, sorted as the modifier says; total = sum of the first pick_num shown dice; the text is the rendering of exactly those dice and that bar position *)
Theorem C04_roll_common_legal fuel times d dmin dmax keep lowNum highNum mode s num txt s' :
    0 <= times -> 1 <= d <= MaxInt64 - 1 ->
    roll_common next fuel times d dmin dmax keep lowNum highNum mode s = Done ((num, txt), s') ->
    exists draws shown : list Z,
      roll_many next fuel (Z.to_nat times) d mode dmin dmax s = Done (draws, s') /\
      Permutation shown draws /\
      Z.of_nat (length shown) = times /\
      Forall (fun x => exists raw, 1 <= raw <= d /\ x = clampdie dmin dmax raw) shown /\
      (keep = 0 -> shown = draws) /\
      (keep = 1 \/ keep = 4 -> StronglySorted Z.le shown) /\
      (keep = 2 \/ keep = 3 -> StronglySorted Z.ge shown) /\
      num = sum64 (firstn (Z.to_nat (pick_num times keep lowNum highNum)) shown) /\
      txt = common_text times (pick_num times keep lowNum highNum) shown.
Proof. first [ exact (roll_common_legal S next next_word fuel times d dmin dmax keep lowNum highNum mode s num txt s') | exact (roll_common_legal S next fuel times d dmin dmax keep lowNum highNum mode s num txt s') | exact (roll_common_legal fuel times d dmin dmax keep lowNum highNum mode s num txt s') | exact (roll_common_legal S fuel times d dmin dmax keep lowNum highNum mode s num txt s') ]. Qed.

(* kl/dh keep the smallest, kh/dl keep the largest: every kept die is <= (>=) every dropped die *)
Theorem C04_roll_common_keeps_extremes fuel times d dmin dmax keep lowNum highNum mode s num txt s' :
    0 <= times -> 1 <= d <= MaxInt64 - 1 ->
    roll_common next fuel times d dmin dmax keep lowNum highNum mode s = Done ((num, txt), s') ->
    exists draws shown : list Z,
      roll_many next fuel (Z.to_nat times) d mode dmin dmax s = Done (draws, s') /\
      Permutation shown draws /\
      num = sum64 (firstn (Z.to_nat (pick_num times keep lowNum highNum)) shown) /\
      (keep = 1 \/ keep = 4 ->
       forall x y, In x (firstn (Z.to_nat (pick_num times keep lowNum highNum)) shown) ->
                   In y (skipn (Z.to_nat (pick_num times keep lowNum highNum)) shown) -> x <= y) /\
      (keep = 2 \/ keep = 3 ->
       forall x y, In x (firstn (Z.to_nat (pick_num times keep lowNum highNum)) shown) ->
                   In y (skipn (Z.to_nat (pick_num times keep lowNum highNum)) shown) -> x >= y).
Proof. first [ exact (roll_common_keeps_extremes S next next_word fuel times d dmin dmax keep lowNum highNum mode s num txt s') | exact (roll_common_keeps_extremes S next fuel times d dmin dmax keep lowNum highNum mode s num txt s') | exact (roll_common_keeps_extremes fuel times d dmin dmax keep lowNum highNum mode s num txt s') | exact (roll_common_keeps_extremes S fuel times d dmin dmax keep lowNum highNum mode s num txt s') ]. Qed.

(* number of dice counted lies in 0..times *)
Theorem C04_pick_num_range times keep lowNum highNum :
    0 <= times -> 0 <= pick_num times keep lowNum highNum <= times.
Proof. first [ exact (pick_num_range S next next_word times keep lowNum highNum) | exact (pick_num_range S next times keep lowNum highNum) | exact (pick_num_range times keep lowNum highNum) | exact (pick_num_range S times keep lowNum highNum) ]. Qed.

(* the int64 accumulation is the mathematical sum when it cannot overflow *)
Theorem C04_sum64_exact B l :
    Forall (fun x => - B <= x <= B) l ->
    Z.of_nat (length l) * B < two63 ->
    sum64 l = fold_right Z.add 0 l.
Proof. first [ exact (sum64_exact_abs S next next_word B l) | exact (sum64_exact_abs S next B l) | exact (sum64_exact_abs B l) | exact (sum64_exact_abs S B l) ]. Qed.

(* the displayed text determines the dice shown and the bar position (rendering is injective) *)
Theorem C04_common_text_determines_dice t p p' l l' :
    0 <= p <= t -> 0 <= p' <= t ->
    Z.of_nat (length l) = t -> Z.of_nat (length l') = t ->
    common_text t p l = common_text t p' l' ->
    l = l' /\ p = p'.
Proof. first [ exact (common_text_inj S next next_word t p p' l l') | exact (common_text_inj S next t p p' l l') | exact (common_text_inj t p p' l l') | exact (common_text_inj S t p p' l l') ]. Qed.

(* decimal rendering is injective *)
Theorem C04_show_Z_inj x y : show_Z x = show_Z y -> x = y.
Proof. first [ exact (show_Z_inj S next next_word x y) | exact (show_Z_inj S next x y) | exact (show_Z_inj x y) | exact (show_Z_inj S x y) ]. Qed.

(* Fate: four symbols, sum = #plus - #minus, in -4..4 *)
Theorem C04_fate_legal fuel mode s sum txt s' :
    roll_fate next fuel mode s = Done ((sum, txt), s') ->
    String.length txt = 4%nat /\
    Forall fate_char (list_ascii_of_string txt) /\
    sum = count_char "+" txt - count_char "-" txt /\
    -4 <= sum <= 4.
Proof. first [ exact (roll_fate_spec S next next_word fuel mode s sum txt s') | exact (roll_fate_spec S next fuel mode s sum txt s') | exact (roll_fate_spec fuel mode s sum txt s') | exact (roll_fate_spec S fuel mode s sum txt s') ]. Qed.

(* CoC bonus/penalty: result = min/max of val(tens candidate, units) over the D100's own tens digit and the extra tens dice shown; in 1..100; text lists exactly the D100 and those digits *)
Theorem C04_coc_legal fuel isBonus diceNum mode s num txt s' :
    0 <= diceNum ->
    roll_coc next fuel isBonus diceNum mode s = Done ((num, txt), s') ->
    exists (res : Z) (digits : list Z),
      1 <= res <= 100 /\
      Z.of_nat (length digits) = diceNum /\
      Forall (fun c => 0 <= c <= 9) digits /\
      (let u := res mod 10 in
       let t0 := (res / 10) mod 10 in
       num = (if isBonus
              then fold_right Z.min (coc_val t0 u) (map (fun c => coc_val c u) digits)
              else fold_right Z.max (coc_val t0 u) (map (fun c => coc_val c u) digits))) /\
      1 <= num <= 100 /\
      txt = "(D100=" ++ show_Z res ++ (if isBonus then ",奖励" else ",惩罚")
              ++ join " " (map show_Z digits) ++ ")".
Proof. first [ exact (roll_coc_spec S next next_word fuel isBonus diceNum mode s num txt s') | exact (roll_coc_spec S next fuel isBonus diceNum mode s num txt s') | exact (roll_coc_spec fuel isBonus diceNum mode s num txt s') | exact (roll_coc_spec S fuel isBonus diceNum mode s num txt s') ]. Qed.

(* WoD: rounds form a chain (each later round has as many dice as the previous round had dice >= add-line), every die in 1..points, successes = dice meeting the threshold, total dice and round count as computed *)
Theorem C04_wod_legal rfuel fuel addLine pool points threshold isGE mode s succ all rounds txt s' :
    wod_check addLine pool points threshold = true ->
    points <= MaxInt64 - 1 ->
    roll_wod next rfuel fuel addLine pool points threshold isGE mode s
      = Done ((succ, all, rounds, txt), s') ->
    exists rs : list (list Z),
      1 <= pool <= 20000 /\
      round_chain (wod_reach addLine) (Z.to_nat pool) rs /\
      Forall (Forall (fun x => 1 <= x <= points)) rs /\
      succ = countZ (wod_succ threshold isGE) (concat rs) /\
      rounds = Z.of_nat (length rs) /\
      (Z.of_nat (length (concat rs)) < two63 -> all = Z.of_nat (length (concat rs))).
Proof. first [ exact (roll_wod_spec S next next_word rfuel fuel addLine pool points threshold isGE mode s succ all rounds txt s') | exact (roll_wod_spec S next rfuel fuel addLine pool points threshold isGE mode s succ all rounds txt s') | exact (roll_wod_spec rfuel fuel addLine pool points threshold isGE mode s succ all rounds txt s') | exact (roll_wod_spec S rfuel fuel addLine pool points threshold isGE mode s succ all rounds txt s') ]. Qed.

(* Double Cross: same chain structure; result = sum of per-round values; for points <= 10: 10*(rounds-1) + max of the last round *)
Theorem C04_dc_legal rfuel fuel addLine pool points mode s result all rounds txt s' :
    dc_check addLine pool points = true ->
    points <= MaxInt64 - 1 ->
    roll_dc next rfuel fuel addLine pool points mode s = Done ((result, all, rounds, txt), s') ->
    exists rs : list (list Z),
      1 <= pool <= 20000 /\
      round_chain (dc_reach addLine) (Z.to_nat pool) rs /\
      Forall (Forall (fun x => 1 <= x <= points)) rs /\
      rounds = Z.of_nat (length rs) /\
      (Z.of_nat (length (concat rs)) < two63 -> all = Z.of_nat (length (concat rs))) /\
      result = fold_left (fun a r => wrap64 (a + dc_round_max addLine r)) rs 0 /\
      (points <= 10 -> 10 * rounds < two63 ->
       result = 10 * (rounds - 1) + dice_max (last rs [])).
Proof. first [ exact (roll_dc_spec S next next_word rfuel fuel addLine pool points mode s result all rounds txt s') | exact (roll_dc_spec S next rfuel fuel addLine pool points mode s result all rounds txt s') | exact (roll_dc_spec rfuel fuel addLine pool points mode s result all rounds txt s') | exact (roll_dc_spec S rfuel fuel addLine pool points mode s result all rounds txt s') ]. Qed.

(* exact per-round rule for any sides: 10 from the LAST die reaching the critical line, then the running max of later dice (order dependent when sides > 10 — recorded finding) *)
Theorem C04_dc_round_value_rule addLine r1 x r2 m :
    dc_reach addLine x = true -> filter (dc_reach addLine) r2 = [] ->
    fold_left (dc_mx_step addLine) (r1 ++ x :: r2) m = fold_left Z.max r2 10.
Proof. first [ exact (dc_mx_exact S next next_word addLine r1 x r2 m) | exact (dc_mx_exact S next addLine r1 x r2 m) | exact (dc_mx_exact addLine r1 x r2 m) | exact (dc_mx_exact S addLine r1 x r2 m) ]. Qed.

End Source.

(* the pool texts determine what they display: two renderings are equal only for the same counters and — whenever dice are
   listed at all — the same rounds, die by die (Proofs/PoolText.v; the text itself is tied to the roll by
   C14_annotation_total_wod / _dc) *)
Theorem C04_wod_text_determines_dice addLine threshold isGE pool succ all rounds rs pool' succ' all' rounds' rs' :
  1 <= rounds -> 1 <= rounds' ->
  wod_render addLine threshold isGE pool succ all rounds rs = wod_render addLine threshold isGE pool' succ' all' rounds' rs' ->
  succ = succ' /\ all = all' /\ rounds = rounds' /\
  pool_displayed (wod_reach addLine) pool rs = pool_displayed (wod_reach addLine) pool' rs' /\
  (pool_displayed (wod_reach addLine) pool rs = true -> rs = rs').
Proof. exact (wod_render_inj addLine threshold isGE pool succ all rounds rs pool' succ' all' rounds' rs'). Qed.

Theorem C04_dc_text_determines_dice addLine pool result all rounds rs pool' result' all' rounds' rs' :
  1 <= rounds -> 1 <= rounds' ->
  dc_render addLine pool result all rounds rs = dc_render addLine pool' result' all' rounds' rs' ->
  result = result' /\ all = all' /\ rounds = rounds' /\
  pool_displayed (dc_reach addLine) pool rs = pool_displayed (dc_reach addLine) pool' rs' /\
  (pool_displayed (dc_reach addLine) pool rs = true -> rs = rs').
Proof. exact (dc_render_inj addLine pool result all rounds rs pool' result' all' rounds' rs'). Qed.

(* non-vacuity: a concrete run meets the hypotheses *)
Example C04_nonvacuous : exists num txt s', roll_common pcg_next 64 3 6 None None 2 0 2 0 {| hi := 1; lo := 2 |}%N = Done ((num, txt), s').
Proof. vm_compute. eauto. Qed.
Example C04_nonvacuous_wod : exists r s', roll_wod pcg_next 100 64 8 5 10 8 true 0 {| hi := 5; lo := 7 |}%N = Done (r, s') /\ wod_check 8 5 10 8 = true.
Proof. vm_compute. eauto. Qed.

Print Assumptions C04_wod_text_determines_dice.
Print Assumptions C04_dc_text_determines_dice.
Print Assumptions C04_roll_many_legal.
Print Assumptions C04_roll_common_legal.
Print Assumptions C04_roll_common_keeps_extremes.
Print Assumptions C04_pick_num_range.
Print Assumptions C04_sum64_exact.
Print Assumptions C04_common_text_determines_dice.
Print Assumptions C04_show_Z_inj.
Print Assumptions C04_fate_legal.
Print Assumptions C04_coc_legal.
Print Assumptions C04_wod_legal.
Print Assumptions C04_dc_legal.
Print Assumptions C04_dc_round_value_rule.
