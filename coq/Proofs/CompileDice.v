(* Compiler correctness, continued: DICE TERMS `XdY` under min / max mode.

   Proofs/CompileArrays.v proves the reference compiler against the VM model for every statement (loops included)
   and every expression EXCEPT dice terms.  Here the fragment also admits `ERoll x y`, the operands being arbitrary
   expressions of the fragment (nested dice, dice inside array literals, loop conditions, ...).

   What is special about a dice term on the VM:
     x ; dice.init ; dice.setTimes ; y ; mark.detail ; dice
   `dice.init` pushes a fresh dice state on the frame's DICE-STATE STACK, `dice.setTimes` pops x into it (x must be a
   positive int: otherwise EDice, BEFORE y is evaluated), y is evaluated with that state open (y may itself open and
   close further states), `dice` pops y (a positive int, otherwise EDice), adds `times` to the op counter, rolls and
   pops the dice state.  So the induction is over machines whose dice-state stack is ARBITRARY (`forall dice`), and the
   conclusion restores exactly that stack (framing).  Under min / max mode (`roll_mode cfg <> 0`) the roll draws nothing
   from the generator and does not depend on the fuel: the generator state is untouched and the number is the one
   `dice_sem` computes.  Under random mode the definition says `DUnsup` and nothing is claimed.

   Everything about statements (if / while / break / continue) is the proof of Proofs/CompileArrays.v, replayed over the
   larger expression fragment (the lemmas local to its Section RunA are reused after the Section through `old`; the
   statement-level inductions had to be copied because they call the expression lemma of the smaller fragment). *)
From Coq Require Import String Ascii NArith ZArith List Bool Lia.
From DS Require Import Model.Str Model.PCG Model.Roll Model.Dice Model.Value Model.VM Model.Ast Model.Denote Model.Compile
                       Proofs.DiceProofs Proofs.CompileProofs Proofs.CompileArrays.
Import ListNotations.
Open Scope Z_scope.
Open Scope list_scope.   (* `++` on lists: importing Proofs.DiceProofs leaves string_scope on top *)

(* ------------------------------------------------------------------ the fragment *)
(* every expression of Model/Ast.v (no variable named like a builtin function, as in arr_expr) *)
Fixpoint dice_expr (e : expr) : Prop :=
  match e with
  | EInt _ | EStr _ | ENull | ETrue | EFalse => True
  | EVar x => mem_s x builtin_names = false
  | EAssign _ e1 | EUn _ e1 => dice_expr e1
  | EBin _ l r | EOr l r | EIdx l r | ERoll l r => dice_expr l /\ dice_expr r
  | ETern c a b => dice_expr c /\ dice_expr a /\ dice_expr b
  | EArr l => (fix go (l : list expr) : Prop := match l with [] => True | x :: r => dice_expr x /\ go r end) l
  end.
Fixpoint dice_items (l : list expr) : Prop := match l with [] => True | x :: r => dice_expr x /\ dice_items r end.

(* operand-stack slots an expression needs above the current top.  For XdY: x is popped by dice.setTimes before y is
   evaluated, so the two operands do not add up *)
Fixpoint dneed (e : expr) : Z :=
  match e with
  | EAssign _ e1 | EUn _ e1 => dneed e1
  | EBin _ l r | EIdx l r => Z.max (dneed l) (1 + dneed r)
  | EOr l r | ERoll l r => Z.max (dneed l) (dneed r)
  | ETern c a b => Z.max (dneed c) (Z.max (dneed a) (dneed b))
  | EArr l => Z.max 1 ((fix go (l : list expr) : Z := match l with [] => 0 | x :: r => Z.max (dneed x) (1 + go r) end) l)
  | _ => 1
  end.
Fixpoint dneed_items (l : list expr) : Z := match l with [] => 0 | x :: r => Z.max (dneed x) (1 + dneed_items r) end.
Lemma dneed_arr : forall l, dneed (EArr l) = Z.max 1 (dneed_items l).
Proof. intros l. reflexivity. Qed.
Lemma dneed_pos : forall e, 1 <= dneed e.
Proof. induction e using expr_ind'; try rewrite dneed_arr; cbn [dneed]; lia. Qed.
Lemma dneed_items_len : forall l, zlen l <= dneed_items l.
Proof. induction l as [|x r IH]; cbn [dneed_items]; [rewrite zlen_nil; lia|rewrite zlen_cons; pose proof (dneed_pos x); lia]. Qed.

(* the fragment of CompileArrays is a sub-fragment, with the same stack budget *)
Lemma arr_dice_expr : forall e, arr_expr e -> dice_expr e.
Proof.
  induction e using expr_ind'; cbn [arr_expr dice_expr]; intros Hc; try exact Hc; try contradiction; auto;
    try (repeat match goal with H : _ /\ _ |- _ => destruct H end; repeat split; auto; fail).
  change (arr_items l) in Hc. change (dice_items l).
  induction H as [|x r Hx Hr IH]; cbn [arr_items dice_items] in *; [exact Logic.I|].
  destruct Hc; split; auto.
Qed.
Lemma dneed_arr_expr : forall e, arr_expr e -> dneed e = aneed e.
Proof.
  induction e using expr_ind'; cbn [arr_expr]; intros Hc; try reflexivity; try contradiction;
    try (cbn [dneed aneed]; repeat match goal with H : _ /\ _ |- _ => destruct H end;
         rewrite ?IHe, ?IHe1, ?IHe2, ?IHe3 by assumption; reflexivity).
  change (arr_items l) in Hc. rewrite dneed_arr, aneed_arr. f_equal.
  induction H as [|x r Hx Hr IH]; cbn [arr_items dneed_items need_items] in *; [reflexivity|].
  destruct Hc. rewrite Hx, IH by assumption. reflexivity.
Qed.

(* every statement over those expressions *)
Fixpoint dice_stmt (s : stmt) : Prop :=
  match s with
  | SNop | SBreak | SContinue => True
  | SExpr e => dice_expr e
  | SSeq a b => dice_stmt a /\ dice_stmt b
  | SIf c t e => dice_expr c /\ dice_stmt t /\ dice_stmt e
  | SWhile c b => dice_expr c /\ dice_stmt b
  end.
(* operand-stack slots a statement needs when every execution of a loop makes at most n iterations
   (CompileArrays.wneed over dneed) *)
Fixpoint dwneed (n : Z) (s : stmt) : Z :=
  match s with
  | SNop => 0
  | SExpr e => dneed e
  | SSeq a b => Z.max (dwneed n a) (wleaves a + dwneed n b)
  | SIf c t e => Z.max 2 (Z.max (dneed c) (Z.max (dwneed n t) (dwneed n e)))
  | SWhile c b => n * wleaves b + Z.max 1 (Z.max (dneed c) (dwneed n b))
  | SBreak | SContinue => 2
  end.
Lemma dwneed_nonneg : forall n s, 0 <= n -> 0 <= dwneed n s.
Proof.
  intros n s Hn; induction s; cbn [dwneed]; try lia.
  - pose proof (dneed_pos e); lia.
  - pose proof (wleaves_nonneg s). nia.
Qed.
Lemma wleaves_le_dwneed : forall n s, 0 <= n -> wleaves s <= dwneed n s.
Proof.
  intros n s Hn; induction s; cbn [wleaves dwneed]; try lia.
  - pose proof (dneed_pos e); lia.
  - pose proof (wleaves_nonneg s). nia.
Qed.
Lemma loop_dice_stmt : forall s, loop_stmt s -> dice_stmt s.
Proof.
  induction s; cbn [loop_stmt dice_stmt]; intros H; try exact H; try (apply arr_dice_expr; exact H).
  - destruct H; split; auto.
  - destruct H as [H0 [H1 H2]]; repeat split; auto using arr_dice_expr.
  - destruct H as [H0 H1]; split; auto using arr_dice_expr.
Qed.
Lemma dwneed_loop_stmt : forall n s, loop_stmt s -> dwneed n s = wneed n s.
Proof.
  intros n; induction s; cbn [loop_stmt dwneed wneed]; intros H; try reflexivity.
  - apply dneed_arr_expr; exact H.
  - destruct H. rewrite IHs1, IHs2 by assumption. reflexivity.
  - destruct H as [H0 [H1 H2]]. rewrite IHs1, IHs2, (dneed_arr_expr _ H0) by assumption. reflexivity.
  - destruct H as [H0 H1]. rewrite IHs, (dneed_arr_expr _ H0) by assumption. reflexivity.
Qed.

(* ------------------------------------------------------------------ the roll under min / max mode *)
(* nothing is drawn, the fuel does not matter: one number for every generator state and every fuel *)
Lemma roll_common_mode : forall (cfg : config) times sides,
  roll_mode cfg <> 0 -> 0 <= times -> 1 <= sides ->
  exists num txt, forall fuel (s : pcg),
    roll_common pcg_next fuel times sides None None 0 0 0 (roll_mode cfg) s = Roll.Done ((num, txt), s).
Proof.
  intros cfg times sides Hm Ht Hs. unfold roll_mode in *.
  destruct (cfg_min_mode cfg).
  - eexists _, _. intros fuel s. rewrite roll_common_min_gen by exact Ht. reflexivity.
  - destruct (cfg_max_mode cfg); [|congruence].
    eexists _, _. intros fuel s. rewrite roll_common_max by exact Ht. reflexivity.
Qed.

(* what the definition says about the second operand and the roll, once the first operand is the positive int t *)
Definition roll_sem (cfg : config) (t : Z) (b : dv) : bres :=
  match b with
  | DvInt s => if s <=? 0 then BE EDice else dice_sem cfg t s
  | _ => BE EDice
  end.

(* ------------------------------------------------------------------ the machine: any dice-state stack *)
Definition dtimes (t : Z) : dstate :=
  {| d_times := t; d_keep := 0; d_low := 0; d_high := 0; d_min := None; d_max := None |}.

Section RunD.
  Variable E : env.
  Hypothesis Hlim : cfg_op_limit (e_cfg E) = 0.
  Variable prog : code.
  Variables (wod : wodstate) (dc : dcstate) (src : option string)
            (pcg0 : pcg) (st0 : list stcall) (attrs : N).

  (* the machine of CompileProofs with the dice-state stack made explicit *)
  Notation M d := (CompileProofs.M prog d wod dc src pcg0 st0 attrs).
  Notation steps := (CompileProofs.steps E).
  Notation stepsK := (CompileArrays.stepsK E).
  Notation failsR := (CompileArrays.failsR E).
  Notation counted := (CompileProofs.counted E).
  Notation popped := (CompileProofs.popped E).
  Notation code_at := (CompileProofs.code_at prog).
  (* a lemma of CompileProofs / CompileArrays (proved there for an arbitrary, fixed dice-state stack) at stack d *)
  Notation old L d := (L E Hlim prog d wod dc src pcg0 st0 attrs) (only parsing).

  Ltac simp_m :=
    cbv beta iota delta [mk fr_set_stack fr_set_pc fr_set_blocks fr_set_details fr_set_err fr_set_dice w_set_heap w_set_pcg jump];
    cbn [m_fr m_w fr_code fr_pc fr_live fr_dead fr_top
         fr_last fr_blocks fr_fblocks fr_dice fr_wod fr_dc fr_details fr_src fr_err w_heap w_pcg w_st w_chain tl
         v_dead v_last v_details v_ops].
  Ltac exec1 d fuel Hpc Hn Htop :=
    rewrite (exec_S E Hlim prog d wod dc src pcg0 st0 attrs fuel _ _ _ _ _ _ Hpc Hn Htop).
  Ltac one_step d Hpc Hn Htop :=
    exists 1%nat; intros fuel; change (1 + S fuel)%nat with (S (S fuel)); exec1 d (S fuel) Hpc Hn Htop.
  Ltac eq_m := unfold CompileProofs.M; simp_m; rewrite ?zlen_cons; repeat f_equal; try lia.

  (* ---- dice.init: a fresh state on top of the dice-state stack *)
  Lemma step_diceinit : forall dice pc live blocks h j,
    0 <= pc -> nth_error prog (Z.to_nat pc) = Some (I OpDiceInit ONil) -> zlen live < 1000 ->
    steps (M dice pc live blocks h j) (M (dstate0 :: dice) (pc + 1) live blocks h (counted j)).
  Proof.
    intros dice pc live blocks h j Hpc Hn Htop.
    assert (Hne : zlen live <> stack_size) by (unfold stack_size; lia).
    one_step dice Hpc Hn Hne. cbn [step i_op i_arg CompileProofs.M m_fr m_w fr_dice]. eq_m.
  Qed.

  (* ---- dice.setTimes: a positive int becomes the number of dice of the open state *)
  Lemma step_settimes_ok : forall dice pc t live blocks h j,
    0 < t -> 0 <= pc -> nth_error prog (Z.to_nat pc) = Some (I OpDiceSetTimes ONil) -> zlen (VInt t :: live) < 1000 ->
    steps (M (dstate0 :: dice) pc (VInt t :: live) blocks h j)
          (M (dtimes t :: dice) (pc + 1) live blocks h (popped (VInt t) (zlen live) j)).
  Proof.
    intros dice pc t live blocks h j Ht Hpc Hn Htop.
    assert (Hne : zlen (VInt t :: live) <> stack_size) by (unfold stack_size; lia).
    one_step (dstate0 :: dice) Hpc Hn Hne.
    cbn [step i_op i_arg CompileProofs.M m_fr m_w fr_dice need_dice with_pop pop fr_live]. simp_m.
    (replace (t <=? 0) with false by (symmetry; apply Z.leb_gt; lia)).
    unfold upd_dice. simp_m. unfold CompileProofs.popped, dtimes, dstate0. cbn [d_keep d_low d_high d_min d_max]. eq_m.
  Qed.

  (* anything else is "illegal dice parameter" — before the second operand is evaluated *)
  Lemma step_settimes_bad : forall dice pc a va live blocks h j env,
    arel h a va -> (forall t, a = DvInt t -> t <= 0) -> erel h env (get_map attrs h) ->
    0 <= pc -> nth_error prog (Z.to_nat pc) = Some (I OpDiceSetTimes ONil) -> zlen (va :: live) < 1000 ->
    failsR (M (dstate0 :: dice) pc (va :: live) blocks h j) EDice env.
  Proof.
    intros dice pc a va live blocks h j env Ha Hbad Henv Hpc Hn Htop.
    assert (Hne : zlen (va :: live) <> stack_size) by (unfold stack_size; lia).
    eapply ((old failsR_now (dstate0 :: dice)) _ _ _ _ _ _ _ _ 0%nat Hpc Hn Hne Henv). eexists. intros fuel _.
    cbn [step i_op i_arg CompileProofs.M m_fr m_w fr_dice need_dice with_pop pop fr_live]. simp_m.
    destruct Ha; try reflexivity.
    (replace (z <=? 0) with true by (symmetry; apply Z.leb_le; apply Hbad; reflexivity)). reflexivity.
  Qed.

  (* ---- dice: the second operand is checked, the roll of the open state is made, the state is closed *)
  Lemma step_dice : forall dice pc t b vb live blocks h j env,
    0 < t -> arel h b vb -> erel h env (get_map attrs h) ->
    0 <= pc -> nth_error prog (Z.to_nat pc) = Some (I OpDice ONil) -> zlen (vb :: live) < 1000 ->
    match roll_sem (e_cfg E) t b with
    | BV v => exists vv j', steps (M (dtimes t :: dice) pc (vb :: live) blocks h j) (M dice (pc + 1) (vv :: live) blocks h j')
                            /\ arel h v vv
    | BE c => failsR (M (dtimes t :: dice) pc (vb :: live) blocks h j) c env
    | BU _ => True
    end.
  Proof.
    intros dice pc t b vb live blocks h j env Ht Hb Henv Hpc Hn Htop.
    assert (Hne : zlen (vb :: live) <> stack_size) by (unfold stack_size; lia).
    assert (Hl : zlen live < 999) by (rewrite zlen_cons in Htop; lia).
    unfold roll_sem.
    destruct Hb as [s|s| |l id Hid HF];
      try (eapply ((old failsR_now (dtimes t :: dice)) _ _ _ _ _ _ _ _ 0%nat Hpc Hn Hne Henv); eexists; intros fuel _;
           cbn [step i_op i_arg CompileProofs.M m_fr m_w fr_dice with_pop pop fr_live]; simp_m; reflexivity).
    destruct (s <=? 0) eqn:Es.
    { eapply ((old failsR_now (dtimes t :: dice)) _ _ _ _ _ _ _ _ 0%nat Hpc Hn Hne Henv). eexists. intros fuel _.
      cbn [step i_op i_arg CompileProofs.M m_fr m_w fr_dice with_pop pop fr_live]. simp_m. rewrite Es. reflexivity. }
    apply Z.leb_gt in Es.
    unfold dice_sem. destruct (roll_mode (e_cfg E) =? 0) eqn:Em; [exact Logic.I|]. apply Z.eqb_neq in Em.
    unfold dice_cap_d. destruct (100000 <? t) eqn:Ecap; [exact Logic.I|].
    destruct (roll_common_mode (e_cfg E) t s Em ltac:(lia) ltac:(lia)) as [num [txt Hroll]].
    rewrite Hroll.
    exists (VInt num),
           {| v_dead := v_dead (counted j); v_last := LSlot (zlen live + 1 - 1);
              v_details := match v_details (counted j) with [] => [(0, 0)] | _ => v_details (counted j) end;
              v_ops := fst (ops_add (e_cfg E) (v_ops (counted j)) t) |}.
    split; [|constructor].
    one_step (dtimes t :: dice) Hpc Hn Hne.
    cbn [step i_op i_arg CompileProofs.M m_fr m_w fr_dice with_pop pop fr_live]. simp_m.
    (replace (s <=? 0) with false by (symmetry; apply Z.leb_gt; lia)).
    cbn [dtimes d_keep d_low d_high d_times d_min d_max Z.eqb orb andb].
    unfold add_ops. cbn [w_self w_chain hd c_ops].
    pose proof (ops_not_over E Hlim (v_ops (counted j)) t) as Hover.
    destruct (ops_add (e_cfg E) (v_ops (counted j)) t) as [ops' over] eqn:Eo. cbn [snd fst] in *. subst over.
    unfold dice_cap. rewrite Ecap. unfold w_set_self_ops. cbn [w_chain]. unfold w_set_chain. cbn [w_pcg w_heap w_st w_chain c_attrs].
    rewrite Hroll. unfold dice_result, last_detail. simp_m.
    destruct (v_details (counted j)) eqn:Ed; simp_m; unfold do_push, push; simp_m; rewrite zlen_cons;
      (replace (stack_size <=? zlen live + 1 - 1) with false by (symmetry; apply Z.leb_gt; unfold stack_size; lia));
      eq_m.

  Qed.

  (* ---- mark.detail with a full-height stack allowed (CompileProofs.step_mark asks for room for a push) *)
  Lemma step_mark' : forall dice pc live blocks h j b e,
    0 <= pc -> nth_error prog (Z.to_nat pc) = Some (I OpMarkDetail (OSpan b e)) -> zlen live < 1000 ->
    exists j', steps (M dice pc live blocks h j) (M dice (pc + 1) live blocks h j').
  Proof.
    intros dice pc live blocks h j b e Hpc Hn Htop.
    assert (Hne : zlen live <> stack_size) by (unfold stack_size; lia).
    exists {| v_dead := v_dead j; v_last := v_last j; v_details := (b, e) :: v_details j; v_ops := v_ops (counted j) |}.
    one_step dice Hpc Hn Hne. cbn [step i_op i_arg CompileProofs.M m_fr m_w]. eq_m.
  Qed.

  (* the definition of XdY, with the checks of the second operand and the roll gathered in roll_sem *)
  Lemma dexpr_roll : forall cfg x y env,
    dexpr cfg (ERoll x y) env =
    match dexpr cfg x env with
    | EV a env1 =>
      match a with
      | DvInt t => if t <=? 0 then EE EDice env1
                   else match dexpr cfg y env1 with
                        | EV b env2 => lift_b (roll_sem cfg t b) env2
                        | r => r
                        end
      | _ => EE EDice env1
      end
    | r => r
    end.
  Proof.
    intros cfg x y env. cbn [dexpr].
    destruct (dexpr cfg x env) as [[t| | |] env1| |]; try reflexivity.
    destruct (t <=? 0); try reflexivity.
    destruct (dexpr cfg y env1) as [[s| | |] env2| |]; try reflexivity.
    unfold roll_sem. destruct (s <=? 0); reflexivity.
  Qed.

  (* ---- expressions *)
  Ltac splits := repeat match goal with |- _ /\ _ => split end.
  Ltac pcfix := repeat rewrite ?zlen_app, ?zlen_cons, ?zlen_nil; lia.

  Definition expr_postD (dice : list dstate) (e : expr) (env : denv) (pc : Z) (live : list value) (blocks : list Z) (h : heap) (j : vol) : Prop :=
    match dexpr (e_cfg E) e env with
    | EV v env' => exists vv h' j', stepsK (M dice pc live blocks h j) (M dice (pc + zlen (compile_expr e)) (vv :: live) blocks h' j')
                                    /\ arel h' v vv /\ erel h' env' (get_map attrs h') /\ heap_le h h'
    | EE c env' => failsR (M dice pc live blocks h j) c env'
    | EU _ => True
    end.
  Definition expr_okD (e : expr) : Prop :=
    forall dice, dice_expr e -> forall env pc live blocks h j,
      code_at pc (compile_expr e) -> erel h env (get_map attrs h) -> zlen live + dneed e <= 999 ->
      expr_postD dice e env pc live blocks h j.

  Lemma lit_correctD : forall e ins v dvv, compile_expr e = [ins] -> dneed e = 1 ->
    (forall env, dexpr (e_cfg E) e env = EV dvv env) ->
    (forall call f m, step call f E ins m = do_push v (m_fr m) (m_w m)) -> (forall h, arel h dvv v) -> expr_okD e.
  Proof.
    intros e ins v dvv Hc Hnd Hd Hs Hv dice _ env pc live blocks h j Hat Henv Hneed. unfold expr_postD.
    rewrite Hd, Hc in *. destruct (code_at_head _ _ _ _ Hat) as [Hpc Hn].
    destruct ((old step_push dice) pc live blocks h j ins v Hs Hpc Hn) as [j' Hj]; [lia|].
    exists v, h, j'. rewrite zlen_cons, zlen_nil. splits; auto using heap_le_refl. apply steps_stepsK; exact Hj.
  Qed.

  Lemma items_correctD : forall l, Forall expr_okD l -> dice_items l ->
    forall dice env pc live blocks h j acc vacc,
      code_at pc (citems l) -> erel h env (get_map attrs h) -> Forall2 (arel h) acc vacc ->
      zlen (vacc ++ live) + dneed_items l <= 999 ->
      match ditems (e_cfg E) l env acc with
      | EV v env' => exists acc' vacc' h' j', v = DvArr (rev acc') /\
            stepsK (M dice pc (vacc ++ live) blocks h j) (M dice (pc + zlen (citems l)) (vacc' ++ live) blocks h' j')
            /\ Forall2 (arel h') acc' vacc' /\ erel h' env' (get_map attrs h') /\ heap_le h h'
            /\ zlen vacc' = zlen vacc + zlen l
      | EE c env' => failsR (M dice pc (vacc ++ live) blocks h j) c env'
      | EU _ => True
      end.
  Proof.
    intros l HF. induction HF as [|x r Hx Hr IH]; intros Hok dice env pc live blocks h j acc vacc Hat Henv Hacc Hneed;
      cbn [ditems citems dneed_items dice_items] in *.
    - exists acc, vacc, h, j. rewrite zlen_nil, !Z.add_0_r. splits; auto using heap_le_refl, stepsK_refl.
    - destruct Hok as [Hokx Hokr].
      pose proof (Hx dice Hokx env pc (vacc ++ live) blocks h j (code_at_app_l _ _ _ _ Hat) Henv ltac:(lia)) as X. unfold expr_postD in X.
      destruct (dexpr (e_cfg E) x env) as [v env1|c env1|w]; [|exact X|exact Logic.I].
      destruct X as [vv [h1 [j1 [Hst [Hv [Henv1 Hle]]]]]].
      pose proof (IH Hokr dice env1 (pc + zlen (compile_expr x)) live blocks h1 j1 (v :: acc) (vv :: vacc)
                     (code_at_app_r _ _ _ _ Hat) Henv1) as Y.
      assert (Hacc1 : Forall2 (arel h1) (v :: acc) (vv :: vacc)).
      { constructor; [exact Hv|eapply Forall2_arel_mono; eassumption]. }
      specialize (Y Hacc1). cbn [app] in Y. rewrite zlen_cons in Y. specialize (Y ltac:(lia)).
      destruct (ditems (e_cfg E) r env1 (v :: acc)) as [v2 env2|c env2|w]; [|eapply stepsK_failsR; eassumption|exact Logic.I].
      destruct Y as [acc' [vacc' [h2 [j2 [Hv2 [Hst2 [Hacc2 [Henv2 [Hle2 Hlen]]]]]]]]].
      exists acc', vacc', h2, j2. splits; auto.
      + replace (pc + zlen (compile_expr x ++ citems r)) with (pc + zlen (compile_expr x) + zlen (citems r)) by pcfix.
        eapply stepsK_trans; eassumption.
      + eapply heap_le_trans; eassumption.
      + rewrite Hlen, !zlen_cons. lia.
  Qed.

  Lemma expr_correctD : forall e, expr_okD e.
  Proof.
    induction e using expr_ind'; try (eapply lit_correctD; try reflexivity; intros; constructor; fail);
      unfold expr_okD; intros dice Hcore env pc live blocks h j Hat Henv Hneed; unfold expr_postD; cbn [dice_expr] in Hcore; try contradiction.
    - (* EVar *)
      cbn [dexpr compile_expr dneed] in *. destruct (code_at_head _ _ _ _ Hat) as [Hpc Hn].
      destruct (code_at_head _ _ _ _ (code_at_tail _ _ _ _ Hat)) as [Hpc2 Hn2].
      destruct ((old step_mark dice) pc live blocks h j 0 0 Hpc Hn) as [j1 [Hj1 _]]; [lia|].
      destruct ((old step_ldd' dice) (pc + 1) live blocks h j1 x env Henv Hcore Hpc2 Hn2) as [v [j2 [Hj2 Hv]]]; [lia|].
      exists v, h, j2. splits; auto using heap_le_refl.
      replace (pc + zlen [I OpMarkDetail (OSpan 0 0); I OpLdD (OStr x)]) with (pc + 1 + 1) by pcfix.
      eapply stepsK_trans; [apply steps_stepsK|]; eassumption.
    - (* EAssign *)
      cbn [dexpr compile_expr dneed] in *.
      pose proof (IHe dice Hcore env pc live blocks h j (code_at_app_l _ _ _ _ Hat) Henv Hneed) as IH. unfold expr_postD in IH.
      destruct (dexpr (e_cfg E) e env) as [v env1|c env1|w]; [|exact IH|exact Logic.I].
      destruct IH as [vv [h1 [j1 [Hst [Hv [Henv1 Hle]]]]]].
      destruct (code_at_head _ _ _ _ (code_at_app_r _ _ _ _ Hat)) as [Hpc Hn].
      destruct ((old step_store dice) (pc + zlen (compile_expr e)) vv live blocks h1 j1 x Hpc Hn) as [j2 Hj2].
      { rewrite zlen_cons. pose proof (dneed_pos e). lia. }
      set (h2 := set_map attrs (mset x vv (get_map attrs h1)) h1) in *.
      assert (Hle2 : heap_le h1 h2) by apply heap_le_set_map.
      exists vv, h2, j2. splits.
      + replace (pc + zlen (compile_expr e ++ [I OpStore (OStr x)])) with (pc + zlen (compile_expr e) + 1) by pcfix.
        eapply stepsK_trans; [|apply steps_stepsK]; eassumption.
      + eapply arel_mono; eassumption.
      + unfold h2 at 2. rewrite get_map_set_map. eapply erel_mono; [exact Hle2|]. apply erel_set; assumption.
      + eapply heap_le_trans; eassumption.
    - (* EUn *)
      cbn [dexpr compile_expr dneed] in *.
      pose proof (IHe dice Hcore env pc live blocks h j (code_at_app_l _ _ _ _ Hat) Henv Hneed) as IH. unfold expr_postD in IH.
      destruct (dexpr (e_cfg E) e env) as [v env1|c env1|w]; [|exact IH|exact Logic.I].
      destruct IH as [vv [h1 [j1 [Hst [Hv [Henv1 Hle]]]]]].
      destruct (code_at_head _ _ _ _ (code_at_app_r _ _ _ _ Hat)) as [Hpc Hn].
      pose proof ((old step_unary' dice) (pc + zlen (compile_expr e)) v vv live blocks h1 j1 o env1 Hv Henv1 Hpc Hn) as Hu.
      assert (Hb : zlen (vv :: live) < 1000) by (rewrite zlen_cons; pose proof (dneed_pos e); lia).
      specialize (Hu Hb). destruct (un_sem o v) as [r|c|w]; cbn [lift_b].
      + destruct Hu as [rv [j2 [Hj2 Hr]]]. exists rv, h1, j2. splits; auto.
        replace (pc + zlen (compile_expr e ++ [I (un_opcode o) ONil])) with (pc + zlen (compile_expr e) + 1) by pcfix.
        eapply stepsK_trans; eassumption.
      + eapply stepsK_failsR; eassumption.
      + exact Logic.I.
    - (* EBin *)
      cbn [dexpr compile_expr dneed] in *. destruct Hcore as [Hc1 Hc2].
      pose proof (IHe1 dice Hc1 env pc live blocks h j (code_at_app_l _ _ _ _ Hat) Henv ltac:(lia)) as IH1. unfold expr_postD in IH1.
      destruct (dexpr (e_cfg E) e1 env) as [a env1|c env1|w]; [|exact IH1|exact Logic.I].
      destruct IH1 as [va [h1 [j1 [Hst1 [Ha [Henv1 Hle1]]]]]].
      pose proof (code_at_app_r _ _ _ _ Hat) as Hat2.
      pose proof (IHe2 dice Hc2 env1 (pc + zlen (compile_expr e1)) (va :: live) blocks h1 j1 (code_at_app_l _ _ _ _ Hat2) Henv1) as IH2.
      assert (Hn2 : zlen (va :: live) + dneed e2 <= 999) by (rewrite zlen_cons; lia).
      specialize (IH2 Hn2). unfold expr_postD in IH2.
      destruct (dexpr (e_cfg E) e2 env1) as [b env2|c env2|w]; [|eapply stepsK_failsR; eassumption|exact Logic.I].
      destruct IH2 as [vb [h2 [j2 [Hst2 [Hb [Henv2 Hle2]]]]]].
      destruct (code_at_head _ _ _ _ (code_at_app_r _ _ _ _ Hat2)) as [Hpc Hn].
      pose proof ((old step_binop_all' dice) (pc + zlen (compile_expr e1) + zlen (compile_expr e2)) a b va vb live blocks h2 j2 o env2
                                  (arel_mono _ _ _ _ Hle2 Ha) Hb Henv2 Hpc Hn) as Hop.
      assert (Hb3 : zlen (vb :: va :: live) < 1000) by (rewrite !zlen_cons; pose proof (dneed_pos e2); lia).
      specialize (Hop Hb3). destruct (bin_sem (e_cfg E) o a b) as [r|c|w]; cbn [lift_b].
      + destruct Hop as [rv [h3 [j3 [Hj3 [Hr [Hle3 Hmaps]]]]]]. exists rv, h3, j3. splits; auto.
        * replace (pc + zlen (compile_expr e1 ++ compile_expr e2 ++ [I (bin_opcode o) ONil]))
            with (pc + zlen (compile_expr e1) + zlen (compile_expr e2) + 1) by pcfix.
          eapply stepsK_trans; [exact Hst1|]. eapply stepsK_trans; eassumption.
        * rewrite Hmaps. eapply erel_mono; eassumption.
        * eapply heap_le_trans; [exact Hle1|]. eapply heap_le_trans; eassumption.
      + eapply stepsK_failsR; [exact Hst1|]. eapply stepsK_failsR; eassumption.
      + exact Logic.I.
    - (* EOr *)
      cbn [dexpr compile_expr dneed] in *. destruct Hcore as [Hc1 Hc2].
      set (cl := compile_expr e1) in *. set (cr := compile_expr e2) in *.
      pose proof (IHe1 dice Hc1 env pc live blocks h j (code_at_app_l _ _ _ _ Hat) Henv ltac:(lia)) as IH1. unfold expr_postD in IH1.
      destruct (dexpr (e_cfg E) e1 env) as [a env1|c env1|w]; [|exact IH1|exact Logic.I].
      destruct IH1 as [va [h1 [j1 [Hst1 [Ha [Henv1 Hle1]]]]]]. fold cl in Hst1.
      pose proof (code_at_app_r _ _ _ _ Hat) as Hat2. cbn [app] in Hat2.
      destruct (code_at_head _ _ _ _ Hat2) as [Hpc1 Hn1].
      pose proof (code_at_tail _ _ _ _ Hat2) as Hat3.
      assert (Hb1 : zlen (va :: live) < 1000) by (rewrite zlen_cons; pose proof (dneed_pos e1); lia).
      assert (Hend : pc + zlen (cl ++ I OpJeDup (OInt (zlen cr + 2)) :: cr ++ [I OpJeDup (OInt 1); I OpPushLast ONil])
                     = pc + zlen cl + zlen cr + 3) by pcfix.
      cbn [app]. rewrite Hend.
      pose proof (arel_truthy (e_fn E) _ _ _ Ha) as Tva.
      destruct (truthy a) eqn:Ta.
      + destruct ((old step_jedup_true' dice) (pc + zlen cl) va live blocks h1 j1 _ Tva Hpc1 Hn1 Hb1) as [j2 Hj2].
        exists va, h1, j2. splits; auto.
        replace (pc + zlen cl + zlen cr + 3) with (pc + zlen cl + (zlen cr + 2) + 1) by lia.
        eapply stepsK_trans; eassumption.
      + pose proof ((old step_jedup_false' dice) (pc + zlen cl) va live blocks h1 j1 _ Tva Hpc1 Hn1 Hb1) as Hj2.
        pose proof (IHe2 dice Hc2 env1 (pc + zlen cl + 1) live blocks h1 (popped va (zlen live) j1)
                         (code_at_app_l _ _ _ _ Hat3) Henv1 ltac:(lia)) as IH2. unfold expr_postD in IH2.
        destruct (dexpr (e_cfg E) e2 env1) as [b env2|c env2|w];
          [|eapply stepsK_failsR; [exact Hst1|]; eapply stepsK_failsR; eassumption|exact Logic.I].
        destruct IH2 as [vb [h2 [j2 [Hst2 [Hb [Henv2 Hle2]]]]]]. fold cr in Hst2.
        pose proof (code_at_app_r _ _ _ _ Hat3) as Hat4.
        destruct (code_at_head _ _ _ _ Hat4) as [Hpc2 Hn2].
        destruct (code_at_head _ _ _ _ (code_at_tail _ _ _ _ Hat4)) as [Hpc3 Hn3].
        assert (Hb2 : zlen (vb :: live) < 1000) by (rewrite zlen_cons; pose proof (dneed_pos e2); lia).
        assert (Hpre : stepsK (M dice pc live blocks h j) (M dice (pc + zlen cl + 1 + zlen cr) (vb :: live) blocks h2 j2)).
        { eapply stepsK_trans; [exact Hst1|]. eapply stepsK_trans; eassumption. }
        assert (Hle : heap_le h h2) by (eapply heap_le_trans; eassumption).
        pose proof (arel_truthy (e_fn E) _ _ _ Hb) as Tvb.
        destruct (truthy b) eqn:Tb.
        * destruct ((old step_jedup_true' dice) (pc + zlen cl + 1 + zlen cr) vb live blocks h2 j2 _ Tvb Hpc2 Hn2 Hb2) as [j3 Hj3].
          exists vb, h2, j3. splits; auto.
          replace (pc + zlen cl + zlen cr + 3) with (pc + zlen cl + 1 + zlen cr + 1 + 1) by lia.
          eapply stepsK_trans; eassumption.
        * pose proof ((old step_jedup_false' dice) (pc + zlen cl + 1 + zlen cr) vb live blocks h2 j2 _ Tvb Hpc2 Hn2 Hb2) as Hj3.
          destruct ((old step_pushlast dice) (pc + zlen cl + 1 + zlen cr + 1) vb live blocks h2 j2 Hpc3 Hn3) as [j4 Hj4].
          { pose proof (dneed_pos e2); lia. }
          exists vb, h2, j4. splits; auto.
          replace (pc + zlen cl + zlen cr + 3) with (pc + zlen cl + 1 + zlen cr + 1 + 1) by lia.
          eapply stepsK_trans; [exact Hpre|]. eapply stepsK_trans; [|apply steps_stepsK]; eassumption.
    - (* ETern *)
      cbn [dexpr compile_expr dneed] in *. destruct Hcore as [Hc1 [Hc2 Hc3]].
      set (cc := compile_expr e1) in *. set (ca := compile_expr e2) in *. set (cb := compile_expr e3) in *.
      pose proof (IHe1 dice Hc1 env pc live blocks h j (code_at_app_l _ _ _ _ Hat) Henv ltac:(lia)) as IH1. unfold expr_postD in IH1.
      destruct (dexpr (e_cfg E) e1 env) as [vc env1|c env1|w]; [|exact IH1|exact Logic.I].
      destruct IH1 as [vvc [h1 [j1 [Hst1 [Hvc [Henv1 Hle1]]]]]]. fold cc in Hst1.
      pose proof (code_at_app_r _ _ _ _ Hat) as Hat2. cbn [app] in Hat2.
      destruct (code_at_head _ _ _ _ Hat2) as [Hpc1 Hn1].
      pose proof (code_at_tail _ _ _ _ Hat2) as Hat3.
      assert (Hb1 : zlen (vvc :: live) < 1000) by (rewrite zlen_cons; pose proof (dneed_pos e1); lia).
      pose proof ((old step_jne' dice) (pc + zlen cc) vvc live blocks h1 j1 _ Hpc1 Hn1 Hb1) as Hj.
      rewrite (arel_truthy (e_fn E) _ _ _ Hvc) in Hj.
      assert (Hend : pc + zlen (cc ++ I OpJne (OInt (zlen ca + 1)) :: ca ++ I OpJmp (OInt (zlen cb)) :: cb)
                     = pc + zlen cc + 1 + zlen ca + 1 + zlen cb) by pcfix.
      cbn [app]. rewrite Hend.
      destruct (truthy vc) eqn:Tc.
      + pose proof (IHe2 dice Hc2 env1 (pc + zlen cc + 1) live blocks h1 (popped vvc (zlen live) j1)
                         (code_at_app_l _ _ _ _ Hat3) Henv1 ltac:(lia)) as IH2. unfold expr_postD in IH2.
        destruct (dexpr (e_cfg E) e2 env1) as [va env2|c env2|w];
          [|eapply stepsK_failsR; [exact Hst1|]; eapply stepsK_failsR; eassumption|exact Logic.I].
        destruct IH2 as [vva [h2 [j2 [Hst2 [Hva [Henv2 Hle2]]]]]]. fold ca in Hst2.
        destruct (code_at_head _ _ _ _ (code_at_app_r _ _ _ _ Hat3)) as [Hpc2 Hn2].
        assert (Hb2 : zlen (vva :: live) < 1000) by (rewrite zlen_cons; pose proof (dneed_pos e2); lia).
        pose proof ((old step_jmp dice) (pc + zlen cc + 1 + zlen ca) (vva :: live) blocks h2 j2 _ Hpc2 Hn2 Hb2) as Hj2.
        exists vva, h2, (counted j2). splits; auto.
        * replace (pc + zlen cc + 1 + zlen ca + 1 + zlen cb) with (pc + zlen cc + 1 + zlen ca + zlen cb + 1) by lia.
          eapply stepsK_trans; [exact Hst1|]. eapply stepsK_trans; [exact Hj|]. eapply stepsK_trans; [|apply steps_stepsK]; eassumption.
        * eapply heap_le_trans; eassumption.
      + pose proof (code_at_tail _ _ _ _ (code_at_app_r _ _ _ _ Hat3)) as Hat4.
        pose proof (IHe3 dice Hc3 env1 (pc + zlen cc + 1 + zlen ca + 1) live blocks h1 (popped vvc (zlen live) j1)
                         Hat4 Henv1 ltac:(lia)) as IH3. unfold expr_postD in IH3.
        replace (pc + zlen cc + (zlen ca + 1) + 1) with (pc + zlen cc + 1 + zlen ca + 1) in Hj by lia.
        destruct (dexpr (e_cfg E) e3 env1) as [vb env2|c env2|w];
          [|eapply stepsK_failsR; [exact Hst1|]; eapply stepsK_failsR; eassumption|exact Logic.I].
        destruct IH3 as [vvb [h2 [j2 [Hst2 [Hvb [Henv2 Hle2]]]]]]. fold cb in Hst2.
        exists vvb, h2, j2. splits; auto.
        * eapply stepsK_trans; [exact Hst1|]. eapply stepsK_trans; eassumption.
        * eapply heap_le_trans; eassumption.
    - (* EArr *)
      change (dice_items l) in Hcore. rewrite dexpr_arr. rewrite compile_arr in *. rewrite dneed_arr in Hneed.
      pose proof (items_correctD l H Hcore dice env pc live blocks h j [] [] (code_at_app_l _ _ _ _ Hat) Henv (Forall2_nil _)) as X.
      cbn [app] in X. specialize (X ltac:(lia)).
      destruct (ditems (e_cfg E) l env []) as [v env1|c env1|w]; [|exact X|exact Logic.I].
      destruct X as [acc' [vacc' [h1 [j1 [Hv [Hst [Hacc [Henv1 [Hle Hlen]]]]]]]]].
      rewrite zlen_nil, Z.add_0_l in Hlen.
      destruct (code_at_head _ _ _ _ (code_at_app_r _ _ _ _ Hat)) as [Hpc Hn]. rewrite <- Hlen in Hn.
      pose proof (dneed_items_len l) as Hnl.
      destruct ((old step_pusharr dice) (pc + zlen (citems l)) vacc' live blocks h1 j1 Hpc Hn) as [j2 Hj2]; [rewrite zlen_app; lia|].
      set (h2 := snd (alloc_arr (rev vacc') h1)) in *.
      assert (Hle2 : heap_le h1 h2) by apply heap_le_alloc.
      exists (VArr (h_next h1)), h2, j2. splits.
      + replace (pc + zlen (citems l ++ [I OpPushArr (OInt (zlen l))])) with (pc + zlen (citems l) + 1) by pcfix.
        eapply stepsK_trans; eassumption.
      + subst v. constructor; [unfold h2, alloc_arr; cbn [snd h_next]; lia|].
        unfold h2 at 2. rewrite get_arr_alloc_new. apply Forall2_rev. eapply Forall2_arel_mono; eassumption.
      + change (get_map attrs h2) with (get_map attrs h1). eapply erel_mono; eassumption.
      + eapply heap_le_trans; eassumption.
    - (* EIdx *)
      cbn [dexpr compile_expr dneed] in *. destruct Hcore as [Hc1 Hc2].
      pose proof (IHe1 dice Hc1 env pc live blocks h j (code_at_app_l _ _ _ _ Hat) Henv ltac:(lia)) as IH1. unfold expr_postD in IH1.
      destruct (dexpr (e_cfg E) e1 env) as [a env1|c env1|w]; [|exact IH1|exact Logic.I].
      destruct IH1 as [va [h1 [j1 [Hst1 [Ha [Henv1 Hle1]]]]]].
      pose proof (code_at_app_r _ _ _ _ Hat) as Hat2.
      pose proof (IHe2 dice Hc2 env1 (pc + zlen (compile_expr e1)) (va :: live) blocks h1 j1 (code_at_app_l _ _ _ _ Hat2) Henv1) as IH2.
      assert (Hn2 : zlen (va :: live) + dneed e2 <= 999) by (rewrite zlen_cons; lia).
      specialize (IH2 Hn2). unfold expr_postD in IH2.
      destruct (dexpr (e_cfg E) e2 env1) as [b env2|c env2|w]; [|eapply stepsK_failsR; eassumption|exact Logic.I].
      destruct IH2 as [vb [h2 [j2 [Hst2 [Hb [Henv2 Hle2]]]]]].
      destruct (code_at_head _ _ _ _ (code_at_app_r _ _ _ _ Hat2)) as [Hpc Hn].
      pose proof ((old step_itemget dice) (pc + zlen (compile_expr e1) + zlen (compile_expr e2)) a b va vb live blocks h2 j2 env2
                               (arel_mono _ _ _ _ Hle2 Ha) Hb Henv2 Hpc Hn) as Hop.
      assert (Hb3 : zlen (vb :: va :: live) < 1000) by (rewrite !zlen_cons; pose proof (dneed_pos e2); lia).
      specialize (Hop Hb3). destruct (index_sem a b) as [r|c|w]; cbn [lift_b].
      + destruct Hop as [rv [j3 [Hj3 Hr]]]. exists rv, h2, j3. splits; auto.
        * replace (pc + zlen (compile_expr e1 ++ compile_expr e2 ++ [I OpItemGet ONil]))
            with (pc + zlen (compile_expr e1) + zlen (compile_expr e2) + 1) by pcfix.
          eapply stepsK_trans; [exact Hst1|]. eapply stepsK_trans; eassumption.
        * eapply heap_le_trans; eassumption.
      + eapply stepsK_failsR; [exact Hst1|]. eapply stepsK_failsR; eassumption.
      + exact Logic.I.
    - (* ERoll *)
      rewrite dexpr_roll. cbn [compile_expr dneed] in *. destruct Hcore as [Hc1 Hc2].
      set (cx := compile_expr e1) in *. set (cy := compile_expr e2) in *.
      pose proof (IHe1 dice Hc1 env pc live blocks h j (code_at_app_l _ _ _ _ Hat) Henv ltac:(lia)) as IH1. unfold expr_postD in IH1.
      destruct (dexpr (e_cfg E) e1 env) as [a env1|c env1|w]; [|exact IH1|exact Logic.I].
      destruct IH1 as [va [h1 [j1 [Hst1 [Ha [Henv1 Hle1]]]]]]. fold cx in Hst1.
      pose proof (code_at_app_r _ _ _ _ Hat) as Hat2. cbn [app] in Hat2.    (* dice.init :: dice.setTimes :: cy ++ [mark.detail; dice] *)
      destruct (code_at_head _ _ _ _ Hat2) as [Hpc1 Hn1].
      pose proof (code_at_tail _ _ _ _ Hat2) as Hat3.
      destruct (code_at_head _ _ _ _ Hat3) as [Hpc2 Hn2].
      pose proof (code_at_tail _ _ _ _ Hat3) as Hat4.                       (* cy ++ [mark.detail; dice] *)
      assert (Hb1 : zlen (va :: live) < 1000) by (rewrite zlen_cons; pose proof (dneed_pos e1); lia).
      pose proof (step_diceinit dice (pc + zlen cx) (va :: live) blocks h1 j1 Hpc1 Hn1 Hb1) as Hinit.
      assert (Hpre : stepsK (M dice pc live blocks h j) (M (dstate0 :: dice) (pc + zlen cx + 1) (va :: live) blocks h1 (counted j1))).
      { eapply stepsK_trans; [exact Hst1|apply steps_stepsK; exact Hinit]. }
      (* the first operand is not a positive int: EDice, the second operand is not evaluated *)
      assert (Hbadx : (forall t, a = DvInt t -> t <= 0) -> failsR (M dice pc live blocks h j) EDice env1).
      { intros Hbad. eapply stepsK_failsR; [exact Hpre|].
        exact (step_settimes_bad dice (pc + zlen cx + 1) a va live blocks h1 (counted j1) env1 Ha Hbad Henv1 Hpc2 Hn2 Hb1). }
      destruct a as [t| | |]; try (apply Hbadx; intros; discriminate).
      destruct (t <=? 0) eqn:Et.
      { apply Hbadx. intros t' Ht'. inversion Ht'; subst. apply Z.leb_le; exact Et. }
      apply Z.leb_gt in Et. inversion Ha; subst va.
      pose proof (step_settimes_ok dice (pc + zlen cx + 1) t live blocks h1 (counted j1) Et Hpc2 Hn2 Hb1) as Hset.
      set (jj := popped (VInt t) (zlen live) (counted j1)) in *.
      assert (Hpre2 : stepsK (M dice pc live blocks h j) (M (dtimes t :: dice) (pc + zlen cx + 1 + 1) live blocks h1 jj)).
      { eapply stepsK_trans; [exact Hpre|apply steps_stepsK; exact Hset]. }
      (* the second operand runs with the new dice state open, and gives it back *)
      pose proof (IHe2 (dtimes t :: dice) Hc2 env1 (pc + zlen cx + 1 + 1) live blocks h1 jj (code_at_app_l _ _ _ _ Hat4) Henv1 ltac:(lia)) as IH2.
      unfold expr_postD in IH2.
      destruct (dexpr (e_cfg E) e2 env1) as [b env2|c env2|w]; [|eapply stepsK_failsR; eassumption|exact Logic.I].
      destruct IH2 as [vb [h2 [j2 [Hst2 [Hb [Henv2 Hle2]]]]]]. fold cy in Hst2.
      pose proof (code_at_app_r _ _ _ _ Hat4) as Hat5.                      (* [mark.detail; dice] *)
      destruct (code_at_head _ _ _ _ Hat5) as [Hpc3 Hn3].
      destruct (code_at_head _ _ _ _ (code_at_tail _ _ _ _ Hat5)) as [Hpc4 Hn4].
      assert (Hb2 : zlen (vb :: live) < 1000) by (rewrite zlen_cons; pose proof (dneed_pos e2); lia).
      destruct (step_mark' (dtimes t :: dice) (pc + zlen cx + 1 + 1 + zlen cy) (vb :: live) blocks h2 j2 0 0 Hpc3 Hn3 Hb2) as [j3 Hj3].
      pose proof (step_dice dice (pc + zlen cx + 1 + 1 + zlen cy + 1) t b vb live blocks h2 j3 env2 Et Hb Henv2 Hpc4 Hn4 Hb2) as Hd.
      destruct (roll_sem (e_cfg E) t b) as [r|c|w]; cbn [lift_b].
      + destruct Hd as [rv [j4 [Hj4 Hr]]]. exists rv, h2, j4. splits; auto.
        * cbn [app]. replace (pc + zlen (cx ++ I OpDiceInit ONil :: I OpDiceSetTimes ONil :: cy ++ [I OpMarkDetail (OSpan 0 0); I OpDice ONil]))
            with (pc + zlen cx + 1 + 1 + zlen cy + 1 + 1) by pcfix.
          eapply stepsK_trans; [exact Hpre2|]. eapply stepsK_trans; [exact Hst2|].
          eapply stepsK_trans; apply steps_stepsK; eassumption.
        * eapply heap_le_trans; eassumption.
      + eapply stepsK_failsR; [exact Hpre2|]. eapply stepsK_failsR; [exact Hst2|].
        eapply stepsK_failsR; [apply steps_stepsK; exact Hj3|exact Hd].
      + exact Logic.I.
  Qed.
End RunD.

(* ------------------------------------------------------------------ statements *)
(* The induction over statements of CompileArrays.gstmt_correct, replayed over the larger expression fragment: a
   statement never changes the dice-state stack between two expressions, so here it is fixed again. *)
Section RunDS.
  Variable E : env.
  Hypothesis Hlim : cfg_op_limit (e_cfg E) = 0.
  Variable prog : code.
  Variables (dice : list dstate) (wod : wodstate) (dc : dcstate) (src : option string)
            (pcg0 : pcg) (st0 : list stcall) (attrs : N).

  Notation M := (CompileProofs.M prog dice wod dc src pcg0 st0 attrs).
  Notation steps := (CompileProofs.steps E).
  Notation stepsK := (CompileArrays.stepsK E).
  Notation failsR := (CompileArrays.failsR E).
  Notation counted := (CompileProofs.counted E).
  Notation popped := (CompileProofs.popped E).
  Notation code_at := (CompileProofs.code_at prog).
  Notation old L := (L E Hlim prog dice wod dc src pcg0 st0 attrs) (only parsing).
  Ltac splits := repeat match goal with |- _ /\ _ => split end.
  Ltac pcfix := repeat rewrite ?zlen_app, ?zlen_cons, ?zlen_nil; lia.

  Lemma expr_correctS : forall e, dice_expr e -> forall env pc live blocks h j,
    code_at pc (compile_expr e) -> erel h env (get_map attrs h) -> zlen live + dneed e <= 999 ->
    expr_postD E prog wod dc src pcg0 st0 attrs dice e env pc live blocks h j.
  Proof. intros e H. exact (expr_correctD E Hlim prog wod dc src pcg0 st0 attrs e dice H). Qed.

  (* what a statement does inside a loop body: d `if` blocks (saved heights ifb) are open between the loop and the
     statement, lb are the blocks from the loop's own block outwards, base is the operand stack at the loop's
     block.push; pc - bo is the loop condition, pc + |s| + ao the loop's block.pop *)
  Definition gpostD (d : nat) (bo ao : Z) (ifb lb : list Z) (base : list value) (fuel : nat) (s : stmt) (env : denv)
             (pc : Z) (live : list value) (h : heap) (j : vol) : Prop :=
    match dstmt (e_cfg E) fuel s env with
    | SNorm v env' =>
      exists h' j' junk,
        stepsK (M pc live (ifb ++ lb) h j) (M (pc + zlen (compile_stmt d bo ao s)) (junk ++ live) (ifb ++ lb) h' j')
        /\ erel h' env' (get_map attrs h') /\ heap_le h h' /\ zlen junk <= wleaves s
        /\ match v with
           | Some x => exists vx junk', junk = vx :: junk' /\ arel h' x vx
           | None => junk = [] /\ h' = h /\ j' = j
           end
    | SBrk env' =>
      exists h' j' stk,
        stepsK (M pc live (ifb ++ lb) h j) (M (pc + zlen (compile_stmt d bo ao s) + ao) stk lb h' j')
        /\ erel h' env' (get_map attrs h') /\ heap_le h h' /\ (exists junk, stk = junk ++ base)
        /\ zlen stk <= zlen live + dwneed (Z.of_nat fuel) s
    | SCont env' =>
      exists h' j' stk,
        stepsK (M pc live (ifb ++ lb) h j) (M (pc - bo) stk lb h' j')
        /\ erel h' env' (get_map attrs h') /\ heap_le h h' /\ (exists junk, stk = junk ++ base)
        /\ zlen stk <= cont_top ifb live s
    | SErrR c env' => failsR (M pc live (ifb ++ lb) h j) c env'
    | _ => True
    end.

  Lemma gstmt_correctD : forall s, dice_stmt s -> forall d bo ao ifb lb base fuel env pc live h j,
    code_at pc (compile_stmt d bo ao s) -> erel h env (get_map attrs h) ->
    zlen live + dwneed (Z.of_nat fuel) s <= 999 -> zlen (ifb ++ lb) + wbneed s <= 20 ->
    length ifb = d -> (exists pre, live = pre ++ base) -> desc (zlen base) ifb -> head_ok ifb live j ->
    gpostD d bo ao ifb lb base fuel s env pc live h j.
  Proof.
    induction s; intros Hcore d bo ao ifb lb base fuel env pc live h j Hat Henv Hneed Hbn Hd Hpre Hdesc Hhead;
      unfold gpostD; cbn [dice_stmt] in Hcore.
    - (* SNop *)
      cbn [dstmt compile_stmt wleaves]. exists h, j, []. rewrite zlen_nil, Z.add_0_r. cbn [app].
      splits; auto using heap_le_refl, stepsK_refl; try lia. rewrite zlen_nil; lia.
    - (* SExpr *)
      cbn [dstmt compile_stmt wleaves dwneed] in *.
      pose proof (expr_correctS e Hcore env pc live (ifb ++ lb) h j Hat Henv Hneed) as IH. unfold expr_postD in IH.
      destruct (dexpr (e_cfg E) e env) as [v env1|c env1|w]; [|exact IH|exact Logic.I].
      destruct IH as [vv [h1 [j1 [Hst [Hv [Henv1 Hle]]]]]].
      exists h1, j1, [vv]. cbn [app]. splits; auto; try (rewrite zlen_cons, zlen_nil; lia).
      exists vv, []; split; [reflexivity|exact Hv].
    - (* SSeq *)
      cbn [dstmt compile_stmt wleaves dwneed wbneed] in *. destruct Hcore as [Hc1 Hc2].
      set (N := Z.of_nat fuel) in *. assert (HN : 0 <= N) by lia.
      set (ca := compile_stmt d bo (ao + ssize d s2) s1) in *. set (cb := compile_stmt d (bo + ssize d s1) ao s2) in *.
      assert (Hca : zlen ca = ssize d s1) by apply ssize_compile.
      assert (Hcb : zlen cb = ssize d s2) by apply ssize_compile.
      pose proof (wleaves_nonneg s1) as Hw1. pose proof (wleaves_nonneg s2) as Hw2.
      pose proof (dwneed_nonneg N s1 HN) as Hn1. pose proof (dwneed_nonneg N s2 HN) as Hn2.
      pose proof (IHs1 Hc1 d bo (ao + ssize d s2) ifb lb base fuel env pc live h j (code_at_app_l _ _ _ _ Hat) Henv
                       ltac:(fold N; lia) ltac:(lia) Hd Hpre Hdesc Hhead) as IH1.
      unfold gpostD in IH1. fold ca in IH1. fold N in IH1.
      destruct (dstmt (e_cfg E) fuel s1 env) as [v1 env1|env1|env1|c env1| |w]; try exact Logic.I.
      + (* s1 completes *)
        destruct IH1 as [h1 [j1 [junk1 [Hst1 [Henv1 [Hle1 [Hl1 Hv1]]]]]]].
        destruct Hpre as [pre Hpre].
        assert (Hhead1 : head_ok ifb (junk1 ++ live) j1).
        { unfold head_ok in *. destruct ifb as [|a r]; [exact Logic.I|]. destruct Hhead as [Hh1 Hh2].
          rewrite zlen_app. pose proof (zlen_nonneg _ junk1). split; [lia|]. intros Ha.
          destruct v1 as [x1|].
          - destruct Hv1 as [vx [junk' [-> _]]]. rewrite zlen_cons in *. pose proof (zlen_nonneg _ junk'). lia.
          - destruct Hv1 as [-> [_ ->]]. apply Hh2. rewrite zlen_nil in Ha. lia. }
        assert (Hpre1 : exists pre1, junk1 ++ live = pre1 ++ base).
        { exists (junk1 ++ pre). rewrite Hpre, app_assoc. reflexivity. }
        pose proof (IHs2 Hc2 d (bo + ssize d s1) ao ifb lb base fuel env1 (pc + zlen ca) (junk1 ++ live) h1 j1
                         (code_at_app_r _ _ _ _ Hat) Henv1 ltac:(fold N; rewrite zlen_app; lia) ltac:(lia) Hd Hpre1 Hdesc Hhead1) as IH2.
        unfold gpostD in IH2. fold cb in IH2. fold N in IH2.
        destruct (dstmt (e_cfg E) fuel s2 env1) as [v2 env2|env2|env2|c env2| |w]; try exact Logic.I.
        * destruct IH2 as [h2 [j2 [junk2 [Hst2 [Henv2 [Hle2 [Hl2 Hv2]]]]]]].
          exists h2, j2, (junk2 ++ junk1). rewrite <- app_assoc. splits; auto.
          -- replace (pc + zlen (ca ++ cb)) with (pc + zlen ca + zlen cb) by pcfix. eapply stepsK_trans; eassumption.
          -- eapply heap_le_trans; eassumption.
          -- rewrite zlen_app; lia.
          -- destruct v2 as [x2|].
             ++ destruct Hv2 as [vx [junk' [-> Hx]]]. exists vx, (junk' ++ junk1). split; [reflexivity|exact Hx].
             ++ destruct Hv2 as [-> [-> ->]]. cbn [app]. exact Hv1.
        * destruct IH2 as [h2 [j2 [stk [Hst2 [Henv2 [Hle2 [Hb Hz]]]]]]].
          exists h2, j2, stk. splits; auto.
          -- replace (pc + zlen (ca ++ cb) + ao) with (pc + zlen ca + zlen cb + ao) by pcfix. eapply stepsK_trans; eassumption.
          -- eapply heap_le_trans; eassumption.
          -- rewrite zlen_app in Hz. lia.
        * destruct IH2 as [h2 [j2 [stk [Hst2 [Henv2 [Hle2 [Hb Hz]]]]]]].
          exists h2, j2, stk. splits; auto.
          -- replace (pc - bo) with (pc + zlen ca - (bo + ssize d s1)) by lia. eapply stepsK_trans; eassumption.
          -- eapply heap_le_trans; eassumption.
          -- unfold cont_top in *. destruct ifb; [rewrite zlen_app in Hz; cbn [wleaves]; lia|exact Hz].
        * eapply stepsK_failsR; eassumption.
      + (* s1 breaks *)
        destruct IH1 as [h1 [j1 [stk [Hst1 [Henv1 [Hle1 [Hb Hz]]]]]]].
        exists h1, j1, stk. splits; auto; [|lia].
        replace (pc + zlen (ca ++ cb) + ao) with (pc + zlen ca + (ao + ssize d s2)) by pcfix. exact Hst1.
      + (* s1 continues *)
        destruct IH1 as [h1 [j1 [stk [Hst1 [Henv1 [Hle1 [Hb Hz]]]]]]].
        exists h1, j1, stk. splits; auto.
        unfold cont_top in *. destruct ifb; [cbn [wleaves]; lia|exact Hz].
      + exact IH1.
    - (* SIf *)
      cbn [dstmt compile_stmt wleaves dwneed wbneed] in *. destruct Hcore as [Hc0 [Hc1 Hc2]].
      set (N := Z.of_nat fuel) in *. assert (HN : 0 <= N) by lia.
      set (cc := compile_expr c) in *.
      set (T := compile_stmt (S d) (bo + zlen cc + 2) (ao + 1 + ssize (S d) s2 + 1) s1) in *.
      set (F := compile_stmt (S d) (bo + zlen cc + 2 + ssize (S d) s1 + 1) (ao + 1) s2) in *.
      assert (HT : ssize (S d) s1 = zlen T) by (symmetry; apply ssize_compile).
      assert (HF : ssize (S d) s2 = zlen F) by (symmetry; apply ssize_compile).
      rewrite HT, HF in Hat.
      pose proof (expr_correctS c Hc0 env pc live (ifb ++ lb) h j (code_at_app_l _ _ _ _ Hat) Henv ltac:(lia)) as IH0. unfold expr_postD in IH0.
      destruct (dexpr (e_cfg E) c env) as [vc env1|k env1|w]; [|exact IH0|exact Logic.I].
      destruct IH0 as [vvc [h1 [j1 [Hst0 [Hvc [Henv1 Hle0]]]]]]. fold cc in Hst0.
      pose proof (code_at_app_r _ _ _ _ Hat) as Hat1. cbn [app] in Hat1.
      destruct (code_at_head _ _ _ _ Hat1) as [Hpc1 Hn1].
      pose proof (code_at_tail _ _ _ _ Hat1) as Hat2.
      destruct (code_at_head _ _ _ _ Hat2) as [Hpc2 Hn2].
      pose proof (code_at_tail _ _ _ _ Hat2) as Hat3.
      pose proof (dneed_pos c) as Hnc. pose proof (wbneed_nonneg s1) as Hb1. pose proof (wbneed_nonneg s2) as Hb2.
      pose proof (dwneed_nonneg N s1 HN) as Hsn1. pose proof (dwneed_nonneg N s2 HN) as Hsn2.
      assert (Hl1 : zlen (vvc :: live) < 1000) by (rewrite zlen_cons; lia).
      pose proof ((old step_blockpush) (pc + zlen cc) (vvc :: live) (ifb ++ lb) h1 j1 Hpc1 Hn1 Hl1 ltac:(lia)) as Hbp.
      rewrite zlen_cons in Hbp.
      pose proof ((old step_jne') (pc + zlen cc + 1) vvc live (zlen live + 1 :: ifb ++ lb) h1 (counted j1) _ Hpc2 Hn2 Hl1) as Hj.
      rewrite (arel_truthy (e_fn E) _ _ _ Hvc) in Hj.
      set (jj := popped vvc (zlen live) (counted j1)) in *.
      assert (Hpre0 : stepsK (M pc live (ifb ++ lb) h j)
                             (M (if truthy vc then pc + zlen cc + 1 + 1 else pc + zlen cc + 1 + (zlen T + 1) + 1) live
                                ((zlen live + 1 :: ifb) ++ lb) h1 jj)).
      { cbn [app]. eapply stepsK_trans; [exact Hst0|]. eapply stepsK_trans; [apply steps_stepsK|]; eassumption. }
      assert (Hblk : zlen ((zlen live + 1 :: ifb) ++ lb) + Z.max (wbneed s1) (wbneed s2) <= 20) by (cbn [app]; rewrite zlen_cons; lia).
      assert (Hd' : length (zlen live + 1 :: ifb) = S d) by (cbn [length]; f_equal; exact Hd).
      assert (Hdesc' : desc (zlen base) (zlen live + 1 :: ifb)).
      { destruct Hpre as [pre Hp]. cbn [desc]. splits; [|destruct ifb as [|b r]; [exact Logic.I|exact (proj1 Hhead)]|exact Hdesc].
        rewrite Hp, zlen_app. pose proof (zlen_nonneg _ pre). lia. }
      assert (Hhead' : head_ok (zlen live + 1 :: ifb) live jj).
      { unfold head_ok. split; [lia|]. intros _. exists vvc. reflexivity. }
      assert (Hend : pc + zlen (cc ++ I OpBlockPush ONil :: I OpJne (OInt (zlen T + 1)) :: T ++ I OpJmp (OInt (zlen F)) :: F ++ [I OpBlockPop ONil])
                     = pc + zlen cc + 2 + zlen T + 1 + zlen F + 1) by pcfix.
      cbn [app]. rewrite HT, HF, Hend.
      pose proof (code_at_app_r _ _ _ _ Hat3) as Hat4.
      destruct (code_at_head _ _ _ _ Hat4) as [Hpc4 Hn4].
      pose proof (code_at_tail _ _ _ _ Hat4) as Hat5.
      destruct (code_at_head _ _ _ _ (code_at_app_r _ _ _ _ Hat5)) as [Hpc6 Hn6].
      assert (Hct : forall s', cont_top (zlen live + 1 :: ifb) live s' <= cont_top ifb live (SIf c s1 s2)).
      { intros s'. unfold cont_top. destruct ifb as [|b r]; [cbn [last wleaves]; lia|].
        change (last (zlen live + 1 :: b :: r) 0) with (last (b :: r) 0). lia. }
      destruct (truthy vc) eqn:Tc.
      + (* then-branch *)
        pose proof (IHs1 Hc1 (S d) (bo + zlen cc + 2) (ao + 1 + ssize (S d) s2 + 1) (zlen live + 1 :: ifb) lb base fuel env1
                         (pc + zlen cc + 1 + 1) live h1 jj (code_at_app_l _ _ _ _ Hat3) Henv1 ltac:(fold N; lia) ltac:(lia)
                         Hd' Hpre Hdesc' Hhead') as IH1.
        unfold gpostD in IH1. fold T in IH1. fold N in IH1. rewrite HF in IH1.
        destruct (dstmt (e_cfg E) fuel s1 env1) as [v1 env2|env2|env2|k env2| |w]; try exact Logic.I.
        * destruct IH1 as [h2 [j2 [junk [Hst1 [Henv2 [Hle2 [Hlv Hv1]]]]]]].
          pose proof (wleaves_le_dwneed N s1 HN) as Hls.
          assert (Hl2 : zlen (junk ++ live) < 1000) by (rewrite zlen_app; lia).
          pose proof ((old step_jmp) (pc + zlen cc + 1 + 1 + zlen T) (junk ++ live) (zlen live + 1 :: ifb ++ lb) h2 j2 _ Hpc4 Hn4 Hl2) as Hjmp.
          destruct ((old blockpop_after) (pc + zlen cc + 1 + 1 + zlen T + zlen F + 1) junk live (ifb ++ lb) h2 (counted j2) vvc) as [j3 [y Hpop]].
          { lia. }
          { replace (pc + zlen cc + 1 + 1 + zlen T + zlen F + 1) with (pc + zlen cc + 1 + 1 + zlen T + 1 + zlen F) by lia. exact Hn6. }
          { exact Hl2. } { lia. }
          { intros ->. destruct v1 as [x|]; [destruct Hv1 as [vx [junk' [Hx _]]]; discriminate|].
            destruct Hv1 as [_ [_ ->]]. reflexivity. }
          exists h2, j3, [VNull; y]. cbn [app]. splits; auto.
          -- replace (pc + zlen cc + 2 + zlen T + 1 + zlen F + 1) with (pc + zlen cc + 1 + 1 + zlen T + zlen F + 1 + 1) by lia.
             eapply stepsK_trans; [exact Hpre0|]. eapply stepsK_trans; [exact Hst1|].
             eapply stepsK_trans; apply steps_stepsK; eassumption.
          -- eapply heap_le_trans; eassumption.
          -- rewrite !zlen_cons, zlen_nil; lia.
          -- exists VNull, [y]; split; [reflexivity|constructor].
        * destruct IH1 as [h2 [j2 [stk [Hst1 [Henv2 [Hle2 [Hb Hz]]]]]]].
          exists h2, j2, stk. splits; auto; [| |lia].
          -- replace (pc + zlen cc + 2 + zlen T + 1 + zlen F + 1 + ao) with (pc + zlen cc + 1 + 1 + zlen T + (ao + 1 + zlen F + 1)) by lia.
             eapply stepsK_trans; eassumption.
          -- eapply heap_le_trans; eassumption.
        * destruct IH1 as [h2 [j2 [stk [Hst1 [Henv2 [Hle2 [Hb Hz]]]]]]].
          exists h2, j2, stk. splits; auto.
          -- replace (pc - bo) with (pc + zlen cc + 1 + 1 - (bo + zlen cc + 2)) by lia. eapply stepsK_trans; eassumption.
          -- eapply heap_le_trans; eassumption.
          -- pose proof (Hct s1). lia.
        * eapply stepsK_failsR; eassumption.
      + (* else-branch *)
        assert (Hat6 : code_at (pc + zlen cc + 1 + (zlen T + 1) + 1) (compile_stmt (S d) (bo + zlen cc + 2 + ssize (S d) s1 + 1) (ao + 1) s2)).
        { fold F. replace (pc + zlen cc + 1 + (zlen T + 1) + 1) with (pc + zlen cc + 1 + 1 + zlen T + 1) by lia.
          exact (code_at_app_l _ _ _ _ Hat5). }
        pose proof (IHs2 Hc2 (S d) (bo + zlen cc + 2 + ssize (S d) s1 + 1) (ao + 1) (zlen live + 1 :: ifb) lb base fuel env1
                         (pc + zlen cc + 1 + (zlen T + 1) + 1) live h1 jj Hat6 Henv1 ltac:(fold N; lia) ltac:(lia)
                         Hd' Hpre Hdesc' Hhead') as IH2.
        unfold gpostD in IH2. fold F in IH2. fold N in IH2. rewrite HT in IH2.
        destruct (dstmt (e_cfg E) fuel s2 env1) as [v1 env2|env2|env2|k env2| |w]; try exact Logic.I.
        * destruct IH2 as [h2 [j2 [junk [Hst1 [Henv2 [Hle2 [Hlv Hv1]]]]]]].
          pose proof (wleaves_le_dwneed N s2 HN) as Hls.
          assert (Hl2 : zlen (junk ++ live) < 1000) by (rewrite zlen_app; lia).
          destruct ((old blockpop_after) (pc + zlen cc + 1 + (zlen T + 1) + 1 + zlen F) junk live (ifb ++ lb) h2 j2 vvc) as [j3 [y Hpop]].
          { lia. }
          { replace (pc + zlen cc + 1 + (zlen T + 1) + 1 + zlen F) with (pc + zlen cc + 1 + 1 + zlen T + 1 + zlen F) by lia. exact Hn6. }
          { exact Hl2. } { lia. }
          { intros ->. destruct v1 as [x|]; [destruct Hv1 as [vx [junk' [Hx _]]]; discriminate|].
            destruct Hv1 as [_ [_ ->]]. reflexivity. }
          exists h2, j3, [VNull; y]. cbn [app]. splits; auto.
          -- replace (pc + zlen cc + 2 + zlen T + 1 + zlen F + 1) with (pc + zlen cc + 1 + (zlen T + 1) + 1 + zlen F + 1) by lia.
             eapply stepsK_trans; [exact Hpre0|]. eapply stepsK_trans; [exact Hst1|]. apply steps_stepsK; exact Hpop.
          -- eapply heap_le_trans; eassumption.
          -- rewrite !zlen_cons, zlen_nil; lia.
          -- exists VNull, [y]; split; [reflexivity|constructor].
        * destruct IH2 as [h2 [j2 [stk [Hst1 [Henv2 [Hle2 [Hb Hz]]]]]]].
          exists h2, j2, stk. splits; auto; [| |lia].
          -- replace (pc + zlen cc + 2 + zlen T + 1 + zlen F + 1 + ao) with (pc + zlen cc + 1 + (zlen T + 1) + 1 + zlen F + (ao + 1)) by lia.
             eapply stepsK_trans; eassumption.
          -- eapply heap_le_trans; eassumption.
        * destruct IH2 as [h2 [j2 [stk [Hst1 [Henv2 [Hle2 [Hb Hz]]]]]]].
          exists h2, j2, stk. splits; auto.
          -- replace (pc - bo) with (pc + zlen cc + 1 + (zlen T + 1) + 1 - (bo + zlen cc + 2 + zlen T + 1)) by lia.
             eapply stepsK_trans; eassumption.
          -- eapply heap_le_trans; eassumption.
          -- pose proof (Hct s2). lia.
        * eapply stepsK_failsR; eassumption.
    - (* SWhile *)
      rewrite dstmt_while. cbn [compile_stmt wleaves dwneed wbneed] in *. destruct Hcore as [Hc0 Hc1].
      set (N := Z.of_nat fuel) in *. assert (HN : 0 <= N) by lia.
      set (cc := compile_expr c) in *.
      set (B := compile_stmt 0 (zlen cc + 1) 1 s) in *.
      assert (HB : ssize 0 s = zlen B) by (symmetry; apply ssize_compile).
      rewrite HB in Hat. cbn [app] in Hat.
      set (wl := wleaves s) in *. pose proof (wleaves_nonneg s) as Hwl. fold wl in Hwl.
      pose proof (dneed_pos c) as Hnc. pose proof (dwneed_nonneg N s HN) as Hns. pose proof (wbneed_nonneg s) as Hbs.
      assert (HNwl : 0 <= N * wl) by nia.
      destruct (code_at_head _ _ _ _ Hat) as [Hpc0 Hn0].
      pose proof (code_at_tail _ _ _ _ Hat) as Hat1.                        (* cc ++ jne :: B ++ [jmp; block.pop] *)
      pose proof (code_at_app_r _ _ _ _ Hat1) as Hat2.
      destruct (code_at_head _ _ _ _ Hat2) as [Hpc2 Hn2].
      pose proof (code_at_tail _ _ _ _ Hat2) as Hat3.                       (* B ++ [jmp; block.pop] *)
      pose proof (code_at_app_r _ _ _ _ Hat3) as Hat4.
      destruct (code_at_head _ _ _ _ Hat4) as [Hpc4 Hn4].
      destruct (code_at_head _ _ _ _ (code_at_tail _ _ _ _ Hat4)) as [Hpc5 Hn5].
      set (lb' := zlen live :: ifb ++ lb) in *.
      set (X := pc + 1 + zlen cc + 1 + zlen B + 1) in *.
      replace (pc + 1 + zlen cc + 1 + zlen B + 1) with X in Hn5 by reflexivity.
      assert (Hloop : forall n env0 junk h0 j0, erel h0 env0 (get_map attrs h0) ->
                zlen junk + Z.of_nat n * wl <= N * wl ->
                match dloop (e_cfg E) fuel c s n env0 with
                | SNorm v env' =>
                  v = Some DvNull /\ exists h' j',
                    stepsK (M (pc + 1) (junk ++ live) lb' h0 j0) (M (X + 1) (VNull :: live) (ifb ++ lb) h' j')
                    /\ erel h' env' (get_map attrs h') /\ heap_le h0 h'
                | SErrR k env' => failsR (M (pc + 1) (junk ++ live) lb' h0 j0) k env'
                | SBrk _ | SCont _ => False
                | SFuelR | SUnsupR _ => True
                end).
      { induction n as [|n IHn]; intros env0 junk h0 j0 Henv0 Hjunk; cbn [dloop]; [exact Logic.I|].
        rewrite Nat2Z.inj_succ, Z.mul_succ_l in Hjunk.
        assert (Hn0wl : 0 <= Z.of_nat n * wl) by nia.
        pose proof (zlen_nonneg _ junk) as Hjn.
        pose proof (expr_correctS c Hc0 env0 (pc + 1) (junk ++ live) lb' h0 j0 (code_at_app_l _ _ _ _ Hat1) Henv0
                                  ltac:(rewrite zlen_app; lia)) as IH0. unfold expr_postD in IH0.
        destruct (dexpr (e_cfg E) c env0) as [vc env1|k env1|w]; [|exact IH0|exact Logic.I].
        destruct IH0 as [vvc [h1 [j1 [Hst0 [Hvc [Henv1 Hle0]]]]]]. fold cc in Hst0.
        assert (Hl1 : zlen (vvc :: junk ++ live) < 1000) by (rewrite zlen_cons, zlen_app; lia).
        pose proof ((old step_jne') (pc + 1 + zlen cc) vvc (junk ++ live) lb' h1 j1 _ Hpc2 Hn2 Hl1) as Hj.
        rewrite (arel_truthy (e_fn E) _ _ _ Hvc) in Hj.
        set (jj := popped vvc (zlen (junk ++ live)) j1) in *.
        destruct (truthy vc) eqn:Tc.
        - (* one more iteration *)
          pose proof (IHs Hc1 0%nat (zlen cc + 1) 1 [] lb' live fuel env1 (pc + 1 + zlen cc + 1) (junk ++ live) h1 jj
                          (code_at_app_l _ _ _ _ Hat3) Henv1 ltac:(fold N; rewrite zlen_app; lia)
                          ltac:(cbn [app]; unfold lb'; rewrite zlen_cons; lia) eq_refl (ex_intro _ junk eq_refl) Logic.I Logic.I) as IHb.
          unfold gpostD in IHb. fold B in IHb. fold N in IHb. cbn [app] in IHb.
          destruct (dstmt (e_cfg E) fuel s env1) as [v2 env2|env2|env2|k env2| |w]; try exact Logic.I.
          + (* the body completes: jump back *)
            destruct IHb as [h2 [j2 [junk2 [Hst1 [Henv2 [Hle2 [Hlv _]]]]]]]. fold wl in Hlv.
            pose proof (zlen_nonneg _ junk2) as Hj2n.
            assert (Hl2 : zlen (junk2 ++ junk ++ live) < 1000) by (rewrite !zlen_app; lia).
            pose proof ((old step_jmp) (pc + 1 + zlen cc + 1 + zlen B) (junk2 ++ junk ++ live) lb' h2 j2 _ Hpc4 Hn4 Hl2) as Hjmp.
            replace (pc + 1 + zlen cc + 1 + zlen B + - (zlen cc + 1 + zlen B + 1) + 1) with (pc + 1) in Hjmp by lia.
            pose proof (IHn env2 (junk2 ++ junk) h2 (counted j2) Henv2 ltac:(rewrite zlen_app; lia)) as Y.
            rewrite <- app_assoc in Y.
            assert (Hpre1 : stepsK (M (pc + 1) (junk ++ live) lb' h0 j0) (M (pc + 1) (junk2 ++ junk ++ live) lb' h2 (counted j2))).
            { eapply stepsK_trans; [exact Hst0|]. eapply stepsK_trans; [exact Hj|]. eapply stepsK_trans; [exact Hst1|].
              apply steps_stepsK; exact Hjmp. }
            destruct (dloop (e_cfg E) fuel c s n env2) as [v3 env3|env3|env3|k env3| |w]; try exact Y.
            * destruct Y as [Hv3 [h3 [j3 [Hst3 [Henv3 Hle3]]]]]. split; [exact Hv3|]. exists h3, j3. splits; auto.
              -- eapply stepsK_trans; eassumption.
              -- eapply heap_le_trans; [exact Hle0|]. eapply heap_le_trans; eassumption.
            * eapply stepsK_failsR; eassumption.
          + (* break *)
            destruct IHb as [h2 [j2 [stk [Hst1 [Henv2 [Hle2 [[junkb Hb] Hz]]]]]]]. subst stk.
            rewrite !zlen_app in Hz.
            replace (pc + 1 + zlen cc + 1 + zlen B + 1) with X in Hst1 by reflexivity.
            assert (Hlt : zlen (junkb ++ live) < 1000). { rewrite zlen_app. lia. }
            destruct ((old step_blockpop_lower') X junkb live (ifb ++ lb) h2 j2 Hpc5 Hn5 Hlt) as [j3 Hpop].
            split; [reflexivity|]. exists h2, j3. splits; auto.
            * eapply stepsK_trans; [exact Hst0|]. eapply stepsK_trans; [exact Hj|]. eapply stepsK_trans; eassumption.
            * eapply heap_le_trans; eassumption.
          + (* continue *)
            destruct IHb as [h2 [j2 [stk [Hst1 [Henv2 [Hle2 [[junkc Hc] Hz]]]]]]]. subst stk.
            unfold cont_top in Hz. fold wl in Hz. rewrite !zlen_app in Hz.
            replace (pc + 1 + zlen cc + 1 - (zlen cc + 1)) with (pc + 1) in Hst1 by lia.
            pose proof (IHn env2 junkc h2 j2 Henv2 ltac:(lia)) as Y.
            assert (Hpre1 : stepsK (M (pc + 1) (junk ++ live) lb' h0 j0) (M (pc + 1) (junkc ++ live) lb' h2 j2)).
            { eapply stepsK_trans; [exact Hst0|]. eapply stepsK_trans; [exact Hj|]. exact Hst1. }
            destruct (dloop (e_cfg E) fuel c s n env2) as [v3 env3|env3|env3|k env3| |w]; try exact Y.
            * destruct Y as [Hv3 [h3 [j3 [Hst3 [Henv3 Hle3]]]]]. split; [exact Hv3|]. exists h3, j3. splits; auto.
              -- eapply stepsK_trans; eassumption.
              -- eapply heap_le_trans; [exact Hle0|]. eapply heap_le_trans; eassumption.
            * eapply stepsK_failsR; eassumption.
          + (* error in the body *)
            eapply stepsK_failsR; [exact Hst0|]. eapply stepsK_failsR; eassumption.
        - (* the condition is false: leave through block.pop *)
          replace (pc + 1 + zlen cc + (zlen B + 1) + 1) with X in Hj by (unfold X; lia).
          destruct ((old step_blockpop_lower') X junk live (ifb ++ lb) h1 jj Hpc5 Hn5 ltac:(rewrite zlen_app; lia)) as [j3 Hpop].
          split; [reflexivity|]. exists h1, j3. splits; auto.
          eapply stepsK_trans; [exact Hst0|]. eapply stepsK_trans; eassumption. }
      pose proof ((old step_blockpush) pc live (ifb ++ lb) h j Hpc0 Hn0 ltac:(lia) ltac:(lia)) as Hbp. fold lb' in Hbp.
      pose proof (Hloop fuel env [] h (counted j) Henv ltac:(rewrite zlen_nil; fold N; lia)) as Y. cbn [app] in Y.
      assert (Hend : pc + zlen (I OpBlockPush ONil :: cc ++ I OpJne (OInt (zlen B + 1)) :: B ++
                                  [I OpJmp (OInt (- (zlen cc + 1 + zlen B + 1))); I OpBlockPop ONil]) = X + 1)
        by (unfold X; pcfix).
      cbn [app]. rewrite HB, Hend.
      destruct (dloop (e_cfg E) fuel c s fuel env) as [v3 env3|env3|env3|k env3| |w]; try exact Logic.I; try contradiction.
      + destruct Y as [-> [h3 [j3 [Hst3 [Henv3 Hle3]]]]]. exists h3, j3, [VNull]. cbn [app]. splits; auto.
        * eapply stepsK_trans; [apply steps_stepsK; exact Hbp|exact Hst3].
        * rewrite zlen_cons, zlen_nil. lia.
        * exists VNull, []. split; [reflexivity|constructor].
      + eapply stepsK_failsR; [apply steps_stepsK; exact Hbp|exact Y].
    - (* SBreak *)
      cbn [dstmt compile_stmt wleaves dwneed] in *. destruct Hpre as [pre Hpre]. subst d.
      assert (Hl : zlen live <= 999) by lia.
      assert (Ha : match ifb with [] => True | a :: _ => a <= 998 end).
      { destruct ifb as [|a r]; [exact Logic.I|]. destruct Hhead as [Hh _]. lia. }
      destruct ((old pops_correct) ifb lb base [I OpJmp (OInt ao)] pre live j pc h Hat Hpre Hdesc Hhead Hl Ha) as [j1 [junk [Hst Hz]]].
      assert (Hz2 : zlen (junk ++ base) <= zlen live + 2).
      { rewrite Hz. destruct ifb as [|a r]; [lia|]. pose proof (desc_last _ _ _ Hdesc). destruct Hhead as [Hh _]. lia. }
      destruct (code_at_head _ _ _ _ (code_at_app_r _ _ _ _ Hat)) as [Hpc Hn].
      pose proof ((old step_jmp) (pc + zlen (pops (length ifb))) (junk ++ base) lb h j1 ao Hpc Hn ltac:(lia)) as Hj.
      exists h, (counted j1), (junk ++ base). splits; auto using heap_le_refl.
      + replace (pc + zlen (pops (length ifb) ++ [I OpJmp (OInt ao)]) + ao) with (pc + zlen (pops (length ifb)) + ao + 1) by pcfix.
        eapply stepsK_trans; [exact Hst|apply steps_stepsK; exact Hj].
      + exists junk; reflexivity.
    - (* SContinue *)
      cbn [dstmt compile_stmt wleaves dwneed] in *. destruct Hpre as [pre Hpre]. subst d.
      assert (Hl : zlen live <= 999) by lia.
      assert (Ha : match ifb with [] => True | a :: _ => a <= 998 end).
      { destruct ifb as [|a r]; [exact Logic.I|]. destruct Hhead as [Hh _]. lia. }
      destruct ((old pops_correct) ifb lb base _ pre live j pc h Hat Hpre Hdesc Hhead Hl Ha) as [j1 [junk [Hst Hz]]].
      assert (Hz2 : zlen (junk ++ base) <= zlen live + 2).
      { rewrite Hz. destruct ifb as [|a r]; [lia|]. pose proof (desc_last _ _ _ Hdesc). destruct Hhead as [Hh _]. lia. }
      destruct (code_at_head _ _ _ _ (code_at_app_r _ _ _ _ Hat)) as [Hpc Hn].
      pose proof ((old step_jmp) (pc + zlen (pops (length ifb))) (junk ++ base) lb h j1 _ Hpc Hn ltac:(lia)) as Hj.
      exists h, (counted j1), (junk ++ base). splits; auto using heap_le_refl.
      + replace (pc - bo) with (pc + zlen (pops (length ifb)) + - (bo + Z.of_nat (length ifb) + 1) + 1)
          by (unfold pops; rewrite zlen_repeat; lia).
        eapply stepsK_trans; [exact Hst|apply steps_stepsK; exact Hj].
      + exists junk; reflexivity.
      + unfold cont_top. rewrite Hz. destruct ifb; cbn [wleaves]; lia.
  Qed.
End RunDS.

(* ------------------------------------------------------------------ whole programs *)
(* Every statement of Model/Ast.v (while / break / continue included) and EVERY expression, dice terms included.
   Same shape as CompileArrays.compile_correct_loops (`prog_post_arr`): the final state is again related to the final
   environment, so the statement composes over histories of programs on one VM, including after failed ones.
   For a program that reaches a dice term the definition gives a value / an error exactly under min or max mode
   (`DUnsup "random dice"` otherwise), so that is where the theorem says something about dice. *)
Theorem compile_correct_dice_loops_stable : forall p fuel, dice_stmt p -> dwneed (Z.of_nat fuel) p <= 999 -> wbneed p <= 20 ->
  forall cfg ftab env src st,
    cfg_op_limit cfg = 0 -> erel (vs_heap st) env (vars_of_state st) ->
    prog_post_arr cfg ftab fuel p env src st.
Proof.
  intros p fuel Hcore Hsn Hbn cfg ftab env src st Hlim Henv. unfold prog_post_arr, denote.
  set (E := {| e_ftab := ftab; e_cfg := cfg |}).
  set (prog := compile p).
  set (j0 := {| v_dead := []; v_last := LNone; v_details := []; v_ops := 0 |}).
  set (wod0 := {| w_pool := 0; w_points := 0; w_threshold := 0; w_isge := false |}).
  set (dc0 := {| c_pool := 0; c_points := 0 |}).
  assert (Hat : code_at prog 0 (compile_stmt 0 0 0 p)).
  { exists [], [I OpHalt ONil]. split; reflexivity. }
  pose proof (gstmt_correctD E Hlim prog [] wod0 dc0 (Some src) (vs_pcg st) [] (vs_attrs st) p Hcore 0%nat 0 0 [] [] [] fuel env 0 []
                            (vs_heap st) j0 Hat Henv) as H.
  specialize (H ltac:(rewrite zlen_nil; lia) ltac:(cbn [app]; rewrite zlen_nil; lia) eq_refl (ex_intro _ [] eq_refl) Logic.I Logic.I).
  unfold gpostD in H. cbn [app] in H.
  change (e_cfg E) with cfg in H.
  assert (Hrun : forall f, run f E prog src st =
                           match exec f E (M prog [] wod0 dc0 (Some src) (vs_pcg st) [] (vs_attrs st) 0 [] [] (vs_heap st) j0) with
                           | Fin m => Val (match fr_live (m_fr m) with v :: _ => v | [] => VNull end) (state_of m)
                           | Fail e m => Err e (state_of m)
                           | Panic s => OPanic s
                           | OutOfFuel => OOutOfFuel
                           | Unsupported s => OUnsupported s
                           end) by (intros; reflexivity).
  destruct (dstmt cfg fuel p env) as [v env1|e1|e1|c env1| |w]; try exact Logic.I.
  - destruct H as [h1 [j1 [junk [[n [K Hst]] [Henv1 [Hle [Hl Hv]]]]]]].
    assert (Hhalt : nth_error prog (Z.to_nat (0 + zlen (compile_stmt 0 0 0 p))) = Some (I OpHalt ONil)).
    { unfold prog, compile. rewrite Z.add_0_l. apply nth_error_mid. }
    pose proof (wleaves_le_dwneed (Z.of_nat fuel) p ltac:(lia)) as Hls. pose proof (zlen_nonneg _ (compile_stmt 0 0 0 p)) as Hnn.
    assert (Hne : zlen (junk ++ []) <> stack_size) by (rewrite zlen_app, zlen_nil; unfold stack_size; lia).
    assert (Hpc : 0 <= 0 + zlen (compile_stmt 0 0 0 p)) by lia.
    exists (n + S K)%nat. eexists. eexists. split; [|split; [|split; [|split]]].
    + intros fuel' Hf. replace fuel' with (n + S (fuel' - n - 1))%nat by lia.
      rewrite Hrun, (Hst (fuel' - n - 1)%nat ltac:(lia)).
      rewrite (exec_S E Hlim prog [] wod0 dc0 (Some src) (vs_pcg st) [] (vs_attrs st) _ _ _ _ _ _ _ Hpc Hhalt Hne).
      cbn [step i_op]. reflexivity.
    + cbn [CompileProofs.M m_fr fr_live state_of m_w w_heap vs_heap]. destruct v as [x|].
      * destruct Hv as [vx [junk' [-> Hx]]]. exact Hx.
      * destruct Hv as [-> _]. constructor.
    + exact Henv1.
    + reflexivity.
    + exact Hle.
  - destruct H as [n [K [m' [Hf Hv]]]].
    exists (n + S K)%nat, (state_of m'). split; [|exact Hv].
    intros fuel' Hfu. replace fuel' with (n + S (fuel' - n - 1))%nat by lia.
    rewrite Hrun, (Hf (fuel' - n - 1)%nat ltac:(lia)). reflexivity.
Qed.

Theorem compile_correct_dice_loops : forall p fuel, dice_stmt p -> dwneed (Z.of_nat fuel) p <= 999 -> wbneed p <= 20 ->
  forall cfg ftab env src st,
    cfg_op_limit cfg = 0 -> erel (vs_heap st) env (vars_of_state st) ->
    match denote fuel cfg p env with
    | DVal v env' =>
      exists fuel' st' vv, run fuel' {| e_ftab := ftab; e_cfg := cfg |} (compile p) src st = Val vv st'
                           /\ arel (vs_heap st') v vv /\ erel (vs_heap st') env' (vars_of_state st')
                           /\ vs_attrs st' = vs_attrs st /\ heap_le (vs_heap st) (vs_heap st')
    | DErr c env' =>
      exists fuel' st', run fuel' {| e_ftab := ftab; e_cfg := cfg |} (compile p) src st = Err c st'
                        /\ erel (vs_heap st') env' (vars_of_state st')
    | DOutOfFuel | DUnsup _ => True
    end.
Proof.
  intros p fuel Hcore Hsn Hbn cfg ftab env src st Hlim Henv.
  pose proof (compile_correct_dice_loops_stable p fuel Hcore Hsn Hbn cfg ftab env src st Hlim Henv) as H.
  unfold prog_post_arr in H. destruct (denote fuel cfg p env) as [v env'|c env'| |w]; try exact Logic.I.
  - destruct H as [fuel0 [st' [vv [Hr Hrest]]]]. exists fuel0, st', vv. split; [apply Hr; lia|exact Hrest].
  - destruct H as [fuel0 [st' [Hr Hrest]]]. exists fuel0, st'. split; [apply Hr; lia|exact Hrest].
Qed.

(* ---- expressions, stated in full: executing `compile_expr e` inside a larger program, on a machine whose dice-state
   stack `dice` is ARBITRARY, pushes a value related to the definition's value, leaves related variables AND THE SAME
   dice-state stack; an error of the definition is a VM error of the same class with related variables. *)
Theorem compile_correct_dice_expr :
  forall (E : env), cfg_op_limit (e_cfg E) = 0 ->
  forall prog wod dc src pcg0 st0 attrs e, dice_expr e ->
  forall dice env pc live blocks h j,
    code_at prog pc (compile_expr e) -> erel h env (get_map attrs h) -> zlen live + dneed e <= 999 ->
    match dexpr (e_cfg E) e env with
    | EV v env' =>
      exists vv h' j', stepsK E (M prog dice wod dc src pcg0 st0 attrs pc live blocks h j)
                                (M prog dice wod dc src pcg0 st0 attrs (pc + zlen (compile_expr e)) (vv :: live) blocks h' j')
                       /\ arel h' v vv /\ erel h' env' (get_map attrs h') /\ heap_le h h'
    | EE c env' => failsR E (M prog dice wod dc src pcg0 st0 attrs pc live blocks h j) c env'
    | EU _ => True
    end.
Proof.
  intros E Hlim prog wod dc src pcg0 st0 attrs e He dice env pc live blocks h j Hat Henv Hneed.
  exact (expr_correctD E Hlim prog wod dc src pcg0 st0 attrs e dice He env pc live blocks h j Hat Henv Hneed).
Qed.

(* a dice term has a value only under min / max mode *)
Lemma dexpr_roll_value_mode : forall cfg x y env v env', dexpr cfg (ERoll x y) env = EV v env' -> roll_mode cfg <> 0.
Proof.
  intros cfg x y env v env' H Hm. rewrite dexpr_roll in H.
  destruct (dexpr cfg x env) as [[t| | |] env1| |]; try discriminate.
  destruct (t <=? 0); try discriminate.
  destruct (dexpr cfg y env1) as [b env2| |]; try discriminate.
  unfold roll_sem, dice_sem in H. rewrite Hm in H. cbn [Z.eqb] in H.
  destruct b as [s| | |]; try discriminate. destruct (s <=? 0); discriminate.
Qed.
(* and then it is times * 1 resp. times * sides, summed with int64 wrapping (DiceProofs.roll_common_min / _max) *)

(* the theorem of CompileArrays is the special case without dice terms *)
Corollary compile_correct_loops_from_dice : forall p fuel, loop_stmt p -> wneed (Z.of_nat fuel) p <= 999 -> wbneed p <= 20 ->
  forall cfg ftab env src st,
    cfg_op_limit cfg = 0 -> erel (vs_heap st) env (vars_of_state st) ->
    prog_post_arr cfg ftab fuel p env src st.
Proof.
  intros p fuel Hp Hn Hb cfg ftab env src st Hlim Henv.
  apply compile_correct_dice_loops_stable; auto using loop_dice_stmt.
  rewrite dwneed_loop_stmt by exact Hp. exact Hn.
Qed.

(* ------------------------------------------------------------------ non-vacuity *)
Definition cfg_max : config :=
  {| cfg_ignore_div0 := false; cfg_min_mode := false; cfg_max_mode := true; cfg_op_limit := 0;
     cfg_def_expr_empty := true; cfg_st_callback := false |}.
Definition cfg_min : config :=
  {| cfg_ignore_div0 := false; cfg_min_mode := true; cfg_max_mode := false; cfg_op_limit := 0;
     cfg_def_expr_empty := true; cfg_st_callback := false |}.

(* x = 2d6 + 3d(1+1) ; [1d4, 2d(3d2), x]  — nested dice, dice inside an array literal *)
Definition example_dice : stmt :=
  SSeq (SExpr (EAssign "x" (EBin BAdd (ERoll (EInt 2) (EInt 6)) (ERoll (EInt 3) (EBin BAdd (EInt 1) (EInt 1))))))
       (SExpr (EArr [ERoll (EInt 1) (EInt 4); ERoll (EInt 2) (ERoll (EInt 3) (EInt 2)); EVar "x"])).
Example example_dice_ok :
  dice_stmt example_dice /\ dwneed 0 example_dice <= 999 /\ wbneed example_dice <= 20 /\
  denote 0 cfg_max example_dice [] = DVal (DvArr [DvInt 4; DvInt 12; DvInt 18]) [("x"%string, DvInt 18)] /\
  denote 0 cfg_min example_dice [] = DVal (DvArr [DvInt 1; DvInt 2; DvInt 5]) [("x"%string, DvInt 5)] /\
  denote 0 cfg0 example_dice [] = DUnsup "random dice".
Proof. repeat split; vm_compute; try reflexivity; discriminate. Qed.

(* the theorem applied: under max mode the VM returns [4, 12, 18] and leaves x = 18 *)
Example example_dice_run_max :
  exists fuel' st' vv, run fuel' {| e_ftab := []; e_cfg := cfg_max |} (compile example_dice) "" st_init = Val vv st'
                       /\ arel (vs_heap st') (DvArr [DvInt 4; DvInt 12; DvInt 18]) vv
                       /\ erel (vs_heap st') [("x"%string, DvInt 18)] (vars_of_state st').
Proof.
  destruct example_dice_ok as [H1 [H2 [H3 [H4 _]]]].
  pose proof (compile_correct_dice_loops example_dice 0%nat H1 H2 H3 cfg_max [] [] ""%string st_init eq_refl erel_init) as X.
  rewrite H4 in X. destruct X as [f [st' [vv [Hr [Hv [He _]]]]]]. exists f, st', vv. repeat split; assumption.
Qed.
Example example_dice_run_min :
  exists fuel' st' vv, run fuel' {| e_ftab := []; e_cfg := cfg_min |} (compile example_dice) "" st_init = Val vv st'
                       /\ arel (vs_heap st') (DvArr [DvInt 1; DvInt 2; DvInt 5]) vv.
Proof.
  destruct example_dice_ok as [H1 [H2 [H3 [_ [H4 _]]]]].
  pose proof (compile_correct_dice_loops example_dice 0%nat H1 H2 H3 cfg_min [] [] ""%string st_init eq_refl erel_init) as X.
  rewrite H4 in X. destruct X as [f [st' [vv [Hr [Hv _]]]]]. exists f, st', vv. split; assumption.
Qed.

(* i = 0 ; while i < 3 { i = i + 1d1 } ; i * 10d(2d5)  — dice in a loop body, nested dice after the loop *)
Definition example_dice_loop : stmt :=
  SSeq (SExpr (EAssign "i" (EInt 0)))
  (SSeq (SWhile (EBin BLt (EVar "i") (EInt 3)) (SExpr (EAssign "i" (EBin BAdd (EVar "i") (ERoll (EInt 1) (EInt 1))))))
        (SExpr (EBin BMul (EVar "i") (ERoll (EInt 10) (ERoll (EInt 2) (EInt 5)))))).
Example example_dice_loop_ok :
  dice_stmt example_dice_loop /\ dwneed (Z.of_nat 5) example_dice_loop <= 999 /\ wbneed example_dice_loop <= 20 /\
  denote 5 cfg_max example_dice_loop [] = DVal (DvInt 300) [("i"%string, DvInt 3)].
Proof. repeat split; vm_compute; try reflexivity; discriminate. Qed.
Example example_dice_loop_run :
  exists fuel' st', run fuel' {| e_ftab := []; e_cfg := cfg_max |} (compile example_dice_loop) "" st_init = Val (VInt 300) st'.
Proof.
  destruct example_dice_loop_ok as [H1 [H2 [H3 H4]]].
  pose proof (compile_correct_dice_loops example_dice_loop 5%nat H1 H2 H3 cfg_max [] [] ""%string st_init eq_refl erel_init) as X.
  rewrite H4 in X. destruct X as [f [st' [vv [Hr [Hv _]]]]]. inversion Hv; subst. exists f, st'. exact Hr.
Qed.

(* errors: the first operand is checked BEFORE the second one is evaluated (a stays 5); the second one after it was
   evaluated (a becomes 2); a non-int operand is the same "illegal dice parameter" *)
Definition example_dice_err1 : stmt := SSeq (SExpr (EAssign "a" (EInt 5))) (SExpr (ERoll (EInt 0) (EAssign "a" (EInt 6)))).
Definition example_dice_err2 : stmt := SSeq (SExpr (EAssign "a" (EInt 5))) (SExpr (ERoll (EAssign "a" (EInt 2)) (EStr "x"))).
Example example_dice_err_ok :
  dice_stmt example_dice_err1 /\ dwneed 0 example_dice_err1 <= 999 /\ wbneed example_dice_err1 <= 20 /\
  dice_stmt example_dice_err2 /\ dwneed 0 example_dice_err2 <= 999 /\ wbneed example_dice_err2 <= 20 /\
  denote 0 cfg_max example_dice_err1 [] = DErr EDice [("a"%string, DvInt 5)] /\
  denote 0 cfg_max example_dice_err2 [] = DErr EDice [("a"%string, DvInt 2)].
Proof. repeat split; vm_compute; try reflexivity; discriminate. Qed.
Example example_dice_err_run :
  (exists fuel' st', run fuel' {| e_ftab := []; e_cfg := cfg_max |} (compile example_dice_err1) "" st_init = Err EDice st'
                     /\ erel (vs_heap st') [("a"%string, DvInt 5)] (vars_of_state st')) /\
  (exists fuel' st', run fuel' {| e_ftab := []; e_cfg := cfg_max |} (compile example_dice_err2) "" st_init = Err EDice st'
                     /\ erel (vs_heap st') [("a"%string, DvInt 2)] (vars_of_state st')).
Proof.
  destruct example_dice_err_ok as [A1 [A2 [A3 [B1 [B2 [B3 [D1 D2]]]]]]]. split.
  - pose proof (compile_correct_dice_loops example_dice_err1 0%nat A1 A2 A3 cfg_max [] [] ""%string st_init eq_refl erel_init) as X.
    rewrite D1 in X. exact X.
  - pose proof (compile_correct_dice_loops example_dice_err2 0%nat B1 B2 B3 cfg_max [] [] ""%string st_init eq_refl erel_init) as X.
    rewrite D2 in X. exact X.
Qed.

Print Assumptions compile_correct_dice_expr.
Print Assumptions compile_correct_dice_loops_stable.
Print Assumptions compile_correct_dice_loops.
Print Assumptions compile_correct_loops_from_dice.
Print Assumptions example_dice_run_max.
Print Assumptions example_dice_loop_run.
Print Assumptions example_dice_err_run.
