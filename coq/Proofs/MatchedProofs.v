From Coq Require Import NArith List Bool Arith Lia.
From DS Require Import Model.Matched.
Import ListNotations.

Lemma decode_l_size_le l : (snd (decode_l l) <= length l)%nat.
Proof.
  unfold decode_l. destruct l as [|b0 r]; cbn [snd length]; [lia|].
  destruct (b0 <? 128)%N; cbn [snd]; [lia|].
  destruct (b0 <? 194)%N; cbn [snd]; [lia|].
  destruct (b0 <? 224)%N.
  { destruct r as [|b1 r]; cbn [snd length]; [lia|]. destruct (contb b1); cbn [snd]; lia. }
  destruct (b0 <? 240)%N.
  { destruct r as [|b1 [|b2 r]]; cbn [snd length]; try lia.
    destruct (_ && _ && _); cbn [snd]; lia. }
  destruct (b0 <? 245)%N.
  { destruct r as [|b1 [|b2 [|b3 r]]]; cbn [snd length]; try lia.
    destruct (_ && _ && _ && _); cbn [snd]; lia. }
  cbn [snd]; lia.
Qed.

Lemma decode_last_size_le l : (snd (decode_last l) <= length l)%nat.
Proof.
  unfold decode_last. destruct (length l) as [|s0] eqn:E; cbn [snd]; [lia|].
  destruct (nth s0 l 0%N <? 128)%N; cbn [snd]; [lia|].
  match goal with |- context [decode_l ?x] => destruct (decode_l x) as [r size] end.
  match goal with |- context [if ?c then _ else _] => destruct c eqn:Ec end; cbn [snd]; [|lia].
  apply Nat.eqb_eq in Ec. lia.
Qed.

Lemma trim_len_le fuel : forall l, (trim_len fuel l <= length l)%nat.
Proof.
  induction fuel as [|f IH]; intros l; cbn [trim_len]; [lia|].
  destruct (decode_last l) as [r size] eqn:E. destruct size as [|sz]; [lia|].
  destruct (is_space r); [|lia].
  specialize (IH (firstn (length l - S sz) l)). rewrite firstn_length in IH. lia.
Qed.

(* the kept part is a prefix of the original *)
Lemma trim_len_prefix fuel : forall l, firstn (trim_len fuel l) l = firstn (trim_len fuel l) l.
Proof. reflexivity. Qed.

Lemma firstn_firstn_min (A : Type) (l : list A) a b : firstn a (firstn b l) = firstn (Nat.min a b) l.
Proof. apply firstn_firstn. Qed.

Lemma firstn_firstn_le (A : Type) (l : list A) a b : (a <= b)%nat -> firstn a (firstn b l) = firstn a l.
Proof. intros H. rewrite firstn_firstn. f_equal. lia. Qed.

Lemma matched_is_prefix input offset :
  exists k, (k <= offset)%nat /\ (k <= length input)%nat /\ matched input offset = firstn k input.
Proof.
  unfold matched, rtrim.
  remember (firstn offset input) as p eqn:Ep.
  pose proof (trim_len_le (S (length p)) p) as Hk.
  remember (trim_len (S (length p)) p) as k eqn:Ek.
  exists k.
  assert (Hp : (length p <= offset)%nat /\ (length p <= length input)%nat).
  { subst p. rewrite firstn_length. lia. }
  split; [lia|]. split; [lia|].
  subst p. rewrite firstn_length in Hk.
  destruct (Nat.le_ge_cases offset (length input)) as [H|H].
  - apply firstn_firstn_le. lia.
  - rewrite (firstn_all2 (n:=offset)) by lia. reflexivity.
Qed.

(* Matched followed by RestInput is exactly the input *)
Theorem matched_rest_split input offset : matched input offset ++ rest input offset = input.
Proof.
  unfold rest. destruct (matched_is_prefix input offset) as [k [Hk [Hl E]]].
  rewrite E. rewrite firstn_length. replace (Nat.min k (length input)) with k by lia.
  apply firstn_skipn.
Qed.

Theorem matched_length_le_offset input offset : (length (matched input offset) <= offset)%nat.
Proof.
  destruct (matched_is_prefix input offset) as [k [Hk [Hl E]]]. rewrite E, firstn_length. lia.
Qed.

(* trimming leaves no trailing white-space rune *)
Lemma trim_len_fixed fuel : forall l, (length l < fuel)%nat ->
  let k := trim_len fuel l in
  let '(r, size) := decode_last (firstn k l) in size = 0%nat \/ is_space r = false.
Proof.
  induction fuel as [|f IH]; intros l Hf; [lia|]. cbn [trim_len].
  destruct (decode_last l) as [r size] eqn:E. destruct size as [|sz].
  - rewrite firstn_all. rewrite E. left; reflexivity.
  - destruct (is_space r) eqn:Es.
    + set (l' := firstn (length l - S sz) l).
      assert (Hl' : (length l' < f)%nat).
      { unfold l'. rewrite firstn_length. pose proof (decode_last_size_le l) as H. rewrite E in H. cbn in H. lia. }
      specialize (IH l' Hl'). cbn zeta in IH.
      pose proof (trim_len_le f l') as Hle.
      assert (Eq : firstn (trim_len f l') l = firstn (trim_len f l') l').
      { unfold l'. rewrite firstn_firstn. f_equal. unfold l' in Hle. rewrite firstn_length in Hle. lia. }
      rewrite Eq. exact IH.
    + rewrite firstn_all. rewrite E. right; exact Es.
Qed.

Theorem matched_has_no_trailing_space input offset :
  let '(r, size) := decode_last (matched input offset) in size = 0%nat \/ is_space r = false.
Proof.
  unfold matched, rtrim. apply trim_len_fixed. lia.
Qed.

(* evaluating Matched alone: its own trimmed form is itself (idempotence of the trim) *)
Theorem rtrim_idempotent l : rtrim (rtrim l) = rtrim l.
Proof.
  unfold rtrim at 1. set (m := rtrim l).
  pose proof (trim_len_fixed (S (length l)) l ltac:(lia)) as H. cbn zeta in H. fold (rtrim l) in H. fold m in H.
  assert (E : trim_len (S (length m)) m = length m).
  { cbn [trim_len]. destruct (decode_last m) as [r size]. destruct size as [|sz]; [reflexivity|].
    destruct H as [H|H]; [discriminate|]. rewrite H. reflexivity. }
  rewrite E. apply firstn_all.
Qed.
