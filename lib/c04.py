"""C04 — every dice outcome is legal and equals what its displayed dice imply."""
import json
import re

import common
import dicecases
from common import Broken

LEVEL = "proof"
MAXI = (1 << 63) - 1


def clamp(x, dmin, dmax):
    if dmax is not None and x > int(dmax):
        x = int(dmax)
    if dmin is not None and x < int(dmin):
        x = int(dmin)
    return x


def rule_common(r):
    """The game rule evaluated on what is displayed. Returns None if fine, else a reason."""
    times, sides, keep, low, high = map(int, r["args"])
    total, text, mode = int(r["out"][0]), r["text"], r["mode"]
    if times < 0 or sides <= 0 or sides > MAXI - 1:
        return None  # outside the legal domain of the rule (the VM rejects these)
    pick = times
    if keep:
        pick = low if keep in (1, 3) else high
        if keep > 2:
            pick = times - pick
        pick = max(0, min(times, pick))
    if text.startswith("{"):
        body = text[1:-1]
        toks = body.split(" ") if body else []
        bar = toks.index("|") if "|" in toks else None
        dice = [int(t) for t in toks if t != "|"]
        if bar is None:
            return "bar missing in braces form"
        if bar != pick:
            return f"bar at {bar}, rule keeps {pick}"
    else:
        dice = [int(t) for t in re.findall(r"-?\d+", text)] if text else []
        # a+b+c form: numbers joined by '+', negative numbers appear as +-n
        dice = [int(t) for t in text.split("+")] if text else []
        if pick != times:
            return "plain form although not all dice are kept"
    if len(dice) != times:
        return f"{len(dice)} dice shown, rule rolls {times}"
    lo_face, hi_face = clamp(1, r["dmin"], r["dmax"]), clamp(sides, r["dmin"], r["dmax"])
    for d in dice:
        ok = any(True for _ in [0] if min(lo_face, hi_face) <= d <= max(lo_face, hi_face))
        if not ok:
            return f"die {d} outside clamp range [{lo_face},{hi_face}]"
    if keep in (1, 4) and dice != sorted(dice):
        return "dice not sorted ascending"
    if keep in (2, 3) and dice != sorted(dice, reverse=True):
        return "dice not sorted descending"
    if abs(sum(dice)) < (1 << 62) and total != sum(dice[:pick]):
        return f"total {total} != sum of the {pick} kept dice {sum(dice[:pick])}"
    if mode == -1 and any(d != lo_face for d in dice):
        return "min mode die not at lowest face"
    if mode == 1 and any(d != hi_face for d in dice):
        return "max mode die not at highest face"
    return None


def coc_val(t, u):
    return 100 if t == 0 and u == 0 else 10 * t + u


def rule_coc(r):
    n, total = int(r["args"][0]), int(r["out"][0])
    m = re.fullmatch(r"\(D100=(\d+),(奖励|惩罚)([\d ]*)\)", r["text"])
    if not m:
        return "text does not parse"
    res = int(m.group(1))
    digits = [int(x) for x in m.group(3).split(" ") if x != ""]
    bonus = m.group(2) == "奖励"
    if bonus != r["flag"]:
        return "bonus/penalty word mismatch"
    if n >= 0 and len(digits) != n:
        return f"{len(digits)} tens dice shown, rule rolls {n}"
    if not (1 <= res <= 100) or any(not (0 <= d <= 9) for d in digits):
        return "die out of range"
    u, t0 = res % 10, (res // 10) % 10
    cands = [coc_val(t0, u)] + [coc_val(d, u) for d in digits]
    want = min(cands) if bonus else max(cands)
    if total != want:
        return f"total {total}, rule gives {want}"
    return None


def rule_fate(r):
    total, text = int(r["out"][0]), r["text"]
    if len(text) != 4 or any(c not in "+-0" for c in text):
        return "not four fate symbols"
    if total != text.count("+") - text.count("-"):
        return "sum mismatch"
    return None


def parse_rounds(text):
    return [[tok for tok in grp.split(",")] for grp in re.findall(r"\{([^}]*)\}", text)]


def rule_wod(r):
    addline, pool, points, thr = map(int, r["args"])
    succ, allc, rounds = map(int, r["out"])
    if not (1 <= pool <= 20000 and (addline == 0 or addline >= 2) and points >= 1 and thr >= 1):
        return None
    m = re.match(r"成功(-?\d+)/(-?\d+)( 轮数:(\d+))?", r["text"])
    if not m or int(m.group(1)) != succ or int(m.group(2)) != allc:
        return "header does not carry the returned counters"
    if (m.group(4) is None) != (rounds == 1) or (m.group(4) and int(m.group(4)) != rounds):
        return "round count in text differs"
    rs = parse_rounds(r["text"])
    shown = pool < 15 and allc <= 100
    if not shown:
        return None if not rs else "details shown although suppressed by the rule"
    if len(rs) != rounds:
        return f"{len(rs)} rounds displayed, {rounds} reported"
    expect, s_cnt, total = pool, 0, 0
    for ri, grp in enumerate(rs):
        if len(grp) != expect:
            return f"round {ri + 1} shows {len(grp)} dice, rule rolls {expect}"
        nxt = 0
        for tok in grp:
            mm = re.fullmatch(r"(<)?(\d+)(\*)?(>)?", tok)
            if not mm:
                return "die token does not parse: " + tok
            v = int(mm.group(2))
            if not (1 <= v <= points):
                return f"die {v} outside 1..{points}"
            is_s = v >= thr if r["flag"] else v <= thr
            is_a = addline != 0 and v >= addline
            if bool(mm.group(3)) != is_s or bool(mm.group(1)) != is_a or bool(mm.group(4)) != is_a:
                return f"marks on die {tok} do not follow the rule"
            s_cnt += is_s
            nxt += is_a
            total += 1
        expect = nxt
    if expect != 0:
        return "last displayed round still has exploding dice"
    if s_cnt != succ or total != allc:
        return f"successes/total recomputed from dice = {s_cnt}/{total}, reported {succ}/{allc}"
    return None


def rule_dc(r):
    addline, pool, points = map(int, r["args"])
    result, allc, rounds = map(int, r["out"])
    if not (1 <= pool <= 20000 and addline >= 2 and points >= 1):
        return None
    m = re.match(r"(大失败 )?出目(-?\d+)/(-?\d+)( 轮数:(\d+))?", r["text"])
    if not m or int(m.group(2)) != result or int(m.group(3)) != allc:
        return "header does not carry the returned counters"
    if bool(m.group(1)) != (result == 1):
        return "fumble word wrong"
    rs = parse_rounds(r["text"])
    if not (pool < 15 and allc <= 100):
        return None if not rs else "details shown although suppressed by the rule"
    if len(rs) != rounds:
        return f"{len(rs)} rounds displayed, {rounds} reported"
    expect, value, total = pool, 0, 0
    order_dependent = False
    for ri, grp in enumerate(rs):
        if len(grp) != expect:
            return f"round {ri + 1} shows {len(grp)} dice, rule rolls {expect}"
        vals, crit = [], 0
        for tok in grp:
            mm = re.fullmatch(r"(<)?(\d+)(>)?", tok)
            if not mm:
                return "die token does not parse: " + tok
            v = int(mm.group(2))
            if not (1 <= v <= points):
                return f"die {v} outside 1..{points}"
            is_a = v >= addline
            if bool(mm.group(1)) != is_a:
                return "critical mark wrong"
            crit += is_a
            vals.append(v)
        total += len(vals)
        # documented rule: a round with a critical die counts 10, otherwise its highest die
        value += 10 if crit else max(vals)
        if crit and points > 10 and max(vals) > 10:
            order_dependent = True
        expect = crit
    if expect != 0:
        return "last displayed round still has critical dice"
    if total != allc:
        return "total dice mismatch"
    if value != result:
        return ("KNOWN:dc-order" if order_dependent else f"result {result}, rule gives {value}")
    return None


RULES = {"common": rule_common, "coc": rule_coc, "fate": rule_fate, "wod": rule_wod, "dc": rule_dc}


def terms_of(e, out):
    """dice terms of a c15 expression tree in source order"""
    if e[0] in ("d", "f", "coc"):
        out.append(e)
    for x in e[1:]:
        if isinstance(x, list):
            terms_of(x, out)
    return out


def check_vm_expression(row):
    """Every dice term of a multi-term expression run by the real parser+VM must, on its own displayed dice, follow its own
    parameters (catches state leaking from one term to the next). Returns a reason or None."""
    o = row["m0"]
    if not o.get("ok"):
        return None
    terms = terms_of(row["expr"], [])
    anns = re.findall(r"(-?\d+)\[([^\[\]=]*)=([^\[\]]*)\]", o["detail"])
    if len(anns) != len(terms):
        return None  # an annotation was elided (rule 1.1 / 1.3): nothing to check here
    for t, (val, expr, text) in zip(terms, anns):
        if t[0] == "d":
            pseudo = {"args": [t[1], t[2], t[5], t[6], t[7]], "dmin": None if t[3] is None else str(t[3]), "dmax": None if t[4] is None else str(t[4]),
                      "out": [val], "text": text, "mode": 0, "flag": False}
            why = rule_common(pseudo)
        elif t[0] == "coc":
            pseudo = {"args": [t[2]], "out": [val], "text": text, "flag": bool(t[1]), "mode": 0}
            why = rule_coc(pseudo)
        else:
            pseudo = {"out": [val], "text": text}
            why = rule_fate(pseudo)
        if why:
            return f"term `{expr}` -> {val}[{text}]: {why}"
    return None


def run(res, tier, seed):
    common.build_harness()
    n = 2500 if tier == "quick" else 15000
    rows, _ = common.run_harness(["c04", "-seed", seed, "-n", n, "-modes", "all"], timeout=600)
    vmrows, _ = common.run_harness(["c04-vm", "-seed", seed], timeout=600)
    exprrows, _ = common.run_harness(["c15", "-seed", seed, "-n", 800 if tier == "quick" else 6000], timeout=600)
    # (the rule predicates read the process text of a bare expression: leave out the rows that wrap it in a function / computed value)
    exprrows = [r for r in exprrows if not r.get("wrapped")]
    calls = {}
    for r in rows:
        calls[r["call"]] = calls.get(r["call"], 0) + 1
        res.count(json.dumps([r["call"], r["args"], r["dmin"], r["dmax"], r["flag"], r["mode"], r["hi"], r["lo"]]),
                  nontrivial=(r["call"] != "fate"))
    for r in vmrows:
        res.count("vm:" + r["text"] + str(r["mode"]), nontrivial=not r["legal"])
    res.cov["rule"] = ("direct calls of RollCommon/RollCoC/RollFate/RollWoD/RollDoubleCross on seeded PCG states: a grid "
                       "(times 1..6 x sides {1,2,3,6,10,100} x keep kind x count -1..7 x min/max clamps x 3 modes) plus random parameters incl. "
                       "huge sides; every output checked by the Coq model (exact totals, counters, detail text, generator state) and by the "
                       "game-rule predicate evaluated on the displayed text; plus VM-syntax runs of legal and illegal parameters; "
                       "distinct = distinct (call, parameters, seed); non-trivial = everything except Fate / the illegal-parameter VM cases")
    res.cov["input_distribution"] = {"calls": calls, "vm_cases": len(vmrows), "vm_illegal": sum(1 for r in vmrows if not r["legal"])}
    res.sample(rows[7])
    res.sample(next(r for r in rows if r["call"] == "wod" and "{" in r["text"]))
    res.sample({"text": vmrows[0]["text"], "legal": vmrows[0]["legal"], "err": vmrows[0]["out"].get("err")})
    res.cov["trusted_base"] += [
        "Model/Dice.v is a hand-written model of roll_func.go, tied by exact correspondence (totals, counters, detail text, generator state)",
        "sort.Slice is assumed to sort (the model uses insertion sort; equal integers are indistinguishable)",
        "int64 overflow of totals: the theorems carry an explicit no-overflow hypothesis; the model wraps like Go",
    ]

    # --- property-level search: the rule on the displayed dice, on the real outputs
    found = 0
    known_dc = 0
    for r in rows:
        why = RULES[r["call"]](r)
        if why == "KNOWN:dc-order":
            known_dc += 1
            continue
        if why:
            res.violation({"what": "dice outcome does not follow the game rule: " + why, "case": r})
            found += 1
            if found >= 3:
                break
    for r in exprrows:
        res.count("expr:" + r["text"] + r["hi"], nontrivial=True)
        why = check_vm_expression(r)
        if why and found < 4:
            res.violation({"what": "a dice term inside a larger expression does not follow its own parameters: " + why, "text": r["text"],
                           "seed_state": [r["hi"], r["lo"]], "detail": r["m0"]["detail"], "value": r["m0"].get("str")})
            found += 1
    for r in vmrows:
        o = r["out"]
        if o.get("panic"):
            res.violation({"what": "Go panic on dice parameters", "text": r["text"], "panic": o["panic"]})
            found += 1
        elif not r["legal"] and o["ok"] and o["rest"] == "":
            res.violation({"what": "illegal dice parameter produced a number instead of an error (" + r["why"] + ")",
                           "text": r["text"], "value": o["str"], "mode": r["mode"]})
            found += 1
        elif r["legal"] and not o["ok"]:
            res.violation({"what": "legal dice expression rejected", "text": r["text"], "err": o.get("err")})
            found += 1
        if found >= 4:
            break
    for kf in common.known_for("C04"):
        if kf["key"] == "dc-round-value-order-dependent-when-sides-gt-10":
            # replay: a pool where a non-critical die above 10 follows a critical die
            if known_dc or replay_dc_order():
                res.known(kf["what"])
    if known_dc and not any(k["key"] == "dc-round-value-order-dependent-when-sides-gt-10" for k in common.known_for("C04")):
        res.violation({"what": "Double Cross round value depends on die order (sides > 10)"})

    broken = None
    try:
        info = common.check_property_file("C04")
        res.proof(info, "cd coq && make && coqc -Q . DS Properties/C04.v  (Print Assumptions parsed)")
        bad = dicecases.correspond(common, rows, "c04")
        import c15 as c15mod
        okrows = [r for r in exprrows if r["m-1"]["ok"] and r["m0"]["ok"] and r["m1"]["ok"]]
        ks = list(range(0, len(okrows), 300))
        outs = common.coq_eval_many([(f"c04e_{k}", c15mod.vm_cases_v(okrows[k:k + 300])) for k in ks])
        bade = []
        for k, out in zip(ks, outs):
            bade += [k + int(x.replace("%N", "")) for x in common.parse_coq_list(out, "bad")]
        res.cov["correspondence"] = {"cases": len(rows), "disagreements": len(bad), "vm_expression_cases": len(okrows), "vm_expression_disagreements": len(bade)}
        if bad:
            broken = Broken("correspondence Corr04.c04_ok (Model/Dice.v vs Roll* functions)", {"first": [rows[i] for i in bad[:3]]})
        elif bade:
            broken = Broken("correspondence Corr15.c15_ok (dice expressions through the real parser+VM vs Model/DiceExpr.deval)",
                            {"first": [{"text": okrows[i]["text"], "go": okrows[i]["m0"].get("str"), "detail": okrows[i]["m0"].get("detail")} for i in bade[:3]]})
    except Broken as b:
        broken = b
    if broken and not found:
        res.violation({"broken": broken.what, "detail": broken.detail}, no_input=True)


def replay_dc_order():
    """Known finding replay: search a few seeds for a DC round whose value depends on die order."""
    rows, _ = common.run_harness(["c04-dcorder"], timeout=120)
    return bool(rows and rows[0].get("found"))


def replay(path):
    p = json.load(open(path))
    print(json.dumps(p, indent=1, ensure_ascii=False))
    return 0
