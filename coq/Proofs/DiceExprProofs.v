(* C15 for dice expressions (Model/DiceExpr.v): min-mode and max-mode evaluation is pure
   (no randomness, no fuel, state-independent) and brackets every random evaluation of a
   well-formed expression (sums and non-negative multiples of XdY / Fate / CoC terms). *)
From Coq Require Import String NArith ZArith List Bool Lia ZifyBool.
From DS Require Import Model.PCG Model.Roll Model.Str Model.Dice Model.DiceExpr
                       Proofs.RollProofs Proofs.DiceProofs.
Import ListNotations.
Open Scope Z_scope.

Section Source.
  Variable S : Type.
  Variable next : S -> N * S.
  Hypothesis next_word : forall s, (fst (next s) < W64)%N.

  (* ------------------------------------------------------------------ *)
  (* closed forms of the leaves in min / max mode                        *)
  (* ------------------------------------------------------------------ *)
  Definition common_min_val (t d : Z) (mn mx : option Z) (k lo hi : Z) : Z :=
    sum64 (repeat (clampdie mn mx 1) (Z.to_nat (pick_num t k lo hi))).
  Definition common_max_val (t d : Z) (mn mx : option Z) (k lo hi : Z) : Z :=
    sum64 (repeat (clampdie mn mx d) (Z.to_nat (pick_num t k lo hi))).

  Lemma deval_common_min t d mn mx k lo hi fuel s :
    0 <= t -> 1 <= d ->
    deval next fuel (-1) (ECommon t d mn mx k lo hi) s = Done (common_min_val t d mn mx k lo hi, s).
  Proof.
    intros Ht Hd. cbn [deval]. rewrite (roll_common_min S next) by assumption. reflexivity.
  Qed.

  Lemma deval_common_max t d mn mx k lo hi fuel s :
    0 <= t ->
    deval next fuel 1 (ECommon t d mn mx k lo hi) s = Done (common_max_val t d mn mx k lo hi, s).
  Proof.
    intros Ht. cbn [deval]. rewrite (roll_common_max S next) by assumption. reflexivity.
  Qed.

  Lemma deval_fate_min fuel s : deval next fuel (-1) EFate s = Done (-4, s).
  Proof. cbn [deval]. rewrite (roll_fate_min S next). reflexivity. Qed.

  Lemma deval_fate_max fuel s : deval next fuel 1 EFate s = Done (4, s).
  Proof. cbn [deval]. rewrite (roll_fate_max S next). reflexivity. Qed.

  Lemma deval_coc_min b n fuel s : deval next fuel (-1) (ECoC b n) s = Done (1, s).
  Proof. cbn [deval]. destruct (roll_coc_min S next fuel b n s) as [txt ->]. reflexivity. Qed.

  Lemma deval_coc_max b n fuel s : deval next fuel 1 (ECoC b n) s = Done (100, s).
  Proof. cbn [deval]. destruct (roll_coc_max S next fuel b n s) as [txt ->]. reflexivity. Qed.

  (* no-overflow closed forms of the XdY leaf *)
  Lemma common_min_val_exact t d mn mx k lo hi :
    0 <= t ->
    t * Z.max (Z.abs (clampdie mn mx 1)) (Z.abs (clampdie mn mx d)) < two63 ->
    common_min_val t d mn mx k lo hi = pick_num t k lo hi * clampdie mn mx 1.
  Proof.
    clear next_word. intros Ht Hov. unfold common_min_val.
    pose proof (pick_num_range t k lo hi Ht) as Hp.
    rewrite sum64_repeat by (rewrite Z2Nat.id by lia; nia).
    rewrite Z2Nat.id by lia. reflexivity.
  Qed.

  Lemma common_max_val_exact t d mn mx k lo hi :
    0 <= t ->
    t * Z.max (Z.abs (clampdie mn mx 1)) (Z.abs (clampdie mn mx d)) < two63 ->
    common_max_val t d mn mx k lo hi = pick_num t k lo hi * clampdie mn mx d.
  Proof.
    clear next_word. intros Ht Hov. unfold common_max_val.
    pose proof (pick_num_range t k lo hi Ht) as Hp.
    rewrite sum64_repeat by (rewrite Z2Nat.id by lia; nia).
    rewrite Z2Nat.id by lia. reflexivity.
  Qed.

  (* ------------------------------------------------------------------ *)
  (* (B1) min / max mode evaluation is pure                              *)
  (* ------------------------------------------------------------------ *)
  Theorem deval_minmax_pure mode e :
    mode = -1 \/ mode = 1 -> wf_dexpr e ->
    exists v, forall fuel s, deval next fuel mode e s = Done (v, s).
  Proof.
    clear next_word.
    intros Hm. induction e as [c|t d mn mx k lo hi| |b n|a IHa b IHb|c a IHa]; intros Hwf;
      cbn [wf_dexpr] in Hwf.
    - exists c. intros fuel s. reflexivity.
    - destruct Hwf as (Ht & Hd & _). destruct Hm as [-> | ->].
      + eexists. intros fuel s. apply deval_common_min; lia.
      + eexists. intros fuel s. apply deval_common_max; lia.
    - destruct Hm as [-> | ->]; eexists; intros fuel s;
        [apply deval_fate_min|apply deval_fate_max].
    - destruct Hm as [-> | ->]; eexists; intros fuel s;
        [apply deval_coc_min|apply deval_coc_max].
    - destruct Hwf as [Ha Hb]. destruct (IHa Ha) as [va Ea]. destruct (IHb Hb) as [vb Eb].
      exists (va + vb). intros fuel s. cbn [deval]. rewrite Ea, Eb. reflexivity.
    - destruct Hwf as [Hc Ha]. destruct (IHa Ha) as [va Ea].
      exists (c * va). intros fuel s. cbn [deval]. rewrite Ea. reflexivity.
  Qed.

  (* ------------------------------------------------------------------ *)
  (* (B2) the min-mode and max-mode values bracket every random value    *)
  (* ------------------------------------------------------------------ *)
  Theorem mono_expr_bracket e : forall fuel s r s',
    wf_dexpr e ->
    deval next fuel 0 e s = Done (r, s') ->
    exists lo hi,
      (forall f2 s2, deval next f2 (-1) e s2 = Done (lo, s2)) /\
      (forall f2 s2, deval next f2 1 e s2 = Done (hi, s2)) /\
      lo <= r <= hi.
  Proof.
    induction e as [c|t d mn mx k lo hi| |b n|a IHa b IHb|c a IHa]; intros fuel s r s' Hwf H;
      cbn [wf_dexpr] in Hwf.
    - cbn [deval] in H. inversion H; subst. exists r, r.
      split; [intros; reflexivity|]. split; [intros; reflexivity|lia].
    - destruct Hwf as (Ht & Hd & Hov). cbn [deval] in H.
      destruct (roll_common next fuel t d mn mx k lo hi 0 s) as [[[num txt] s1]|] eqn:Er;
        [|discriminate].
      inversion H; subst num s1. clear H.
      destruct (common_bracket S next next_word _ _ _ _ _ _ _ _ _ _ _ _ Ht Hd Hov Er) as [Hb _].
      exists (common_min_val t d mn mx k lo hi), (common_max_val t d mn mx k lo hi).
      split; [intros f2 s2; apply deval_common_min; lia|].
      split; [intros f2 s2; apply deval_common_max; lia|].
      rewrite common_min_val_exact, common_max_val_exact by assumption. exact Hb.
    - cbn [deval] in H.
      destruct (roll_fate next fuel 0 s) as [[[num txt] s1]|] eqn:Er; [|discriminate].
      inversion H; subst num s1. clear H.
      destruct (roll_fate_spec S next next_word _ _ _ _ _ _ Er) as (_ & _ & _ & Hb).
      exists (-4), 4. split; [intros; apply deval_fate_min|].
      split; [intros; apply deval_fate_max|exact Hb].
    - cbn [deval] in H.
      destruct (roll_coc next fuel b n 0 s) as [[[num txt] s1]|] eqn:Er; [|discriminate].
      inversion H; subst num s1. clear H.
      destruct (roll_coc_spec S next next_word _ _ _ _ _ _ _ _ Hwf Er)
        as (res & ds & _ & _ & _ & _ & Hb & _).
      exists 1, 100. split; [intros; apply deval_coc_min|].
      split; [intros; apply deval_coc_max|exact Hb].
    - destruct Hwf as [Ha Hb]. cbn [deval] in H.
      destruct (deval next fuel 0 a s) as [[x s1]|] eqn:Ea; [|discriminate].
      destruct (deval next fuel 0 b s1) as [[y s2]|] eqn:Eb; [|discriminate].
      inversion H; subst r s2. clear H.
      destruct (IHa _ _ _ _ Ha Ea) as (la & ha & Hla & Hha & Hxa).
      destruct (IHb _ _ _ _ Hb Eb) as (lb & hb & Hlb & Hhb & Hxb).
      exists (la + lb), (ha + hb).
      split; [intros f2 s2; cbn [deval]; rewrite Hla, Hlb; reflexivity|].
      split; [intros f2 s2; cbn [deval]; rewrite Hha, Hhb; reflexivity|lia].
    - destruct Hwf as [Hc Ha]. cbn [deval] in H.
      destruct (deval next fuel 0 a s) as [[x s1]|] eqn:Ea; [|discriminate].
      inversion H; subst r s1. clear H.
      destruct (IHa _ _ _ _ Ha Ea) as (la & ha & Hla & Hha & Hxa).
      exists (c * la), (c * ha).
      split; [intros f2 s2; cbn [deval]; rewrite Hla; reflexivity|].
      split; [intros f2 s2; cbn [deval]; rewrite Hha; reflexivity|nia].
  Qed.

  (* the bracket of (B2) is the pure value of (B1): both are unique *)
  Corollary mono_expr_bracket_pure e fuel s r s' vmin vmax :
    wf_dexpr e ->
    deval next fuel 0 e s = Done (r, s') ->
    (forall f2 s2, deval next f2 (-1) e s2 = Done (vmin, s2)) ->
    (forall f2 s2, deval next f2 1 e s2 = Done (vmax, s2)) ->
    vmin <= r <= vmax.
  Proof.
    intros Hwf H Hmin Hmax.
    destruct (mono_expr_bracket e fuel s r s' Hwf H) as (lo & hi & Hlo & Hhi & Hb).
    specialize (Hlo fuel s). specialize (Hhi fuel s).
    rewrite Hmin in Hlo. rewrite Hmax in Hhi. inversion Hlo; inversion Hhi; subst. exact Hb.
  Qed.
End Source.

Print Assumptions deval_minmax_pure.
Print Assumptions mono_expr_bracket.
Print Assumptions mono_expr_bracket_pure.

(* ------------------------------------------------------------------ *)
(* (B3) non-vacuity on the real generator                              *)
(* ------------------------------------------------------------------ *)
Definition ex_expr : dexpr := EAdd (ECommon 2 6 None None 2 0 1) (EMulC 3 (ECoC false 1)).
Definition ex_state : pcg := {| hi := 1; lo := 2 |}.

Lemma ex_expr_wf : wf_dexpr ex_expr.
Proof.
  unfold ex_expr. cbn [wf_dexpr clampdie]. unfold MaxInt64, two63.
  repeat split; vm_compute; congruence.
Qed.

Example ex_expr_bracket :
  exists r s',
    deval pcg_next 64 0 ex_expr ex_state = Done (r, s') /\
    deval pcg_next 64 (-1) ex_expr ex_state = Done (4, ex_state) /\
    deval pcg_next 64 1 ex_expr ex_state = Done (306, ex_state) /\
    4 <= r <= 306 /\ s' <> ex_state.
Proof.
  eexists. eexists. split; [vm_compute; reflexivity|].
  split; [vm_compute; reflexivity|]. split; [vm_compute; reflexivity|].
  split; [split; vm_compute; congruence|]. vm_compute. congruence.
Qed.

(* the same bracket obtained from the general theorem *)
Example ex_expr_bracket_by_theorem r s' :
  deval pcg_next 64 0 ex_expr ex_state = Done (r, s') -> 4 <= r <= 306.
Proof.
  intros H.
  apply (mono_expr_bracket_pure pcg pcg_next pcg_next_word ex_expr 64 ex_state r s' 4 306
                                ex_expr_wf H).
  - intros f2 s2. unfold ex_expr.
    destruct (deval_minmax_pure pcg pcg_next (-1) ex_expr (or_introl eq_refl) ex_expr_wf) as [v Hv].
    pose proof (Hv 64%nat ex_state) as E. vm_compute in E. inversion E; subst v. apply Hv.
  - intros f2 s2. unfold ex_expr.
    destruct (deval_minmax_pure pcg pcg_next 1 ex_expr (or_intror eq_refl) ex_expr_wf) as [v Hv].
    pose proof (Hv 64%nat ex_state) as E. vm_compute in E. inversion E; subst v. apply Hv.
Qed.
Print Assumptions ex_expr_bracket.
Print Assumptions ex_expr_bracket_by_theorem.
