(* Correspondence checker for C19: the model's error text for (input, furthest failure offset)
   against the text Go returned under the three language settings; for action / encoding errors
   the position of every entry; and the tie of Model/ErrFmt.v's table to the current source. *)
From Coq Require Import NArith List Bool Arith.
From DS Require Import Model.Pos Model.ErrFmt.
Import ListNotations.

Inductive c19_case :=
| CFriendly (inp : bytes) (fail_off : nat) (e_bi e_cn e_en : bytes)
| CEntries (inp : bytes) (entries : list (nat * nat * nat)).   (* line, col, offset *)

Definition text_ok (l : Lang) (inp : bytes) (o : nat) (go : bytes) : bool :=
  match model_error msg_table l inp o with
  | Some t => bytes_eqb t go
  | None => false
  end.

Fixpoint entries_ok (inp : bytes) (es : list (nat * nat * nat)) : bool :=
  match es with
  | [] => true
  | (ln, cl, o) :: r =>
    match point_at inp o with
    | Some s => if (line s =? ln)%nat then (if (col s =? cl)%nat then entries_ok inp r else false) else false
    | None => false
    end
  end.

Definition c19_ok (c : c19_case) : bool :=
  match c with
  | CFriendly inp o e0 e1 e2 =>
    if text_ok Bi inp o e0 then (if text_ok Cn inp o e1 then text_ok En inp o e2 else false) else false
  | CEntries inp es => match es with [] => false | _ => entries_ok inp es end
  end.

Fixpoint bad_indices {A} (ok : A -> bool) (i : N) (l : list A) : list N :=
  match l with
  | [] => []
  | c :: r => if ok c then bad_indices ok (i + 1) r else i :: bad_indices ok (i + 1) r
  end.

(* what the model says, for the replay file of a disagreeing case *)
Definition c19_model (c : c19_case) : list (option bytes) :=
  match c with
  | CFriendly inp o _ _ _ => map (fun l => model_error msg_table l inp o) [Bi; Cn; En]
  | CEntries _ _ => []
  end.

(* the table and constants of Model/ErrFmt.v are those of the CURRENT parser_errors.go *)
Fixpoint table_eqb (a b : table) : bool :=
  match a, b with
  | [], [] => true
  | (k, c, e) :: a', (k', c', e') :: b' =>
    if bytes_eqb k k' then (if bytes_eqb c c' then (if bytes_eqb e e' then table_eqb a' b' else false) else false) else false
  | _, _ => false
  end.

(* row order is irrelevant in a Go map: compare as sets of rows via lookup in both directions *)
Definition table_sub (a b : table) : bool :=
  forallb (fun row => let '(k, c, e) := row in
                      let '(c', e') := lookup b k in
                      if bytes_eqb c c' then bytes_eqb e e' else false) a.

Definition table_current (src : table) (consts : list bytes) : bool :=
  if table_sub src msg_table then
    if table_sub msg_table src then
      if (length src =? length msg_table)%nat then
        match consts with
        | [a; b; c; d; e] =>
          if bytes_eqb a h_bi then if bytes_eqb b h_cn then if bytes_eqb c h_en then
          if bytes_eqb d w_cn then bytes_eqb e w_en else false else false else false else false
        | _ => false
        end
      else false
    else false
  else false.
