(* C13 — proofs about Model/StrLit.v *)
From Coq Require Import NArith ZArith List Bool Lia ZifyBool ZifyN ZifyNat.
From DS Require Import Model.Str Model.StrLit.
Import ListNotations.
Open Scope N_scope.

(* ================================================================== UTF-8 facts *)
Lemma ustep_ascii : forall st b, b < 128 ->
  ustep st b = match st with U0 => Some U0 | _ => None end.
Proof.
  intros st b Hb. destruct st; unfold ustep, in_rng.
  - destruct (N.ltb_spec b 128); [reflexivity|lia].
  - destruct (N.leb_spec 128 b); [lia|reflexivity].
  - destruct (N.leb_spec 128 b); [lia|reflexivity].
  - destruct (N.leb_spec 128 b); [lia|reflexivity].
  - destruct (N.leb_spec 160 b); [lia|reflexivity].
  - destruct (N.leb_spec 128 b); [lia|reflexivity].
  - destruct (N.leb_spec 144 b); [lia|reflexivity].
  - destruct (N.leb_spec 128 b); [lia|reflexivity].
Qed.

(* an ASCII byte never occurs inside a multi-byte rune of a well-formed text: wherever
   the decoder accepts an ASCII byte it is at a rune boundary, before and after *)
Lemma ascii_only_at_boundary : forall st b st', b < 128 ->
  ustep st b = Some st' -> st = U0 /\ st' = U0.
Proof.
  intros st b st' Hb H. rewrite (ustep_ascii st b Hb) in H.
  destruct st; inversion H; auto.
Qed.

(* conversely the bytes of a multi-byte rune are all >= 0x80 *)
Lemma inside_rune_high : forall st b st', st <> U0 -> ustep st b = Some st' -> 128 <= b.
Proof.
  intros st b st' Hst H. destruct (N.ltb_spec b 128) as [Hlt|]; [|assumption].
  destruct (ascii_only_at_boundary st b st' Hlt H). contradiction.
Qed.

Lemma lead_byte_high : forall b st', ustep U0 b = Some st' -> st' <> U0 -> 128 <= b.
Proof.
  intros b st' H Hne. destruct (N.ltb_spec b 128) as [Hlt|]; [|assumption].
  rewrite (ustep_ascii U0 b Hlt) in H. inversion H. congruence.
Qed.

Lemma urun_app : forall a b st,
  urun st (a ++ b) = match urun st a with Some st' => urun st' b | None => None end.
Proof.
  induction a as [|x a IH]; intros b st; simpl; [reflexivity|].
  destruct (ustep st x); [apply IH|reflexivity].
Qed.

Lemma urun_ascii_cons : forall st b r, b < 128 ->
  urun st (b :: r) = match st with U0 => urun U0 r | _ => None end.
Proof.
  intros st b r Hb. simpl. rewrite (ustep_ascii st b Hb). destruct st; reflexivity.
Qed.

(* valid texts consist of bytes *)
Lemma ustep_byte : forall st b st', ustep st b = Some st' -> b < 256.
Proof.
  intros st b st' H. destruct st; unfold ustep, in_rng in H;
    repeat match type of H with
           | context [N.ltb ?x ?y] => destruct (N.ltb_spec x y)
           | context [N.leb ?x ?y] => destruct (N.leb_spec x y)
           | context [N.eqb ?x ?y] => destruct (N.eqb_spec x y)
           end; try discriminate; lia.
Qed.

Lemma urun_bytes : forall l st st', urun st l = Some st' -> Forall (fun b => b < 256) l.
Proof.
  induction l as [|b r IH]; intros st st' H; [constructor|].
  simpl in H. destruct (ustep st b) eqn:E; [|discriminate].
  constructor; [exact (ustep_byte _ _ _ E)|exact (IH _ _ H)].
Qed.

Lemma valid_text_bytes : forall s, valid_text s -> Forall (fun b => b < 256) s.
Proof.
  intros s H. unfold valid_text, utf8_valid in H.
  destruct (urun U0 s) eqn:E; [|discriminate]. exact (urun_bytes _ _ _ E).
Qed.

(* ================================================================== delimiters *)
Lemma dbyte_not_bsl : forall d, (dbyte d =? BSL) = false.
Proof. destruct d; reflexivity. Qed.

Lemma dbyte_lt128 : forall d, dbyte d < 128.
Proof. destruct d; simpl; lia. Qed.

Lemma dbyte_not_lbr : forall d, (dbyte d =? LBR) = false.
Proof. destruct d; reflexivity. Qed.

Lemma stops_dbyte : forall d, stops d (dbyte d) = true.
Proof. intros d. unfold stops. rewrite N.eqb_refl. reflexivity. Qed.

Lemma stops_bsl : forall d, stops d BSL = false.
Proof. destruct d; reflexivity. Qed.

(* ================================================================== escape table *)
Section Table.
Variable tbl : esc_table.
Hypothesis Htbl : table_ok tbl = true.

Lemma lookup_in : forall t k out, lookup t k = Some out -> In (k, out) t.
Proof.
  induction t as [|[k' o'] t IH]; intros k out H; simpl in H; [discriminate|].
  destruct (N.eqb_spec k k') as [->|Hne].
  - inversion H; subst. left; reflexivity.
  - right. apply IH. exact H.
Qed.

Lemma table_entries : forall k out, In (k, out) tbl -> k < 128 /\ all_lt128 out = true.
Proof.
  intros k out Hin. unfold table_ok in Htbl. apply andb_true_iff in Htbl as [Hall _].
  rewrite forallb_forall in Hall. specialize (Hall _ Hin). simpl in Hall.
  destruct (N.ltb_spec k 128); [split; assumption|discriminate].
Qed.

Lemma esc_for_lookup : forall b k, esc_for tbl b = Some k -> lookup tbl k = Some [b].
Proof.
  intros b k H. unfold esc_for in H. apply find_some in H as [_ H].
  unfold denotes in H. destruct (lookup tbl k) as [[|x [|y l]]|]; try discriminate.
  apply N.eqb_eq in H. subst. reflexivity.
Qed.

Lemma esc_for_ascii : forall b k, esc_for tbl b = Some k -> k < 128 /\ b < 128.
Proof.
  intros b k H. pose proof (esc_for_lookup _ _ H) as Hl.
  apply lookup_in in Hl. apply table_entries in Hl as [Hk Ho]. split; [exact Hk|].
  simpl in Ho. destruct (N.ltb_spec b 128); [assumption|discriminate].
Qed.

Lemma esc_for_bsl : exists k, esc_for tbl BSL = Some k.
Proof.
  unfold table_ok in Htbl. apply andb_true_iff in Htbl as [_ H].
  destruct (esc_for tbl BSL) as [k|]; [exists k; reflexivity|discriminate].
Qed.

Lemma is_key_false : forall k, is_key tbl k = false -> lookup tbl k = None.
Proof. intros k H. unfold is_key in H. destruct (lookup tbl k); [discriminate|reflexivity]. Qed.

(* ================================================================== scan_part equations *)
Lemma scan_part_key : forall stop k out r,
  lookup tbl k = Some out ->
  scan_part tbl stop (BSL :: k :: r) =
  (let (o, rest) := scan_part tbl stop r in (out ++ o, rest)).
Proof. intros. simpl. rewrite H. reflexivity. Qed.

Lemma scan_part_lone : forall stop k r,
  lookup tbl k = None ->
  scan_part tbl stop (BSL :: k :: r) =
  (let (o, rest) := scan_part tbl stop (k :: r) in (BSL :: o, rest)).
Proof. intros. cbn [scan_part]. change (BSL =? BSL) with true. cbv iota. rewrite H. reflexivity. Qed.

Lemma scan_part_plain : forall stop b r,
  (b =? BSL) = false -> stop b = false ->
  scan_part tbl stop (b :: r) =
  (let (o, rest) := scan_part tbl stop r in (b :: o, rest)).
Proof. intros. cbn [scan_part]. rewrite H, H0. reflexivity. Qed.

Lemma scan_part_stop : forall stop b r,
  (b =? BSL) = false -> stop b = true ->
  scan_part tbl stop (b :: r) = ([], b :: r).
Proof. intros. cbn [scan_part]. rewrite H, H0. reflexivity. Qed.

(* ================================================================== the printer *)
Section Printer.
Variable d : delim.
Variable choice : nat -> N -> bool.

Let dd := dbyte d.

(* what raw_legal established when a backslash was written raw *)
Definition forced_pre (f : bool) (s : list N) : Prop :=
  f = true ->
  match s with
  | [] => is_key tbl dd = false
  | nb :: _ => is_key tbl nb = false /\ stops d nb = false /\ (nb =? BSL) = false
  end.

Lemma raw_legal_bsl : forall r, raw_legal tbl d BSL r = true -> forced_pre true r.
Proof.
  intros r H _. unfold raw_legal in H. change (BSL =? BSL) with true in H. cbv iota in H.
  destruct r as [|nb r].
  - apply negb_true_iff in H. exact H.
  - destruct (is_key tbl nb); [discriminate|]. destruct (stops d nb); [discriminate|].
    apply negb_true_iff in H. auto.
Qed.

Lemma forced_head : forall i r, forced_pre true r ->
  exists h t, escape_from tbl d choice i true r ++ [dd] = h :: t /\ lookup tbl h = None.
Proof.
  intros i r H. specialize (H eq_refl). destruct r as [|nb r]; simpl.
  - exists dd, []. split; [reflexivity|apply is_key_false; exact H].
  - destruct H as [H _]. eexists; eexists. split; [reflexivity|apply is_key_false; exact H].
Qed.

(* the escaped text is well-formed UTF-8 exactly when the text is: the printer only
   replaces ASCII bytes by ASCII bytes, at rune boundaries *)
Lemma urun_escape : forall s st i f,
  urun st (escape_from tbl d choice i f s) = urun st s.
Proof.
  induction s as [|b r IH]; intros st i f; [reflexivity|].
  cbn [escape_from]. destruct f.
  { simpl. destruct (ustep st b); [apply IH|reflexivity]. }
  destruct (esc_for tbl b) as [k|] eqn:E.
  2:{ simpl. destruct (ustep st b); [apply IH|reflexivity]. }
  destruct (esc_for_ascii _ _ E) as [Hk Hb].
  destruct (if raw_legal tbl d b r then choice i b else false).
  - simpl. destruct (ustep st b); [apply IH|reflexivity].
  - assert (HB : BSL < 128) by (unfold BSL; lia).
    rewrite (urun_ascii_cons st BSL _ HB), (urun_ascii_cons st b r Hb).
    destruct st; try reflexivity.
    rewrite (urun_ascii_cons U0 k _ Hk). apply IH.
Qed.

Lemma quote_escape_valid : forall s, valid_text s ->
  utf8_valid (quote d (escape tbl d choice s)) = true.
Proof.
  intros s H. unfold valid_text, utf8_valid in *. unfold quote, escape.
  rewrite (urun_ascii_cons U0 _ _ (dbyte_lt128 d)), urun_app, urun_escape.
  destruct (urun U0 s) as [[]|]; try discriminate.
  rewrite (urun_ascii_cons U0 _ _ (dbyte_lt128 d)). reflexivity.
Qed.

Lemma representable_cons : forall b r, representable tbl d (b :: r) = true ->
  (stops d b = true -> exists k, esc_for tbl b = Some k) /\ representable tbl d r = true.
Proof.
  intros b r H. unfold representable in H. simpl in H. apply andb_true_iff in H as [H1 H2].
  split; [|exact H2]. intros Hs. rewrite Hs in H1.
  destruct (esc_for tbl b) as [k|]; [exists k; reflexivity|discriminate].
Qed.

(* the heart of the round trip: the part scanner reads back exactly the text and stops
   in front of the closing delimiter *)
Lemma scan_escape : forall s i f,
  representable tbl d s = true -> forced_pre f s ->
  scan_part tbl (stops d) (escape_from tbl d choice i f s ++ [dd]) = (s, [dd]).
Proof.
  induction s as [|b r IH]; intros i f Hrep Hpre.
  - cbn [escape_from app]. apply scan_part_stop; [apply dbyte_not_bsl|apply stops_dbyte].
  - destruct (representable_cons _ _ Hrep) as [Hesc Hrep'].
    assert (Hnf : forced_pre false r) by (intro; discriminate).
    assert (Hplain : forall j, (b =? BSL) = false -> stops d b = false ->
              scan_part tbl (stops d) ((b :: escape_from tbl d choice j false r) ++ [dd]) = (b :: r, [dd])).
    { intros j H1 H2. rewrite <- app_comm_cons, (scan_part_plain _ _ _ H1 H2), (IH j false Hrep' Hnf).
      reflexivity. }
    cbn [escape_from]. destruct f.
    { destruct (Hpre eq_refl) as (_ & H2 & H3). apply Hplain; auto. }
    destruct (esc_for tbl b) as [k|] eqn:E.
    2:{ assert (Hs : stops d b = false).
        { destruct (stops d b) eqn:S; [|reflexivity]. destruct (Hesc eq_refl); discriminate. }
        assert (Hb : (b =? BSL) = false).
        { destruct (N.eqb_spec b BSL) as [->|]; [|reflexivity].
          destruct esc_for_bsl as [k Hk]. congruence. }
        apply Hplain; auto. }
    destruct (raw_legal tbl d b r) eqn:RL; [destruct (choice i b)|].
    + (* written raw *)
      destruct (N.eqb_spec b BSL) as [->|Hne].
      * pose proof (raw_legal_bsl _ RL) as Hpre'.
        destruct (forced_head (S i) r Hpre') as (h & t & Hht & Hl).
        rewrite <- app_comm_cons, Hht, (scan_part_lone _ _ _ Hl), <- Hht, (IH (S i) true Hrep' Hpre').
        reflexivity.
      * assert (Hb : (b =? BSL) = false) by (apply N.eqb_neq; exact Hne).
        unfold raw_legal in RL. rewrite Hb in RL. apply negb_true_iff in RL.
        apply Hplain; auto.
    + rewrite <- !app_comm_cons, (scan_part_key _ _ _ _ (esc_for_lookup _ _ E)), (IH (S i) false Hrep' Hnf).
      reflexivity.
    + rewrite <- !app_comm_cons, (scan_part_key _ _ _ _ (esc_for_lookup _ _ E)), (IH (S i) false Hrep' Hnf).
      reflexivity.
Qed.

(* a non-empty text never starts with something the empty-literal alternative or the
   closing delimiter could take *)
Lemma escape_head : forall b r i, representable tbl d (b :: r) = true ->
  exists h t, escape_from tbl d choice i false (b :: r) = h :: t /\
              part_starts (stops d) (h :: t ++ [dd]) = true /\ (h =? dd) = false.
Proof.
  intros b r i Hrep. destruct (representable_cons _ _ Hrep) as [Hesc _].
  assert (Hbsl : (BSL =? dd) = false) by (rewrite N.eqb_sym; apply dbyte_not_bsl).
  assert (Hraw : stops d b = false -> forall t, part_starts (stops d) (b :: t ++ [dd]) = true /\ (b =? dd) = false).
  { intros Hs t. split.
    - simpl. rewrite Hs. destruct (b =? BSL); reflexivity.
    - destruct (N.eqb_spec b dd) as [->|]; [|reflexivity]. unfold dd in Hs. rewrite stops_dbyte in Hs. discriminate. }
  cbn [escape_from]. destruct (esc_for tbl b) as [k|] eqn:E.
  - destruct (raw_legal tbl d b r) eqn:RL; [destruct (choice i b)|].
    + eexists; eexists; split; [reflexivity|].
      destruct (N.eqb_spec b BSL) as [->|Hne].
      * split; [reflexivity|exact Hbsl].
      * apply Hraw. unfold raw_legal in RL. apply N.eqb_neq in Hne. rewrite Hne in RL.
        apply negb_true_iff in RL. exact RL.
    + eexists; eexists; split; [reflexivity|]. split; [reflexivity|exact Hbsl].
    + eexists; eexists; split; [reflexivity|]. split; [reflexivity|exact Hbsl].
  - eexists; eexists; split; [reflexivity|]. apply Hraw.
    destruct (stops d b) eqn:S; [|reflexivity]. destruct (Hesc eq_refl); discriminate.
Qed.

Lemma body_loop_at_close : forall (H : Type) (hole : list N -> option (H * list N)) n,
  body_loop tbl H hole n (is_template d) (stops d) [dd] = Some ([], [dd]).
Proof.
  intros H hole [|n]; [reflexivity|].
  cbn [body_loop part_starts]. unfold dd. rewrite dbyte_not_bsl, stops_dbyte. cbn [negb].
  rewrite dbyte_not_lbr. destruct (is_template d); reflexivity.
Qed.

Theorem literal_roundtrip : forall s,
  valid_text s -> representable tbl d s = true ->
  lex tbl d (quote d (escape tbl d choice s)) = Some [s].
Proof.
  intros s Hv Hrep. unfold lex, lex_gen.
  rewrite (quote_escape_valid s Hv). cbn [negb]. unfold quote. fold dd.
  rewrite N.eqb_refl. cbn [negb].
  destruct s as [|b r].
  - simpl. rewrite N.eqb_refl. reflexivity.
  - unfold escape. destruct (escape_head b r O Hrep) as (h & t & Hht & Hps & Hne).
    pose proof (scan_escape (b :: r) O false Hrep (fun H => match Bool.diff_false_true H with end)) as Hscan.
    rewrite Hht in *. rewrite <- app_comm_cons in *. rewrite Hne.
    cbn [body_loop]. rewrite Hps, Hscan, body_loop_at_close. rewrite N.eqb_refl. reflexivity.
Qed.

Theorem literal_value : forall s, lit_value d [s] = s.
Proof. intros s. unfold lit_value. destruct (is_template d); simpl; [apply app_nil_r|reflexivity]. Qed.

End Printer.

End Table.

(* ================================================================== representable is necessary *)
(* every byte a part can contain is a raw non-stopping byte, a backslash, or comes out
   of a table entry *)
Lemma scan_part_bytes : forall tbl stop l x,
  In x (fst (scan_part tbl stop l)) ->
  stop x = false \/ x = BSL \/ exists k out, lookup tbl k = Some out /\ In x out.
Proof.
  intros tbl stop l. remember (length l) as n eqn:Hn. revert l Hn.
  induction n as [n IHn] using lt_wf_ind. intros l Hn x Hin.
  destruct l as [|b r]; [simpl in Hin; contradiction|].
  cbn [scan_part] in Hin. destruct (b =? BSL) eqn:Eb.
  - destruct r as [|k r']; [simpl in Hin; destruct Hin as [<-|[]]; auto|].
    destruct (lookup tbl k) as [out|] eqn:El.
    + destruct (scan_part tbl stop r') as [o rest] eqn:Es. simpl in Hin.
      apply in_app_or in Hin as [Hin|Hin].
      * right; right. exists k, out. auto.
      * apply (IHn (length r')) with (l := r'); [simpl in Hn; lia|reflexivity|rewrite Es; exact Hin].
    + destruct (scan_part tbl stop (k :: r')) as [o rest] eqn:Es. simpl in Hin.
      destruct Hin as [<-|Hin]; [auto|].
      apply (IHn (length (k :: r'))) with (l := k :: r'); [simpl in *; lia|reflexivity|rewrite Es; exact Hin].
  - destruct (stop b) eqn:Sb; [simpl in Hin; contradiction|].
    destruct (scan_part tbl stop r) as [o rest] eqn:Es. simpl in Hin.
    destruct Hin as [<-|Hin]; [auto|].
    apply (IHn (length r)) with (l := r); [simpl in Hn; lia|reflexivity|rewrite Es; exact Hin].
Qed.


(* ================================================================== the actual table *)
Lemma actual_table_ok : table_ok actual_table = true.
Proof. vm_compute. reflexivity. Qed.

Lemma actual_esc_for_ascii_cases : forall b,
  esc_for actual_table b =
  if b =? 10 then Some 110 else if b =? 13 then Some 114 else if b =? 12 then Some 102
  else if b =? 9 then Some 116 else if b =? 92 then Some 92 else if b =? 39 then Some 39
  else if b =? 34 then Some 34 else if b =? 123 then Some 123 else if b =? 125 then Some 125
  else None.
Proof.
  intros b. unfold esc_for, denotes, actual_table. cbn [map fst find lookup].
  repeat match goal with
  | |- context [N.eqb ?x ?y] =>
    lazymatch x with
    | b => fail
    | _ => let v := eval vm_compute in (N.eqb x y) in change (N.eqb x y) with v
    end
  end. cbv iota.
  destruct (N.eqb_spec 10 b) as [<-|H10]; [reflexivity|].
  destruct (N.eqb_spec 13 b) as [<-|H13]; [reflexivity|].
  destruct (N.eqb_spec 12 b) as [<-|H12]; [reflexivity|].
  destruct (N.eqb_spec 9 b) as [<-|H9]; [reflexivity|].
  destruct (N.eqb_spec 92 b) as [<-|H92]; [reflexivity|].
  destruct (N.eqb_spec 39 b) as [<-|H39]; [reflexivity|].
  destruct (N.eqb_spec 34 b) as [<-|H34]; [reflexivity|].
  destruct (N.eqb_spec 123 b) as [<-|H123]; [reflexivity|].
  destruct (N.eqb_spec 125 b) as [<-|H125]; [reflexivity|].
  repeat match goal with |- context [N.eqb b ?y] => destruct (N.eqb_spec b y); [congruence|] end.
  reflexivity.
Qed.

(* which texts can be written, per style: everything for '...' and "..."; everything
   without the delimiter itself for `...` and 0x1E...0x1E (the grammar has no escape for
   the backtick or for 0x1E; '{' has one) *)
Lemma representable_single : forall s, representable actual_table DSingle s = true.
Proof.
  intros s. unfold representable. apply forallb_forall. intros b _.
  unfold stops. simpl. destruct (N.eqb_spec b 39) as [->|]; reflexivity.
Qed.

Lemma representable_double : forall s, representable actual_table DDouble s = true.
Proof.
  intros s. unfold representable. apply forallb_forall. intros b _.
  unfold stops. simpl. destruct (N.eqb_spec b 34) as [->|]; reflexivity.
Qed.

Lemma representable_template : forall d s, is_template d = true ->
  (representable actual_table d s = true <-> ~ In (dbyte d) s).
Proof.
  intros d s Ht. unfold representable. rewrite forallb_forall. split.
  - intros H Hin. specialize (H _ Hin). rewrite stops_dbyte in H.
    destruct d; try discriminate; vm_compute in H; discriminate.
  - intros Hn b Hin. unfold stops. rewrite Ht.
    destruct (N.eqb_spec b (dbyte d)) as [->|Hne]; [contradiction|].
    destruct (N.eqb_spec b LBR) as [->|]; reflexivity.
Qed.

(* ================================================================== necessity of representable *)
Definition part_byte_ok (tbl : esc_table) (stop : N -> bool) (x : N) : Prop :=
  stop x = false \/ x = BSL \/ exists k out, lookup tbl k = Some out /\ In x out.

Lemma body_loop_parts : forall tbl holes stop fuel l es rest,
  body_loop tbl Empty_set no_hole fuel holes stop l = Some (es, rest) ->
  forall p x, In p (parts_of es) -> In x p -> part_byte_ok tbl stop x.
Proof.
  intros tbl holes stop. induction fuel as [|f IH]; intros l es rest H p x Hp Hx.
  - simpl in H. inversion H; subst. simpl in Hp. contradiction.
  - cbn [body_loop] in H. destruct (part_starts stop l).
    + destruct (scan_part tbl stop l) as [o r1] eqn:Es.
      destruct (body_loop tbl Empty_set no_hole f holes stop r1) as [[es' r2]|] eqn:Eb; [|discriminate].
      inversion H; subst. simpl in Hp. destruct Hp as [<-|Hp].
      * apply (scan_part_bytes tbl stop l). rewrite Es. exact Hx.
      * exact (IH _ _ _ Eb p x Hp Hx).
    + destruct l as [|b r]; [inversion H; subst; simpl in Hp; contradiction|].
      destruct (if holes then b =? LBR else false).
      * unfold no_hole in H. discriminate.
      * inversion H; subst. simpl in Hp. contradiction.
Qed.

Lemma actual_outputs_escapable : forall k out x,
  lookup actual_table k = Some out -> In x out -> exists k', esc_for actual_table x = Some k'.
Proof.
  intros k out x Hl Hin. apply lookup_in in Hl. simpl in Hl.
  repeat (destruct Hl as [Hl|Hl];
          [inversion Hl; subst; simpl in Hin; destruct Hin as [<-|[]]; eexists; vm_compute; reflexivity|]).
  contradiction.
Qed.

Theorem lex_representable : forall d src parts,
  lex actual_table d src = Some parts -> representable actual_table d (concat parts) = true.
Proof.
  intros d src parts H. unfold representable. apply forallb_forall. intros x Hx.
  apply in_concat in Hx as (p & Hp & Hxp).
  assert (Hok : part_byte_ok actual_table (stops d) x).
  { unfold lex in H. destruct (lex_gen actual_table Empty_set no_hole d src) as [[es [|? ?]]|] eqn:E; try discriminate.
    inversion H; subst parts. clear H. unfold lex_gen in E.
    destruct (negb (utf8_valid src)); [discriminate|].
    destruct src as [|o r]; [discriminate|]. destruct (negb (o =? dbyte d)); [discriminate|].
    destruct r as [|c r']; [discriminate|]. destruct (c =? dbyte d).
    - inversion E; subst. simpl in Hp. destruct Hp as [<-|[]]. contradiction.
    - destruct (body_loop actual_table Empty_set no_hole (S (length (c :: r'))) (is_template d) (stops d) (c :: r'))
        as [[es' [|c' rest]]|] eqn:Eb; try discriminate.
      destruct (c' =? dbyte d); [|discriminate]. inversion E; subst.
      exact (body_loop_parts _ _ _ _ _ _ _ Eb p x Hp Hxp). }
  destruct (stops d x) eqn:S; [|reflexivity].
  destruct Hok as [Hs|[->|(k & out & Hl & Hin)]].
  - congruence.
  - rewrite stops_bsl in S. discriminate.
  - destruct (actual_outputs_escapable _ _ _ Hl Hin) as [k' ->]. reflexivity.
Qed.

(* ================================================================== VM fragment *)
Section VMProofs.
Variable V E : Type.
Variable tostr : V -> list N.
Variable vstr : list N -> V.
Variable cap : nat.
Hypothesis tostr_vstr : forall s, tostr (vstr s) = s.

Notation exec := (exec V E tostr vstr cap).
Notation step := (step V E tostr vstr cap).
Notation framed := (framed V E tostr vstr cap).
Notation vmst := (vmst V E).
Notation lift := (lift V E).
Notation hsem := (hsem V E).

Lemma exec_app : forall a b (s : vmst),
  exec (a ++ b) s = match exec a s with Done s' => exec b s' | Err e => Err e | Panic => Panic | Stale => Stale end.
Proof.
  induction a as [|i a IH]; intros b s; [reflexivity|].
  simpl. destruct (step i s); try reflexivity. apply IH.
Qed.

Lemma framed_ext : forall c (s1 s2 : hsem),
  (forall d e, s1 d e = s2 d e) -> framed c s1 -> framed c s2.
Proof. intros c s1 s2 H F e base fbs. rewrite <- H. apply F. Qed.

Lemma framed_nil : framed [] (sem_nil V E).
Proof. intros e base fbs. left. reflexivity. Qed.

Lemma framed_push : forall x, framed [IPushStr x] (sem_push V E vstr x).
Proof.
  intros x e base fbs. unfold upto_overflow. cbn [StrLit.exec]; unfold StrLit.step; cbn [stk env fb].
  destruct (Nat.eqb (length base) cap); [right; reflexivity|left; reflexivity].
Qed.

Lemma framed_prim : forall f, prim_ok V E f -> framed [IPrim f] (sem_prim V E f).
Proof.
  intros f Hf e base fbs. unfold upto_overflow, sem_prim. cbn [StrLit.exec]; unfold StrLit.step; cbn [stk env fb].
  destruct (Nat.eqb (length base) cap); [right; reflexivity|].
  specialize (Hf e base). destruct (f e []) as [[e' extra]| | |]; destruct Hf as [-> | ->]; auto.
Qed.

Lemma framed_seq : forall c1 c2 (s1 s2 : hsem),
  framed c1 s1 -> framed c2 s2 -> framed (c1 ++ c2) (sem_seq V E s1 s2).
Proof.
  intros c1 c2 s1 s2 F1 F2 e base fbs. rewrite exec_app. unfold sem_seq.
  destruct (F1 e base fbs) as [-> | ->]; [|right; reflexivity].
  destruct (s1 (length fbs) e) as [[e1 x1]| | |]; cbn [StrLit.lift]; try (left; reflexivity).
  destruct (F2 e1 (x1 ++ base) fbs) as [-> | ->]; [|right; reflexivity].
  destruct (s2 (length fbs) e1) as [[e2 x2]| | |]; cbn [StrLit.lift]; try (left; reflexivity).
  left. rewrite app_assoc. reflexivity.
Qed.

Lemma bottom_app : forall (ex base : list V), bottom V (length base) (ex ++ base) = base.
Proof.
  intros ex base. unfold bottom. rewrite app_length.
  replace (length ex + length base - length base)%nat with (length ex) by lia.
  rewrite skipn_app, skipn_all, Nat.sub_diag. reflexivity.
Qed.

Lemma fspop_exact : forall e' (extra base : list V) fbs,
  length (extra ++ base) <> cap ->
  exec [IFsPop] {| env := e'; stk := extra ++ base; fb := length base :: fbs |} =
    Done {| env := e'; stk := hole_val V vstr extra :: base; fb := fbs |}.
Proof.
  intros e' extra base fbs Hc2.
  cbn [StrLit.exec]; unfold StrLit.step; cbn [stk env fb].
  apply Nat.eqb_neq in Hc2. rewrite Hc2.
  destruct extra as [|v ex].
  - cbn [app]. rewrite Nat.eqb_refl. reflexivity.
  - cbn [app]. assert (Hne : Nat.eqb (length base) (length (v :: ex ++ base)) = false).
    { apply Nat.eqb_neq. simpl. rewrite app_length. lia. }
    rewrite Hne. assert (Hle : Nat.leb (length base) (length (ex ++ base)) = true).
    { apply Nat.leb_le. rewrite app_length. lia. }
    rewrite Hle, bottom_app. reflexivity.
Qed.

(* hole_pushes_one, direct form: WHATEVER the code between fstr.block.push and
   fstr.block.pop left above the saved height, exactly one value remains there: the top
   one, or "" when nothing was left *)
Lemma hole_pushes_one_direct : forall c e base fbs e' extra,
  (length fbs < FSTR_DEPTH)%nat -> length base <> cap -> length (extra ++ base) <> cap ->
  exec c {| env := e; stk := base; fb := length base :: fbs |} =
    Done {| env := e'; stk := extra ++ base; fb := length base :: fbs |} ->
  exec (IFsPush :: c ++ [IFsPop]) {| env := e; stk := base; fb := fbs |} =
    Done {| env := e'; stk := hole_val V vstr extra :: base; fb := fbs |}.
Proof.
  intros c e base fbs e' extra Hd Hc1 Hc2 Hc.
  cbn [StrLit.exec]. unfold StrLit.step at 1. cbn [stk env fb].
  apply Nat.eqb_neq in Hc1. rewrite Hc1.
  assert (Hl : Nat.leb FSTR_DEPTH (length fbs) = false) by (apply Nat.leb_gt; exact Hd). rewrite Hl.
  rewrite exec_app, Hc. apply fspop_exact. exact Hc2.
Qed.

(* the same inside the frame calculus: at any number of open holes, on top of any stack;
   one hole too many is the error ENesting, not a panic *)
Lemma framed_hole : forall c (s : hsem),
  framed c s -> framed (IFsPush :: c ++ [IFsPop]) (sem_hole V E vstr s).
Proof.
  intros c s F e base fbs. unfold sem_hole.
  cbn [StrLit.exec]. unfold StrLit.step at 1. cbn [stk env fb].
  destruct (Nat.eqb (length base) cap) eqn:Hc1; [right; reflexivity|].
  destruct (Nat.leb FSTR_DEPTH (length fbs)) eqn:Hl; [left; reflexivity|].
  rewrite exec_app.
  destruct (F e base (length base :: fbs)) as [-> | ->]; [|right; reflexivity].
  cbn [length]. destruct (s (S (length fbs)) e) as [[e' extra]| | |]; cbn [StrLit.lift]; try (left; reflexivity).
  destruct (Nat.eqb (length (extra ++ base)) cap) eqn:Hc2.
  - right. cbn [StrLit.exec]; unfold StrLit.step; cbn [stk env fb]. rewrite Hc2. reflexivity.
  - left. apply Nat.eqb_neq in Hc2. apply fspop_exact. exact Hc2.
Qed.

Lemma framed_ldfs : forall c (s : hsem) n,
  framed c s -> (forall d e e' vals, s d e = Done (e', vals) -> length vals = n) ->
  framed (c ++ [ILdFs n]) (sem_ldfs V E tostr vstr s).
Proof.
  intros c s n F Hn e base fbs. rewrite exec_app. unfold sem_ldfs.
  destruct (F e base fbs) as [-> | ->]; [|right; reflexivity].
  destruct (s (length fbs) e) as [[e' vals]| | |] eqn:Es; cbn [StrLit.lift]; try (left; reflexivity).
  pose proof (Hn _ _ _ _ Es) as Hlen.
  cbn [StrLit.exec]; unfold StrLit.step; cbn [stk env fb].
  destruct (Nat.eqb (length (vals ++ base)) cap); [right; reflexivity|left].
  assert (Hlt : Nat.ltb (length (vals ++ base)) n = false).
  { apply Nat.ltb_ge. rewrite app_length. lia. }
  rewrite Hlt. subst n. rewrite firstn_app, firstn_all, Nat.sub_diag, firstn_O, app_nil_r.
  rewrite skipn_app, skipn_all, Nat.sub_diag. reflexivity.
Qed.

(* ---- templates *)
Definition part_sem (p : tpart V E) : hsem :=
  match p with TLit s => sem_push V E vstr s | THole _ sem => sem_hole V E vstr sem end.

Fixpoint parts_sem (ps : list (tpart V E)) : hsem :=
  match ps with
  | [] => sem_nil V E
  | p :: r => sem_seq V E (part_sem p) (parts_sem r)
  end.

Lemma framed_cpart : forall p, part_ok V E tostr vstr cap p -> framed (cpart V E p) (part_sem p).
Proof.
  intros [s|c sem] H; simpl.
  - apply framed_push.
  - apply framed_hole. exact H.
Qed.

Lemma framed_parts : forall ps, Forall (part_ok V E tostr vstr cap) ps ->
  framed (compile_parts V E ps) (parts_sem ps).
Proof.
  induction ps as [|p r IH]; intros H.
  - apply framed_nil.
  - inversion H; subst. unfold compile_parts. cbn [flat_map parts_sem].
    apply framed_seq; [apply framed_cpart; assumption|apply IH; assumption].
Qed.

Lemma part_sem_one : forall p d e e' vals, part_sem p d e = Done (e', vals) -> length vals = 1%nat.
Proof.
  intros [s|c sem] d e e' vals H; simpl in H.
  - unfold sem_push in H. inversion H. reflexivity.
  - unfold sem_hole in H. destruct (Nat.leb FSTR_DEPTH d); [discriminate|].
    destruct (sem (S d) e) as [[e1 ex]| | |]; inversion H. reflexivity.
Qed.

Lemma parts_sem_count : forall ps d e e' vals,
  parts_sem ps d e = Done (e', vals) -> length vals = length ps.
Proof.
  induction ps as [|p r IH]; intros d e e' vals H.
  - inversion H. reflexivity.
  - cbn [parts_sem] in H. unfold sem_seq in H.
    destruct (part_sem p d e) as [[e1 x1]| | |] eqn:E1; try discriminate.
    destruct (parts_sem r d e1) as [[e2 x2]| | |] eqn:E2; try discriminate.
    inversion H; subst. rewrite app_length, (IH _ _ _ _ E2), (part_sem_one _ _ _ _ _ E1). simpl. lia.
Qed.

Lemma parts_sem_text : forall ps d e,
  tmpl_text V E tostr vstr ps d e =
  match parts_sem ps d e with
  | Done (e', vals) => Done (e', concat (map tostr (rev vals)))
  | Err x => Err x | Panic => Panic | Stale => Stale
  end.
Proof.
  induction ps as [|p r IH]; intros d e; [reflexivity|].
  cbn [parts_sem tmpl_text]. unfold sem_seq. destruct p as [s|c sem]; cbn [part_sem].
  - unfold sem_push. rewrite IH. destruct (parts_sem r d e) as [[e2 x2]| | |]; try reflexivity.
    rewrite rev_app_distr. simpl. rewrite tostr_vstr. reflexivity.
  - destruct (sem_hole V E vstr sem d e) as [[e1 vs]| | |] eqn:Eh; try reflexivity.
    rewrite IH. destruct (parts_sem r d e1) as [[e2 x2]| | |]; try reflexivity.
    unfold sem_hole in Eh. destruct (Nat.leb FSTR_DEPTH d); [discriminate|].
    destruct (sem (S d) e) as [[e1' ex]| | |]; inversion Eh; subst.
    rewrite rev_app_distr. simpl. reflexivity.
Qed.

(* template_concat: the compiled template, run on top of any stack inside any number of
   open holes, leaves exactly one value: the concatenation, in order, of the literal
   segments and the string forms of the holes' values, with the variables as the holes
   left them (or reports the hole's error / the nesting error / a full stack) *)
Theorem template_concat : forall ps, Forall (part_ok V E tostr vstr cap) ps ->
  framed (compile V E ps) (tmpl_sem V E tostr vstr ps).
Proof.
  intros ps H. unfold compile.
  apply framed_ext with (s1 := sem_ldfs V E tostr vstr (parts_sem ps)).
  - intros d e. unfold sem_ldfs, tmpl_sem. rewrite parts_sem_text.
    destruct (parts_sem ps d e) as [[e' vals]| | |]; reflexivity.
  - apply framed_ldfs; [apply framed_parts; exact H|].
    intros d e e' vals Hs. exact (parts_sem_count _ _ _ _ _ Hs).
Qed.

(* a template is itself well-behaved hole code: nesting to any depth *)
Corollary template_is_part : forall ps, Forall (part_ok V E tostr vstr cap) ps ->
  part_ok V E tostr vstr cap (THole (compile V E ps) (tmpl_sem V E tostr vstr ps)).
Proof. intros ps H. exact (template_concat ps H). Qed.

(* the 21st open hole is an error, never a panic *)
Lemma nesting_limit_is_error : forall (s : vmst),
  (FSTR_DEPTH <= length (fb s))%nat ->
  step IFsPush s = Err ENesting \/ step IFsPush s = Err EOverflow.
Proof.
  intros s H. unfold StrLit.step. destruct (Nat.eqb (length (stk s)) cap); [right; reflexivity|left].
  apply Nat.leb_le in H. rewrite H. reflexivity.
Qed.
End VMProofs.
