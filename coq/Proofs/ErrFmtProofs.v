(* C19 — lemmas about Model/Pos.v (position bookkeeping) and Model/ErrFmt.v (rendering). *)
From Coq Require Import NArith ZArith List Bool Arith Lia ZifyBool ZifyN ZifyNat.
From Coq Require Import Decimal DecimalNat DecimalFacts.
From DS Require Import Model.Pos Model.ErrFmt.
Import ListNotations.

Ltac Zify.zify_post_hook ::= Z.div_mod_to_equations.

(* ====================================================================================== *)
(* utf8.DecodeRune                                                                          *)
(* ====================================================================================== *)

Lemma decode_nil : decode [] = (RuneError, 0).
Proof. reflexivity. Qed.

Lemma lead_spec p0 sz lo hi :
  lead p0 = Some (sz, lo, hi) ->
  (sz = 2 /\ (194 <= p0 < 224 /\ lo = 128 /\ hi = 191)%N) \/
  (sz = 3 /\ (p0 = 224 /\ lo = 160 /\ hi = 191)%N) \/
  (sz = 3 /\ (225 <= p0 < 240 /\ 128 <= lo /\ hi <= 191)%N) \/
  (sz = 4 /\ (p0 = 240 /\ lo = 144 /\ hi = 191)%N) \/
  (sz = 4 /\ (241 <= p0 <= 244 /\ 128 <= lo /\ hi <= 191)%N).
Proof.
  unfold lead.
  repeat match goal with
         | |- context [if ?c then _ else _] => destruct c eqn:?
         end; intro H; inversion H; subst; lia.
Qed.

(* the width is 0 exactly at the end of the input, otherwise 1..4 and within the input *)
Lemma decode_width p :
  (p = [] -> snd (decode p) = 0) /\ (p <> [] -> 1 <= snd (decode p)) /\ snd (decode p) <= length p.
Proof.
  destruct p as [|p0 t]; [cbn; repeat split; try lia; congruence|].
  split; [discriminate|].
  unfold decode.
  destruct (p0 <? 128)%N; [cbn; split; intros; lia|].
  destruct (lead p0) as [[[sz lo] hi]|] eqn:El; [|cbn; split; intros; lia].
  destruct (length (p0 :: t) <? sz) eqn:Elen; [cbn; split; intros; lia|].
  destruct t as [|b1 t1]; [cbn; split; intros; lia|].
  destruct ((b1 <? lo) || (hi <? b1))%N; [cbn; split; intros; lia|].
  destruct (sz <=? 2); [cbn; split; intros; lia|].
  destruct t1 as [|b2 t2]; [cbn; split; intros; lia|].
  destruct (negb (cont b2)); [cbn; split; intros; lia|].
  destruct (sz <=? 3); [cbn; split; intros; lia|].
  destruct t2 as [|b3 t3]; [cbn; split; intros; lia|].
  destruct (negb (cont b3)); cbn; split; intros; lia.
Qed.

Lemma decode_width_le p : snd (decode p) <= length p.
Proof. apply decode_width. Qed.

Lemma decode_width_pos p : p <> [] -> snd (decode p) > 0.
Proof. intro H. apply decode_width in H. lia. Qed.

Lemma decode_ascii p0 t : (p0 < 128)%N -> decode (p0 :: t) = (p0, 1).
Proof. intro H. unfold decode. destruct (p0 <? 128)%N eqn:E; [reflexivity|lia]. Qed.

(* a multi-byte or malformed sequence never decodes to an ASCII rune *)
Lemma decode_high p0 t : (128 <= p0)%N -> (128 <= fst (decode (p0 :: t)))%N.
Proof.
  intro H. unfold decode.
  destruct (p0 <? 128)%N eqn:E; [lia|].
  destruct (lead p0) as [[[sz lo] hi]|] eqn:El; [|cbn; unfold RuneError; lia].
  apply lead_spec in El.
  destruct (length (p0 :: t) <? sz) eqn:Elen; [cbn; unfold RuneError; lia|].
  destruct t as [|b1 t1]; [cbn; unfold RuneError; lia|].
  destruct ((b1 <? lo) || (hi <? b1))%N eqn:Eb1; [cbn; unfold RuneError; lia|].
  destruct (sz <=? 2) eqn:E2.
  { cbn [fst]. destruct El as [El|[El|[El|[El|El]]]]; lia. }
  destruct t1 as [|b2 t2]; [cbn; unfold RuneError; lia|].
  destruct (negb (cont b2)) eqn:Eb2; [cbn; unfold RuneError; lia|].
  destruct (sz <=? 3) eqn:E3.
  { cbn [fst]. destruct El as [El|[El|[El|[El|El]]]]; lia. }
  destruct t2 as [|b3 t3]; [cbn; unfold RuneError; lia|].
  destruct (negb (cont b3)) eqn:Eb3; [cbn; unfold RuneError; lia|].
  cbn [fst]. destruct El as [El|[El|[El|[El|El]]]]; lia.
Qed.

(* the newline rune is exactly the newline byte *)
Lemma decode_nl_iff p : fst (decode p) = NL <-> exists t, p = NL :: t.
Proof.
  split.
  - destruct p as [|p0 t]; [cbn; unfold RuneError, NL; lia|].
    intro H. destruct (N.ltb_spec p0 128).
    + rewrite decode_ascii in H by assumption. cbn in H. subst. eauto.
    + pose proof (decode_high p0 t H0). unfold NL in H. lia.
  - intros [t ->]. rewrite decode_ascii; [reflexivity|unfold NL; lia].
Qed.

Lemma decode_nl_width p : fst (decode p) = NL -> snd (decode p) = 1.
Proof.
  intro H. apply decode_nl_iff in H. destruct H as [t ->].
  rewrite decode_ascii; [reflexivity|unfold NL; lia].
Qed.

(* ====================================================================================== *)
(* plain positions                                                                          *)
(* ====================================================================================== *)

Lemma plainK_S inp k :
  plainK inp (S k) =
  let '(o, L, C) := plainK inp k in
  let '(r, n) := decode (skipn o inp) in
  if (r =? NL)%N then (o + n, S L, 1) else (o + n, L, S C).
Proof. reflexivity. Qed.

Lemma bnd_S inp k : bnd inp (S k) = bnd inp k + snd (decode (skipn (bnd inp k) inp)).
Proof.
  unfold bnd. rewrite plainK_S.
  destruct (plainK inp k) as [[o L] C]. cbn [fst].
  destruct (decode (skipn o inp)) as [r n]. destruct (r =? NL)%N; reflexivity.
Qed.

Lemma valid_S inp k : valid inp (S k) -> valid inp k.
Proof. intros H j Hj. apply H. lia. Qed.

Lemma valid_step inp k :
  valid inp k -> snd (decode (skipn (bnd inp k) inp)) > 0 -> valid inp (S k).
Proof.
  intros H Hw j Hj. destruct (Nat.eq_dec j k) as [->|]; [assumption|]. apply H. lia.
Qed.

Lemma bnd_mono inp k' : valid inp k' -> forall k, k < k' -> bnd inp k < bnd inp k'.
Proof.
  induction k' as [|k' IH]; intros Hv k Hk; [lia|].
  rewrite bnd_S. pose proof (Hv k' (Nat.lt_succ_diag_r k')).
  destruct (Nat.eq_dec k k') as [->|]; [lia|].
  specialize (IH (valid_S _ _ Hv) k). lia.
Qed.

(* an offset has at most one plain position *)
Lemma plain_lc_fun inp o L C L' C' :
  plain_lc inp o L C -> plain_lc inp o L' C' -> L = L' /\ C = C'.
Proof.
  intros [k [Hv Hk]] [k' [Hv' Hk']].
  assert (Hb : bnd inp k = o) by (unfold bnd; rewrite Hk; reflexivity).
  assert (Hb' : bnd inp k' = o) by (unfold bnd; rewrite Hk'; reflexivity).
  destruct (Nat.lt_trichotomy k k') as [Hlt|[->|Hlt]].
  - pose proof (bnd_mono inp k' Hv' k Hlt). lia.
  - rewrite Hk in Hk'. inversion Hk'. auto.
  - pose proof (bnd_mono inp k Hv k' Hlt). lia.
Qed.

(* a valid boundary lies within the input *)
Lemma bnd_le_length inp k : valid inp k -> bnd inp k <= length inp.
Proof.
  induction k as [|k IH]; intro Hv; [unfold bnd; cbn; lia|].
  rewrite bnd_S. specialize (IH (valid_S _ _ Hv)).
  pose proof (decode_width_le (skipn (bnd inp k) inp)).
  rewrite skipn_length in H. lia.
Qed.

(* byte-level reading of the plain line: 1 + number of newline BYTES before the offset *)
Fixpoint count_nl (l : bytes) : nat :=
  match l with [] => 0 | b :: r => (if (b =? NL)%N then 1 else 0) + count_nl r end.

Lemma count_nl_app a b : count_nl (a ++ b) = count_nl a + count_nl b.
Proof. induction a as [|x a IH]; cbn; [reflexivity|]. rewrite IH. lia. Qed.

Lemma firstn_add_skipn {A} (l : list A) o n :
  firstn (o + n) l = firstn o l ++ firstn n (skipn o l).
Proof.
  revert l; induction o as [|o IH]; intro l; [reflexivity|].
  destruct l as [|x l]; cbn; [rewrite firstn_nil; reflexivity|]. rewrite IH. reflexivity.
Qed.

(* the bytes of one decoded rune contain a newline byte iff the rune is the newline *)
Lemma count_nl_rune p :
  count_nl (firstn (snd (decode p)) p) = if (fst (decode p) =? NL)%N then 1 else 0.
Proof.
  destruct p as [|p0 t]; [reflexivity|].
  destruct (N.ltb_spec p0 128) as [Hlt|Hge].
  - rewrite decode_ascii by assumption. cbn. rewrite Nat.add_0_r. reflexivity.
  - pose proof (decode_high p0 t Hge) as Hh.
    destruct (fst (decode (p0 :: t)) =? NL)%N eqn:E; [unfold NL in E; lia|].
    clear E Hh. revert Hge. unfold decode.
    destruct (p0 <? 128)%N eqn:E0; [lia|]. intros _.
    assert (Hp0 : (p0 =? NL)%N = false) by (unfold NL; lia).
    destruct (lead p0) as [[[sz lo] hi]|] eqn:El; [|cbn; rewrite Hp0; reflexivity].
    apply lead_spec in El.
    destruct (length (p0 :: t) <? sz); [cbn; rewrite Hp0; reflexivity|].
    destruct t as [|b1 t1]; [cbn; rewrite Hp0; reflexivity|].
    destruct ((b1 <? lo) || (hi <? b1))%N eqn:Eb1; [cbn; rewrite Hp0; reflexivity|].
    assert (Hb1 : (b1 =? NL)%N = false) by (unfold NL; lia).
    destruct (sz <=? 2); [cbn; rewrite Hp0, Hb1; reflexivity|].
    destruct t1 as [|b2 t2]; [cbn; rewrite Hp0; reflexivity|].
    destruct (negb (cont b2)) eqn:Eb2; [cbn; rewrite Hp0; reflexivity|].
    assert (Hb2 : (b2 =? NL)%N = false) by (unfold cont, NL in *; lia).
    destruct (sz <=? 3); [cbn; rewrite Hp0, Hb1, Hb2; reflexivity|].
    destruct t2 as [|b3 t3]; [cbn; rewrite Hp0; reflexivity|].
    destruct (negb (cont b3)) eqn:Eb3; [cbn; rewrite Hp0; reflexivity|].
    assert (Hb3 : (b3 =? NL)%N = false) by (unfold cont, NL in *; lia).
    cbn. rewrite Hp0, Hb1, Hb2, Hb3. reflexivity.
Qed.

Lemma plain_line_bytes inp k o L C :
  plainK inp k = (o, L, C) -> L = 1 + count_nl (firstn o inp).
Proof.
  revert o L C; induction k as [|k IH]; intros o L C H.
  - cbn in H. inversion H. reflexivity.
  - rewrite plainK_S in H. destruct (plainK inp k) as [[o0 L0] C0].
    specialize (IH o0 L0 C0 eq_refl).
    pose proof (count_nl_rune (skipn o0 inp)) as Hr.
    destruct (decode (skipn o0 inp)) as [r n]. cbn [fst snd] in Hr.
    destruct (r =? NL)%N; inversion H; subst;
      rewrite firstn_add_skipn, count_nl_app, Hr; lia.
Qed.

(* ====================================================================================== *)
(* read                                                                                     *)
(* ====================================================================================== *)

Lemma plain_lc_0 inp : plain_lc inp 0 1 1.
Proof. exists 0. split; [intros j Hj; lia|reflexivity]. Qed.

Lemma read_first_consistent inp : exists s, read inp pt0 = Some s /\ consistent inp s.
Proof.
  unfold read. cbn [off w pt0 Nat.add].
  destruct (length inp <? 0) eqn:E; [lia|].
  cbn [skipn]. destruct (decode inp) as [r n] eqn:Ed.
  pose proof (decode_width_le inp) as Hw. rewrite Ed in Hw. cbn in Hw.
  destruct (r =? NL)%N eqn:Er; eexists; (split; [reflexivity|]);
    exists 1, 1; cbn [off rn w line col]; (split; [apply plain_lc_0|]);
    (split; [cbn [skipn]; exact Ed|]); (split; [lia|]); rewrite Er; auto.
Qed.

Theorem read_preserves_consistent inp s :
  consistent inp s -> w s > 0 -> exists s', read inp s = Some s' /\ consistent inp s'.
Proof.
  intros [L [C [[k [Hv Hk]] [Hd [Hlen Hlc]]]]] Hw.
  assert (Hb : bnd inp k = off s) by (unfold bnd; rewrite Hk; reflexivity).
  unfold read.
  destruct (length inp <? off s + w s) eqn:E; [lia|].
  destruct (decode (skipn (off s + w s) inp)) as [r n] eqn:Ed.
  assert (Hn : off s + w s + n <= length inp).
  { pose proof (decode_width_le (skipn (off s + w s) inp)) as H.
    rewrite Ed, skipn_length in H. cbn in H. lia. }
  assert (Hv' : valid inp (S k)).
  { apply valid_step; [assumption|]. rewrite Hb, Hd. exact Hw. }
  assert (Hk' : plainK inp (S k) =
                if (rn s =? NL)%N then (off s + w s, S L, 1) else (off s + w s, L, S C)).
  { rewrite plainK_S, Hk, Hd. reflexivity. }
  destruct (rn s =? NL)%N eqn:Es; destruct Hlc as [Hl Hc];
    destruct (r =? NL)%N eqn:Er; eexists; (split; [reflexivity|]).
  - exists (S L), 1. cbn [off rn w line col]. split; [exists (S k); auto|].
    split; [exact Ed|]. split; [lia|]. rewrite Er. split; congruence.
  - exists (S L), 1. cbn [off rn w line col]. split; [exists (S k); auto|].
    split; [exact Ed|]. split; [lia|]. rewrite Er. split; congruence.
  - exists L, (S C). cbn [off rn w line col]. split; [exists (S k); auto|].
    split; [exact Ed|]. split; [lia|]. rewrite Er. split; congruence.
  - exists L, (S C). cbn [off rn w line col]. split; [exists (S k); auto|].
    split; [exact Ed|]. split; [lia|]. rewrite Er. split; congruence.
Qed.

(* every point the parser can hold is consistent (and read never slices out of range) *)
Theorem pos_invariant inp s : reach inp s -> consistent inp s.
Proof.
  induction 1 as [s H|s s' Hr IH Hw H].
  - destruct (read_first_consistent inp) as [s0 [H0 Hc]]. congruence.
  - destruct (read_preserves_consistent inp s IH Hw) as [s0 [H0 Hc]]. congruence.
Qed.

Theorem read_never_panics inp s : reach inp s -> w s > 0 -> exists s', read inp s = Some s'.
Proof.
  intros Hr Hw. destruct (read_preserves_consistent inp s (pos_invariant _ _ Hr) Hw) as [s' [H _]].
  eauto.
Qed.

(* lift to "any number of reads from the initial point", as long as the end is not passed *)
Theorem run_invariant inp n s :
  run inp (S n) = Some s ->
  (forall m s', m < n -> run inp (S m) = Some s' -> w s' > 0) ->
  reach inp s.
Proof.
  revert s; induction n as [|n IH]; intros s Hrun Hg.
  - cbn in Hrun. apply reach_first. exact Hrun.
  - change (run inp (S (S n))) with
        (match run inp (S n) with Some s0 => read inp s0 | None => None end) in Hrun.
    destruct (run inp (S n)) as [s0|] eqn:E0; [|discriminate].
    apply reach_next with s0.
    + apply IH; [reflexivity|]. intros m s' Hm. apply Hg. lia.
    + apply (Hg n s0); [lia|exact E0].
    + exact Hrun.
Qed.

Theorem offset_le_length inp s : consistent inp s -> off s <= length inp.
Proof. intros [L [C [_ [_ [H _]]]]]. lia. Qed.

(* The relation between the code's convention and the plain line / column of the offset. *)
Theorem line_col_spec inp s :
  consistent inp s ->
  exists L C,
    plain_lc inp (off s) L C /\
    L = 1 + count_nl (firstn (off s) inp) /\
    (nth (off s) inp 0%N <> NL \/ length inp <= off s -> line s = L /\ col s = C) /\
    (off s < length inp /\ nth (off s) inp 0%N = NL -> line s = S L /\ col s = 0).
Proof.
  intros [L [C [Hp [Hd [Hlen Hlc]]]]]. exists L, C. split; [exact Hp|].
  split; [destruct Hp as [k [_ Hk]]; eapply plain_line_bytes; eauto|].
  assert (Hnl : (rn s =? NL)%N = true <-> off s < length inp /\ nth (off s) inp 0%N = NL).
  { pose proof (decode_nl_iff (skipn (off s) inp)) as Hi. rewrite Hd in Hi. cbn [fst] in Hi.
    rewrite N.eqb_eq, Hi. split.
    - intros [t Ht].
      assert (off s < length inp).
      { destruct (Nat.lt_ge_cases (off s) (length inp)); [assumption|].
        rewrite skipn_all2 in Ht by assumption. discriminate. }
      split; [assumption|].
      rewrite <- (firstn_skipn (off s) inp) at 1. rewrite app_nth2; rewrite firstn_length_le by lia; [|lia].
      rewrite Nat.sub_diag, Ht. reflexivity.
    - intros [Hlt Hn].
      destruct (skipn (off s) inp) as [|b t] eqn:Es.
      + pose proof (skipn_length (off s) inp) as Hl. rewrite Es in Hl. cbn in Hl. lia.
      + exists t. f_equal. rewrite <- Hn.
        rewrite <- (firstn_skipn (off s) inp) at 1. rewrite app_nth2; rewrite firstn_length_le by lia; [|lia].
        rewrite Nat.sub_diag, Es. reflexivity. }
  split.
  - intro H. destruct (rn s =? NL)%N eqn:E; [|exact Hlc].
    destruct (proj1 Hnl eq_refl) as [E1 E2]. destruct H; [congruence|lia].
  - intro H. apply (proj2 Hnl) in H. rewrite H in Hlc. exact Hlc.
Qed.

(* defect #32 is reachable in the model: ".\n" — the parser point at offset 1 says 2:0,
   the plain position of offset 1 is 1:2 *)
Lemma defect32_point :
  run [46; 10]%N 2 = Some (mkPt 2 0 1 1 NL) /\ plain_lc [46; 10]%N 1 1 2.
Proof.
  split; [reflexivity|]. exists 1. split; [|reflexivity].
  intros j Hj. assert (j = 0) by lia. subst. cbn. lia.
Qed.

(* ---- the position handed to the error formatter --------------------------------------- *)
Lemma seek_reach fuel inp : forall s target s',
  reach inp s -> seek fuel inp s target = Some s' -> reach inp s' /\ off s' = target.
Proof.
  induction fuel as [|f IH]; intros s target s' Hr H; cbn in H.
  - destruct (off s =? target) eqn:E; [inversion H; subst; split; [assumption|lia]|].
    destruct (w s =? 0); discriminate.
  - destruct (off s =? target) eqn:E; [inversion H; subst; split; [assumption|lia]|].
    destruct (w s =? 0) eqn:Ew; [discriminate|].
    destruct (read inp s) as [s1|] eqn:Er; [|discriminate].
    apply (IH s1 target s'); [|exact H]. apply reach_next with s; [assumption|lia|exact Er].
Qed.

Lemma point_at_reach inp target s :
  point_at inp target = Some s -> reach inp s /\ off s = target.
Proof.
  unfold point_at. destruct (read inp pt0) as [s0|] eqn:E; [|discriminate].
  apply seek_reach. apply reach_first. exact E.
Qed.

(* fail_pos is total on rune boundaries: whenever the parser holds a point at that offset,
   fail_pos finds it (positions are a function of the offset) *)
Lemma consistent_fun inp s s' :
  consistent inp s -> consistent inp s' -> off s = off s' ->
  line s = line s' /\ col s = col s' /\ w s = w s' /\ rn s = rn s'.
Proof.
  intros [L [C [Hp [Hd [_ Hlc]]]]] [L' [C' [Hp' [Hd' [_ Hlc']]]]] Ho.
  rewrite Ho in *. destruct (plain_lc_fun _ _ _ _ _ _ Hp Hp') as [-> ->].
  rewrite Hd in Hd'. inversion Hd' as [[Hr Hw]]. rewrite Hr in Hlc.
  destruct (rn s' =? NL)%N; destruct Hlc, Hlc'; repeat split; congruence.
Qed.

(* ====================================================================================== *)
(* rendering (Model/ErrFmt.v)                                                               *)
(* ====================================================================================== *)

Lemma count_nl_firstn_le n l : count_nl (firstn n l) <= count_nl l.
Proof. rewrite <- (firstn_skipn n l) at 2. rewrite count_nl_app. lia. Qed.

(* ---- strings.Split(s, "\n") ---- *)
Lemma split_lines_length inp : length (split_lines inp) = S (count_nl inp).
Proof.
  induction inp as [|b t IH]; cbn [split_lines count_nl]; [reflexivity|].
  destruct (b =? NL)%N; [cbn [length]; lia|].
  destruct (split_lines t) as [|l r]; cbn [length] in *; lia.
Qed.

Lemma split_lines_no_nl inp : Forall (fun l => count_nl l = 0) (split_lines inp).
Proof.
  induction inp as [|b t IH]; cbn [split_lines]; [repeat constructor|].
  destruct (b =? NL)%N eqn:E; [constructor; [reflexivity|assumption]|].
  destruct (split_lines t) as [|l r]; [repeat constructor; cbn; rewrite E; reflexivity|].
  inversion IH; subst. constructor; [cbn; rewrite E; assumption|assumption].
Qed.

Lemma count_nl_trunc l : count_nl l = 0 -> count_nl (trunc l) = 0.
Proof.
  intro H. unfold trunc. destruct (60 <? length l); [|assumption].
  rewrite count_nl_app. pose proof (count_nl_firstn_le 57 l).
  change (count_nl [46%N; 46%N; 46%N]) with 0. lia.
Qed.

Lemma get_line_in_range inp ln :
  1 <= ln <= length (split_lines inp) ->
  get_line inp ln = trunc (nth (ln - 1) (split_lines inp) []) /\ count_nl (get_line inp ln) = 0.
Proof.
  intro H. unfold get_line.
  destruct ((0 <? ln) && (ln <=? length (split_lines inp))) eqn:E.
  2:{ apply andb_false_iff in E. destruct E as [E|E];
      [apply Nat.ltb_ge in E|apply Nat.leb_gt in E]; lia. }
  split; [reflexivity|]. apply count_nl_trunc.
  pose proof (split_lines_no_nl inp) as F. rewrite Forall_forall in F.
  apply F. apply nth_In. lia.
Qed.

(* ---- decimal ---- *)
Lemma uint_bytes_digits d : forallb is_digit (uint_bytes d) = true.
Proof. induction d; cbn [uint_bytes forallb]; try rewrite IHd; reflexivity. Qed.

Lemma digits_uint_bytes d : digits_uint (uint_bytes d) = d.
Proof. induction d; cbn; try rewrite IHd; reflexivity. Qed.

Lemma read_show n : read_nat (show_nat n) = n.
Proof. unfold read_nat, show_nat. rewrite digits_uint_bytes. apply Unsigned.of_to. Qed.

Lemma show_nat_cons n : exists d ds, show_nat n = d :: ds /\ is_digit d = true.
Proof.
  unfold show_nat.
  assert (H : Nat.to_uint n <> Nil).
  { rewrite <- (Unsigned.of_to n) at 1. rewrite Unsigned.to_of. apply unorm_nonnil. }
  pose proof (uint_bytes_digits (Nat.to_uint n)) as Hd.
  destruct (Nat.to_uint n); [congruence| | | | | | | | | |];
    cbn [uint_bytes] in *; eexists; eexists; (split; [reflexivity|reflexivity]).
Qed.

Lemma digits_no_nl l : forallb is_digit l = true -> count_nl l = 0.
Proof.
  induction l as [|b r IH]; [reflexivity|]. cbn [forallb count_nl]. intro H.
  apply andb_prop in H. destruct H as [Hb Hr]. rewrite (IH Hr).
  destruct (b =? NL)%N eqn:E; [|reflexivity]. unfold is_digit, NL in *. lia.
Qed.

(* ---- scanning helpers ---- *)
Lemma split_at_nl_app a b : count_nl a = 0 -> split_at_nl (a ++ NL :: b) = (a, b).
Proof.
  induction a as [|x a IH]; intro H.
  - cbn. reflexivity.
  - cbn [count_nl] in H. simpl app. simpl split_at_nl.
    destruct (x =? NL)%N; [lia|]. rewrite IH by lia. reflexivity.
Qed.

Lemma strip_app p r : strip p (p ++ r) = Some r.
Proof.
  induction p as [|x p IH]; [destruct r; reflexivity|].
  simpl. rewrite N.eqb_refl. exact IH.
Qed.

Lemma span_app (f : N -> bool) a c r :
  forallb f a = true -> f c = false -> span f (a ++ c :: r) = (a, c :: r).
Proof.
  induction a as [|x a IH]; intros Ha Hc.
  - cbn. rewrite Hc. reflexivity.
  - cbn [forallb] in Ha. apply andb_prop in Ha. destruct Ha as [Hx Ha].
    simpl. rewrite Hx, IH by assumption. reflexivity.
Qed.

Lemma forallb_repeat32 k : forallb (N.eqb 32) (repeat 32%N k) = true.
Proof. induction k; [reflexivity|]. cbn. exact IHk. Qed.

(* ---- the position line ---- *)
Lemma pos_msg_app ln cl m x : pos_msg ln cl m ++ x = pos_msg ln cl (m ++ x).
Proof. unfold pos_msg. rewrite <- !app_assoc. reflexivity. Qed.

Lemma parse_pos_ok W ln cl m :
  forallb (fun b => negb (is_digit b)) W = true ->
  parse_pos (W ++ pos_msg ln cl m) = Some (ln, cl).
Proof.
  intro HW. unfold parse_pos, pos_msg.
  destruct (show_nat_cons ln) as [d [ds [E Hd]]].
  destruct (show_nat_cons cl) as [d' [ds' [E' Hd']]].
  pose proof (uint_bytes_digits (Nat.to_uint ln)) as Hall. fold (show_nat ln) in Hall.
  pose proof (uint_bytes_digits (Nat.to_uint cl)) as Hall'. fold (show_nat cl) in Hall'.
  rewrite E.
  replace (W ++ (d :: ds) ++ [58%N] ++ show_nat cl ++ [32%N; 45%N; 32%N] ++ m)
    with (W ++ d :: (ds ++ 58%N :: show_nat cl ++ 32%N :: 45%N :: 32%N :: m)) by reflexivity.
  rewrite (span_app (fun b => negb (is_digit b)) W d) by (try assumption; rewrite Hd; reflexivity).
  replace (d :: ds ++ 58%N :: show_nat cl ++ 32%N :: 45%N :: 32%N :: m)
    with ((d :: ds) ++ 58%N :: (show_nat cl ++ 32%N :: 45%N :: 32%N :: m)) by reflexivity.
  rewrite (span_app is_digit (d :: ds) 58%N) by (try reflexivity; rewrite <- E; exact Hall).
  rewrite (span_app is_digit (show_nat cl) 32%N) by (try reflexivity; exact Hall').
  rewrite E' at 1. rewrite <- E, !read_show. reflexivity.
Qed.

Definition hd_text (l : Lang) : bytes := drop_nl (header l).

Lemma header_shape l : header l = hd_text l ++ [NL] /\ count_nl (hd_text l) = 0.
Proof. destruct l; split; reflexivity. Qed.

Lemma tail_shape l ln cl cn en :
  exists W m, tail l ln cl cn en = W ++ pos_msg ln cl m /\
              forallb (fun b => negb (is_digit b)) W = true /\ (W = w_cn \/ W = w_en).
Proof.
  destruct l; cbn [tail].
  - exists w_cn, (cn ++ [NL] ++ w_en ++ pos_msg ln cl en). rewrite <- pos_msg_app.
    repeat split; auto.
  - exists w_cn, cn. repeat split; auto.
  - exists w_en, en. repeat split; auto.
Qed.

(* From the rendered text one recovers exactly the line, the column, the quoted line and the caret
   column; the caret stands after (col - 1) blanks (0 when col = 0). *)
Theorem render_parses_back l ln cl inp cn en ch :
  inp <> [] -> 1 <= ln <= length (split_lines inp) ->
  parse_back (render l ln cl inp cn en ch) =
  Some (ln, cl, Some (get_line inp ln, caret_spaces cl)).
Proof.
  intros Hne Hln.
  destruct (get_line_in_range inp ln Hln) as [_ Hq].
  destruct (header_shape l) as [Hh Hh0].
  destruct (tail_shape l ln cl (fmt_msg cn ch) (fmt_msg en ch)) as [W [m [Ht [HW HWc]]]].
  unfold render, context. destruct inp as [|b0 t0]; [congruence|].
  set (q := get_line (b0 :: t0) ln) in *. rewrite Hh, Ht.
  set (k := caret_spaces cl).
  assert (Hshape :
    (hd_text l ++ [NL]) ++ (bar ++ gutter ++ q ++ [NL] ++ gutter ++ repeat 32%N k ++ [94%N; NL] ++ bar)
      ++ W ++ pos_msg ln cl m
    = hd_text l ++ NL :: ((bar ++ gutter) ++ (q ++ NL :: (gutter ++ (repeat 32%N k ++ 94%N ::
        (NL :: bar ++ W ++ pos_msg ln cl m)))))).
  { rewrite <- !app_assoc. reflexivity. }
  rewrite Hshape. unfold parse_back.
  rewrite split_at_nl_app by assumption.
  rewrite strip_app.
  rewrite split_at_nl_app by assumption.
  rewrite strip_app.
  rewrite (span_app (N.eqb 32) (repeat 32%N k) 94%N) by (try reflexivity; apply forallb_repeat32).
  change (94%N :: NL :: bar ++ W ++ pos_msg ln cl m) with (([94%N; NL] ++ bar) ++ W ++ pos_msg ln cl m).
  rewrite strip_app. rewrite parse_pos_ok by assumption.
  rewrite repeat_length. reflexivity.
Qed.

Theorem render_parses_back_empty l ln cl cn en ch :
  parse_back (render l ln cl [] cn en ch) = Some (ln, cl, None).
Proof.
  destruct (header_shape l) as [Hh Hh0].
  destruct (tail_shape l ln cl (fmt_msg cn ch) (fmt_msg en ch)) as [W [m [Ht [HW HWc]]]].
  unfold render, context. rewrite Hh, Ht.
  replace ((hd_text l ++ [NL]) ++ [] ++ W ++ pos_msg ln cl m)
    with (hd_text l ++ NL :: (W ++ pos_msg ln cl m)) by (rewrite <- app_assoc; reflexivity).
  unfold parse_back.
  rewrite split_at_nl_app by assumption.
  assert (Hs : strip (bar ++ gutter) (W ++ pos_msg ln cl m) = None).
  { destruct HWc as [-> | ->]; reflexivity. }
  rewrite Hs. rewrite parse_pos_ok by assumption. reflexivity.
Qed.

(* ---- language ---- *)
(* The Chinese rendering does not depend on the English column of the table, the English one not
   on the Chinese column; both are header ++ context ++ position word ++ line:col - message. *)
Theorem render_cn_only ln cl inp cn en en' ch :
  render Cn ln cl inp cn en ch = render Cn ln cl inp cn en' ch /\
  render Cn ln cl inp cn en ch = h_cn ++ context ln cl inp ++ w_cn ++ pos_msg ln cl (fmt_msg cn ch).
Proof. split; reflexivity. Qed.

Theorem render_en_only ln cl inp cn cn' en ch :
  render En ln cl inp cn en ch = render En ln cl inp cn' en ch /\
  render En ln cl inp cn en ch = h_en ++ context ln cl inp ++ w_en ++ pos_msg ln cl (fmt_msg en ch).
Proof. split; reflexivity. Qed.

(* the bilingual rendering carries both position lines *)
Theorem render_bi_both ln cl inp cn en ch :
  exists pre,
    render Bi ln cl inp cn en ch =
    pre ++ (w_cn ++ pos_msg ln cl (fmt_msg cn ch)) ++ [NL] ++ (w_en ++ pos_msg ln cl (fmt_msg en ch)).
Proof.
  exists (h_bi ++ context ln cl inp). unfold render, tail, header.
  rewrite <- !app_assoc. reflexivity.
Qed.

(* the context block (quoted line and caret) is the same under every language setting *)
Theorem context_language_independent l l' ln cl inp cn en ch :
  exists a b a' b',
    render l ln cl inp cn en ch = a ++ context ln cl inp ++ b /\
    render l' ln cl inp cn en ch = a' ++ context ln cl inp ++ b'.
Proof. unfold render. do 4 eexists. split; reflexivity. Qed.

Lemma msg_table_ok : table_ok msg_table = true.
Proof. vm_compute. reflexivity. Qed.

(* Sprintf on a well-formed template with a verb is the substitution of the encoded rune *)
Lemma fmt_msg_verb t ch : ch <> 0%N -> has_verb t = true -> fmt_msg t ch = subst_c t (encode_rune ch).
Proof.
  intros Hc Hv. unfold fmt_msg. destruct (ch =? 0)%N eqn:E; [lia|]. rewrite Hv. reflexivity.
Qed.

(* ---- the footprint of a message: no shared state ---- *)
(* Context.Parse stores its own Config.ParseErrorLanguage (>= 0) in the error value: the text then
   does not depend on the package-level default, the only state VMs share on this path. *)
Theorem error_text_independent_of_default err_lang d d' ln cl inp cn en ch :
  (0 <= err_lang)%Z ->
  error_text err_lang d ln cl inp cn en ch = error_text err_lang d' ln cl inp cn en ch.
Proof.
  intro H. unfold error_text. destruct (err_lang <? 0)%Z eqn:E; [lia|reflexivity].
Qed.

(* and a negative setting does fall back to the shared default: by design, stated *)
Lemma error_text_negative_uses_default :
  error_text (-1) 1 1 1 [] [65%N] [66%N] 0 <> error_text (-1) 2 1 1 [] [65%N] [66%N] 0.
Proof. vm_compute. discriminate. Qed.

(* ---- the quoted line is the line the position names ---- *)
Theorem quoted_line_consistent inp s :
  consistent inp s ->
  1 <= line s <= length (split_lines inp) /\
  get_line inp (line s) = trunc (nth (line s - 1) (split_lines inp) []) /\
  line s - 1 = count_nl (firstn (off s) inp) + (if (rn s =? NL)%N then 1 else 0).
Proof.
  intros [L [C [[k [Hv Hk]] [Hd [Hlen Hlc]]]]].
  pose proof (plain_line_bytes inp k _ _ _ Hk) as HL.
  assert (Hcnt : count_nl inp = count_nl (firstn (off s) inp) + count_nl (skipn (off s) inp)).
  { rewrite <- (firstn_skipn (off s) inp) at 1. apply count_nl_app. }
  assert (Hb : 1 <= line s <= length (split_lines inp) /\
               line s - 1 = count_nl (firstn (off s) inp) + (if (rn s =? NL)%N then 1 else 0)).
  { rewrite split_lines_length.
    destruct (rn s =? NL)%N eqn:E.
    - destruct Hlc as [Hl _].
      assert (Hs : exists t, skipn (off s) inp = NL :: t).
      { apply decode_nl_iff. rewrite Hd. cbn. apply N.eqb_eq. exact E. }
      destruct Hs as [t Ht]. rewrite Ht in Hcnt. cbn [count_nl] in Hcnt.
      rewrite N.eqb_refl in Hcnt. lia.
    - destruct Hlc as [Hl _]. lia. }
  destruct Hb as [Hb1 Hb2]. split; [exact Hb1|]. split; [|exact Hb2].
  apply get_line_in_range. exact Hb1.
Qed.

(* the position the formatter receives always names an existing line *)
Theorem fail_pos_line_in_range inp o ln cl :
  fail_pos inp o = Some (ln, cl) -> 1 <= ln <= length (split_lines inp).
Proof.
  unfold fail_pos. destruct (o =? 0) eqn:E.
  - intro H. inversion H. rewrite split_lines_length. lia.
  - destruct (point_at inp o) as [s|] eqn:Ep; [|discriminate].
    intro H. inversion H; subst.
    apply point_at_reach in Ep. destruct Ep as [Hr _].
    apply (quoted_line_consistent inp s (pos_invariant _ _ Hr)).
Qed.

Theorem fail_pos_offset_le inp o ln cl : fail_pos inp o = Some (ln, cl) -> o <= length inp.
Proof.
  unfold fail_pos. destruct (o =? 0) eqn:E; [lia|].
  destruct (point_at inp o) as [s|] eqn:Ep; [|discriminate]. intros _.
  apply point_at_reach in Ep. destruct Ep as [Hr Ho].
  pose proof (offset_le_length inp s (pos_invariant _ _ Hr)). lia.
Qed.
