"""C16 — disabled syntax stays disabled: flags gate what input can do."""
import importlib.util
import json
import os
import random

import common
import gen
import pegcases
from common import Broken

LEVEL = "proof"

FAMILIES = {  # flag index -> (name, gated opcodes)
    0: ("WoD", ["typeDiceWod", "typeWodSetInit", "typeWodSetPool", "typeWodSetPoints", "typeWodSetThreshold", "typeWodSetThresholdQ"]),
    1: ("CoC", ["typeDiceCocBonus", "typeDiceCocPenalty"]),
    2: ("Fate", ["typeDiceFate"]),
    3: ("DoubleCross", ["typeDiceDC", "typeDCSetInit", "typeDCSetPool", "typeDCSetPoints"]),
}
STMT_OPS = ["typePushFunction", "typeBlockPush", "typeBlockPop", "typeReturn"]
MACRO = b"#EnableDice"


def opcode_numbers():
    spec = importlib.util.spec_from_file_location("gen_grammar_mod", os.path.join(common.VERIF, "tools", "gen_grammar.py"))
    src = open(os.path.join(common.REPO, "bytecode.go"), encoding="utf-8").read()
    import re
    m = re.search(r"const \(\n\s*typePushIntNumber CodeType = iota\n(.*?)\n\)", src, re.S)
    names = ["typePushIntNumber"] + [l.split("//")[0].strip() for l in m.group(1).split("\n") if l.split("//")[0].strip()]
    return {n: i for i, n in enumerate(names)}


def gating_v(ops):
    def lst(names):
        return "[" + ";".join(str(ops[n]) for n in names) + "]"
    ml = "[" + ";".join(str(b) for b in MACRO) + "]"
    lines = ["From Coq Require Import NArith List Bool.", "From DS Require Import Model.Peg Model.Gating Gen.Grammar.",
             "Import ListNotations. Open Scope N_scope.", "Set Printing Width 1000000.",
             "Definition inst (f : N) (bv : bool) (X ml : list N) : bool :=",
             "  let g := flat_map (guard_ids preds f bv ml) rules in",
             "  let U := compute_U acts preds f bv X ml g 300 rules [] in gated acts preds f bv X ml g rules U.",
             "Definition results : list bool := Eval vm_compute in ["]
    items = [f"inst {f} false {lst(FAMILIES[f][1])} {ml}" for f in sorted(FAMILIES)]
    items.append(f"inst 5 true {lst(STMT_OPS)} []")
    lines.append(";\n".join(items) + "].\nPrint results.")
    lines.append("Definition unk := Eval vm_compute in (List.length untranslated_actions + List.length untranslated_preds + List.length translation_problems)%nat.\nPrint unk.")
    return "\n".join(lines) + "\n"


def run(res, tier, seed):
    common.build_harness()
    rnd = random.Random(seed)
    ops = opcode_numbers()
    stats = pegcases.regenerate_grammar()
    res.cov["translator"] = stats
    n = 700 if tier == "quick" else 6000

    # --- inputs x flag settings (all 2^4 family settings x the three disable flags are sampled; every single flag appears)
    inputs = []
    pres = []
    corpus = pegcases.scrape_test_sources()
    for i in range(n):
        fl = [rnd.random() < 0.5 for _ in range(7)]
        k = rnd.randrange(10)
        if k < 2:
            b = rnd.choice(corpus)
        elif k < 4:
            # identifier/number mixes around the dice letters
            b = "".join(rnd.choice(["a", "b", "c", "f", "p", "d", "1", "2", "10", "3a5", "2c3", "b2", "p", "f", " ", "+", "k", "m", "q", "x", "(", ")"])
                        for _ in range(rnd.randrange(1, 7))).encode()
        else:
            b = gen.random_input(rnd)
        pre = b""
        if rnd.random() < 0.3:
            # histories with a macro: evaluated fine, failing at run time, or failing to parse
            pre = ("// #EnableDice " + rnd.choice(["wod", "coc", "fate", "doublecross"]) + " true\n" +
                   rnd.choice(["b2", "3a8", "f", "2c8", "1", "b2 + 1/0", "f + nosuch()", "3a8 + [1][5]", "2c8 + 'a' - 1", "b2 +", "1 ? "])).encode()
        if k >= 4 and rnd.random() < 0.15:
            b = gen.st_input(rnd).encode()
        inputs.append((b, fl))
        pres.append(pre)
    # st lists: `est` saves, restricts and restores the syntax flags around every non-parenthesised value, so what the host
    # disabled must still be disabled in LATER values of the same list (parenthesised values, templates with statements, dice)
    gated_vals = ["(`{% if 1 { x = 7 } %}`)", "(`{% x = 0; while x < 1 { x = x + 1 } %}`)", "(`{% func g() { 1 } %}`)", "(`{if 1 {x=7}}`)", "`{% if 1 { 2 } %}`",
                  "(5a8)", "5a8", "(b2)", "b2", "(f)", "f", "(2c5)", "2c5", "(3d)", "(1|2)", "p", "(p3)", "3a8k5"]
    plain_vals = ["60", "7", "1d1", "2d6+1", "1.5", "(1+2)", "10"]
    for i in range(n // 4):
        fl = [rnd.random() < 0.5 for _ in range(7)]
        if rnd.random() < 0.6:
            fl[5] = True
        items = []
        for j in range(rnd.randrange(1, 5)):
            nm = rnd.choice(["力量", "敏捷", "hp", "san", "x", "射击:弓箭"])
            v = rnd.choice(gated_vals if rnd.random() < 0.5 else plain_vals)
            items.append(rnd.choice([nm + v, nm + rnd.choice([":", "="]) + v, nm + " " + v, "&" + nm + "=" + v, nm + rnd.choice(["+", "-", "+=", "-="]) + v]))
        inputs.append((("^st" + rnd.choice(["", " "]) + rnd.choice(["", " ", ",", ", "]).join(items)).encode(), fl))
        pres.append(b"")
    rows = pegcases.go_parse(inputs, pres)
    nmacro = sum(1 for b, _ in inputs if MACRO in b)
    for (b, fl), r in zip(inputs, rows):
        res.count(b.hex() + "".join("1" if x else "0" for x in fl), nontrivial=r["ok"])
    res.cov["rule"] = ("inputs: repository test sources, identifier/number mixes around the dice letters a b c f p d, generated programs, token soups, "
                       "st lists, byte/token mutations, program+tail; x random settings of the 7 syntax flags; 25% with a macro-bearing input run "
                       "before on the same VM; each parsed by the real parser (opcode set of the compiled code incl. nested bodies, Config before/after) "
                       "and by the PEG model on the regenerated grammar; distinct = distinct (input, flags); non-trivial = accepted inputs")
    res.cov["input_distribution"] = {"inputs": len(inputs), "accepted": sum(1 for r in rows if r["ok"]), "containing_macro_text": nmacro,
                                     "with_macro_history": sum(1 for p in pres if p)}
    res.sample({"input": inputs[0][0].decode("utf-8", "replace"), "flags": inputs[0][1], "ops": rows[0].get("ops")})
    res.cov["trusted_base"] += [
        "translator tools/gen_grammar.py (grammar reflection dump + regex translation of the 212 action/predicate bodies and the ParserData helpers "
        "into the action language; may-emit sets are over-approximations); its output coq/Gen/Grammar.v is regenerated from /repo on every run",
        "Model/Peg.v is a hand-written model of the generated pigeon interpreter, tied by exact K1 correspondence (accept, offset, ExprCnt, furthest failure, emitted opcodes)",
        "hypothesis of the family theorems: the input does not contain the text `#EnableDice` (= lacks an explicit enabling macro)",
        "stored functions / computed values compiled under an earlier macro keep their dice when called later (interpretation note in DESIGN.md)",
    ]

    # --- property-level search on the real parser
    found = 0
    for (b, fl), r, pre in zip(inputs, rows, pres):
        if r.get("panic"):
            continue
        if not r["cfgSame"]:
            res.violation({"what": "Parse changed the VM's configuration", "input": b.decode("utf-8", "replace"), "input_hex": b.hex(), "flags": fl})
            found += 1
        if not r["ok"]:
            continue
        got = set(r["ops"] or [])
        for f, (name, xs) in FAMILIES.items():
            if not fl[f] and MACRO not in b:
                hit = [x for x in xs if ops[x] in got]
                if hit:
                    res.violation({"what": f"{name} dice compiled although the family is disabled and the input has no enabling macro",
                                   "input": b.decode("utf-8", "replace"), "input_hex": b.hex(), "flags": fl, "opcodes": hit,
                                   "history": pre.decode("utf-8", "replace")})
                    found += 1
        if fl[5]:
            hit = [x for x in STMT_OPS if ops[x] in got]
            if hit:
                res.violation({"what": "statement opcodes compiled although DisableStmts is set", "input": b.decode("utf-8", "replace"),
                               "input_hex": b.hex(), "flags": fl, "opcodes": hit})
                found += 1
        if found >= 4:
            break

    # --- RunExpr, the second entry point that compiles text: same gating as Run
    stmt_progs = ["i = 0; while i < 3 { i = i + 1 }; i", "x = 1; if x { x = 5 }; x", "func g() { return 7 }; y = g(); y", "x = 2; while x < 9 { x = x * 2 }; x",
                  "if 1 { 2 } else { 3 }", "`{% if 1 { 2 } %}`", "`{% i=0; while i<2 { i=i+1 }; i %}`", "b2", "3a8", "f", "2c5", "p", "b", "5a10k3", "1|2", "3d", "d", "1+2", "x = 5; x + 1"]
    rx_inputs = [(p.encode(), [rnd.random() < 0.5 for _ in range(7)]) for p in stmt_progs for _ in range(6)] + \
                [(b, fl) for (b, fl) in inputs[: (300 if tier == "quick" else 3000)]]
    import base64 as _b64
    rx_rows, _ = common.run_harness(["c16-runexpr"], stdin="\n".join(json.dumps({"b64": _b64.b64encode(b).decode(), "flags": fl}) for b, fl in rx_inputs) + "\n",
                                    timeout=900)
    rx_bad = 0
    for (b, fl), r in zip(rx_inputs, rx_rows):
        differ = (r.get("run_ok") and r.get("expr_ok") and r["run_str"] != r["expr_str"] and "{" not in r["run_str"] + r["expr_str"]) or \
                 (not r.get("run_ok") and r.get("expr_ok") and not r.get("expr_panic"))      # Run rejects the text, RunExpr evaluates it
        if differ:
            rx_bad += 1
            if rx_bad <= 2:
                res.violation({"what": "RunExpr evaluates text differently from Run under the same syntax flags (what the flags disable for Run must be disabled "
                                       "for RunExpr too)", "input": b.decode("utf-8", "replace"), "input_hex": b.hex(), "flags": fl,
                               "Run": r["run_str"] if r.get("run_ok") else "error", "RunExpr": r.get("expr_str"), "Run_rest": r.get("run_rest")})
                found += 1
    # the same text evaluated before under the permissive setting on the same VM: flipping the switches takes effect
    hist_bad = 0
    for (b, fl), r in zip(rx_inputs, rx_rows):
        if r.get("hist_panic") or "{" in str(r.get("run_str")) + str(r.get("expr_str")):
            continue
        d1 = (bool(r.get("hist_expr_ok")), r.get("hist_expr_str")) != (bool(r.get("expr_ok")), r.get("expr_str"))
        d2 = (bool(r.get("hist_run_ok")), r.get("hist_run_str"), r.get("hist_run_rest")) != (bool(r.get("run_ok")), r.get("run_str"), r.get("run_rest"))
        if d1 or d2:
            hist_bad += 1
            if hist_bad <= 2:
                res.violation({"what": "after the host changed the syntax switches on a VM that had evaluated the same text under the permissive setting, "
                                       + ("RunExpr" if d1 else "Run") + " does not behave as on a fresh VM with the new setting (a disabled family / statement "
                                       "syntax must stay disabled for text the VM has compiled before)", "input": b.decode("utf-8", "replace"), "input_hex": b.hex(),
                               "flags_now": fl, "fresh_vm": {"RunExpr": r.get("expr_str") if r.get("expr_ok") else "error", "Run": r.get("run_str") if r.get("run_ok") else "error",
                                                             "Run_rest": r.get("run_rest")},
                               "used_vm": {"RunExpr": r.get("hist_expr_str") if r.get("hist_expr_ok") else "error", "Run": r.get("hist_run_str") if r.get("hist_run_ok") else "error",
                                           "Run_rest": r.get("hist_run_rest")}})
                found += 1
    res.cov["switches_flipped_on_used_vm"] = {"inputs": len(rx_inputs), "disagreements": hist_bad}
    res.cov["runexpr_vs_run"] = {"inputs": len(rx_inputs), "both_evaluated": sum(1 for r in rx_rows if r.get("run_ok") and r.get("expr_ok")), "disagreements": rx_bad}

    broken = None
    try:
        if stats["untranslated"]:
            raise Broken("translator: constructs it does not understand", stats["untranslated"])
        if os.path.exists(os.path.join(common.COQ, "Properties", "C16.v")):
            info = common.check_property_file("C16")
            res.proof(info, "tools/gen_grammar.py (regenerate Gen/Grammar.v); cd coq && make && coqc -Q . DS Properties/C16.v")
        else:
            common.coq_make()
        out = common.coq_eval("c16_gating", gating_v(ops))
        flags_ok = common.parse_coq_list(out, "results")
        res.cov["gating_side_conditions"] = dict(zip(["WoD", "CoC", "Fate", "DoubleCross", "DisableStmts"], flags_ok))
        res.cov["obligations"] += 5
        res.cov["discharged"] += sum(1 for x in flags_ok if x == "true")
        if any(x != "true" for x in flags_ok):
            broken = Broken("side condition gated(Gen.Grammar) = true fails for " +
                            str([k for k, v in res.cov["gating_side_conditions"].items() if v != "true"]))
        bad = pegcases.correspond(inputs, rows, "c16k1")
        res.cov["correspondence"] = {"cases": len(inputs), "disagreements": len(bad)}
        if bad and not broken:
            broken = Broken("correspondence CorrK1.k1_ok (Model/Peg.v on Gen/Grammar.v vs Go Parse)",
                            {"first": [{"input": inputs[i][0].decode("utf-8", "replace"), "hex": inputs[i][0].hex(), "flags": inputs[i][1],
                                        "go": {k: rows[i][k] for k in ("ok", "offset", "cnt", "fail", "ops")}} for i in bad[:3]]})
    except Broken as b:
        broken = b
    if broken and not found:
        # enlarged search aimed at the alternatives behind the guards
        extra = []
        for fl in ([False] * 7, [False, False, False, False, True, True, True]):
            for t in ["b2", "p", "b", "3a5", "2a8k6", "a5", "2c3", "2c8m10", "f", "f+1", "1+f", "if 1 {2}", "while 0 {}", "func g() {1}", "`{% if 1 {2} %}`",
                      "x = b2", "[b2, 3a5]", "{'k': f}", "(b)", "b ", " b", "1;b", "&x = b2; x", "^st力量b2", "3a5+2c3", "return 1"]:
                extra.append((t.encode(), list(fl)))
        # st lists: the value rule pushes / pops the flags around each value
        for fl in ([False, False, False, False, True, True, True], [True, True, True, True, False, True, False]):
            for first in ("a=1", "力量60", "&a=1d6", "x:2"):
                for sep in (" ", ",", ""):
                    for second in ("b=(`{% if 1 { 2 } %}`)", "b=(`{% func g() { 1 } %}`)", "b=(`{% x = 0; while x < 1 { x = x + 1 } %}`)",
                                   "敏捷`{% if 1 { 2 } %}`", "b=(2d)", "b:(1|2)"):
                        extra.append((("^st" + first + sep + second).encode(), list(fl)))
        xr = pegcases.go_parse(extra)
        for (b, fl), r in zip(extra, xr):
            if not r["ok"] or found >= 4:
                continue
            got = set(r["ops"] or [])
            for f, (name, xs) in FAMILIES.items():
                if not fl[f] and any(ops[x] in got for x in xs):
                    res.violation({"what": f"{name} dice compiled although the family is disabled", "input": b.decode(), "flags": fl})
                    found += 1
            if fl[5] and any(ops[x] in got for x in STMT_OPS):
                res.violation({"what": "statement opcodes compiled although DisableStmts is set", "input": b.decode(), "flags": fl})
                found += 1
    if broken and not found:
        res.violation({"broken": broken.what, "detail": broken.detail}, no_input=True)


def replay(path):
    p = json.load(open(path))
    print(json.dumps(p, indent=1, ensure_ascii=False))
    return 0
