(* C18 — the st command reports every attribute edit once, in order, verbatim.
   Only statements + `exact lemma` + Print Assumptions live here.

   VM half (proved for ALL edit lists): the code the st_* grammar actions emit for an edit list
   (`compile_st`, tied to the real parser by the projected-code correspondence) run by the four st.*
   cases of the VM (`st_exec`, tied by the callback-log correspondence) calls CallbackSt once per
   edit, in source order, with the written name, the evaluated value (negated for `name-expr`), the
   operator (`+=` reported as `+`), the factor of `*k` as extra — and no callback exists without its
   own st.* instruction.  The splitting of the text into names and values is the grammar's business:
   validated by search and by the K1 correspondence, not proved. *)
From Coq Require Import NArith ZArith List Bool.
From DS Require Import Model.Str Model.St Proofs.StProofs.
Import ListNotations.
Open Scope N_scope.

(* once each, in source order, name verbatim, value evaluated, `-` sign-normalised, `-=` and `+`
   untouched, `+=` reported as `+`, extra for `*k` (all of it is `callback_of`) *)
Theorem C18_st_trace : forall edits,
  all_negatable edits -> st_run (compile_st edits) = Some (map callback_of edits).
Proof. exact st_trace. Qed.
Print Assumptions C18_st_trace.

(* the same inside any program: whatever is below on the stack is neither read nor changed, the log
   so far is only extended *)
Theorem C18_st_trace_framed : forall edits rest stk log,
  all_negatable edits ->
  st_exec (compile_st edits ++ rest) stk (rev log) = st_exec rest stk (rev (log ++ map callback_of edits)).
Proof. exact st_trace_framed. Qed.
Print Assumptions C18_st_trace_framed.

(* nothing else: on ANY code, a successful run reports exactly one callback per st.* instruction … *)
Theorem C18_st_nothing_else : forall code log,
  st_run code = Some log -> length log = count_st code.
Proof. exact st_nothing_else. Qed.
Print Assumptions C18_st_nothing_else.

(* … in instruction order, each with the type / op / text its instruction fixes; a failed run
   reports a prefix of them *)
Theorem C18_st_signatures : forall code,
  (forall log, st_run code = Some log -> map cb_sig log = st_sigs code) /\
  (forall l, st_exec code [] [] = Failed l -> exists k, map cb_sig l = firstn k (st_sigs code)).
Proof. intro code. split; [exact (st_signatures code)|exact (st_failed_prefix code)]. Qed.
Print Assumptions C18_st_signatures.

(* and the code of an edit list has one st.* instruction per edit *)
Theorem C18_one_instruction_per_edit : forall edits, count_st (compile_st edits) = length edits.
Proof. exact count_st_compile. Qed.
Print Assumptions C18_one_instruction_per_edit.

(* a `name-expr` edit whose value has no negation is an error: the edits before it are reported, it
   and everything after it are not *)
Theorem C18_not_negatable_is_error :
  (forall edits, ~ all_negatable edits -> st_run (compile_st edits) = None) /\
  (forall es1 n v t es2, all_negatable es1 -> neg v = None ->
     st_exec (compile_st (es1 ++ EMod OpSub n v t :: es2)) [] [] = Failed (map callback_of es1)).
Proof. split; [exact st_not_negatable_is_error|exact st_not_negatable_stops]. Qed.
Print Assumptions C18_not_negatable_is_error.

(* ---- non-vacuity -------------------------------------------------------------------------- *)
(* `^stA*2:3 B-4d1+2 C+=5` in model terms: names "A" "B" "C"; B's captured text "-4d1+2" has value -2 *)
Definition ex_edits : list edit :=
  [ESetX1 [65] (SInt 2) (SInt 3); EMod OpSub [66] (SInt (-2)) [45;52;100;49;43;50]; EMod OpAddEq [67] (SInt 5) [53];
   EComputed [68] [49;100;54]].

Example C18_nonvacuous_trace :
  all_negatable ex_edits /\
  st_run (compile_st ex_edits) =
  Some [mkCb t_x1 [65] (SInt 3) (Some (SInt 2)) [] [];
        mkCb t_mod [66] (SInt 2) None s_minus [45;52;100;49;43;50];
        mkCb t_mod [67] (SInt 5) None s_plus [53];
        mkCb t_set [68] (SComputed [49;100;54]) None [] []].
Proof. split; [repeat constructor|reflexivity]. Qed.

(* st.x1 pops value, extra, name — a different order would swap them *)
Example C18_nonvacuous_pop_order :
  st_run [IPushName [65]; IPushExtra (SInt 2); IPushVal (SInt 3); IStX1] =
  Some [mkCb t_x1 [65] (SInt 3) (Some (SInt 2)) [] []] /\
  st_run [IPushName [65]; IPushVal (SInt 3); IPushExtra (SInt 2); IStX1] <>
  Some [mkCb t_x1 [65] (SInt 3) (Some (SInt 2)) [] []].
Proof. split; [reflexivity|vm_compute; discriminate]. Qed.

(* `-=` is not sign-normalised, `-` is; the sign bit of a float is flipped *)
Example C18_nonvacuous_sign :
  callback_of (EMod OpSubEq [65] (SInt 3) [51]) = mkCb t_mod [65] (SInt 3) None s_minuseq [51] /\
  callback_of (EMod OpSub [65] (SInt (-3)) [45;51]) = mkCb t_mod [65] (SInt 3) None s_minus [45;51] /\
  neg (SFloatBits 4609434218613702656) = Some (SFloatBits 13832806255468478464).
Proof. repeat split. Qed.

(* `^st力量+1 敏捷-1&&'a' 体质+3` in model terms: the second value is a string *)
Example C18_nonvacuous_not_negatable :
  let es := [EMod OpAdd [65] (SInt 1) [49]; EMod OpSub [66] (SStr [97]) [45;49]; EMod OpAdd [67] (SInt 3) [51]] in
  ~ all_negatable es /\ st_run (compile_st es) = None /\
  st_exec (compile_st es) [] [] = Failed [mkCb t_mod [65] (SInt 1) None s_plus [49]].
Proof.
  cbv zeta. split; [|split; reflexivity].
  intro H. inversion H as [|? ? _ H2]. inversion H2 as [|? ? H3 _]. discriminate H3.
Qed.

(* code that is not the code of an edit list: an empty stack is an error, the spurious callback with
   null arguments still counts against its instruction *)
Example C18_nonvacuous_underflow :
  st_run [IStSet] = None /\ st_exec [IStSet] [] [] = Failed [mkCb t_set [] SNull None [] []] /\
  st_run [IPushName [65]; IPushVal (SInt 1); IStSet; IPushVal (SInt 7)] = Some [mkCb t_set [65] (SInt 1) None [] []] /\
  count_st [IPushName [65]; IPushVal (SInt 1); IStSet; IPushVal (SInt 7)] = 1%nat.
Proof. repeat split. Qed.
