(* C17 — proofs about Model/Custom.v *)
From Coq Require Import NArith ZArith List String Bool Lia ZifyBool ZifyN ZifyNat.
From DS Require Import Model.Custom.
Import ListNotations.
Open Scope N_scope.
Local Arguments read_to : simpl never.

(* ================================================================== (a) protocol *)
Section ProtocolProofs.
  Variable m : N -> option rawmatch.
  Variable width : N -> N.

  (* `t` is reachable from `o` by whole runes: what every registered matcher guarantees (regexp matches on a Go string
     and CustomDiceStream.Read / ReadExpr end on rune boundaries of the parser's own decoder) *)
  Inductive boundary_from : N -> N -> Prop :=
  | bf_refl : forall o, boundary_from o o
  | bf_step : forall o t, 0 < width o -> o + width o <= t -> boundary_from (o + width o) t -> boundary_from o t.

  Lemma read_to_exact : forall o t, boundary_from o t ->
    forall fuel, (N.to_nat (t - o) < fuel)%nat -> read_to width fuel t o = t.
  Proof.
    induction 1 as [o | o t Hw Hle Hb IH]; intros fuel Hf.
    - destruct fuel as [| f]; [lia |].
      change (read_to width (S f) o o) with (if o <? o then read_to width f o (o + width o) else o).
      rewrite N.ltb_irrefl. reflexivity.
    - destruct fuel as [| f]; [lia |].
      change (read_to width (S f) t o) with (if o <? t then read_to width f t (o + width o) else o).
      assert (Hlt : (o <? t) = true) by (apply N.ltb_lt; lia).
      rewrite Hlt. apply IH. lia.
  Qed.

  Lemma set_pending_same : forall s, pending s = None -> set_pending s None = s.
  Proof. intros [p o e]; simpl; intros ->; reflexivity. Qed.

  Lemma set_pending_eq : forall s p, pending s = p -> set_pending s p = s.
  Proof. intros [p o e] q; simpl; intros ->; reflexivity. Qed.

  (* a match at the current offset: the predicate succeeds, the action advances exactly over the matched bytes,
     the commit emits exactly the matched text / groups / payload, and nothing stays pending *)
  Theorem protocol_on_match : forall s r,
    m (offset s) = Some r -> (0 < rm_len r)%Z ->
    boundary_from (offset s) (offset s + Z.to_N (rm_len r)) ->
    let s1 := snd (prepare m s) in
    let s2 := consume m width s1 in
    let s3 := commit s2 in
    fst (prepare m s) = true /\
    offset s2 = offset s + Z.to_N (rm_len r) /\
    emitted s3 = emitted s ++ [compile r] /\
    pending s3 = None /\ offset s3 = offset s2.
  Proof.
    intros s r Hm Hlen Hb.
    unfold prepare, try_match. rewrite Hm. simpl.
    unfold consume, ensure_pending. simpl. rewrite N.eqb_refl. simpl.
    assert (Hle : (rm_len r <=? 0)%Z = false) by lia.
    rewrite Hle. simpl.
    rewrite read_to_exact with (o := offset s) (t := offset s + Z.to_N (rm_len r)); [| assumption | lia].
    unfold commit. simpl. repeat split; reflexivity.
  Qed.

  (* the pending slot only ever holds what the matcher returns at the slot's own start offset *)
  Definition pwf (s : pstate) : Prop := forall p, pending s = Some p -> try_match m (m_start p) = Some p.

  Lemma try_match_start : forall o mt, try_match m o = Some mt -> m_start mt = o.
  Proof. unfold try_match; intros o mt; destruct (m o); intros H; inversion H; reflexivity. Qed.

  Lemma pwf_init : pwf pinit.
  Proof. intros p H; discriminate H. Qed.

  Lemma pwf_set : forall s o mt, try_match m o = Some mt -> pwf (set_pending s (Some mt)).
  Proof.
    intros s o mt H p Hp. simpl in Hp. inversion Hp; subst p.
    rewrite (try_match_start _ _ H). exact H.
  Qed.

  Lemma pwf_none : forall s, pwf (set_pending s None).
  Proof. intros s p H; discriminate H. Qed.

  Lemma pwf_step : forall o s, pwf s -> pwf (pstep m width o s).
  Proof.
    intros o s W. destruct o; simpl.
    - unfold prepare. destruct (try_match m (offset s)) eqn:E; simpl; [eapply pwf_set; eauto | apply pwf_none].
    - unfold consume, ensure_pending.
      destruct (pending s) as [p |] eqn:Ep.
      + destruct (m_start p =? offset s) eqn:Eo.
        * destruct (rm_len (m_raw p) <=? 0)%Z; [apply pwf_none |].
          intros q Hq. simpl in Hq. apply W. exact Hq.
        * destruct (try_match m (offset s)) eqn:E.
          -- destruct (rm_len (m_raw c) <=? 0)%Z; [apply pwf_none |].
             intros q Hq. simpl in Hq. inversion Hq; subst q.
             rewrite (try_match_start _ _ E). exact E.
          -- apply pwf_none.
      + destruct (try_match m (offset s)) eqn:E.
        * destruct (rm_len (m_raw c) <=? 0)%Z; [apply pwf_none |].
          intros q Hq. simpl in Hq. inversion Hq; subst q.
          rewrite (try_match_start _ _ E). exact E.
        * apply pwf_none.
    - unfold commit. destruct (pending s); [intros q Hq; discriminate Hq | apply pwf_none].
  Qed.

  Lemma pwf_run : forall ops s, pwf s -> pwf (prun m width ops s).
  Proof. induction ops; simpl; intros; [assumption | apply IHops, pwf_step; assumption]. Qed.

  (* whatever the slot holds, the consuming action behaves as if it held the match at the CURRENT offset *)
  Theorem stale_pending_never_used : forall s, pwf s ->
    consume m width s = consume m width (set_pending s (try_match m (offset s))).
  Proof.
    intros [ps os es] W. unfold pwf in W. unfold consume, ensure_pending, set_pending, set_offset. simpl in *.
    destruct ps as [p |].
    - destruct (m_start p =? os) eqn:Eo.
      + apply N.eqb_eq in Eo. subst os. pose proof (W p eq_refl) as Hp. rewrite Hp.
        rewrite N.eqb_refl. simpl. reflexivity.
      + destruct (try_match m os) as [mt |] eqn:E.
        * pose proof (try_match_start _ _ E) as Hs. subst os. rewrite N.eqb_refl. simpl. reflexivity.
        * simpl. rewrite ?E. reflexivity.
    - destruct (try_match m os) as [mt |] eqn:E.
      + pose proof (try_match_start _ _ E) as Hs. subst os. rewrite N.eqb_refl. simpl. reflexivity.
      + simpl. rewrite ?E. reflexivity.
  Qed.

  (* ... in every state the parser can be in *)
  Corollary stale_pending_never_used_reachable : forall ops o,
    let s := set_offset (prun m width ops pinit) o in
    consume m width s = consume m width (set_pending s (try_match m o)).
  Proof.
    intros ops o s. apply (stale_pending_never_used s).
    intros p Hp. apply (pwf_run ops pinit pwf_init p). exact Hp.
  Qed.

  (* a matcher that never matches: the three operations do nothing at all *)
  Theorem never_matching_protocol_inert : (forall o, m o = None) ->
    forall ops s, pending s = None ->
    prun m width ops s = s /\ Forall (fun b => b = false) (prepared m width ops s).
  Proof.
    intros Hn. assert (Ht : forall o, try_match m o = None) by (intro o; unfold try_match; rewrite Hn; reflexivity).
    assert (Hstep : forall o s, pending s = None -> pstep m width o s = s).
    { intros o s Hp. destruct o; simpl.
      - unfold prepare. rewrite Ht. simpl. apply set_pending_same, Hp.
      - unfold consume, ensure_pending. rewrite Hp, Ht. apply set_pending_same, Hp.
      - unfold commit. rewrite Hp. apply set_pending_same, Hp. }
    induction ops as [| o ops IH]; intros s Hp; simpl.
    - split; [reflexivity | constructor].
    - rewrite (Hstep o s Hp). destruct (IH s Hp) as [Hr Hf]. split; [exact Hr |].
      destruct o; simpl; try (rewrite (Hstep _ s Hp)); try exact Hf.
      constructor; [unfold prepare; rewrite Ht; reflexivity |].
      replace (snd (prepare m s)) with (pstep m width Prepare s) by reflexivity.
      rewrite (Hstep Prepare s Hp). exact Hf.
  Qed.
End ProtocolProofs.

(* ================================================================== (b) hooks *)
Section HookProofs.
  Variable val : Type.
  Variable null : val.
  Variable is_null : val -> bool.
  Variable is_computed : val -> bool.
  Variable val_eqb : val -> val -> bool.
  Variable world : Type.
  Variable exec : val -> hst val world -> hst val world * option val.
  Variable builtin : string -> option val.

  Notation hstT := (hst val world).
  Notation solveH := (solve val is_computed val_eqb world exec).
  Notation load_chainH := (load_chain val null is_null is_computed val_eqb world exec builtin).
  Notation load_globalH := (load_global val null is_computed val_eqb world exec builtin).
  Notation load_nameH := (load_name val null is_null is_computed val_eqb world exec builtin).
  Notation store_nameH := (store_name val world).
  Notation idH := (id_hooks val world).
  Notation noH := (no_hooks val world).
  Notation obs := (observe val world).

  Lemma set_dret_twice : forall (s : hstT) a b, set_dret val world (set_dret val world s a) b = set_dret val world s b.
  Proof. reflexivity. Qed.

  Lemma set_dret_same : forall (s : hstT), set_dret val world s (dret val world s) = s.
  Proof. intros [c g e d w]; reflexivity. Qed.

  (* the post hook that calls doCompute: same value; same state when a value comes back; on failure only the dead
     Ret field of the span may differ *)
  Lemma solve_id : forall name v isRaw wd (s : hstT),
    let p := solveH noH name v isRaw wd s in
    let q := solveH idH name v isRaw wd s in
    snd q = snd p /\
    (snd p <> None -> fst q = fst p) /\
    set_dret val world (fst q) None = set_dret val world (fst p) None.
  Proof.
    intros name v isRaw wd s. unfold solve. simpl.
    destruct wd.
    - unfold do_compute.
      destruct (if negb isRaw && is_computed v then exec v s else (s, Some v)) as [s1 r] eqn:E.
      destruct r as [v' |]; simpl.
      + destruct (opt_eqb val val_eqb (dret val world s) (Some v')); simpl; repeat split; reflexivity.
      + destruct (opt_eqb val val_eqb (dret val world s) (dret val world s1)); simpl; repeat split; try reflexivity;
          intros H; exfalso; apply H; reflexivity.
    - repeat split; reflexivity.
  Qed.

  Lemma obs_nil_eq : forall (a b : hstT), set_dret val world a None = set_dret val world b None ->
    obs (a, ONil val) = obs (b, ONil val) /\ obs (a, OPanic val) = obs (b, OPanic val).
  Proof. intros a b H. unfold observe. rewrite H. split; reflexivity. Qed.

  Lemma load_global_id : forall name isRaw wd (s : hstT),
    obs (load_globalH idH name isRaw wd s) = obs (load_globalH noH name isRaw wd s).
  Proof.
    intros name isRaw wd s. unfold load_global. simpl.
    destruct (solve_id name (match builtin name with Some v => v | None => null end) isRaw wd s) as [Hr [Hs Hd]].
    destruct (solveH noH name _ isRaw wd s) as [p1 pr] eqn:Ep.
    destruct (solveH idH name _ isRaw wd s) as [q1 qr] eqn:Eq.
    simpl in Hr, Hs, Hd. subst qr.
    destruct pr as [v |].
    - rewrite Hs by discriminate. reflexivity.
    - apply obs_nil_eq. exact Hd.
  Qed.

  Lemma load_chain_id : forall name isRaw wd scopes (s : hstT),
    obs (load_chainH idH name isRaw wd scopes s) = obs (load_chainH noH name isRaw wd scopes s).
  Proof.
    intros name isRaw wd. induction scopes as [| sc up IH]; intros s.
    - simpl. apply load_global_id.
    - simpl.
      destruct (solve_id name (match lookup val name sc with Some v => v | None => null end) isRaw wd s) as [Hr [Hs Hd]].
      destruct (solveH noH name _ isRaw wd s) as [p1 pr] eqn:Ep.
      destruct (solveH idH name _ isRaw wd s) as [q1 qr] eqn:Eq.
      simpl in Hr, Hs, Hd. subst qr.
      assert (He : err val world q1 = err val world p1).
      { change (err val world (set_dret val world q1 None) = err val world (set_dret val world p1 None)). rewrite Hd. reflexivity. }
      rewrite He.
      destruct pr as [v |].
      + rewrite Hs by discriminate.
        destruct (err val world p1); [reflexivity |].
        destruct (negb (is_null v)); [reflexivity | apply IH].
      + destruct (err val world p1); apply obs_nil_eq; exact Hd.
  Qed.

  Theorem identity_hooks_transparent_load : forall name isRaw useHook wd (s : hstT),
    obs (load_nameH idH name isRaw useHook wd s) = obs (load_nameH noH name isRaw useHook wd s).
  Proof.
    intros. unfold load_name. destruct useHook; simpl; apply load_chain_id.
  Qed.

  Theorem identity_hooks_transparent_store : forall name v useHook (s : hstT),
    store_nameH idH name v useHook s = store_nameH noH name v useHook s.
  Proof. intros. unfold store_name. destruct useHook; reflexivity. Qed.

  (* when the load delivers a value, nothing at all distinguishes the two configurations *)
  Corollary identity_hooks_transparent_value : forall name isRaw useHook wd (s s' : hstT) v,
    load_nameH noH name isRaw useHook wd s = (s', OVal val v) ->
    load_nameH idH name isRaw useHook wd s = (s', OVal val v).
  Proof.
    intros name isRaw useHook wd s s' v H.
    pose proof (identity_hooks_transparent_load name isRaw useHook wd s) as E. rewrite H in E.
    destruct (load_nameH idH name isRaw useHook wd s) as [q o]. destruct o; simpl in E; inversion E; reflexivity.
  Qed.
End HookProofs.

(* ================================================================== (b') rewriters *)
Section RewriterProofs.
  Variable span group : Type.
  Variable inner_spans : group -> list span.
  Variable last_span : group -> span.
  Variable sub_default : string -> span -> string.
  Variable main_default : string -> group -> list string -> string.
  Variable splice : string -> group -> string -> string.

  Theorem identity_rewriters_transparent : forall text groups,
    make_detail span group inner_spans last_span sub_default main_default splice
                (Some (fun d _ _ => d)) (Some (fun d _ => d)) text groups =
    make_detail span group inner_spans last_span sub_default main_default splice None None text groups.
  Proof. intros. reflexivity. Qed.

  (* each rewriter alone as well *)
  Theorem identity_span_rewriter_transparent : forall r text groups,
    make_detail span group inner_spans last_span sub_default main_default splice (Some (fun d _ _ => d)) r text groups =
    make_detail span group inner_spans last_span sub_default main_default splice None r text groups.
  Proof. intros. reflexivity. Qed.
End RewriterProofs.

(* ================================================================== (b'') typeCustomDice *)

Lemma exec_custom_calls : forall hs c s,
  calls (exec_custom hs c s) = calls s ++ [{| hc_item := c_item c; hc_groups := c_groups c; hc_payload := c_payload c |}].
Proof.
  intros hs c s. unfold exec_custom.
  destruct (hs (c_item c) (c_groups c) (c_payload c) (vheap s)) as [[[h1 res] dt] e].
  destruct e; [reflexivity |]. destruct res as [a |]; [| reflexivity].
  destruct (read h1 a); [| reflexivity]. destruct (alloc h1 c0). reflexivity.
Qed.

(* one evaluation of the instruction = exactly one handler invocation, with the compiled groups and payload *)
Theorem handler_called_once_per_evaluation : forall hs code s,
  verr (exec_code hs code s) = None -> verr s = None ->
  List.length (calls (exec_code hs code s)) = (List.length (calls s) + count_custom code)%nat.
Proof.
  intros hs code. induction code as [| i code IH]; intros s He Hs; simpl in *.
  - lia.
  - destruct i as [c |].
    + destruct (verr (exec_custom hs c s)) eqn:E.
      * rewrite E in He. discriminate He.
      * rewrite IH; [| exact He | exact E]. rewrite exec_custom_calls, app_length. simpl. lia.
    + apply IH; assumption.
Qed.

(* the pushed value and the span's Ret are copies: a fresh cell, unaffected by later writes to the handler's object *)
Theorem handler_result_used_by_copy : forall hs c s h1 a dt content,
  hs (c_item c) (c_groups c) (c_payload c) (vheap s) = (h1, Some a, dt, None) ->
  heap_wf h1 -> read h1 a = Some content ->
  let s' := exec_custom hs c s in
  exists r, detail_ret s' = Some r /\ r <> a /\ read h1 r = None /\
            stack s' = content :: stack s /\
            forall c', read (write (vheap s') a c') r = Some content /\ stack s' = content :: stack s.
Proof.
  intros hs c s h1 a dt content Hh Wf Hr. unfold exec_custom. rewrite Hh, Hr. simpl.
  exists (next h1). assert (Ha : a < next h1) by (eapply Wf; eauto).
  repeat split.
  - lia.
  - destruct (read h1 (next h1)) eqn:E; [| reflexivity]. apply Wf in E. lia.
  - unfold read, write. simpl.
    assert (Hne : (a =? next h1) = false) by (apply N.eqb_neq; lia).
    rewrite Hne, N.eqb_refl. reflexivity.
Qed.

(* the text shown in the process: the handler's text, else the matched text *)
Lemma custom_detail_text : forall hs c s h1 a dt content,
  hs (c_item c) (c_groups c) (c_payload c) (vheap s) = (h1, Some a, dt, None) -> read h1 a = Some content ->
  detail_text (exec_custom hs c s) = match dt with EmptyString => c_text c | t => t end.
Proof. intros hs c s h1 a dt content Hh Hr. unfold exec_custom. rewrite Hh, Hr. reflexivity. Qed.

(* parser + VM: a match at the operand start reaches the handler exactly: groups and payload of the match *)
Theorem custom_protocol : forall m width s r hs vs,
  m (offset s) = Some r -> (0 < rm_len r)%Z ->
  boundary_from width (offset s) (offset s + Z.to_N (rm_len r)) ->
  let s3 := commit (consume m width (snd (prepare m s))) in
  exists c, emitted s3 = emitted s ++ [c] /\ offset s3 = offset s + Z.to_N (rm_len r) /\ pending s3 = None /\
            calls (exec_custom hs c vs) = calls vs ++ [{| hc_item := rm_item r; hc_groups := rm_groups r; hc_payload := rm_payload r |}].
Proof.
  intros m width s r hs vs Hm Hl Hb.
  destruct (protocol_on_match m width s r Hm Hl Hb) as [_ [Ho [He [Hp Ho3]]]].
  exists (compile r). repeat split; try assumption.
  - simpl in *. rewrite Ho3. exact Ho.
  - rewrite exec_custom_calls. reflexivity.
Qed.

(* ================================================================== non-vacuity *)
Local Open Scope string_scope.

Definition ex_m (o : N) : option rawmatch :=
  if (o =? 4)%N then Some {| rm_item := 0; rm_groups := ["E12"; "12"]; rm_text := ""; rm_len := 3; rm_payload := 9 |} else None.
Definition ex_w (_ : N) : N := 1%N.

Example protocol_example :
  let s := {| pending := Some {| m_raw := {| rm_item := 5; rm_groups := ["old"]; rm_text := "old"; rm_len := 7; rm_payload := 1 |}; m_start := 1 |};
              offset := 4; emitted := [] |} in
  let s3 := prun ex_m ex_w [Prepare; Consume; Commit] s in
  offset s3 = 7%N /\ pending s3 = None /\
  emitted s3 = [{| c_item := 0; c_groups := ["E12"; "12"]; c_text := "E12"; c_payload := 9 |}].
Proof. vm_compute. repeat split; reflexivity. Qed.

(* a stale pending match (found at offset 4 by a look-ahead) is not used at offset 0 *)
Example stale_example :
  let s := {| pending := try_match ex_m 4; offset := 0; emitted := [] |} in
  consume ex_m ex_w s = {| pending := None; offset := 0; emitted := [] |}.
Proof. vm_compute. reflexivity. Qed.

Example inert_example :
  prun (fun _ => None) ex_w [Prepare; Consume; Commit; Consume; Prepare] pinit = pinit /\
  prepared (fun _ => None) ex_w [Prepare; Consume; Commit; Consume; Prepare] pinit = [false; false].
Proof. vm_compute. split; reflexivity. Qed.

(* without alignment the loop overshoots: the boundary premise of protocol_on_match is needed *)
Example overshoot_example :
  offset (consume ex_m (fun _ => 2%N) {| pending := None; offset := 4; emitted := [] |}) = 8%N.
Proof. vm_compute. reflexivity. Qed.

(* hooks: instance with numbers as values, 0 = null, values >= 100 are computed and evaluate to v - 100;
   200 fails *)
Definition ex_exec (v : N) (s : hst N unit) : hst N unit * option N :=
  if (v =? 200)%N then (set_err N unit s "boom", None) else (s, Some (v - 100)%N).
Definition ex_load (H : hooks N unit) (name : string) (wd : bool) (s : hst N unit) :=
  load_name N 0%N (fun v => (v =? 0)%N) (fun v => (100 <=? v)%N) N.eqb unit ex_exec (fun _ => None) H name false true wd s.
Definition ex_st : hst N unit :=
  {| chain := [[("x", 5%N)]; [("y", 107%N); ("z", 200%N)]]; gnames := []; err := None; dret := Some 3%N; wld := tt |}.

Example hooks_example :
  ex_load (id_hooks N unit) "y" true ex_st = (set_dret N unit ex_st (Some 7%N), OVal N 7%N) /\
  ex_load (no_hooks N unit) "y" true ex_st = (set_dret N unit ex_st (Some 7%N), OVal N 7%N) /\
  (* on a failing computed value the two differ in the dead Ret field only: `observe` is needed *)
  ex_load (id_hooks N unit) "z" true ex_st <> ex_load (no_hooks N unit) "z" true ex_st /\
  observe N unit (ex_load (id_hooks N unit) "z" true ex_st) = observe N unit (ex_load (no_hooks N unit) "z" true ex_st).
Proof. vm_compute. repeat split; try reflexivity. intros H; discriminate H. Qed.

(* a hook that does act is visible (the theorem is not true of arbitrary hooks) *)
Example acting_hook_visible :
  ex_load {| h_pre := Some (fun s n => (s, "x", None)); h_post := None; h_store := None; g_load := None; g_over := None; g_store := None |} "y" false ex_st
  <> ex_load (no_hooks N unit) "y" false ex_st.
Proof. vm_compute. intros H; discriminate H. Qed.

Example store_example :
  chain N unit (store_name N unit (id_hooks N unit) "x" 9%N true ex_st) = [[("x", 9%N)]; [("y", 107%N); ("z", 200%N)]].
Proof. vm_compute. reflexivity. Qed.

Example rewriters_example :
  make_detail N N (fun g => [g; (g + 1)%N]) (fun g => g) (fun t sp => if (sp =? 2)%N then "" else t ++ "s")
              (fun t g subs => "[" ++ String.concat "," subs ++ "]") (fun t g d => t ++ d)
              (Some (fun d _ _ => d)) (Some (fun d _ => d)) "T" [1%N; 2%N] = "T[Ts][T[Ts]s]".
Proof. vm_compute. reflexivity. Qed.

(* typeCustomDice: the handler returns the address of an object it keeps (cell 0 holds 24); afterwards it overwrites it *)
Definition ex_heap : heap := {| cells := [(0%N, 24%Z)]; next := 1 |}.
Definition ex_handler : handler_t := fun _ _ h => (h, Some 0%N, "", None).
Definition ex_vm : vmst := {| vheap := ex_heap; stack := []; detail_ret := None; detail_text := ""; calls := []; verr := None |}.
Definition ex_c : compiled := {| c_item := 0; c_groups := ["E12"; "12"]; c_text := "E12"; c_payload := 0 |}.

Example copy_example :
  let s' := exec_code (fun _ => ex_handler) [ICustom ex_c; IOther; ICustom ex_c] ex_vm in
  stack s' = [24%Z; 24%Z] /\ detail_ret s' = Some 2%N /\ detail_text s' = "E12" /\ List.length (calls s') = 2%nat /\
  read (write (vheap s') 0 (-999)%Z) 2 = Some 24%Z /\ read (write (vheap s') 0 (-999)%Z) 0 = Some (-999)%Z.
Proof. vm_compute. repeat split; reflexivity. Qed.
