package main

import (
	"bufio"
	"encoding/base64"
	"encoding/json"
	"os"
	"sync"

	ds "github.com/sealdice/dicescript"
)

type c11Job struct {
	B64    string `json:"b64"`
	Flags  []bool `json:"flags"`
	Lang   int    `json:"lang"`
	Hi     string `json:"hi"`
	Lo     string `json:"lo"`
	Seeded bool   `json:"seeded"`
	// ViaSeed: seed the VM the documented way (Context.Seed + Init) instead of assigning RandSrc
	ViaSeed bool `json:"viaseed"`
	// DefExpr: Config.DefaultDiceSideExpr (compiled lazily on the first bare `d`, under this VM's own syntax flags)
	DefExpr string `json:"defexpr"`
	// NoDetail: do not compare the process text (programs that display dir() lists: Go map order)
	NoDetail bool `json:"nodetail"`
	// Mode: dice mode (-1 min, 1 max); Expect: the value this VM must return whatever else ran in the process before ("" = none)
	Mode   int    `json:"mode"`
	Expect string `json:"expect"`
}

type c11Res struct {
	Ok     bool   `json:"ok"`
	Err    string `json:"err"`
	Panic  string `json:"panic"`
	Str    string `json:"str"`
	Detail string `json:"detail"`
	Hi2    string `json:"hi2"`
	Lo2    string `json:"lo2"`
}

func c11VM(cfg vmCfg, j c11Job) *ds.Context {
	if j.Seeded && j.ViaSeed {
		hi, lo := parseU(j.Hi), parseU(j.Lo)
		var b [16]byte
		for k := 0; k < 8; k++ {
			b[k], b[8+k] = byte(hi>>(8*k)), byte(lo>>(8*k))
		}
		vm := &ds.Context{Seed: b[:]}
		vm.Init()
		cfg.apply(vm)
		return vm
	}
	return newVM(cfg, parseU(j.Hi), parseU(j.Lo), j.Seeded)
}

func c11Run(j c11Job, src string) c11Res {
	cfg := cfgFromFlags(j.Flags)
	cfg.Lang = j.Lang
	cfg.DefaultSides = j.DefExpr
	cfg.Mode = j.Mode
	vm := c11VM(cfg, j)
	o := runScript(vm, src, !j.NoDetail)
	return c11Res{Ok: o.Ok, Err: o.Err, Panic: o.Panic, Str: o.Str, Detail: o.Detail, Hi2: o.Hi2, Lo2: o.Lo2}
}

func init() {
	// independent VMs on N goroutines vs the same jobs run alone; reports every difference
	cmds["c11"] = func(args []string) {
		fs, _, _ := stdFlags("c11")
		g := fs.Int("g", 8, "goroutines")
		rounds := fs.Int("rounds", 3, "how many times each goroutine repeats its jobs")
		fs.Parse(args)
		var jobs []c11Job
		var srcs []string
		sc := bufio.NewScanner(os.Stdin)
		sc.Buffer(make([]byte, 1<<20), 1<<26)
		for sc.Scan() {
			var j c11Job
			if json.Unmarshal(sc.Bytes(), &j) != nil {
				continue
			}
			raw, _ := base64.StdEncoding.DecodeString(j.B64)
			jobs = append(jobs, j)
			srcs = append(srcs, string(raw))
		}
		// isolated reference (sequential, before any concurrency)
		ref := make([]c11Res, len(jobs))
		for k := range jobs {
			ref[k] = c11Run(jobs[k], srcs[k])
		}
		type diff struct {
			Job  int    `json:"job"`
			G    int    `json:"g"`
			Got  c11Res `json:"got"`
			Want c11Res `json:"want"`
		}
		var mu sync.Mutex
		var diffs []diff
		// a job that states the value it must return (a function of its own configuration only): the isolated run already
		// shares the process with the runs before it
		for k := range jobs {
			if jobs[k].Expect != "" && ref[k].Str != jobs[k].Expect && len(diffs) < 10 {
				diffs = append(diffs, diff{k, -1, ref[k], c11Res{Ok: true, Str: jobs[k].Expect}})
			}
		}
		total := 0
		var wg sync.WaitGroup
		start := make(chan struct{})
		for gi := 0; gi < *g; gi++ {
			wg.Add(1)
			go func(gi int) {
				defer wg.Done()
				<-start
				n := 0
				for r := 0; r < *rounds; r++ {
					for k := gi; k < len(jobs); k += 1 { // every goroutine runs every job, staggered start
						idx := (k + gi*7) % len(jobs)
						got := c11Run(jobs[idx], srcs[idx])
						n++
						if !jobs[idx].Seeded {
							continue // unseeded VMs share the package generator: only race-freedom is claimed
						}
						if got != ref[idx] {
							mu.Lock()
							if len(diffs) < 20 {
								diffs = append(diffs, diff{idx, gi, got, ref[idx]})
							}
							mu.Unlock()
						}
					}
				}
				mu.Lock()
				total += n
				mu.Unlock()
			}(gi)
		}
		close(start)
		wg.Wait()
		// deferred rendering: an error VALUE obtained from one VM must keep its text after another VM (other language) parsed
		// the same input — error values must not be shared between VMs
		type ddiff struct {
			Job   int    `json:"job"`
			Other int    `json:"otherLang"`
			Got   string `json:"got"`
			Want  string `json:"want"`
		}
		var deferred []ddiff
		for k := range jobs {
			if ref[k].Ok || ref[k].Panic != "" {
				continue
			}
			cfgA := cfgFromFlags(jobs[k].Flags)
			cfgA.Lang = jobs[k].Lang
			cfgA.DefaultSides = jobs[k].DefExpr
			vmA := c11VM(cfgA, jobs[k])
			var errA error
			func() {
				defer func() { _ = recover() }()
				errA = vmA.Run(srcs[k])
			}()
			if errA == nil {
				continue
			}
			for other := 0; other < 3; other++ {
				if other == jobs[k].Lang {
					continue
				}
				cfgB := cfgFromFlags(jobs[k].Flags)
				cfgB.Lang = other
				vmB := newVM(cfgB, 1, 2, true)
				func() {
					defer func() { _ = recover() }()
					_ = vmB.Run(srcs[k])
				}()
				if got := errA.Error(); got != ref[k].Err && len(deferred) < 10 {
					deferred = append(deferred, ddiff{k, other, got, ref[k].Err})
				}
			}
		}
		emit(map[string]any{"runs": total, "jobs": len(jobs), "goroutines": *g, "diffs": diffs, "deferred": deferred})
	}
}
