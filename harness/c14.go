package main

// C14 — the calculation-process text explains the result; observing it is harmless.
//
//   harness c14 -seed S -n N            fragment expressions (integer literals, parentheses, + - *, unary sign,
//                                       dice terms of every family, sub-rolls, chains, multi-byte identifiers holding
//                                       integers) printed with arbitrary spacing / line breaks, each on a seeded VM
//   harness c14-src  -seed S            sources from stdin (one per line, hex) — the broad "validated only" stream
//
// Each row: source, prelude, Matched, parser offset, detail spans (hook), Ret, GetDetailText() twice (exact bytes),
// and a snapshot (generator state, variables, result, op count) before and after each of the two calls.

import (
	"bufio"
	"encoding/hex"
	"encoding/json"
	"fmt"
	"os"
	"strings"

	ds "github.com/sealdice/dicescript"
)

type c14Span struct {
	B          int64  `json:"b"`
	E          int64  `json:"e"`
	Ret        string `json:"ret"` // hex of Ret.ToString() ("NIL" for a nil pointer, as Go prints it)
	RetNil     bool   `json:"retnil,omitempty"`
	Text       string `json:"text"` // hex
	Expr       string `json:"expr"` // hex
	Tag        string `json:"tag"`
	TextOnly   bool   `json:"textonly,omitempty"`
	ExprSuffix string `json:"suffix"` // hex
}

type c14Snap struct {
	Hi   string `json:"hi"`
	Lo   string `json:"lo"`
	Vars string `json:"vars"` // canonical JSON of the local variables (keys sorted)
	Ret  string `json:"ret"`  // canonical JSON of the structural dump of Ret
	Str  string `json:"str"`  // hex of Ret.ToString()
	Ops  int64  `json:"ops"`
	Err  string `json:"err,omitempty"`
}

type c14Row struct {
	Kind    string     `json:"kind"`
	Family  []string   `json:"fam,omitempty"` // dice families / constructs used by the generator
	Pre     []string   `json:"pre,omitempty"`
	Src     string     `json:"src"`
	SrcHex  string     `json:"srchex"`
	DS      string     `json:"ds"` // DefaultDiceSideExpr
	Hi      string     `json:"hi"`
	Lo      string     `json:"lo"`
	Ok      bool       `json:"ok"`
	Err     string     `json:"err,omitempty"`
	Panic   string     `json:"panic,omitempty"`  // panic of Run
	DPanic  string     `json:"dpanic,omitempty"` // panic of GetDetailText
	Matched string     `json:"matched"`          // hex
	Rest    string     `json:"rest"`             // hex
	Offset  int        `json:"offset"`
	RetT    int        `json:"rett"`
	RetStr  string     `json:"retstr"` // hex of Ret.ToString()
	Spans   []c14Span  `json:"spans"`
	D1      string     `json:"d1"` // hex
	D2      string     `json:"d2"` // hex
	Snaps   []c14Snap  `json:"snaps"`
	Tree    any        `json:"tree,omitempty"` // the generator's expression tree (fragment stream)
}

func c14hx(s string) string { return hex.EncodeToString([]byte(s)) }

func c14Snapshot(vm *ds.Context) c14Snap {
	s := c14Snap{Ops: int64(vm.NumOpCount)}
	if vm.RandSrc != nil {
		h, l := srcState(vm.RandSrc)
		s.Hi, s.Lo = u(h), u(l)
	}
	vb, _ := json.Marshal(varsDump(vm))
	s.Vars = string(vb)
	rb, _ := json.Marshal(dumpValue(vm.Ret))
	s.Ret = string(rb)
	if vm.Ret != nil {
		s.Str = c14hx(vm.Ret.ToString())
	}
	if vm.Error != nil {
		s.Err = vm.Error.Error()
	}
	return s
}

func c14Detail(vm *ds.Context) (txt string, pan string) {
	defer func() {
		if r := recover(); r != nil {
			pan = fmt.Sprint(r)
		}
	}()
	return vm.GetDetailText(), ""
}

func c14Run(kind string, fam []string, pre []string, src string, dsides string, hi, lo uint64, tree any) {
	cfg := allOn()
	cfg.DefaultSides = dsides
	cfg.OpLimit = 60000
	vm := newVM(cfg, hi, lo, true)
	row := c14Row{Kind: kind, Family: fam, Pre: pre, Src: src, SrcHex: c14hx(src), DS: dsides, Hi: u(hi), Lo: u(lo), Offset: -1, Tree: tree}
	for _, p := range pre {
		func() {
			defer func() { recover() }()
			_ = vm.Run(p)
		}()
	}
	// histories: a third of the cases evaluate the SAME source once before (other generator state) and read its process text,
	// as a bot re-rolling an expression does; the observed run below must explain ITS result, not the earlier one's
	if hi%3 == 0 {
		func() {
			defer func() { recover() }()
			vm.RandSrc = mkSrc(lo|1, hi)
			if vm.Run(src) == nil {
				_ = vm.GetDetailText()
			}
		}()
	}
	// the prelude consumed no randomness in the fragment stream; reseed so that the row's seed is the state the
	// expression starts from
	vm.RandSrc = mkSrc(hi, lo)
	func() {
		defer func() {
			if r := recover(); r != nil {
				row.Panic = fmt.Sprint(r)
			}
		}()
		err := vm.Run(src)
		if err != nil {
			row.Err = err.Error()
			return
		}
		row.Ok = true
	}()
	row.Offset = vm.VerifParsedOffset()
	row.Matched, row.Rest = c14hx(vm.Matched), c14hx(vm.RestInput)
	if vm.Ret != nil {
		row.RetT = int(vm.Ret.TypeId)
		func() {
			defer func() { recover() }()
			row.RetStr = c14hx(vm.Ret.ToString())
		}()
	} else {
		row.RetT = -1
	}
	row.Spans = []c14Span{}
	for _, s := range vm.VerifDetailSpans() {
		ret := s.Ret
		if s.RetNil {
			ret = "NIL"
		}
		row.Spans = append(row.Spans, c14Span{B: s.Begin, E: s.End, Ret: c14hx(ret), RetNil: s.RetNil, Text: c14hx(s.Text), Expr: c14hx(s.Expr),
			Tag: s.Tag, TextOnly: s.TextOnly, ExprSuffix: c14hx(s.ExprSuffix)})
	}
	row.Snaps = append(row.Snaps, c14Snapshot(vm))
	d1, p1 := c14Detail(vm)
	row.Snaps = append(row.Snaps, c14Snapshot(vm))
	d2, p2 := c14Detail(vm)
	row.Snaps = append(row.Snaps, c14Snapshot(vm))
	row.D1, row.D2 = c14hx(d1), c14hx(d2)
	if p1 != "" {
		row.DPanic = p1
	} else if p2 != "" {
		row.DPanic = "second call: " + p2
	}
	emit(row)
}

// ---------------------------------------------------------------- fragment generator

type c14Gen struct {
	r    *rng
	fam  map[string]bool
	vars map[string]int64
}

var c14Idents = []string{"力量", "敏捷", "体质", "HP値", "_x", "x1", "理智_2", "ｈｐ"}

func (g *c14Gen) use(f string) { g.fam[f] = true }

func (g *c14Gen) sp() string {
	r := g.r
	switch r.intn(16) {
	case 0, 1, 2:
		return " "
	case 3:
		return "  "
	case 4:
		return "\n"
	case 5:
		return "\t"
	case 6:
		return " \n "
	case 7:
		return "\r\n"
	}
	return ""
}

// a small positive operand: a literal, or (sometimes) a parenthesised sub-expression that may contain a roll
func (g *c14Gen) operand(depth int, lo, hi int) (string, any) {
	r := g.r
	n := lo + r.intn(hi-lo+1)
	if depth > 0 && r.chance(1, 5) {
		g.use("sub")
		switch r.intn(4) {
		case 0:
			s, t := g.roll(depth - 1)
			return "(" + g.sp() + s + ")" + g.spc(), []any{"paren", t}
		case 1:
			a := 1 + r.intn(3)
			return fmt.Sprintf("(%d%s+%s%d)", a, g.sp(), g.sp(), n), []any{"paren", []any{"add", []any{"n", a}, []any{"n", n}}}
		case 2:
			s, t := g.roll(depth - 1)
			return "(" + s + g.sp() + "+" + g.sp() + "1)" + g.spc(), []any{"paren", []any{"add", t, []any{"n", 1}}}
		default:
			return fmt.Sprintf("(%d)", n), []any{"paren", []any{"n", n}}
		}
	}
	return fmt.Sprint(n), []any{"n", n}
}

// whitespace after a closing parenthesis inside a dice term (parenClose swallows it)
func (g *c14Gen) spc() string {
	if g.r.chance(1, 6) {
		return pick(g.r, []string{" ", "\n", "  "})
	}
	return ""
}

func (g *c14Gen) upper(s string) string {
	if g.r.chance(1, 8) {
		return strings.ToUpper(s)
	}
	return s
}

// one dice term; returns its text and a tree ["roll", family, text]
func (g *c14Gen) roll(depth int) (string, any) {
	r := g.r
	var s string
	fam := ""
	switch k := r.intn(20); {
	case k < 9: // XdY family
		fam = "common"
		d := g.upper("d")
		form := r.intn(10)
		switch {
		case form < 5: // XdY
			x, _ := g.operand(depth, 1, 6)
			y, _ := g.operand(depth, 1, 20)
			s = x + d + y
			g.use("XdY")
		case form < 7: // dY
			y, _ := g.operand(depth, 1, 20)
			s = d + y
			g.use("dY")
		case form < 8: // Xd
			x, _ := g.operand(depth, 1, 6)
			s = x + d
			g.use("Xd")
		case form < 9: // d
			s = d
			g.use("d")
		default: // advantage forms
			adv := pick(r, []string{"优势", "優勢", "劣势", "劣勢"})
			if r.chance(1, 2) {
				y, _ := g.operand(0, 2, 20)
				s = d + y + adv
			} else {
				s = d + adv
			}
			g.use("advantage")
		}
		bare := s == "d" || s == "D" // a bare `d` must not be followed by an identifier character
		if bare {
			return s, []any{"roll", fam, s}
		}
		if !strings.ContainsAny(s, "优優劣") && r.chance(1, 2) {
			m := pick(r, []string{"k", "q", "kh", "kl", "dh", "dl", "K", "Q"})
			s += m
			g.use("mod-" + strings.ToLower(m))
			if r.chance(3, 4) {
				c, _ := g.operand(depth, 1, 4)
				s += c
			} else if strings.HasSuffix(s, "d"+m) || strings.HasSuffix(s, "D"+m) {
				// `2dk` — legal; nothing to add
				_ = s
			}
		}
		if r.chance(1, 5) {
			mm := pick(r, []string{"min", "max"})
			c, _ := g.operand(0, 1, 12)
			s += mm + c
			g.use(mm)
		}
		if r.chance(1, 8) { // chains d4d6 / 2d6d4k1
			n := 1 + r.intn(2)
			for j := 0; j < n; j++ {
				y, _ := g.operand(0, 1, 12)
				s += g.upper("d") + y
			}
			g.use("chain")
		}
	case k < 11:
		fam = "coc"
		s = g.upper(pick(r, []string{"b", "p"}))
		if r.chance(2, 3) {
			c, _ := g.operand(depth, 0, 4)
			s += c
		}
		g.use("coc")
	case k < 13:
		fam = "fate"
		s = g.upper("f")
		g.use("fate")
	case k < 16:
		fam = "wod"
		a := g.upper("a")
		if r.chance(5, 6) {
			x, _ := g.operand(depth, 1, 18)
			s = x
		}
		line := pick(r, []int{0, 2, 5, 8, 9, 10, 10, 11})
		s += a + fmt.Sprint(line)
		for j := r.intn(3); j > 0; j-- {
			switch r.intn(3) {
			case 0:
				s += g.upper("m") + fmt.Sprint(2+r.intn(12))
			case 1:
				s += g.upper("k") + fmt.Sprint(1+r.intn(10))
			default:
				s += g.upper("q") + fmt.Sprint(1+r.intn(10))
			}
		}
		g.use("wod")
	default:
		fam = "dc"
		x, _ := g.operand(depth, 1, 18)
		s = x + g.upper("c") + fmt.Sprint(2+r.intn(10))
		if r.chance(1, 3) {
			s += g.upper("m") + fmt.Sprint(2+r.intn(14))
		}
		g.use("dc")
	}
	return s, []any{"roll", fam, s}
}

func (g *c14Gen) atom(depth int) (string, any) {
	r := g.r
	switch k := r.intn(12); {
	case k < 3:
		n := r.intn(30)
		if r.chance(1, 10) {
			n = pick(r, []int{0, 100, 511, 65536, 1000000007})
		}
		return fmt.Sprint(n), []any{"n", n}
	case k < 5 && len(g.vars) > 0:
		var names []string
		for _, id := range c14Idents {
			if _, ok := g.vars[id]; ok {
				names = append(names, id)
			}
		}
		id := pick(r, names)
		g.use("ident")
		return id, []any{"var", id, g.vars[id]}
	case k < 7 && depth > 0:
		s, t := g.expr(depth - 1)
		g.use("paren")
		return "(" + g.sp() + s + ")" + g.sp(), []any{"paren", t} // no blank before ')': the grammar rejects it
	default:
		return g.roll(depth)
	}
}

func (g *c14Gen) unary(depth int) (string, any) {
	r := g.r
	s, t := g.atom(depth)
	switch r.intn(12) {
	case 0:
		g.use("neg")
		return pick(r, []string{"-", "-", "－"}) + g.sp() + s, []any{"neg", t}
	case 1:
		g.use("pos")
		return pick(r, []string{"+", "+", "＋"}) + g.sp() + s, []any{"pos", t}
	}
	return s, t
}

func (g *c14Gen) expr(depth int) (string, any) {
	r := g.r
	s, t := g.unary(depth)
	n := r.intn(4)
	if depth == 0 {
		n = r.intn(2)
	}
	for j := 0; j < n; j++ {
		var op, name string
		switch r.intn(10) {
		case 0, 1, 2, 3:
			op, name = "+", "add"
		case 4, 5, 6:
			op, name = "-", "sub"
		case 7, 8:
			op, name = "*", "mul"
		default:
			op = pick(r, []string{"＋", "－", "＊"})
			if strings.HasSuffix(strings.TrimRight(s, " \t\r\n"), ")") && !r.chance(1, 8) {
				// observed: a full-width operator right after a closing parenthesis is not recognised by the parser
				// (`(1)＋2` evaluates to 1 with rest `＋2`); keep such inputs rare so that most expressions parse fully
				op = map[string]string{"＋": "+", "－": "-", "＊": "*"}[op]
			} else {
				g.use("fullwidth-op")
			}
			name = map[string]string{"＋": "add", "－": "sub", "＊": "mul", "+": "add", "-": "sub", "*": "mul"}[op]
		}
		s2, t2 := g.unary(depth)
		s = s + g.sp() + op + g.sp() + s2
		t = []any{name, t, t2} // textual order only; precedence is the parser's business
	}
	return s, t
}

func init() {
	cmds["c14"] = func(args []string) {
		fs, seed, n := stdFlags("c14")
		fs.Parse(args)
		r := newRng(*seed)
		fixed := []string{"d10", "2d6", "(2d6)d4", "2d6d4", "d4d6d8", "2d6 + 3", " 3 ", "3", "(2d1)d1", "(2d1+((2d1)d1)d1)d1",
			"200d6", "200d6 + 2d6", "f", "b", "p2", "5a10", "20a10", "3c8", "16c8", "d", "2d", "d优势", "d20劣勢",
			"4d6k3", "4d6kl", "4d6dh1", "4d6dl2", "3d6min3max5", "2d6\n+\n3", "- 2d6", "-f", "3-f", "3 - -2", "2*-d4",
			"力量 + 2d6", "力量", "(力量)d6", "HP値*2", "1 + 2", "(1+2)*3", "( 1 + 2 )", "2d(1d6)", "(1d3)d(1d4)k(1d2)", "2D6K1", "F + B1",
			"2d6k(d2)", "d(d(d6))", "1d6+1d6+1d6+1d6+1d6+1d6+1d6+1d6+1d6+1d6+1d6+1d6+1d6+1d6",
			"(((((((((((((d2)d2)d2)d2)d2)d2)d2)d2)d2)d2)d2)d2)d2)d2", "2d6 ", "2d6\n", "\n2d6", " 2d6 + 1 ", "9223372036854775807 + d1", "1000000d1"}
		for k := 0; k < *n; k++ {
			g := &c14Gen{r: r, fam: map[string]bool{}, vars: map[string]int64{}}
			var pre []string
			if r.chance(2, 5) {
				for j := 1 + r.intn(3); j > 0; j-- {
					id := pick(r, c14Idents)
					v := int64(r.intn(20))
					if r.chance(1, 6) {
						v = -v
					}
					g.vars[id] = v
				}
			}
			var src string
			var tree any
			if k < len(fixed) {
				src = fixed[k]
				g.vars = map[string]int64{"力量": 3, "HP値": 11}
				g.use("fixed")
			} else {
				depth := r.intn(4)
				src, tree = g.expr(depth)
				switch r.intn(10) {
				case 0:
					src = " " + src
				case 1:
					src = src + " "
				case 2:
					src = src + "\n"
				case 3:
					src = "\n" + src + "  "
				}
			}
			for _, id := range c14Idents {
				if v, ok := g.vars[id]; ok {
					pre = append(pre, fmt.Sprintf("%s = %d", id, v))
				}
			}
			if r.chance(1, 3) {
				// an earlier evaluation on the same VM that DID roll: nothing of it may show in this evaluation's text
				// (in particular when this expression records no roll at all)
				pre = append(pre, pick(r, []string{"2d6 + 3", "100 - 3d6 * (2 + 2d4)", "(2d3+2d4)d5 + 1", "力量x = 4d6k3; 力量x + d20", "1d6+1d6+1d6+1d6+1d6+1d6+1d6+1d6", "f + b2 + 3a8"}))
			}
			dsides := ""
			if r.chance(1, 3) {
				dsides = pick(r, []string{"20", "6", "10+2", "面数 ?? 50"})
			}
			var fam []string
			for f := range g.fam {
				fam = append(fam, f)
			}
			c14SortStrings(fam)
			c14Run("frag", fam, pre, src, dsides, r.u64(), r.u64(), tree)
		}
	}

	cmds["c14-src"] = func(args []string) {
		fs, seed, _ := stdFlags("c14-src")
		fs.Parse(args)
		r := newRng(*seed)
		sc := bufio.NewScanner(os.Stdin)
		sc.Buffer(make([]byte, 1<<20), 1<<26)
		for sc.Scan() {
			line := strings.TrimSpace(sc.Text())
			if line == "" {
				continue
			}
			// line: hex(prelude joined by \x00) ":" hex(src)
			parts := strings.SplitN(line, ":", 2)
			var pre []string
			srcHex := parts[0]
			if len(parts) == 2 {
				pb, _ := hex.DecodeString(parts[0])
				if len(pb) > 0 {
					pre = strings.Split(string(pb), "\x00")
				}
				srcHex = parts[1]
			}
			b, err := hex.DecodeString(srcHex)
			if err != nil {
				continue
			}
			c14Run("broad", nil, pre, string(b), "", r.u64(), r.u64(), nil)
		}
	}
}

func c14SortStrings(a []string) {
	for i := 1; i < len(a); i++ {
		for j := i; j > 0 && a[j] < a[j-1]; j-- {
			a[j], a[j-1] = a[j-1], a[j]
		}
	}
}
