#!/usr/bin/env python3
"""Translator (trusted base): regenerates coq/Gen/Grammar.v from the CURRENT /repo sources.
Inputs: the reflection dump of the grammar `g` (harness `grammar`, JSON), the action /
predicate function bodies in roll.peg.go, the ParserData helper methods in parser.go and
custom_dice_parser.go, the opcode list in bytecode.go.
Output (data only, no proofs): opcodes, rules (pexpr), unicode classes, action table
(list aeff per function), predicate table (psum per function).
A construct the patterns below do not understand becomes AUnknown / PUnknownP, which the
model executes by raising its `unknown` flag (checks then report a broken translation)."""
import json
import os
import re
import sys

REPO = os.environ.get("VERIF_REPO", "/repo")
FLAGS = ["EnableDiceWoD", "EnableDiceCoC", "EnableDiceFate", "EnableDiceDoubleCross",
         "DisableBitwiseOp", "DisableStmts", "DisableNDice"]


def read(p):
    return open(os.path.join(REPO, p), encoding="utf-8").read()


def opcode_list():
    src = read("bytecode.go")
    m = re.search(r"const \(\n\s*typePushIntNumber CodeType = iota\n(.*?)\n\)", src, re.S)
    names = ["typePushIntNumber"]
    for line in m.group(1).split("\n"):
        line = line.split("//")[0].strip()
        if line:
            names.append(line)
    return names


def helper_methods():
    """name -> body, for methods of ParserData / ParserCustomData"""
    out = {}
    for f in ("parser.go", "custom_dice_parser.go"):
        src = read(f)
        for m in re.finditer(r"^func \(\w+ \*Parser(?:Custom)?Data\) (\w+)\([^)]*\)[^{]*\{\n(.*?)^\}\n", src, re.S | re.M):
            out[m.group(1)] = m.group(2)
    return out


# structural helpers with a direct meaning in the action language
STRUCT = {
    "FlagsPush": ["AFlagsPush"], "FlagsPop": ["AFlagsPop"], "LoopBegin": ["ALoopBegin"], "LoopEnd": ["ALoopEnd"],
    "NamePush": ["ANamePush"], "NamePop": ["ANamePop"], "CounterPush": ["ACounterPush"], "CounterPop": ["ACounterPop"],
    "OffsetPush": ["AOffsetPush"], "OffsetPopAndSet": ["(AOffsetPop 1)"], "CodePush": ["ACodePush"], "CodePop": ["ACodePop"],
    "BreakSet": [], "ContinueSet": [], "checkStackOverflow": [], "loopBlocksClose": None, "WriteCode": None, "AddOp": None,
}


def helper_effects(methods, ops):
    """closure: for each non-structural helper, the structural effects of the helpers it calls (in textual order)
    followed by AEmit for every opcode constant it mentions"""
    memo = {}

    def eff(name, stack=()):
        if name in memo:
            return memo[name]
        if name in stack or name not in methods:
            return []
        body = methods[name]
        res = []
        if name in STRUCT and STRUCT[name] is not None:
            memo[name] = list(STRUCT[name])
            return memo[name]
        for cm in re.finditer(r"\b(?:e|p|d)\.(\w+)\(", body):
            callee = cm.group(1)
            if callee in ("WriteCode", "AddOp", "checkStackOverflow"):
                continue
            if callee in methods:
                res += eff(callee, stack + (name,))
        for om in re.finditer(r"\btype[A-Z]\w*", body):
            if om.group(0) in ops:
                res.append(f"(AEmit {ops.index(om.group(0))})")
        memo[name] = res
        return res

    return {n: eff(n) for n in methods}


def translate_body(name, ret, inner, heff, ops):
    """returns ('act', [aeff...]) or ('pred', psum)"""
    lines = [l.strip() for l in inner.split("\n") if l.strip()]
    text = "\n".join(lines)
    if ret == "bool":
        m = re.fullmatch(r"return (!?)c\.data\.Config\.(\w+)", text)
        if m and m.group(2) in FLAGS:
            return "pred", f"(PFlag {FLAGS.index(m.group(2))} {'false' if m.group(1) else 'true'})"
        if re.fullmatch(r"return c\.data\.PrepareCustomDice\(p\)", text):
            return "pred", "PCustomP"
        m = re.fullmatch(r"(p\.addErr\(errors\.New\(.*\)\)\n)?return (true|false)", text, re.S)
        if m:
            return "pred", f"(PConstP {m.group(2)} {'true' if m.group(1) else 'false'})"
        return "pred", "PUnknownP"

    # ---- actions -------------------------------------------------------------
    if "c.data.loopLayer == 0" in text:
        m = re.fullmatch(r"if c\.data\.loopLayer == 0 \{\n(.*?)\n\} else \{\n(.*?)\n\}\nreturn nil", text, re.S)
        if not m:
            return "act", ["AUnknown"]
        thn = translate_lines(m.group(1).split("\n"), heff, ops)
        els = translate_lines(m.group(2).split("\n"), heff, ops)
        return "act", [f"(AIfLoop0 [{'; '.join(thn)}] [{'; '.join(els)}])"]
    if re.search(r"switch id\.\(string\)", text):
        # flagsSwitch: every Config assignment must be one of the four Enable flags := onVal
        sets = re.findall(r"c\.data\.Config\.(\w+) = (\w+)", text)
        if sets and all(f in FLAGS[:4] and v == "onVal" for f, v in sets) and 'onVal := on == "true"' in text:
            cases = re.findall(r'case "(\w+)":\n\s*c\.data\.Config\.(\w+) = onVal', text)
            want = {"wod": "EnableDiceWoD", "coc": "EnableDiceCoC", "fate": "EnableDiceFate", "doublecross": "EnableDiceDoubleCross"}
            if dict(cases) == want:
                return "act", ["AFlagsSwitch"]
        return "act", ["AUnknown"]
    m = re.search(r"num := c\.data\.CounterPop\(\)\narr := \[\]string\{\}\nfor i := IntType\(0\); i < num; i\+\+ \{\narr = append\(arr, c\.data\.NamePop\(\)\)\n\}\n", text)
    if m:
        rest = text[:m.start()] + text[m.end():]
        return "act", ["ACounterPopNamePops"] + translate_lines(rest.split("\n"), heff, ops)
    m = re.search(r"limit := c\.data\.CounterPop\(\) \+ 1\nfor i := IntType\(0\); i < limit; i\+\+ \{\nc\.data\.OffsetPopAndSet\(\)\n\}\n", text)
    if m:
        pre, post = text[:m.start()], text[m.end():]
        return "act", translate_lines(pre.split("\n"), heff, ops) + ["ACounterPopPlus1OffsetPops"] + translate_lines(post.split("\n"), heff, ops)
    return "act", translate_lines(lines, heff, ops)


def translate_lines(lines, heff, ops):
    out = []
    for l in lines:
        l = l.strip()
        if not l or l in ("return nil", "}"):
            continue
        if re.fullmatch(r"return (false|true|c\.text|toStr\(c\.text\)|\[\]byte\(.*\))", l):
            continue
        if re.fullmatch(r"p\.addErr\(errors\.New\(.*\)\)", l):
            out.append("AAddErr")
            continue
        m = re.fullmatch(r"c\.data\.Config\.(\w+) = (true|false)", l)
        if m and m.group(1) in FLAGS:
            out.append(f"(ASetFlag {FLAGS.index(m.group(1))} {m.group(2)})")
            continue
        m = re.fullmatch(r"attr, objName := c\.data\.NamePop\(\), c\.data\.NamePop\(\)", l)
        if m:
            out += ["ANamePop", "ANamePop"]
            continue
        m = re.fullmatch(r"c\.data\.(\w+)\((.*)\)", l)
        if not m:
            out.append("AUnknown")
            continue
        meth, args = m.group(1), m.group(2)
        # nested pops in the arguments run first
        out += ["ANamePop"] * args.count("c.data.NamePop()")
        out += ["ACounterPop"] * args.count("c.data.CounterPop()")
        if re.search(r"c\.data\.(?!NamePop\(\)|CounterPop\(\))\w+\(", args):
            out.append("AUnknown")
            continue
        if meth in ("AddOp", "WriteCode"):
            t = re.match(r"(type\w+)", args)
            if t and t.group(1) in ops:
                out.append(f"(AEmit {ops.index(t.group(1))})")
                if meth == "AddOp" and t.group(1) in ("typeBlockPush", "typeFStringBlockPush", "typeBlockPop", "typeFStringBlockPop"):
                    pass  # openBlocks bookkeeping only
            else:
                out.append("AUnknown")
        elif meth == "CounterAdd":
            if re.fullmatch(r"\d+", args):
                out.append(f"(ACounterAdd {args})")
            elif args == "IntType(p.pt.offset)":
                out.append("ACounterAddOffset")
            else:
                out.append("AUnknown")
        elif meth == "OffsetPopN" and re.fullmatch(r"\d+", args):
            out.append(f"(AOffsetPop {args})")
        elif meth == "OffsetJmpSetX":
            a = re.fullmatch(r"(\d+), (\d+), (true|false)", args)
            out.append(f"(AOffsetNeed {max(int(a.group(1)), int(a.group(2))) + 1})" if a else "AUnknown")
        elif meth == "ContinueSet":
            out.append("ANop")
        elif meth == "ConsumeCustomDice":
            out.append("ACustomConsume")
        elif meth == "CommitCustomDice":
            out += heff.get(meth) or ["AUnknown"]
        elif meth in ("BreakPush", "ContinuePush"):
            out += heff.get(meth, ["AUnknown"])
        elif meth in heff:
            out += heff[meth] if heff[meth] or meth in STRUCT else ["ANop"]
        else:
            out.append("AUnknown")
    return out


def label_code(l):
    return {"": 0, "id": 1, "on": 2}.get(l, 3)


def main():
    gfile, outfile = sys.argv[1], sys.argv[2]
    g = json.load(open(gfile))
    ops = opcode_list()
    methods = helper_methods()
    heff = helper_effects(methods, ops)
    src = read("roll.peg.go")
    funcs = {}
    for m in re.finditer(r"^func \(p \*parser\) (call_on\w+)\(\) (any|bool) \{\n(.*?)^\}\n", src, re.S | re.M):
        name, ret, body = m.groups()
        im = re.search(r"return \(func\(c \*current[^)]*\) (?:any|bool) \{\n(.*)\n\t\}\)\(&p\.cur", body, re.S)
        funcs[name] = (ret, im.group(1) if im else None)

    fn_index, acts, preds = {}, [], []
    classes, class_index = [], {}

    def fn_id(name):
        if name not in fn_index:
            fn_index[name] = len(fn_index)
            ret, inner = funcs.get(name, ("any", None))
            if inner is None:
                kind, val = ("pred", "PUnknownP") if ret == "bool" else ("act", ["AUnknown"])
            else:
                kind, val = translate_body(name, ret, inner, heff, ops)
            acts.append(val if kind == "act" else ["AUnknown"])
            preds.append(val if kind == "pred" else "PUnknownP")
        return fn_index[name]

    problems = []

    def expr(n):
        k, i = n["kind"], n["id"]
        kids = n.get("kids", [])
        if k == "action":
            return f"(PAction {i} {fn_id(n['fn'])} {expr(kids[0])})"
        if k == "seq":
            return f"(PSeq {i} [{'; '.join(expr(x) for x in kids)}])"
        if k == "choice":
            return f"(PChoice {i} [{'; '.join(expr(x) for x in kids)}])"
        if k == "label":
            return f"(PLabel {i} {label_code(n.get('label', ''))} {'true' if n.get('textCap') else 'false'} {expr(kids[0])})"
        if k in ("and", "not", "andL", "notL", "opt", "star", "plus"):
            c = {"and": "PAnd", "not": "PNot", "andL": "PAndL", "notL": "PNotL", "opt": "POpt", "star": "PStar", "plus": "PPlus"}[k]
            return f"({c} {i} {expr(kids[0])})"
        if k == "ref":
            return f"(PRef {i} {n.get('ref', 0)})"
        if k == "andCode":
            return f"(PAndCode {i} {fn_id(n['fn'])})"
        if k == "notCode":
            return f"(PNotCode {i} {fn_id(n['fn'])})"
        if k == "code":
            return f"(PCode {i} {fn_id(n['fn'])} {'true' if n.get('notSkip') else 'false'})"
        if k == "lit":
            lit = n.get("lit", [])
            if n.get("ic") and any(c > 127 for c in lit):
                problems.append(f"ignoreCase literal with non-ASCII rune at node {i}")
            return f"(PLit {i} [{'; '.join(map(str, lit))}] {'true' if n.get('ic') else 'false'})"
        if k == "class":
            rg = n.get("ranges", [])
            pairs = "; ".join(f"({rg[j]}, {rg[j + 1]})" for j in range(0, len(rg), 2))
            cl = []
            for tbl in n.get("classes", []):
                key = json.dumps(tbl)
                if key not in class_index:
                    class_index[key] = len(classes)
                    classes.append(tbl)
                cl.append(class_index[key])
            if n.get("ic"):
                problems.append(f"ignoreCase class at node {i}")
            return (f"(PClass {i} [{'; '.join(map(str, n.get('chars', [])))}] [{pairs}] [{'; '.join(map(str, cl))}] "
                    f"{'true' if n.get('ic') else 'false'} {'true' if n.get('inv') else 'false'})")
        if k == "any":
            return f"(PAny {i})"
        problems.append(f"unknown node kind {k} at {i}")
        return f"(PAny {i})"

    rules = [expr(r["expr"]) for r in g]
    maxid = 0

    def mx(n):
        nonlocal maxid
        maxid = max(maxid, n["id"])
        for x in n.get("kids", []):
            mx(x)
    for r in g:
        mx(r["expr"])
    if maxid >= 4096:
        problems.append("more than 4096 grammar nodes: NODES in Model/Peg.v too small")

    with open(outfile, "w") as f:
        f.write("(* GENERATED by tools/gen_grammar.py from /repo (roll.peg.go, parser.go, custom_dice_parser.go, bytecode.go) — do not edit *)\n")
        f.write("From Coq Require Import NArith List String.\nFrom DS Require Import Model.Peg.\nImport ListNotations.\nOpen Scope N_scope.\n\n")
        f.write("Definition opcode_names : list string := [" + "; ".join(f'"{o}"%string' for o in ops) + "].\n\n")
        f.write("Definition rule_names : list string := [" + "; ".join(f'"{r["name"]}"%string' for r in g) + "].\n\n")
        f.write("Definition fn_names : list string := [" + "; ".join(f'"{n}"%string' for n in fn_index) + "].\n\n")
        f.write("Definition classes : list (list (N * N * N)) := [\n" +
                ";\n".join("[" + "; ".join(f"({a},{b},{c})" for a, b, c in t) + "]" for t in classes) + "].\n\n")
        f.write("Definition acts : list (list aeff) := [\n" + ";\n".join("[" + "; ".join(a) + "]" for a in acts) + "].\n\n")
        f.write("Definition preds : list psum := [\n" + ";\n".join(preds) + "].\n\n")
        for i, r in enumerate(rules):
            f.write(f"Definition rule_{i} : pexpr := {r}.\n")
        f.write("\nDefinition rules : list pexpr := [" + "; ".join(f"rule_{i}" for i in range(len(rules))) + "].\n\n")
        f.write("Definition translation_problems : list string := [" + "; ".join(f'"{p}"%string' for p in problems) + "].\n")
        unk_a = [n for n, i in fn_index.items() if "AUnknown" in " ".join(acts[i]) and funcs.get(n, ("any",))[0] == "any"]
        unk_p = [n for n, i in fn_index.items() if preds[i] == "PUnknownP" and funcs.get(n, ("any",))[0] == "bool"]
        f.write("Definition untranslated_actions : list string := [" + "; ".join(f'"{n}"%string' for n in unk_a) + "].\n")
        f.write("Definition untranslated_preds : list string := [" + "; ".join(f'"{n}"%string' for n in unk_p) + "].\n")
    print(json.dumps({"rules": len(rules), "functions": len(fn_index), "classes": len(classes), "nodes": maxid + 1,
                      "untranslated_actions": unk_a, "untranslated_preds": unk_p, "problems": problems}))


main()
