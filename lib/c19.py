"""C19 — syntax errors point at the right place in the chosen language.

Whenever an input is rejected with a syntax error, the reported byte offset lies within the input, the
reported line and column are the line and column of that offset, the quoted source line is that line and
the caret sits under that column; the message is written only in the configured language, and a VM's
choice never changes the messages of another VM.

Structure: (1) harness `c19` produces rejected inputs x 3 languages (+ the parser's furthest failure
position through the hook), (2) the message table / headers are scraped from the CURRENT
parser_errors.go and the six action messages from roll.peg.go, (3) Properties/C19.v is compiled,
(4) correspondence: Model/Pos.v + Model/ErrFmt.v evaluated in Coq on the same inputs must reproduce Go's
error text byte for byte (and `table_ok` is re-established against the scraped table), (5) property-level
search in Python, independent of the Coq model, (6) concurrency: `c19-conc` (optionally under -race).
"""
import json
import os
import re

import common
from common import Broken

LEVEL = "proof"

KEY_NL = "errpos-at-newline-next-line-col0"
KEY_ACTION = "action-error-messages-ignore-language"
KEY_ENC = "invalid-encoding-message-ignores-language"

MY_COQ_FILES = ["Model/Pos.v", "Model/ErrFmt.v", "Proofs/ErrFmtProofs.v", "Corr/Corr19.v"]


# ----------------------------------------------------------------------------- scraping the source
def go_unquote(lit):
    """Go interpreted string literal body (between the quotes) -> bytes."""
    out = bytearray()
    i = 0
    while i < len(lit):
        ch = lit[i]
        if ch != "\\":
            out += ch.encode("utf-8")
            i += 1
            continue
        n = lit[i + 1]
        simple = {"n": 10, "t": 9, "r": 13, "\\": 92, '"': 34, "'": 39, "a": 7, "b": 8, "f": 12, "v": 11}
        if n in simple:
            out.append(simple[n])
            i += 2
        elif n == "x":
            out.append(int(lit[i + 2:i + 4], 16))
            i += 4
        elif n == "u":
            out += chr(int(lit[i + 2:i + 6], 16)).encode("utf-8")
            i += 6
        else:
            raise Broken("table-scrape", "unsupported escape in Go literal: " + lit)
    return bytes(out)


STR = r'"((?:[^"\\]|\\.)*)"'


def scrape_table():
    """The bilingual message table, the headers and the position words of the CURRENT source."""
    path = os.path.join(common.REPO, "parser_errors.go")
    src = open(path, encoding="utf-8").read()
    m = re.search(r"var errMsgs = map\[string\]bilingualMsg\{(.*?)\n\}", src, re.S)
    if not m:
        raise Broken("table-scrape", "errMsgs map not found in parser_errors.go")
    rows = []
    for mm in re.finditer(r'^\s*"(\w+)":\s*\{' + STR + r",\s*" + STR + r"\},?\s*$", m.group(1), re.M):
        rows.append((mm.group(1), go_unquote(mm.group(2)), go_unquote(mm.group(3))))
    n_lines = len([l for l in m.group(1).splitlines() if l.strip() and not l.strip().startswith("//")])
    if not rows or len(rows) != n_lines:
        raise Broken("table-scrape", f"errMsgs: {len(rows)} rows parsed out of {n_lines} lines")
    f = re.search(r"\nfunc fmtErrText\(.*?\n\}\n", src, re.S)
    if not f:
        raise Broken("table-scrape", "fmtErrText not found")
    body = f.group(0)
    hdr = re.search(r"switch lang \{\s*case ParseErrorLanguageChinese:\s*sb\.WriteString\(" + STR + r"\)\s*"
                    r"case ParseErrorLanguageEnglish:\s*sb\.WriteString\(" + STR + r"\)\s*"
                    r"default:\s*sb\.WriteString\(" + STR + r"\)", body)
    pos = re.search(r"case ParseErrorLanguageChinese:\s*sb\.WriteString\(fmt\.Sprintf\(" + STR + r", pos\.line, pos\.col, \w+\)\)\s*"
                    r"case ParseErrorLanguageEnglish:\s*sb\.WriteString\(fmt\.Sprintf\(" + STR + r", pos\.line, pos\.col, \w+\)\)\s*"
                    r"default:\s*sb\.WriteString\(fmt\.Sprintf\(" + STR + r", pos\.line, pos\.col, \w+\)\)\s*"
                    r"sb\.WriteString\(fmt\.Sprintf\(" + STR + r", pos\.line, pos\.col, \w+\)\)", body)
    if not hdr or not pos:
        raise Broken("table-scrape", "header / position switch of fmtErrText has an unexpected shape")
    h_cn, h_en, h_bi = (go_unquote(x) for x in hdr.groups())
    p_cn, p_en, p_bi_cn, p_bi_en = (go_unquote(x) for x in pos.groups())
    tail = b"%d:%d - %s"
    if not (p_cn.endswith(tail) and p_en.endswith(tail) and p_bi_cn == p_cn + b"\n" and p_bi_en == p_en):
        raise Broken("table-scrape", "position formats changed shape: %r %r %r %r" % (p_cn, p_en, p_bi_cn, p_bi_en))
    return dict(rows=rows, h_cn=h_cn, h_en=h_en, h_bi=h_bi, w_cn=p_cn[:-len(tail)], w_en=p_en[:-len(tail)])


def scrape_action_messages():
    """Messages raised by grammar actions through p.addErr(errors.New("...")) in the generated parser."""
    src = open(os.path.join(common.REPO, "roll.peg.go"), encoding="utf-8").read()
    msgs = [go_unquote(x) for x in re.findall(r"p\.addErr\(errors\.New\(" + STR + r"\)\)", src)]
    m = re.search(r"errInvalidEncoding = errors\.New\(" + STR + r"\)", src)
    enc = go_unquote(m.group(1)) if m else b"invalid encoding"
    return msgs, enc


def has_cjk(b):
    return any(0x2E80 <= ord(c) <= 0x9FFF or 0xFF00 <= ord(c) <= 0xFFEF for c in b.decode("utf-8", "replace"))


def has_latin_word(b):
    return re.search(rb"[A-Za-z]{3,}", b) is not None


# ----------------------------------------------------------------------------- Go-style UTF-8
def go_decode(b, i):
    """utf8.DecodeRune(b[i:]) -> (rune, width); RuneError/1 for every malformed sequence, /0 at the end."""
    n = len(b) - i
    if n < 1:
        return 0xFFFD, 0
    p0 = b[i]
    if p0 < 0x80:
        return p0, 1
    if 0xC2 <= p0 <= 0xDF:
        sz, lo, hi = 2, 0x80, 0xBF
    elif p0 == 0xE0:
        sz, lo, hi = 3, 0xA0, 0xBF
    elif 0xE1 <= p0 <= 0xEC or 0xEE <= p0 <= 0xEF:
        sz, lo, hi = 3, 0x80, 0xBF
    elif p0 == 0xED:
        sz, lo, hi = 3, 0x80, 0x9F
    elif p0 == 0xF0:
        sz, lo, hi = 4, 0x90, 0xBF
    elif 0xF1 <= p0 <= 0xF3:
        sz, lo, hi = 4, 0x80, 0xBF
    elif p0 == 0xF4:
        sz, lo, hi = 4, 0x80, 0x8F
    else:
        return 0xFFFD, 1
    if n < sz:
        return 0xFFFD, 1
    if not lo <= b[i + 1] <= hi:
        return 0xFFFD, 1
    for k in range(2, sz):
        if not 0x80 <= b[i + k] <= 0xBF:
            return 0xFFFD, 1
    if sz == 2:
        return (p0 & 0x1F) << 6 | (b[i + 1] & 0x3F), 2
    if sz == 3:
        return (p0 & 0x0F) << 12 | (b[i + 1] & 0x3F) << 6 | (b[i + 2] & 0x3F), 3
    return (p0 & 0x07) << 18 | (b[i + 1] & 0x3F) << 12 | (b[i + 2] & 0x3F) << 6 | (b[i + 3] & 0x3F), 4


def plain_line_col(inp, off):
    """1-based line and 1-based column (in runes) of byte offset `off`; None when `off` is not a rune
    boundary of its line.  Lines are separated by the byte 0x0A."""
    line = 1 + inp.count(b"\n", 0, off)
    start = inp.rfind(b"\n", 0, off) + 1
    i, col = start, 1
    while i < off:
        _, w = go_decode(inp, i)
        if w == 0:
            return None
        i += w
        col += 1
    if i != off:
        return None
    return line, col, start


def truncate(line):
    return line[:57] + b"..." if len(line) > 60 else line


# ----------------------------------------------------------------------------- the property predicate
PFX = re.compile(rb'(\d+):(\d+) \((\d+)\)(?:: rule ("[^"\n]*"|[^:\n]+))?: ')


class Checker:
    def __init__(self, table, action_msgs, enc_msg, known_keys):
        self.t = table
        self.action = action_msgs
        self.enc = enc_msg
        self.known = known_keys
        self.stats = {"friendly": 0, "action_entries": 0, "invalid_encoding_entries": 0, "at_newline_known": 0,
                      "multi_line_inputs": 0, "multibyte_before_error": 0, "truncated_lines": 0,
                      "caret_beyond_truncated_text": 0, "truncation_splits_a_rune": 0, "empty_input": 0,
                      "offset_at_end": 0, "literal_verb_for_NUL": 0}
        self.by_key = {}
        self.known_hits = {KEY_NL: [], KEY_ACTION: {}, KEY_ENC: []}
        self.hdr = {0: table["h_bi"], 1: table["h_cn"], 2: table["h_en"]}
        # fixed parts of every template, per column (split at the %c verb)
        self.cn_parts = [p for _, cn, _ in table["rows"] for p in cn.split(b"%c") if len(p) >= 4]
        self.en_parts = [p for _, _, en in table["rows"] for p in en.split(b"%c") if len(p) >= 4]
        self.cn_only = [table["h_cn"].strip(), table["w_cn"].strip()] + self.cn_parts
        self.en_only = [table["h_en"].strip(), table["w_en"].strip()] + self.en_parts
        self.msg_re = {}
        for key, cn, en in table["rows"]:
            self.msg_re[key] = (self._tmpl_re(cn), self._tmpl_re(en))

    @staticmethod
    def _tmpl_re(t):
        parts = t.split(b"%c")
        # %c prints one rune: 1..4 bytes (any byte sequence Go's AppendRune can produce)
        return re.compile(rb"(?s)" + rb"(.{1,4}?)".join(re.escape(p) for p in parts) + rb"\Z")

    # -- position -------------------------------------------------------------------------------
    def check_pos(self, inp, L, C, O):
        """-> (verdict, detail): 'ok' | 'known-newline' | 'bad'."""
        if O < 0 or O > len(inp):
            return "bad", f"offset {O} outside the input of {len(inp)} bytes"
        plc = plain_line_col(inp, O)
        if plc is None:
            return "bad", f"offset {O} is not a rune boundary"
        pl, pc, _ = plc
        if (L, C) == (pl, pc):
            return "ok", ""
        if O < len(inp) and inp[O] == 10 and (L, C) == (pl + 1, 0):
            return "known-newline", f"offset {O} is line {pl} column {pc}, reported {L}:{C}"
        return "bad", f"offset {O} is line {pl} column {pc}, reported {L}:{C}"

    def match_msg(self, text, col):
        """which table rows render to `text` in column col (0 cn, 1 en) -> list of (key, char bytes)"""
        hits = []
        for key, _, _ in self.t["rows"]:
            m = self.msg_re[key][col].match(text)
            if m:
                hits.append((key, m.group(1) if m.groups() else None))
        return hits

    # -- one (input, language, error text) ------------------------------------------------------
    def check(self, inp, lang, err, fail):
        """Returns list of violation strings (empty = the property holds for this case)."""
        bad = []
        m = PFX.match(err)
        if not m:
            return ["error text does not start with a `line:col (offset): ` prefix"]
        body = err[m.end():]
        if m.group(4) is None and body.startswith(self.hdr[lang]) and body[:len(self.hdr[lang])] == self.hdr[lang]:
            return self.check_friendly(inp, lang, (int(m.group(1)), int(m.group(2)), int(m.group(3))), body, fail)
        if m.group(4) is None and any(body.startswith(h) for h in self.hdr.values()):
            return ["friendly error with the header of another language setting: %r" % body[:40]]
        # list of plain entries, one per line
        for ent in err.split(b"\n"):
            mm = PFX.match(ent)
            if not mm:
                bad.append("unrecognised error entry %r" % ent[:80])
                continue
            L, C, O = int(mm.group(1)), int(mm.group(2)), int(mm.group(3))
            v, d = self.check_pos(inp, L, C, O)
            if v == "bad":
                bad.append("entry position: " + d)
            elif v == "known-newline":
                if KEY_NL in self.known:
                    self.note_nl(inp, d)
                else:
                    bad.append("entry position (newline convention): " + d)
            msg = ent[mm.end():]
            if msg == self.enc:
                self.stats["invalid_encoding_entries"] += 1
                kind, key = "enc", KEY_ENC
            elif msg in self.action:
                self.stats["action_entries"] += 1
                kind, key = "action", KEY_ACTION
            else:
                bad.append("error entry with a message from no known source: %r" % msg[:80])
                continue
            # language: these messages are fixed single-language strings
            wrong = (lang == 1 and not has_cjk(msg)) or (lang == 2 and has_cjk(msg)) or \
                    (lang == 0 and not (has_cjk(msg) and has_latin_word(msg)))
            if wrong:
                if key in self.known:
                    if kind == "action":
                        self.known_hits[KEY_ACTION].setdefault(msg, (inp, lang))
                    elif len(self.known_hits[KEY_ENC]) < 3:
                        self.known_hits[KEY_ENC].append((inp, lang))
                else:
                    bad.append("message ignores the language setting %d: %r" % (lang, msg))
        return bad

    def note_nl(self, inp, detail):
        self.stats["at_newline_known"] += 1
        if len(self.known_hits[KEY_NL]) < 3:
            self.known_hits[KEY_NL].append((inp, detail))

    def check_friendly(self, inp, lang, pfx, body, fail):
        bad = []
        t = self.t
        L, C, O = pfx
        self.stats["friendly"] += 1
        if tuple(fail) != (L, C, O):
            bad.append(f"prefix {L}:{C} ({O}) differs from the parser's furthest failure {tuple(fail)}")
        v, d = self.check_pos(inp, L, C, O)
        at_nl = False
        if v == "bad":
            return bad + ["position: " + d]
        if v == "known-newline":
            if KEY_NL not in self.known:
                return bad + ["position (newline convention): " + d]
            at_nl = True
            self.note_nl(inp, d)
        pl, pc, start = plain_line_col(inp, O)
        rest = body[len(self.hdr[lang]):]
        if len(inp) == 0:
            self.stats["empty_input"] += 1
        else:
            if not rest.startswith(b"  |\n  |  "):
                return bad + ["context block missing"]
            rest = rest[len(b"  |\n  |  "):]
            lines = inp.split(b"\n")
            # the line that contains the offset (for the recorded newline defect: the line the code names)
            want_line = lines[L - 1] if at_nl else lines[pl - 1]
            if not at_nl and want_line != inp[start:(inp.find(b"\n", start) if inp.find(b"\n", start) >= 0 else len(inp))]:
                bad.append("internal: line split disagrees")
            quoted = truncate(want_line)
            if not rest.startswith(quoted + b"\n"):
                return bad + ["quoted line is not line %d of the input (cut at 57 bytes + ... beyond 60): got %r want %r"
                              % (L, rest[:len(quoted) + 8], quoted)]
            rest = rest[len(quoted) + 1:]
            mm = re.match(rb"  \|  ( *)\^\n  \|\n", rest)
            if not mm:
                return bad + ["caret line malformed: %r" % rest[:40]]
            spaces = len(mm.group(1))
            want_spaces = 0 if at_nl else pc - 1
            if spaces != want_spaces:
                bad.append(f"caret under column {spaces + 1}, the offset is column {pc}")
            rest = rest[mm.end():]
            # coverage facts
            if len(lines) > 1:
                self.stats["multi_line_inputs"] += 1
            if any(x >= 0x80 for x in inp[:O]):
                self.stats["multibyte_before_error"] += 1
            if len(want_line) > 60:
                self.stats["truncated_lines"] += 1
                if O - start > 57:
                    self.stats["caret_beyond_truncated_text"] += 1
                try:
                    want_line[:57].decode("utf-8")
                except UnicodeDecodeError:
                    self.stats["truncation_splits_a_rune"] += 1
            if O == len(inp):
                self.stats["offset_at_end"] += 1
        # position word + message, language purity
        poss = b"%d:%d - " % (L, C)
        cn_key = en_key = None
        if lang == 1:
            if not rest.startswith(t["w_cn"] + poss):
                return bad + ["Chinese position line malformed: %r" % rest[:40]]
            cn_key = self.match_msg(rest[len(t["w_cn"] + poss):], 0)
        elif lang == 2:
            if not rest.startswith(t["w_en"] + poss):
                return bad + ["English position line malformed: %r" % rest[:40]]
            en_key = self.match_msg(rest[len(t["w_en"] + poss):], 1)
        else:
            if not rest.startswith(t["w_cn"] + poss):
                return bad + ["bilingual: Chinese position line malformed: %r" % rest[:40]]
            sep = b"\n" + t["w_en"] + poss
            k = rest.rfind(sep)
            if k < 0:
                return bad + ["bilingual: English position line missing: %r" % rest[:80]]
            cn_key = self.match_msg(rest[len(t["w_cn"] + poss):k], 0)
            en_key = self.match_msg(rest[k + len(sep):], 1)
        if cn_key is not None and not cn_key:
            bad.append("Chinese message is no row of the table: %r" % rest[:80])
        if en_key is not None and not en_key:
            bad.append("English message is no row of the table: %r" % rest[-80:])
        if cn_key and en_key and not (set(cn_key) & set(en_key)):
            bad.append("bilingual message: the two lines are different rows/characters: %r vs %r" % (cn_key, en_key))
        outside = self.hdr[lang] + rest
        if lang == 1:
            for s in self.en_only:
                if s in outside:
                    bad.append("Chinese-only message contains the English text %r" % s)
        if lang == 2:
            for s in self.cn_only:
                if s in outside:
                    bad.append("English-only message contains the Chinese text %r" % s)
        # script check of the fixed texts actually used (catches a table row written in the wrong language)
        rowmap = dict((r[0], r) for r in t["rows"])
        if lang == 1:
            fixed = [t["h_cn"], t["w_cn"]] + [rowmap[k][1] for k, _ in (cn_key or [])[:1]]
            for s in fixed:
                if has_latin_word(s.replace(b"%c", b"")):
                    bad.append("Chinese-only message uses the fixed text %r, which contains Latin words" % s)
        if lang == 2:
            fixed = [t["h_en"], t["w_en"]] + [rowmap[k][2] for k, _ in (en_key or [])[:1]]
            for s in fixed:
                if has_cjk(s):
                    bad.append("English-only message uses the fixed text %r, which contains CJK text" % s)
        keys = cn_key or en_key or []
        key = None
        if cn_key and en_key:
            both = [k for k in cn_key if k in en_key]
            keys = both or keys
        if keys:
            key = keys[0]
            self.by_key[key[0]] = self.by_key.get(key[0], 0) + 1
            if b"%c" in dict((r[0], r[2]) for r in t["rows"])[key[0]] and key[1] == b"%c":
                self.stats["literal_verb_for_NUL"] += 1
        self.last_key = key
        return bad


# ----------------------------------------------------------------------------- Coq side
def coq_bytes(b):
    return "[" + ";".join(str(x) for x in b) + "]"


def table_v(table):
    rows = ";\n  ".join(f"({coq_bytes(k.encode())}, {coq_bytes(cn)}, {coq_bytes(en)})" for k, cn, en in table["rows"])
    return ("Definition src_table : list (list N * list N * list N) := [\n  " + rows + "].\n"
            f"Definition src_consts : list (list N) := [{coq_bytes(table['h_bi'])}; {coq_bytes(table['h_cn'])}; "
            f"{coq_bytes(table['h_en'])}; {coq_bytes(table['w_cn'])}; {coq_bytes(table['w_en'])}].\n")


HEAD = ("From Coq Require Import NArith List.\nFrom DS Require Import Model.Pos Model.ErrFmt Corr.Corr19.\n"
        "Import ListNotations.\nOpen Scope N_scope.\nSet Printing Width 1000000. Set Printing Depth 10000000.\n")


def cases_v(table, cases):
    """cases: list of dict(inp, fail_off, errs[3], entries or None)"""
    items = []
    for c in cases:
        if c["friendly"]:
            items.append(f"CFriendly {coq_bytes(c['inp'])} {c['off']} {coq_bytes(c['errs'][0])} {coq_bytes(c['errs'][1])} {coq_bytes(c['errs'][2])}")
        else:
            ents = ";".join(f"({l},{cc},{o})" for l, cc, o in c["entries"])
            items.append(f"CEntries {coq_bytes(c['inp'])} [{ents}]%nat")
    return (HEAD + table_v(table) +
            "Definition table_is_current := Eval vm_compute in table_current src_table src_consts.\nPrint table_is_current.\n"
            "Definition cases : list c19_case := [\n " + ";\n ".join(items) + "].\n"
            "Definition bad := Eval vm_compute in bad_indices (c19_ok) 0%N cases.\nPrint bad.\n")


def ensure_coq_built():
    """My .v files are compiled here when _CoqProject does not list them yet (coq_make covers them once it does)."""
    proj = open(os.path.join(common.COQ, "_CoqProject")).read()
    if all(f in proj for f in MY_COQ_FILES):
        return
    with common.Lock("coqmake"):
        for f in MY_COQ_FILES:
            src = os.path.join(common.COQ, f)
            vo = src + "o"
            deps = [os.path.join(common.COQ, g) for g in MY_COQ_FILES[:MY_COQ_FILES.index(f) + 1]]
            if os.path.exists(vo) and all(os.path.getmtime(vo) >= os.path.getmtime(d) for d in deps):
                continue
            r = common.sh(["timeout", "900", "coqc", "-q", "-Q", ".", "DS", f], cwd=common.COQ)
            common.log(f"[coq] coqc {f} rc={r.returncode}")
            if r.returncode != 0:
                m = re.search(r"line (\d+)", r.stdout)
                raise Broken(f"coq-build {f}" + (f":{m.group(1)}" if m else ""), r.stdout[-4000:])


# ----------------------------------------------------------------------------- driver
def load_rows(rows):
    cases, summary = [], None
    for r in rows:
        if r.get("summary"):
            summary = r
            continue
        cases.append(dict(kind=r["k"], inp=bytes.fromhex(r["in"]), errs=[bytes.fromhex(x) for x in r["e"]],
                          fail=r["f"], same=r["same"], nerr=r["nerr"]))
    return cases, summary


def hexs(b):
    return b.hex()


def show(b):
    return b.decode("utf-8", "backslashreplace")


def run(res, tier, seed):
    common.build_harness()
    known_keys = {f.get("key") for f in common.known_for("C19")}
    table = scrape_table()
    action_msgs, enc_msg = scrape_action_messages()
    if tier == "quick":
        args = ["c19", "-seed", seed, "-n", 2600, "-enum", 2, "-enumSample", 700]
    else:
        args = ["c19", "-seed", seed, "-n", 20000, "-enum", 4, "-enumSample", 4000]
    rows, _ = common.run_harness(args, timeout=3000)
    cases, summary = load_rows(rows)
    if not summary or not cases:
        raise Broken("harness-output", "c19 produced no cases")

    chk = Checker(table, action_msgs, enc_msg, known_keys)
    found = 0
    coq_cases = []
    for c in cases:
        inp = c["inp"]
        case_bad = []
        if not c["same"]:
            case_bad.append((0, "the three language settings disagree on acceptance / failure position / error count"))
        keys = []
        for lang in (0, 1, 2):
            chk.last_key = None
            for b in chk.check(inp, lang, c["errs"][lang], c["fail"]):
                case_bad.append((lang, b))
            keys.append(chk.last_key)
        friendly = all(k is not None for k in keys)
        res.count(hexs(inp), nontrivial=len(inp) > 0)
        if case_bad and found < 5:
            found += 1
            lang, what = case_bad[0]
            res.violation({"what": what, "all": [f"lang {l}: {w}" for l, w in case_bad[:6]], "input": show(inp),
                           "input_hex": hexs(inp), "lang": lang, "error_text": show(c["errs"][lang]),
                           "furthest_failure_line_col_offset": c["fail"], "kind": c["kind"],
                           "replay": f"harness c19 (seed {seed}); or vm.Config.ParseErrorLanguage={lang}; vm.Parse(<input>)"})
        elif case_bad:
            found += 1
        c["friendly"] = friendly
        if friendly:
            c["off"] = c["fail"][2]
        else:
            ents = []
            for ent in c["errs"][0].split(b"\n"):
                mm = PFX.match(ent)
                if mm:
                    ents.append((int(mm.group(1)), int(mm.group(2)), int(mm.group(3))))
            c["entries"] = ents
        coq_cases.append(c)

    kinds = {}
    for c in cases:
        kinds[c["kind"]] = kinds.get(c["kind"], 0) + 1
    res.cov["rule"] = ("rejected inputs only (Parse returned an error), each under the three language settings; families: fixed "
                       "list (empty/blank/…), unclosed brackets and strings over 1–4 lines with multi-byte text, lines of 50–75 "
                       "bytes around the 57/60 cut, invalid UTF-8, stray operators, failures exactly at a newline byte, keyword / "
                       "f-string action errors, exhaustive token sequences over a 25-token alphabet (length <= 2 quick, <= 4 "
                       "thorough) plus random longer ones; distinct = distinct input bytes; non-trivial = non-empty input")
    res.cov["input_distribution"] = {"rejected_by_family": kinds, "accepted_by_family_not_counted": summary["accepted"],
                                     "alphabet": summary["tokens"], "facts": chk.stats, "message_rows_hit": chk.by_key,
                                     "harness_panics": summary["panics"]}
    for c in cases[:2] + cases[len(cases) // 2: len(cases) // 2 + 2]:
        res.sample({"input": show(c["inp"]), "error_lang1": show(c["errs"][1]), "fail": c["fail"]})
    res.cov["trusted_base"] += [
        "the message table, headers and position words are scraped from parser_errors.go by regular expressions on every run "
        "(a change of shape of that file is reported as a broken tie); the six action messages from roll.peg.go likewise",
        "hook ctx.VerifParseStats() reports parser.maxFailPos faithfully",
        "every position the generated parser holds is produced by read() from the start or copied by restore()/savepoints/memo "
        "entries (read from roll.peg.go, not proved about the 7000-line generated file); read() is never called at EOF",
        "data-race freedom is observed with the Go race detector when CGO is available; it is not a Coq theorem",
    ]
    res.assumptions += ["Parse is the only producer of syntax errors (Run = Parse + evaluate)",
                        "Config.ParseErrorLanguage is 0, 1 or 2 (a negative value falls back to the package default by design)"]

    # known findings that reproduced
    if chk.known_hits[KEY_NL]:
        inp, d = chk.known_hits[KEY_NL][0]
        res.known(f"key={KEY_NL} error position at a newline byte reported as next line col 0: input={json.dumps(show(inp), ensure_ascii=False)} {d} "
                  f"({chk.stats['at_newline_known']} occurrences in this run)")
    if chk.known_hits[KEY_ACTION]:
        lst = "; ".join(f"{json.dumps(show(m), ensure_ascii=False)} (input {json.dumps(show(v[0]), ensure_ascii=False)}, lang {v[1]})"
                        for m, v in sorted(chk.known_hits[KEY_ACTION].items()))
        res.known(f"key={KEY_ACTION} grammar-action messages identical under every language setting: {lst}")
    if chk.known_hits[KEY_ENC]:
        inp, lang = chk.known_hits[KEY_ENC][0]
        res.known(f"key={KEY_ENC} `{show(enc_msg)}` is English under every language setting and bypasses the friendly format: "
                  f"input_hex={hexs(inp)} lang={lang}")

    broken = None
    try:
        ensure_coq_built()
        info = common.check_property_file("C19")
        res.proof(info, "cd coq && make && coqc -Q . DS Properties/C19.v  (Print Assumptions parsed)")
        # correspondence
        limit = 3200 if tier == "quick" else 24000
        sel = coq_cases if len(coq_cases) <= limit else \
            [c for c in coq_cases if c["kind"] != "enum"][:limit // 2] + [c for c in coq_cases if c["kind"] == "enum"][::max(1, len(coq_cases) // (limit // 2))]
        shard = 400
        ks = list(range(0, len(sel), shard))
        outs = common.coq_eval_many([(f"c19_{k}", cases_v(table, sel[k:k + shard])) for k in ks], workers=12)
        badidx = []
        for k, out in zip(ks, outs):
            if "table_is_current = true" not in out:
                raise Broken("table_ok: Model/ErrFmt.v msg_table differs from the table scraped from parser_errors.go",
                             {"scraped": [(k_, show(a), show(b)) for k_, a, b in table["rows"]]})
            badidx += [k + int(x.replace("%N", "")) for x in common.parse_coq_list(out, "bad")]
        res.cov["correspondence"] = {"cases": len(sel), "each": "3 language settings, whole error text byte for byte "
                                     "(position by iterating read to the failure offset, message chosen by the model of "
                                     "formatFriendlyError); action/encoding errors: every entry position",
                                     "disagreements": len(badidx)}
        if badidx:
            broken = Broken("correspondence Corr19.c19_ok (Model/Pos.v + Model/ErrFmt.v vs Go error text)",
                            {"first_disagreeing_cases": [dict(input=show(sel[i]["inp"]), input_hex=hexs(sel[i]["inp"]),
                                                              fail=sel[i]["fail"], errs=[show(e) for e in sel[i]["errs"]])
                                                         for i in badidx[:4]]})
    except Broken as b:
        broken = b

    # an error value keeps its text when other VMs (other languages) reject the same input afterwards
    drows, _ = common.run_harness(["c19-deferred"], timeout=300)
    res.cov["error_values_not_shared"] = {"pairs_checked": drows[0].get("checked", 0), "lazily_compiled_bodies_checked": drows[0].get("lazy_checked", 0),
                                          "changed": len(drows[0].get("diffs") or [])}
    for d in (drows[0].get("diffs") or [])[:2]:
        res.violation({"what": ("the syntax error of a lazily compiled body is not reported in the language of the VM that evaluates it"
                                if d["before"].startswith("lazily compiled") else
                                "an error value obtained from one VM changed its text after another VM, configured with another language, rejected the same input"),
                       "input_hex": d["in"], "input": bytes.fromhex(d["in"]).decode("utf-8", "replace"), "language_of_the_first_vm": d["langA"],
                       "language_of_the_second_vm": d["langB"], "text_before": d["before"], "text_after": d["after"]})
        found += 1
    # concurrency half
    found += concurrency(res, tier, seed)

    if broken and not found:
        res.violation({"broken": broken.what, "detail": broken.detail}, no_input=True)


def concurrency(res, tier, seed):
    n, g = (2500, 6) if tier == "quick" else (20000, 9)
    found = 0
    out, _ = common.run_harness(["c19-conc", "-seed", seed, "-n", n, "-g", g], timeout=1200)
    st = out[-1]
    res.cov["concurrency"] = {"goroutines": st["goroutines"], "parses": st["iterations"], "rejected_inputs": st["inputs"],
                              "mismatches": st["mismatches"], "package_default_changed_concurrently": st["disturb"]}
    if st["mismatches"]:
        m = st["first"][0] if st["first"] else {}
        res.violation({"what": "a VM's message changed under concurrency with VMs of other language settings",
                       "input": show(bytes.fromhex(m.get("in", ""))), "lang": m.get("lang"),
                       "got": show(bytes.fromhex(m.get("got", ""))), "want": show(bytes.fromhex(m.get("want", ""))),
                       "mismatches": st["mismatches"], "replay": f"harness c19-conc -seed {seed} -n {n} -g {g}"})
        found += 1
    if tier != "quick":
        try:
            common.build_harness(race=True)
            rows, r = common.run_harness(["c19-conc", "-seed", seed, "-n", 1500, "-g", 6, "-disturb=false"], timeout=1800,
                                         race=True, check=False)
            races = (r.stderr or "").count("WARNING: DATA RACE")
            res.cov["concurrency"]["race_detector"] = {"ran": True, "data_races": races, "exit": r.returncode}
            if races:
                res.violation({"what": "Go race detector reports a data race while VMs with different languages parse concurrently",
                               "report": r.stderr[:3000], "replay": "harness-race c19-conc -disturb=false"})
                found += 1
            elif rows and rows[-1].get("mismatches"):
                found += 1
        except Broken as b:
            res.cov["concurrency"]["race_detector"] = {"ran": False, "why": str(b.what) + ": " + str(b.detail)[-300:]}
    return found


def replay(path):
    p = json.load(open(path))
    print(json.dumps(p, indent=1, ensure_ascii=False))
    if p.get("input_hex") is not None:
        print("re-run: vm := NewVM(); vm.Config.ParseErrorLanguage = %s; vm.Parse(<bytes %s>)" % (p.get("lang"), p["input_hex"]))
    return 0
