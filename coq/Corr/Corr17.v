(* C17 / K1 with custom matchers: Go's Parse with registered custom dice (`E(\d+)`, `#digits`, never-matching and
   read-ahead-then-reset parsers) vs the PEG model run with the table offset -> matched byte length that the same
   matchers produce on the same input (computed outside Coq; the regexp engine and the host callbacks are oracles). *)
From Coq Require Import NArith List Bool String.
From DS Require Import Model.Peg Gen.Grammar Corr.CorrK1.
Import ListNotations.
Open Scope N_scope.

(* table, flags, input bytes, observed: ok, offset, ExprCnt, maxFail (off,line,col), opcode set *)
Definition c17_case : Type := list (N * N) * list bool * list N * (bool * N * N * (N * N * N) * list N).

Definition opCustomDice : N := 56.   (* typeCustomDice; checked against bytecode.go by lib/c17.py on every run *)

Definition c17_ok (c : c17_case) : bool :=
  let '(tbl, fl, bytes, (ok, off_, cnt_, (mo, ml, mc), ops)) := c in
  let r := run_model_custom tbl fl bytes in
  (* r_panic = a helper stack of the parser data (names / counters / jumps / code / flags) was popped while empty: since
     the repair "unbalanced parser helper stacks make Parse fail with an error" this records codeErr and Parse returns
     an error; the parse itself (offset, ExprCnt, furthest failure) goes on *)
  let mok := r_ok r && (r_errs r =? 0) && negb (r_panic r) in
  if r_unknown r then false else if r_fuelout r then false else
  if negb (Bool.eqb mok ok) then false else
  if negb (r_cnt r =? cnt_) then false else
  if negb (let '(a, b, c') := r_mf r in (a =? mo) && (b =? ml) && (c' =? mc)) then false else
  if ok then (r_off r =? off_) && subset_N ops (r_emitted r) else true.

(* what the model computed, for the replay of a disagreement *)
Definition c17_model (c : c17_case) :=
  let '(tbl, fl, bytes, _) := c in
  let r := run_model_custom tbl fl bytes in
  (r_ok r, r_errs r, r_off r, r_cnt r, r_mf r, mem_N opCustomDice (r_emitted r), (r_panic r, r_unknown r, r_fuelout r)).

Fixpoint bad_c17 (i : N) (l : list c17_case) : list N :=
  match l with
  | [] => []
  | c :: r => if c17_ok c then bad_c17 (i + 1) r else i :: bad_c17 (i + 1) r
  end.

(* with an empty table the custom run is the plain run on every case (sanity of the wrapper, evaluated per shard) *)
Definition empty_table_same (c : c17_case) : bool :=
  let '(_, fl, bytes, _) := c in
  let a := run_model_custom [] fl bytes in
  let b := run_model fl bytes in
  Bool.eqb (r_ok a) (r_ok b) && (r_off a =? r_off b) && (r_cnt a =? r_cnt b).
