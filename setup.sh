#!/bin/bash
# Run once after a fresh restore, offline: gate on forbidden Coq constructs, build the Go
# harness against /repo, regenerate the translator output (coq/Gen), build the whole Coq
# development (full .vo build).
set -e
cd "$(dirname "$0")"
export GOFLAGS=-mod=mod GOPROXY=off GOSUMDB=off GOTOOLCHAIN=local
# 1. gate: no axioms / admits / disabled checks anywhere in the development
if grep -rnE '\b(Admitted|admit|Axiom|Parameter|Conjecture|Admit Obligations)\b|Unset Guard|bypass_check|Unset Positivity|Unset Universe|type-in-type|impredicative-set' coq --include='*.v' | grep -v '^coq/Cases/' | grep -vE '\(\*.*(Admitted|admit|Axiom|Parameter).*\*\)' ; then
  echo "forbidden construct found in the Coq development" >&2; exit 1
fi
# 2. harness
mkdir -p .work/bin
cp /repo/go.sum harness/go.sum
(cd harness && go build -tags verif -o ../.work/bin/harness .)
# 3. translator: grammar + action table of the current /repo
.work/bin/harness grammar > .work/grammar.json
python3 tools/gen_grammar.py .work/grammar.json coq/Gen/Grammar.v > .work/gen.log
# 4. Coq
cd coq
coq_makefile -f _CoqProject -o Makefile > /dev/null
timeout 3400 make -j16 > ../.work/setup.log 2>&1 || { tail -50 ../.work/setup.log; exit 1; }
cd ..
echo "setup ok"
