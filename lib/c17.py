"""C17 — extension points are transparent unless they act.

(A) Go vs Go: every generated program on a plain VM and on a VM carrying never-matching custom dice (regex + four
    read-ahead stream parsers), identity load/store hooks, identity detail rewriters and not-found global callbacks.
(B) matching custom dice `E(\\d+)` (regex) and `#digits` (stream parser): handler invocation log against the number
    of evaluations known from the program structure, groups / payload, literal reference program, used-by-copy.
(C) K1 with the same matchers: Model/Peg.v run with the table offset -> length vs Go's Parse.
"""
import base64
import json
import os
import random
import re
import subprocess

import common
import gen
import pegcases
from common import Broken

LEVEL = "proof"
KEY_ORDER = "go-map-order-visible-through-dict-iteration"
KEY_LA = "custom-dice-zero-width-inside-lookahead"
MY_COQ = ["Model/Custom.v", "Proofs/CustomProofs.v", "Corr/Corr17.v"]

MASK_BITS = ["regex-never", "stream-nil-result", "stream-read-ahead-no-reset", "stream-match-with-zero-bytes", "stream-ReadExpr",
             "HookValueLoadPre", "HookValueLoadPost", "HookValueStore", "CustomDetailSpanRewriteFunc", "CustomDetailRewriteFunc", "Global*Func"]
OBS_KEYS = ["ok", "err", "panic", "val", "str", "mhex", "rhex", "detail", "dpanic", "vars", "seed", "ops"]
TOKEN_RE = re.compile(rb"E\d|#\d")
HISTORIES = ["", "", "x=3; arr=[1,2,3]", "func g(u){ u+2d6 }; &val = 2d4", "m = {'k': 1}; hp = 7; func h(w) { w }"]


def b64(b):
    return base64.b64encode(b if isinstance(b, bytes) else b.encode("utf-8", "surrogatepass")).decode()


def text(b):
    return b.decode("utf-8", "replace") if isinstance(b, bytes) else b


def diff_keys(a, b):
    return [k for k in OBS_KEYS if a.get(k) != b.get(k)]


def strip_src(dump_json):
    """value dump with the source text of function / computed values removed (it legitimately contains the token text)"""
    def walk(d):
        if isinstance(d, dict):
            if d.get("t") in (5, 8) and "s" in d and "k" not in d:
                d = dict(d, s="<src>")
            return {k: walk(v) for k, v in d.items()}
        if isinstance(d, list):
            return [walk(x) for x in d]
        return d
    try:
        return json.dumps(walk(json.loads(dump_json)), sort_keys=True)
    except Exception:
        return dump_json


def seed_hex(rnd):
    return "%032x" % rnd.getrandbits(128)


def run_batch(cmd, objs, tier, what):
    """run one harness command over JSON objects (each carries its own seed, so every line is reproducible alone).
    A batch that does not finish in time is re-run in chunks and then line by line: rows of non-terminating cases are
    {"hang": True}."""
    lines = [json.dumps(o) for o in objs]
    budget = 240 if tier == "quick" else 2400
    try:
        rows, _ = common.run_harness(cmd, stdin="\n".join(lines) + "\n", timeout=budget)
        if len(rows) == len(lines):
            return rows
        raise Broken("harness %s returned %d rows for %d inputs (crash?)" % (what, len(rows), len(lines)))
    except subprocess.TimeoutExpired:
        common.log(f"[c17] {what}: batch did not finish in {budget}s; isolating the non-terminating case(s)")
    rows = []
    chunk = 50
    for k in range(0, len(lines), chunk):
        part = lines[k:k + chunk]
        try:
            r, _ = common.run_harness(cmd, stdin="\n".join(part) + "\n", timeout=90)
            if len(r) != len(part):
                raise Broken("harness %s returned %d rows for %d inputs (crash?)" % (what, len(r), len(part)))
            rows += r
            continue
        except subprocess.TimeoutExpired:
            pass
        for l in part:
            try:
                r, _ = common.run_harness(cmd, stdin=l + "\n", timeout=20)
                rows += r if len(r) == 1 else [{"hang": True}]
            except subprocess.TimeoutExpired:
                rows.append({"hang": True})
    return rows


def plain_hangs(src, pre, seedhex):
    try:
        common.run_harness(["c17-plain"], stdin=json.dumps({"b64": b64(src), "pre": b64(pre), "seed": seedhex}) + "\n", timeout=20)
        return False
    except subprocess.TimeoutExpired:
        return True


# ------------------------------------------------------------------ custom tokens (mirrors of the harness matchers)
class Tok:
    def __init__(self, kind, digits):
        self.kind, self.digits = kind, digits

    @property
    def text(self):
        return self.kind + self.digits

    @property
    def value(self):
        n = int(self.digits)
        if n > 2 ** 63 - 1:
            n = 0  # strconv.ParseInt fails in the handler -> 0
        return n + (1000 if self.kind == "E" else 2000)

    @property
    def lit(self):
        return str(self.value)

    @property
    def groups(self):
        return [self.text, self.digits]

    @property
    def detail(self):
        if self.kind == "#":
            return "#%s=hash:%s" % (self.digits, self.digits)
        if (self.value - 1000) % 2 == 1:
            return "%s=custom:%s" % (self.text, self.text)
        return "%s=%s" % (self.text, self.text)


def seg_src(segs):
    return "".join(s.text if isinstance(s, Tok) else s for s in segs)


def seg_ref(segs):
    return "".join(s.lit if isinstance(s, Tok) else s for s in segs)


def map_ref_offset(segs, lref):
    """byte offset in the token program that corresponds to byte offset lref of the literal program (None: inside a literal)"""
    so = ro = 0
    for s in segs:
        a = (s.text if isinstance(s, Tok) else s).encode("utf-8", "surrogatepass")
        b = (s.lit if isinstance(s, Tok) else s).encode("utf-8", "surrogatepass")
        if lref <= ro + len(b):
            if not isinstance(s, Tok):
                return so + (lref - ro)
            if lref == ro + len(b):
                return so + len(a)
            if lref == ro:
                return so
            return None
        so += len(a)
        ro += len(b)
    return so if lref == ro else None


def match_table(b):
    """offset -> byte length of the first registered matcher that matches there: `E(\\d+)` anchored at the offset,
    then `#` followed by ASCII digits; Go tries the registered items in order, a match of length 0 is no match"""
    tbl = []
    n = len(b)
    for o in range(n):
        if b[o] in (0x45, 0x23):  # E, #
            j = o + 1
            while j < n and 0x30 <= b[j] <= 0x39:
                j += 1
            if j > o + 1:
                tbl.append((o, j - o))
    return tbl


# ------------------------------------------------------------------ structured generator with known evaluation counts
class S:
    """programs whose custom tokens sit at operand starts and whose number of evaluations per token is known by
    construction; `la` is set when a token sits inside a construct the grammar guards with a syntactic predicate
    (parentheses, array literal, call argument, index on a name, ternary)"""

    def __init__(self, rnd, allow_la):
        self.r = rnd
        self.allow_la = allow_la
        self.la = False
        self.funcs = {}     # name -> calls of one invocation
        self.computed = {}  # name -> calls of one load
        self.depth_ctr = 0
        self.assign = 0     # > 0 while generating the right-hand side of an assignment (recognised through &stmtAssignTypeN)

    def tok(self):
        r = self.r
        return Tok(r.choice("EE#"), r.choice(["0", "1", "2", "3", "5", "7", "12", "45", "007", "10", "99", "100", "8"]))

    def operand(self, depth, env):
        r = self.r
        k = r.randrange(20)
        if k < 9:
            t = self.tok()
            return [t], [t]
        if k < 11:
            t = self.tok()
            return [r.choice(["-", "+", "- "]), t], [t]
        if k < 13:
            return [str(r.randrange(0, 50))], []
        if k == 13 and env:
            return [r.choice(env)], []
        if k == 14 and self.funcs:
            f = r.choice(sorted(self.funcs))
            return ["%s(%d)" % (f, r.randrange(1, 9))], list(self.funcs[f])
        if k == 15 and self.computed:
            c = r.choice(sorted(self.computed))
            return [c], list(self.computed[c])
        if k == 16 and depth > 0 and (self.assign == 0 or self.allow_la):
            if self.assign:
                self.la = True  # a bracketed construct holding a token, itself inside a predicate (the assignment look-ahead / an outer bracket)
            if r.random() < 0.5:
                t = self.tok()
                return ["[7,8,9,10][", t, " - %d]" % (t.value - r.randrange(0, 4))], [t]
            self.assign += 1
            s, c = self.expr(depth - 1, env)
            self.assign -= 1
            return ["{'k': "] + s + ["}.k"], c
        if k >= 17 and depth > 0 and self.allow_la:
            self.la = True
            j = r.choice([0, 1, 2, 4, 5])
            if j == 0:
                s, c = self.expr(depth - 1, env)
                return ["("] + s + [")"], c
            if j == 1:
                s1, c1 = self.expr(depth - 1, env)
                s2, c2 = self.expr(depth - 1, env)
                return ["["] + s1 + [", "] + s2 + ["].sum()"], c1 + c2
            if j == 2:
                s, c = self.expr(depth - 1, env)
                return ["idf("] + s + [")"], c
            if j == 4:
                s1, c1 = self.expr(depth - 1, env)
                s2, c2 = self.expr(depth - 1, env)
                cond = r.choice(["1", "0"])
                return ["(" + cond + " ? "] + s1 + [" : "] + s2 + [")"], (c1 if cond == "1" else c2)
            t = self.tok()
            s1, c1 = self.expr(depth - 1, env)
            return ["("] + [t] + [" ? "] + s1 + [" : 5)"], [t] + c1
        t = self.tok()
        return [t], [t]

    def expr(self, depth, env):
        r = self.r
        s, c = self.operand(depth, env)
        for _ in range(r.choice([0, 1, 1, 2, 3])):
            s2, c2 = self.operand(depth, env)
            s = s + [r.choice([" + ", " - ", " * ", "+", " < ", " == ", "*", " ?? "])] + s2
            c = c + c2
        return s, c

    def stmt(self, depth, env):
        r = self.r
        k = r.randrange(14)
        if depth <= 0:
            k = r.randrange(6)
        if k < 3:
            return self.expr(depth, env)
        if k < 6:
            self.assign += 1
            s, c = self.expr(depth, env)
            self.assign -= 1
            return [r.choice(["x", "y", "z"]) + " = "] + s, c
        if k == 6:
            # short circuit: the right side runs only when the left side does not decide
            left = r.choice(["0", "1", "T"])
            op = r.choice([" || ", " && "])
            s, c = self.expr(depth - 1, env)
            # `||` skips its right side when the left side is true; `&&` always evaluates both sides (typeLogicAnd is a plain binary op)
            if left == "T":
                t = self.tok()
                return [t, op] + s, [t] + (c if op == " && " else [])
            runs = op == " && " or left == "0"
            return [left + op] + s, (c if runs else [])
        if k < 9:
            cond = r.choice(["0", "1", "T"])
            s1, c1 = self.stmt(depth - 1, env)
            s2, c2 = self.stmt(depth - 1, env)
            if cond == "T":
                t = self.tok()
                return ["if ", t, " { "] + s1 + [" } else { "] + s2 + [" }"], [t] + c1
            return ["if " + cond + " { "] + s1 + [" } else { "] + s2 + [" }"], (c1 if cond == "1" else c2)
        if k < 11:
            n = r.randrange(0, 4)
            self.depth_ctr += 1
            v = "i%d" % self.depth_ctr
            s, c = self.stmt(depth - 1, env)
            return ["%s = 0; while %s < %d { %s = %s + 1; " % (v, v, n, v, v)] + s + [" }"], c * n
        if k == 11:
            self.assign += 1  # brackets inside the template braces are nested brackets
            s, c = self.expr(depth - 1, env)
            self.assign -= 1
            if self.allow_la and r.random() < 0.4:
                self.la = True
                return ["y = `t{"] + s + ["}u`"], c
            return ["`t{"] + s + ["}u`"], c
        if k == 12 and self.allow_la:
            # the whole template is first parsed inside a predicate, where `{% %}` with an unconsumed token raises a parse error
            self.la = True
            s, c = self.expr(depth - 1, env)
            return ["z = `{% "] + s + [" %}`"], c
        s, c = self.expr(depth, env)
        return s, c

    def program(self):
        r = self.r
        segs, calls = [], []
        if self.allow_la:
            segs += ["func idf(w) { w }; "]
        for name in r.sample(["g", "h"], r.randrange(0, 3)):
            s, c = self.stmt(1, ["u"])
            segs += ["func %s(u) { " % name] + s + [" }; "]
            self.funcs[name] = c
        for name in r.sample(["cv", "cw"], r.randrange(0, 2)):
            self.assign += 1
            s, c = self.expr(1, [])
            self.assign -= 1
            segs += ["&%s = " % name] + s + ["; "]
            self.computed[name] = c
        n = 1 + r.randrange(3)
        for i in range(n):
            s, c = self.stmt(2, [])
            if i > 0:
                # a bare newline does not end an expression that can continue with a sign: `a\n-b` is a subtraction
                first = s[0] if isinstance(s[0], str) else ""
                segs += [r.choice(["; ", ";", " ;\n"] + ([] if first[:1] in ("-", "+") else ["\n"]))]
            segs += s
            calls += c
        return segs, calls


def lookalikes():
    """(source, reference (None = the same text on a VM without custom dice), expected handler log or None, expected Matched or None)"""
    E = lambda d: Tok("E", d)
    H = lambda d: Tok("#", d)
    same = [  # nothing may match: the VM with the matchers must behave exactly like the plain VM
        "xE12", "E", "E + 1", "e12", "E１２", "'E12'", '"#4"', "`E12 #3`", "// E12\n1", "#", "#x", "##", "# 1", "E 12", "dE5", "_E5", "力量E5",
        "x.E5", "&E5", "this.E5", "^stE5", "^st力量E5", "1 + xE12", "E_1", "E-", "#-1", "x#1", "1 #", "`{xE1}`", "E\n12",
    ]
    out = [(s, None, [], None) for s in same]
    explicit = [
        (["E12x"], [E("12")], "E12"), (["E5E6"], [E("5")], "E5"), (["E12d6"], [E("12")], "E12"), (["2dE5"], [], "2d"), (["3E5"], [], "3"),
        (["E5.x"], [E("5")], "E5"), (["E5 E6"], [E("5")], "E5"), (["E5 // c"], [E("5")], "E5"), (["#5#6"], [H("5")], "#5"), (["#12x"], [H("12")], "#12"),
        (["E5 #6"], [E("5")], "E5"), (["E1, E2"], [E("1")], "E1"), (["E99999999999999999999 + 1"], [E("99999999999999999999")], "E99999999999999999999 + 1"),
        (["E007 + #007"], [E("007"), H("007")], "E007 + #007"), (["E5;E6"], [E("5"), E("6")], "E5;E6"), (["E5\n#6"], [E("5"), H("6")], "E5\n#6"),
        (["-E5"], [E("5")], "-E5"), (["+#5"], [H("5")], "+#5"), (["E1 ?? 2"], [E("1")], "E1 ?? 2"), (["1 ? E1"], [E("1")], "1 ? E1"),
        (["1 ? E1, 1 ? E2"], [E("1")], "1 ? E1, 1 ? E2"), (["0 ? E1, 1 ? #2"], [H("2")], "0 ? E1, 1 ? #2"), (["return E1"], [E("1")], "return E1"),
        (["x = {}; x.y = E1; x.y"], [E("1")], None), (["x = [0]; x[0] = #1; x"], [H("1")], None), (["[1,2,3][E0 - 1000]"], [E("0")], None),
        (["E1 && E2"], [E("1"), E("2")], None), (["E1 || E2"], [E("1")], None), (["E2 ** 2"], [E("2")], None), (["E1 | #2"], [E("1"), H("2")], None),
        (["if E1 { #2 }"], [E("1"), H("2")], None), (["while 0 { E1 }"], [], None), (["&v = E5 + #1; v + v"], [E("5"), H("1"), E("5"), H("1")], None),
        (["func g() { return E5 }; g() + g() + g()"], [E("5")] * 3, None), (["`a{E4}b{#7}`"], [E("4"), H("7")], None),
    ]
    for raw, calls, matched in explicit:
        out.append((raw[0], None if matched is not None and raw[0] != matched else "LIT", calls, matched))
    return out


def tokenize_literal_ref(src):
    """literal reference of a hand-written source: every `E\\d+` / `#\\d+` that is not glued to an identifier is replaced"""
    segs, pos = [], 0
    for m in re.finditer(r"(?<![A-Za-z0-9_\u0080-￿])(E|#)(\d+)", src):
        segs.append(src[pos:m.start()])
        segs.append(Tok(m.group(1), m.group(2)))
        pos = m.end()
    segs.append(src[pos:])
    return segs


class InjG(gen.G):
    """gen.G whose number atoms are sometimes custom tokens (expected invocation counts unknown: reference run only)"""

    def __init__(self, rnd, **kw):
        super().__init__(rnd, **kw)
        self.toks = []

    def number(self):
        if self.r.random() < 0.4:
            t = Tok(self.r.choice("EE#"), str(self.r.choice([0, 1, 2, 3, 7, 12, 45])))
            self.toks.append(t)
            return "\x01%d\x02" % (len(self.toks) - 1)
        return super().number()

    def segs(self):
        p = self.program()
        out = []
        for part in re.split(r"(\x01\d+\x02)", p):
            if part.startswith("\x01"):
                if out and isinstance(out[-1], str) and out[-1].endswith(":"):
                    # `name:7` is ONE identifier (namespace syntax) while `name:#7` is not: keep the two spellings apart from the colon
                    out[-1] += " "
                out.append(self.toks[int(part[1:-1])])
            elif part:
                out.append(part)
        return out


# ------------------------------------------------------------------ (A)
def run_A(res, rnd, seed, n, known, tier):
    corpus = pegcases.scrape_test_sources()
    inputs = []
    for i in range(n):
        k = rnd.randrange(10)
        if k < 5:
            b = gen.G(rnd, max_depth=rnd.choice([1, 2, 3])).program().encode()
            kind = "program"
        elif k < 7:
            b = gen.random_input(rnd)
            kind = "mixed"
        elif k < 8:
            b = rnd.choice(corpus)
            kind = "repo-test"
        else:
            b = rnd.choice(["'a_zq5'", "x = 'b' + 'a_zq9'; x", "`k_zq5`", "[1, 2, '_zq8'][2]", "x_zq7 = 3; x_zq7 + 1", "1 + 2 // _zq4\n", "m = {'k_zq1': 1}; m.k_zq1",
                            "`{x}_zq3`", "'_zq1' + '_zq2'", "3 + x_zq7", "x", "hp + 1", "`{x}{y}`", "&v = x + 1; v", "x = 1; x = x + 1; x", "m = {'k': 1}; m.k", "val + val", "g(3)", "arr[1] = 5; arr",
                            "(1+2)*3", "3d6k2 + (2d4)d3", "this.x = 4; this.x", "store('q', 5); load('q')", "b + p2 + 3a8 + 2c8 + f"]).encode()
            kind = "load-store"
        mask = 0 if rnd.random() < 0.7 else rnd.randrange(1, 2048)
        inputs.append({"b": b, "pre": rnd.choice(HISTORIES), "mask": mask, "kind": kind, "seed": seed_hex(rnd)})
    rows = run_batch(["c17"], [{"b64": b64(i["b"]), "pre": b64(i["pre"]), "mask": i["mask"], "seed": i["seed"]} for i in inputs], tier, "c17")
    tot = {}
    skipped = 0
    found = 0
    hangs = 0
    for i, r in zip(inputs, rows):
        if r.get("hang"):
            hangs += 1
            if not plain_hangs(i["b"], i["pre"], i["seed"]):
                res.violation({"what": "evaluation does not terminate (20 s) with inert extensions installed, but terminates on the plain VM",
                               "input": text(i["b"]), "input_hex": i["b"].hex(), "history": i["pre"], "seed": i["seed"], "mask": i["mask"]})
                found += 1
            continue
        res.count(i["b"].hex() + "|" + i["pre"] + "|" + str(i["mask"]), nontrivial=r["a"]["ok"])
        r["seed"] = i["seed"]
        for k, v in r["cnt"].items():
            tot[k] = tot.get(k, 0) + v
        if r["cnt"]["handler"] or r["cnt"]["regerrors"]:
            res.violation({"what": "the handler of a never-matching custom dice was invoked / registration failed", "input": text(i["b"]), "input_hex": i["b"].hex(),
                           "history": i["pre"], "counts": r["cnt"]})
            found += 1
        if r["same"]:
            continue
        # re-run: is the plain VM itself unstable on this program (map order)? which extension makes the difference?
        rr, _ = common.run_harness(["c17"], stdin=json.dumps({"b64": b64(i["b"]), "pre": b64(i["pre"]), "mask": i["mask"], "seed": r["seed"], "reps": 14}) + "\n")
        if not r["stable"] or not rr[0]["stable"]:
            if KEY_ORDER in known:
                skipped += 1
                continue
        if rr[0]["same"]:
            # not reproducible although the plain runs agree with each other: still nondeterminism of the implementation
            if KEY_ORDER in known and any(t in text(i["b"]) + i["pre"] for t in ("{", "dir(", ".keys", ".values", ".items")):
                skipped += 1
                continue
        culprits = []
        for bit, name in enumerate(MASK_BITS):
            if (i["mask"] or 2047) & (1 << bit):
                r1, _ = common.run_harness(["c17"], stdin=json.dumps({"b64": b64(i["b"]), "pre": b64(i["pre"]), "mask": 1 << bit, "seed": r["seed"]}) + "\n")
                if not r1[0]["same"]:
                    culprits.append(name)
        res.violation({"what": "inert extensions changed the outcome: " + ", ".join(diff_keys(r["a"], r["b"])),
                       "input": text(i["b"]), "input_hex": i["b"].hex(), "history": i["pre"], "seed": r["seed"],
                       "extensions_installed": [nm for bit, nm in enumerate(MASK_BITS) if (i["mask"] or 2047) & (1 << bit)],
                       "extensions_that_alone_make_a_difference": culprits, "without": r["a"], "with": r["b"],
                       "replay_cmd": "echo '%s' | harness c17" % json.dumps({"b64": b64(i["b"]), "pre": b64(i["pre"]), "mask": i["mask"], "seed": r["seed"]})})
        found += 1
        if found >= 4:
            break
    dist = {"programs": len(inputs), "by_kind": {k: sum(1 for i in inputs if i["kind"] == k) for k in ("program", "mixed", "repo-test", "load-store")},
            "succeeded": sum(1 for r in rows if not r.get("hang") and r["a"]["ok"]), "with_all_extensions": sum(1 for i in inputs if i["mask"] == 0),
            "with_random_subset": sum(1 for i in inputs if i["mask"]), "with_history": sum(1 for i in inputs if i["pre"]),
            "skipped_map_order_nondeterminism": skipped, "not_terminating_within_20s": hangs, "hook_and_parser_invocations": tot}
    ex = next(k for k, r in enumerate(rows) if not r.get("hang"))
    res.sample({"src": text(inputs[ex]["b"]), "plain": {k: rows[ex]["a"][k] for k in ("ok", "str", "detail", "err")}, "counts": rows[ex]["cnt"]})
    return dist, found, skipped, [i["b"] for i in inputs]


# ------------------------------------------------------------------ (B)
def make_B(rnd, n, plain_sources):
    cases = []
    for src, ref, calls, matched in lookalikes():
        if ref == "LIT":
            segs = tokenize_literal_ref(src)
            cases.append({"kind": "lookalike", "segs": segs, "src": src, "ref": seg_ref(segs), "calls": calls, "matched": matched, "la": False})
        else:
            cases.append({"kind": "lookalike", "segs": None, "src": src, "ref": src if not calls else "", "calls": calls, "matched": matched, "la": False,
                          "same_text": not calls})
    for i in range(n):
        k = rnd.randrange(10)
        if k < 6:
            g = S(rnd, allow_la=(k >= 4))
            segs, calls = g.program()
            cases.append({"kind": "structured", "segs": segs, "src": seg_src(segs), "ref": seg_ref(segs), "calls": calls, "matched": None, "la": g.la})
        elif k < 8:
            g = InjG(rnd, max_depth=rnd.choice([1, 2]))
            segs = g.segs()
            src = seg_src(segs)
            cases.append({"kind": "injected", "segs": segs, "src": src, "ref": seg_ref(segs), "calls": None, "matched": None,
                          "la": any(ch in src for ch in "([?{`\x1e")})
        else:
            b = rnd.choice(plain_sources)
            if TOKEN_RE.search(b):
                continue
            cases.append({"kind": "nomatch", "segs": None, "src": b, "ref": b, "calls": [], "matched": None, "la": False, "same_text": True})
    for c in cases:
        c["pre"] = rnd.choice(HISTORIES[:3]) if c["kind"] != "lookalike" else ""
        c["seed"] = seed_hex(rnd)
    return cases


def enc(x):
    return x if isinstance(x, bytes) else x.encode("utf-8", "surrogatepass")


def judge_B(c, r):
    """returns list of (severity, message): severity 'hard' = never excusable, 'soft' = excusable by the look-ahead finding when c['la']"""
    out = []
    src = enc(c["src"])
    clean, host = r["clean"], r["hostile"]
    calls = r["calls"] or []
    # --- used by copy: a hostile handler (reuses one cell, overwrites every object it ever returned, scribbles on the groups it received)
    if not r["same"]:
        out.append(("alias", "results depend on what the handler does to its returned objects / received groups afterwards: " + ", ".join(diff_keys(clean, host))))
    if not r.get("order_same", True):
        out.append(("hard", "registering the two (non-overlapping) syntaxes in the other order — stream parser first, regex second — changes the outcome: "
                    + ", ".join(diff_keys(clean, r["swapped"]))))
    if [(x["which"], x["groups"]) for x in calls] != [(x["which"], x["groups"]) for x in (r["calls2"] or [])]:
        out.append(("alias", "handler log differs between the clean and the hostile handler"))
    # --- groups / payload exact
    for x in calls:
        g = x["groups"]
        ok = len(g) == 2 and g[0] == x["which"] + g[1] and g[1].isdigit() and g[1].isascii() and enc(g[0]) in src
        if x["which"] == "E":
            ok = ok and x["paynil"]
        else:
            ok = ok and not x["paybad"] and x["payn"] == g[1]
            if ok and x["depth"] == 0:
                off = len(src) + x["payoff"]
                ok = src[off:off + len(enc(g[0]))] == enc(g[0])
        if ok and x["depth"] == 0:
            # the match is maximal: the text after it does not continue with a digit
            pass
        if not ok:
            out.append(("hard", "handler received wrong groups / payload: %s" % json.dumps(x, ensure_ascii=False)))
            break
    # --- number of invocations
    if c["calls"] is not None:
        want = [t.groups for t in c["calls"]]
        got = [x["groups"] for x in calls]
        ref0 = r.get("ref")
        if clean["ok"] and ref0 is not None and ref0["ok"] and ref0["rhex"] and got == want[:len(got)]:
            pass  # the literal program stops early too (text left in RestInput): only a prefix of the tokens is ever reached
        elif clean["ok"]:
            if got != want:
                out.append(("soft", "handler invocations %s, expected from the program structure %s" % (got, want)))
        elif got != want[:len(got)]:
            out.append(("soft", "handler invocations %s are not a prefix of the expected %s (program failed: %s)" % (got, want, clean["err"] or clean["panic"])))
    if clean["panic"]:
        out.append(("hard", "panic: " + clean["panic"]))
    # --- explicit Matched
    if c["matched"] is not None and clean["ok"] and bytes.fromhex(clean["mhex"]) != enc(c["matched"]):
        out.append(("soft", "Matched %r, expected %r" % (text(bytes.fromhex(clean["mhex"])), c["matched"])))
    # --- reference program
    ref = r.get("ref")
    if ref is not None:
        if c.get("same_text"):
            d = diff_keys(ref, clean)
            if d:
                out.append(("hard" if not calls else "soft", "no custom syntax matches, yet the outcome differs from the VM without custom dice: " + ", ".join(d)))
        else:
            if ref["ok"] != clean["ok"]:
                out.append(("soft", "program with custom tokens %s, with the handlers' values as literals %s" %
                            ("succeeds" if clean["ok"] else "fails: " + clean["err"][:200], "succeeds" if ref["ok"] else "fails: " + ref["err"][:200])))
            elif ref["ok"]:
                d = [k for k in ("val", "vars") if strip_src(ref[k]) != strip_src(clean[k])] + [k for k in ("seed",) if ref[k] != clean[k]]
                if not d and ref["str"] != clean["str"] and '"t":5' not in ref["val"] and '"t":8' not in ref["val"]:
                    d = ["str"]
                if d:
                    out.append(("soft", "differs from the program with the handlers' values as literals in: " + ", ".join(d)))
                elif c["segs"] is not None:
                    want = map_ref_offset(c["segs"], len(bytes.fromhex(ref["mhex"])))
                    if want is not None and want != len(bytes.fromhex(clean["mhex"])):
                        out.append(("soft", "Matched ends at byte %d, the literal program's Matched corresponds to byte %d" % (len(bytes.fromhex(clean["mhex"])), want)))
            elif not re.match(r"^\d+:\d+ \(\d+\)", ref["err"] or "") and not re.match(r"^\d+:\d+ \(\d+\)", clean["err"] or "") and ref["err"] != clean["err"]:
                out.append(("soft", "run-time error differs from the literal program: %r vs %r" % (clean["err"][:200], ref["err"][:200])))
    # --- process text shows the handler's text (simple programs only)
    if c["kind"] == "lookalike" and c["calls"] and clean["ok"] and c["matched"] in (None, c["src"]):
        for x in calls:
            want = Tok(x["which"], x["groups"][1]).detail if len(x["groups"]) == 2 else "?"
            if x["depth"] == 0 and want not in clean["detail"]:
                out.append(("soft", "process text %r does not show %r" % (clean["detail"], want)))
                break
    return out


def run_B(res, rnd, seed, n, plain_sources, known, tier):
    cases = make_B(rnd, n, plain_sources)
    rows = run_batch(["c17-match"], [{"b64": b64(c["src"]), "ref": b64(c["ref"]), "pre": b64(c["pre"]), "seed": c["seed"]} for c in cases], tier, "c17-match")
    found = 0
    la_hits, la_examples, order_skips = 0, [], 0
    ncalls = 0
    hangs = 0
    for c, r in zip(cases, rows):
        if r.get("hang"):
            hangs += 1
            if not plain_hangs(c["ref"] or c["src"], c["pre"], c["seed"]):
                res.violation({"what": "evaluation does not terminate (20 s) with custom dice registered, but the reference program terminates on the plain VM",
                               "input": text(enc(c["src"])), "input_hex": enc(c["src"]).hex(), "literal_reference": text(enc(c["ref"])), "history": c["pre"], "seed": c["seed"]})
                found += 1
            r.update({"calls": [], "clean": {"ok": False}})
            continue
        ncalls += len(r["calls"] or [])
        res.count("B|" + enc(c["src"]).hex() + "|" + c["pre"], nontrivial=bool(r["calls"]))
        probs = judge_B(c, r)
        if not probs:
            continue
        # confirm on a re-run with the same seed; recognise map-order nondeterminism
        rr, _ = common.run_harness(["c17-match"], stdin=json.dumps({"b64": b64(c["src"]), "ref": b64(c["ref"]), "pre": b64(c["pre"]), "seed": r["seed"], "reps": 10}) + "\n")
        if not rr[0]["stable"] and KEY_ORDER in known:
            order_skips += 1
            continue
        probs2 = judge_B(c, rr[0])
        if not probs2:
            if KEY_ORDER in known and any(t in text(enc(c["src"])) for t in ("{", "dir(")):
                order_skips += 1
                continue
            probs2 = [("hard", "not reproducible on a re-run from the same seed: " + probs[0][1])]
        if c["la"] and KEY_LA in known and all(sev == "soft" for sev, _ in probs2):
            la_hits += 1
            if len(la_examples) < 3:
                la_examples.append(text(enc(c["src"]))[:80])
            continue
        res.violation({"what": probs2[0][1], "all_problems": [m for _, m in probs2], "kind": c["kind"], "input": text(enc(c["src"])), "input_hex": enc(c["src"]).hex(),
                       "literal_reference": text(enc(c["ref"])), "history": c["pre"], "seed": r["seed"],
                       "expected_handler_log": None if c["calls"] is None else [t.groups for t in c["calls"]], "handler_log": rr[0]["calls"],
                       "with_tokens": rr[0]["clean"], "hostile_handler": None if rr[0]["same"] else rr[0]["hostile"], "with_literals": rr[0].get("ref"),
                       "token_in_predicate_guarded_context": c["la"],
                       "replay_cmd": "echo '%s' | harness c17-match" % json.dumps({"b64": b64(c["src"]), "ref": b64(c["ref"]), "pre": b64(c["pre"]), "seed": r["seed"]})})
        found += 1
        if found >= 4:
            break
    kinds = {k: sum(1 for c in cases if c["kind"] == k) for k in ("structured", "lookalike", "injected", "nomatch")}
    dist = {"programs": len(cases), "by_kind": kinds, "with_matching_tokens": sum(1 for r in rows if r["calls"]), "handler_invocations": ncalls,
            "with_expected_invocation_count": sum(1 for c in cases if c["calls"] is not None),
            "tokens_in_predicate_guarded_context": sum(1 for c in cases if c["la"]),
            "attributed_to_lookahead_finding": la_hits, "skipped_map_order_nondeterminism": order_skips, "not_terminating_within_20s": hangs,
            "succeeded": sum(1 for r in rows if r["clean"]["ok"])}
    ex = next((i for i, (c, r) in enumerate(zip(cases, rows)) if c["kind"] == "structured" and len(r["calls"] or []) > 2 and r["clean"]["ok"]), 0)
    res.sample({"src": text(enc(cases[ex]["src"])), "literal_reference": text(enc(cases[ex]["ref"])), "value": rows[ex]["clean"]["str"],
                "handler_log": [x["groups"] for x in rows[ex]["calls"] or []][:8]})
    return dist, found, la_hits, la_examples, cases


# ------------------------------------------------------------------ (C)
def c17_case_term(tbl, fl, b, r):
    t = "[" + ";".join("(%d,%d)" % p for p in tbl) + "]"
    flags = "[" + ";".join("true" if x else "false" for x in fl) + "]"
    by = "[" + ";".join(str(x) for x in b) + "]"
    ops = "[" + ";".join(str(x) for x in (r.get("ops") or [])) + "]"
    f = r["fail"]
    return f"({t}, {flags}, {by}, ({'true' if r['ok'] else 'false'}, {max(r['offset'], 0)}, {r['cnt']}, ({f[0]},{f[1]},{f[2]}), {ops}))"


C_HEADER = ("From Coq Require Import NArith List.\nFrom DS Require Import Model.Peg Gen.Grammar Corr.CorrK1 Corr.Corr17.\nImport ListNotations.\n"
            "Open Scope N_scope.\nSet Printing Width 1000000. Set Printing Depth 10000000.\n")


def run_C(res, rnd, cases_B, plain_sources, n, opnum):
    inputs = []
    for c in cases_B:
        if c["kind"] != "nomatch":
            inputs.append((enc(c["src"]), list(pegcases.ALL_ON)))
    inputs = inputs[:n]
    extra = []
    for _ in range(max(20, n // 4)):
        b = gen.mutate(rnd, seg_src(S(rnd, allow_la=True).program()[0]))
        extra.append((b, list(pegcases.ALL_ON) if rnd.random() < 0.6 else [rnd.random() < 0.5 for _ in range(7)]))
    for _ in range(max(10, n // 8)):
        extra.append((rnd.choice(plain_sources), list(pegcases.ALL_ON)))
    inputs += extra
    lines = [json.dumps({"b64": b64(b), "flags": fl, "pre": ""}) for b, fl in inputs]
    rows, _ = common.run_harness(["c17-k1"], stdin="\n".join(lines) + "\n", timeout=900)
    if len(rows) != len(inputs):
        raise Broken("harness c17-k1 returned %d rows for %d inputs (crash?)" % (len(rows), len(inputs)))
    tables = [match_table(b) for b, _ in inputs]
    idx = [i for i, r in enumerate(rows) if not r.get("panic")]
    shard = 100
    ks = list(range(0, len(idx), shard))
    jobs = []
    for k in ks:
        body = ";\n".join(c17_case_term(tables[i], inputs[i][1], inputs[i][0], rows[i]) for i in idx[k:k + shard])
        jobs.append((f"c17k1_{k}", C_HEADER + "Definition cases : list c17_case := [\n" + body + "].\n"
                     "Definition bad := Eval vm_compute in bad_c17 0 cases.\nPrint bad.\n"
                     f"Definition opnum := Eval vm_compute in (opCustomDice =? {opnum}).\nPrint opnum.\n"))
    outs = common.coq_eval_many(jobs, workers=12)
    bad = []
    for k, out in zip(ks, outs):
        bad += [idx[k + int(x.replace("%N", ""))] for x in common.parse_coq_list(out, "bad")]
        if "opnum = true" not in out:
            raise Broken("Corr17.opCustomDice differs from typeCustomDice in bytecode.go (%d)" % opnum)
    info = {"cases": len(inputs), "with_table_entries": sum(1 for t in tables if t), "accepted": sum(1 for r in rows if r["ok"]),
            "emitting_dice_custom": sum(1 for r in rows if opnum in (r.get("ops") or [])), "disagreements": len(bad)}
    broken = None
    if bad:
        broken = Broken("correspondence Corr17.c17_ok (Model/Peg.v with custom match table vs Go Parse with the matchers registered)",
                        {"first": [{"input": text(inputs[i][0]), "hex": inputs[i][0].hex(), "flags": inputs[i][1], "table": tables[i],
                                    "go": {k: rows[i][k] for k in ("ok", "offset", "cnt", "fail", "ops")}} for i in bad[:3]]})
    for r, (b, fl) in list(zip(rows, inputs)):
        if r.get("panic") and len(res.violations) < 3:
            res.violation({"what": "Parse panics with custom dice registered", "input": text(b), "input_hex": b.hex(), "flags": fl, "panic": r["panic"]})
    return info, broken


def build_own_coq():
    """compile this property's own Coq files when they are missing / out of date with respect to their sources or the
    libraries they import (they may not be listed in _CoqProject yet; once they are, `make` keeps them fresh)"""
    deps = {"Model/Custom.v": [], "Proofs/CustomProofs.v": ["Model/Custom.vo"],
            "Corr/Corr17.v": ["Model/Peg.vo", "Gen/Grammar.vo", "Corr/CorrK1.vo"]}
    with common.Lock("coqmake"):
        for f in MY_COQ:
            v = os.path.join(common.COQ, f)
            vo = v + "o"
            srcs = [v] + [os.path.join(common.COQ, d) for d in deps[f]]
            if not os.path.exists(vo) or any(os.path.exists(x) and os.path.getmtime(vo) < os.path.getmtime(x) for x in srcs):
                r = common.sh(["timeout", "900", "coqc", "-q", "-Q", ".", "DS", f], cwd=common.COQ)
                if r.returncode != 0:
                    raise Broken("coq-build " + f, r.stdout[-3000:])


def run(res, tier, seed):
    common.build_harness()
    rnd = random.Random(seed)
    known = {k["key"]: k for k in common.known_for("C17")}
    opnum = pegcases_opnum()
    nA = 500 if tier == "quick" else 5000
    nB = 450 if tier == "quick" else 4000
    nC = 350 if tier == "quick" else 2500

    distA, foundA, skipped, plain_sources = run_A(res, rnd, seed, nA, known, tier)
    distB, foundB, la_hits, la_examples, cases_B = run_B(res, rnd, seed, nB, plain_sources, known, tier)
    res.cov["rule"] = (
        "(A) generated programs, mixed/mutated inputs, repository test sources and load/store-heavy snippets, each from a random 16-byte seed with and "
        "without history, on a plain VM (twice) and on a VM with never-matching custom dice (regex + stream parsers that read ahead with Peek/Read/Unread/"
        "ReadDigits/ReadExpr and report no match in four different ways), identity HookValueLoadPre/Post/Store, identity detail rewriters, not-found "
        "Global*Func (all of them, or a random subset): value dump, error, Matched, RestInput, process text, variables, final generator state and "
        "NumOpCount must be equal; (B) programs with `E(\\d+)` / `#digits` tokens at operand starts (operators, assignments, function bodies called k "
        "times, while loops, if/short-circuit, templates, computed values; look-alikes that must not match): handler log == evaluations expected from "
        "the structure, groups/payload exact, clean vs hostile handler (used by copy), reference program with the handlers' values as literals; "
        "(C) Parse with the matchers registered vs Model/Peg.v run with the offset->length table; distinct = distinct (program, history, extension set); "
        "non-trivial = (A) evaluations that succeed, (B) programs in which a handler ran")
    res.cov["input_distribution"] = {"A_transparency": distA, "B_matching": distB}
    res.cov["trusted_base"] += [
        "the regexp engine and the host callbacks are oracles: Model/Custom.v takes the matcher as a function offset -> match; lib/c17.py mirrors "
        "`E(\\d+)` and `#digits` to compute the table given to the PEG model",
        "Model/Custom.v (pending-match protocol, load/store hook control flow, detail rewriter call sites, dice.custom result) is hand-written from "
        "custom_dice_parser.go / types.go / rollvm.go; it is tied to the code by the Go-vs-Go runs (A), the handler logs (B) and, for the parser side, "
        "by the exact K1 correspondence of Model/Peg.v with custom match tables (C)",
        "translator tools/gen_grammar.py: PrepareCustomDice -> PCustomP, ConsumeCustomDice -> ACustomConsume, CommitCustomDice -> AEmit typeCustomDice",
        "`used by copy` means the VMValue cell is copied (Clone is shallow): an array returned by a handler shares its element storage like every array value",
    ]
    # a stream parser that reports only "matched": same handler arguments, value and process text as the equivalent regular expression
    bare, _ = common.run_harness(["c17-bare"], timeout=120)
    res.cov["bare_stream_parser_vs_regex"] = {"programs": len(bare), "disagreements": sum(1 for r in bare if r["stream"] != r["regex"])}
    for r in bare:
        if r["stream"] != r["regex"]:
            res.violation({"what": "a custom dice registered as a stream parser that reports only `Matched` behaves differently from the equivalent regular "
                                   "expression (the handler must receive the matched text as groups[0]; the process text shows it)",
                           "input": r["src"], "parser_style": {0: "plain", 1: "two forms, resets the attempt itself and reads on", 2: "peeks / unreads / asks positions",
                                                                   3: "reads far ahead, resets twice"}.get(r.get("style", 0)),
                           "stream_parser": r["stream"], "regular_expression": r["regex"]})
            break
    if KEY_ORDER in known:
        res.known(known[KEY_ORDER]["what"] + f" [programs skipped for this reason in this run: {skipped + distB['skipped_map_order_nondeterminism']}]")
    if KEY_LA in known and la_hits:
        res.known(known[KEY_LA]["what"] + f" [programs of this run failing only for this reason: {la_hits}, e.g. {la_examples}]")
    found = foundA + foundB

    broken = None
    try:
        build_own_coq()
        if os.path.exists(os.path.join(common.COQ, "Properties", "C17.v")):
            info = common.check_property_file("C17")
            res.proof(info, "cd coq && make && coqc -Q . DS Properties/C17.v")
        stats = pegcases.regenerate_grammar()
        res.cov["translator"] = stats
        if stats["untranslated"]:
            raise Broken("translator: constructs it does not understand", stats["untranslated"])
        common.coq_make()
        build_own_coq()
        infoC, broken = run_C(res, rnd, cases_B, plain_sources, nC, opnum)
        res.cov["correspondence"] = infoC
        res.cov["input_distribution"]["C_k1_custom"] = {k: infoC[k] for k in ("cases", "with_table_entries", "accepted", "emitting_dice_custom")}
    except Broken as b:
        broken = b
    if broken:
        res.violation({"broken": broken.what, "detail": broken.detail}, no_input=not found)


def pegcases_opnum():
    src = open(os.path.join(common.REPO, "bytecode.go"), encoding="utf-8").read()
    m = re.search(r"const \(\n\s*typePushIntNumber CodeType = iota\n(.*?)\n\)", src, re.S)
    names = ["typePushIntNumber"] + [l.split("//")[0].strip() for l in m.group(1).split("\n") if l.split("//")[0].strip()]
    return names.index("typeCustomDice")


def replay(path):
    p = json.load(open(path))
    print(json.dumps(p, indent=1, ensure_ascii=False))
    cmd = p.get("replay_cmd")
    if cmd and os.path.exists(os.path.join(common.BIN, "harness")):
        m = re.match(r"echo '(.*)' \| harness (\S+)$", cmd, re.S)
        if m:
            r = subprocess.run([os.path.join(common.BIN, "harness"), m.group(2)], input=m.group(1) + "\n", capture_output=True, text=True)
            print(r.stdout)
    return 0
