#!/usr/bin/env python3
"""Re-run checks against stored seeded changes: apply /verif/seeded/<id>/patch.diff to /repo's working tree, run the
given checks (default: the seed's own property), undo the patch, update meta.json with the verdicts; afterwards rebuild
the harness from the clean tree.
usage: seedrun.py <seed-id>[:<Cnn>,<Cnn>...] ..."""
import json
import os
import subprocess
import sys
import time

ENV = dict(os.environ, GOFLAGS="-mod=mod", GOPROXY="off", GOSUMDB="off", GOTOOLCHAIN="local")


def sh(cmd):
    r = subprocess.run(cmd, shell=True, env=ENV, capture_output=True, text=True)
    return r.returncode, r.stdout + r.stderr


def run_one(sid, checks):
    dst = f"/verif/seeded/{sid}"
    meta = json.load(open(f"{dst}/meta.json"))
    st = sh("git -C /repo status --porcelain")[1].strip()
    assert st == "", "/repo working tree not clean: " + st
    rc, o = sh(f"git -C /repo apply {dst}/patch.diff")
    assert rc == 0, o
    verdicts = meta.get("checks_run_against_it", {})
    try:
        for c in checks:
            t0 = time.time()
            r = subprocess.run(["./check", c, "--tier", "quick"], cwd="/verif", env=ENV, capture_output=True, text=True, timeout=3000)
            lines = [l for l in r.stdout.splitlines() if l.startswith("VIOLATION")]
            kind, replay = "missed", None
            if lines:
                kind = "no-failing-input-found" if all(l.endswith("no-failing-input-found") for l in lines) else "violation-with-replay"
                first = next((l for l in lines if not l.endswith("no-failing-input-found")), lines[0])
                path = first.split("replay=")[1].split()[0]
                try:
                    replay = json.load(open(path))
                    replay = {k: (v if len(str(v)) < 400 else str(v)[:400] + "...") for k, v in replay.items()}
                except Exception:
                    pass
            verdicts[c] = {"exit": r.returncode, "verdict": kind, "violations": len(lines), "seconds": round(time.time() - t0, 1), "first_replay": replay}
            print(sid, c, kind, len(lines), f"{verdicts[c]['seconds']}s", flush=True)
    finally:
        sh("git -C /repo checkout -- .")
    meta["checks_run_against_it"] = verdicts
    json.dump(meta, open(f"{dst}/meta.json", "w"), indent=1, ensure_ascii=False)


for a in sys.argv[1:]:
    sid, _, cs = a.partition(":")
    try:
        run_one(sid, cs.split(",") if cs else [sid.split("-")[0]])
    except Exception as e:      # one seed that cannot be run must not stop a batch
        print(sid, "NOT-RUN", str(e)[:200], flush=True)
        sh("git -C /repo checkout -- .")
# leave no binary built from a changed tree behind
# ... nor any generated Coq table (Gen/*.v) produced under it
sh("cd /verif && python3 tools/regen.py")
