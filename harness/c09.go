package main

// C09 / C10 — JSON snapshot/restore of values and variable maps.
//
//   c09-enc   : battery of values built through the Go API (fixed + random trees, shared
//               substructure, non-finite floats, native functions/objects) -> structural dump,
//               ToJSON text parsed into a canonical tree, Go-side round trip
//   c09-dec   : documents from stdin -> VMValueFromJSON / json.Unmarshal into a ValueMap,
//               nil-aware structural dump, and the C10 battery on every decoded value
//   c09-trans : transparency search (Go vs Go): snapshot after every statement prefix,
//               restore into a fresh VM with the captured generator state, run follow-ups
//   c09-cyc   : one cycle-building script, then ToJSON of the variable map (run in a child process)
//   c09-natives : which native-function names the decoder accepts out of the candidates on stdin
//   c09-script : run scripts from stdin and report the float bits / string bytes of the result

import (
	"bufio"
	"bytes"
	"encoding/hex"
	"encoding/json"
	"fmt"
	"math"
	"os"
	"regexp"
	"sort"
	"strconv"
	"strings"

	ds "github.com/sealdice/dicescript"
)

// ---------------------------------------------------------------- structural dump
// strings are hex-encoded so that arbitrary bytes survive the harness's own JSON output
type d9 struct {
	T    int      `json:"t"`              // TypeId; -1 = nil pointer
	Bad  bool     `json:"bad,omitempty"`  // payload does not match the tag
	Nilp bool     `json:"nilp,omitempty"` // Value == nil
	I    string   `json:"i,omitempty"`
	F    string   `json:"f,omitempty"` // IEEE bits, decimal
	S    string   `json:"s"`           // hex: string payload / expr / native name
	N    string   `json:"n"`           // hex: function name
	L    []*d9    `json:"l,omitempty"` // array elements / dict values (sorted by key) / attr values
	K    []string `json:"k,omitempty"` // hex keys, sorted
	HasM bool     `json:"hasm,omitempty"` // computed: Attrs != nil ; function: Params != nil
	P    []string `json:"p,omitempty"`    // hex params
	Cyc  bool     `json:"cyc,omitempty"`
	Self bool     `json:"self,omitempty"` // bound method (not serialised)
	NDef int      `json:"ndef,omitempty"` // number of default values (not serialised)
	NoFn bool     `json:"nofn,omitempty"` // native function without callback
}

func hx(s string) string { return hex.EncodeToString([]byte(s)) }

type kv9 struct {
	k string
	v *ds.VMValue
}

func sortedEntries(m *ds.ValueMap) []kv9 {
	var l []kv9
	m.Range(func(key string, value *ds.VMValue) bool {
		l = append(l, kv9{key, value})
		return true
	})
	sort.Slice(l, func(a, b int) bool { return l[a].k < l[b].k })
	return l
}

func dump9(v *ds.VMValue) *d9 { return dump9d(v, map[any]bool{}, 0) }

func dump9d(v *ds.VMValue, seen map[any]bool, depth int) *d9 {
	if v == nil {
		return &d9{T: -1}
	}
	d := &d9{T: int(v.TypeId)}
	if v.Value == nil {
		d.Nilp = true
	}
	if depth > 60 {
		d.Cyc = true
		return d
	}
	switch v.TypeId {
	case ds.VMTypeInt:
		x, ok := v.Value.(ds.IntType)
		if !ok {
			d.Bad = true
			return d
		}
		d.I = i(int64(x))
	case ds.VMTypeFloat:
		x, ok := v.Value.(float64)
		if !ok {
			d.Bad = true
			return d
		}
		d.F = u(math.Float64bits(x))
	case ds.VMTypeString:
		x, ok := v.Value.(string)
		if !ok {
			d.Bad = true
			return d
		}
		d.S = hx(x)
	case ds.VMTypeNull:
	case ds.VMTypeArray:
		a, ok := v.Value.(*ds.ArrayData)
		if !ok || a == nil {
			d.Bad = true
			return d
		}
		if seen[a] {
			d.Cyc = true
			return d
		}
		seen[a] = true
		d.L = []*d9{}
		for _, e := range a.List {
			d.L = append(d.L, dump9d(e, seen, depth+1))
		}
		delete(seen, a)
	case ds.VMTypeDict:
		dd, ok := v.Value.(*ds.DictData)
		if !ok || dd == nil || dd.Dict == nil {
			d.Bad = true
			return d
		}
		if seen[dd.Dict] {
			d.Cyc = true
			return d
		}
		seen[dd.Dict] = true
		d.L, d.K = []*d9{}, []string{}
		for _, p := range sortedEntries(dd.Dict) {
			d.K = append(d.K, hx(p.k))
			d.L = append(d.L, dump9d(p.v, seen, depth+1))
		}
		delete(seen, dd.Dict)
	case ds.VMTypeComputedValue:
		c, ok := v.Value.(*ds.ComputedData)
		if !ok || c == nil {
			d.Bad = true
			return d
		}
		d.S = hx(c.Expr)
		if c.Attrs != nil {
			d.HasM = true
			if seen[c.Attrs] {
				d.Cyc = true
				return d
			}
			seen[c.Attrs] = true
			d.L, d.K = []*d9{}, []string{}
			for _, p := range sortedEntries(c.Attrs) {
				d.K = append(d.K, hx(p.k))
				d.L = append(d.L, dump9d(p.v, seen, depth+1))
			}
			delete(seen, c.Attrs)
		}
	case ds.VMTypeFunction:
		f, ok := v.Value.(*ds.FunctionData)
		if !ok || f == nil {
			d.Bad = true
			return d
		}
		d.S, d.N = hx(f.Expr), hx(f.Name)
		if f.Params != nil {
			d.HasM = true
			d.P = []string{}
			for _, p := range f.Params {
				d.P = append(d.P, hx(p))
			}
		}
		d.Self = f.Self != nil
		d.NDef = len(f.Defaults)
	case ds.VMTypeNativeFunction:
		f, ok := v.Value.(*ds.NativeFunctionData)
		if !ok || f == nil {
			d.Bad = true
			return d
		}
		d.S = hx(f.Name)
		d.Self = f.Self != nil
		d.NoFn = f.NativeFunc == nil
	case ds.VMTypeNativeObject:
		f, ok := v.Value.(*ds.NativeObjectData)
		if !ok || f == nil {
			d.Bad = true
			return d
		}
		d.S = hx(f.Name)
	default:
		// unknown tag: nothing more to say; Nilp already recorded
	}
	return d
}

func dumpMap9(m *ds.ValueMap) *d9 {
	d := &d9{T: 100, L: []*d9{}, K: []string{}}
	for _, p := range sortedEntries(m) {
		d.K = append(d.K, hx(p.k))
		d.L = append(d.L, dump9(p.v))
	}
	return d
}

func dumpJSON(d *d9) string { b, _ := json.Marshal(d); return string(b) }

// ---------------------------------------------------------------- canonical JSON tree
// {"k":"null"} {"k":"bool","b":true} {"k":"int","z":"12"} {"k":"flt","f":"<bits>"}
// {"k":"str","s":hex} {"k":"arr","l":[...]} {"k":"obj","e":[[hexkey,tree],...]} (document order, duplicates kept)
type jt struct {
	K string  `json:"k"`
	B bool    `json:"b,omitempty"`
	Z string  `json:"z,omitempty"`
	F string  `json:"f,omitempty"`
	S string  `json:"s"`
	L []*jt   `json:"l,omitempty"`
	E [][]any `json:"e,omitempty"`
}

var intLit = regexp.MustCompile(`^-?[0-9]+$`)

func parseTree(text []byte) (*jt, error) {
	dec := json.NewDecoder(bytes.NewReader(text))
	dec.UseNumber()
	t, err := parseTok(dec)
	if err != nil {
		return nil, err
	}
	if _, err := dec.Token(); err == nil {
		return nil, fmt.Errorf("trailing data")
	}
	return t, nil
}

func parseTok(dec *json.Decoder) (*jt, error) {
	tok, err := dec.Token()
	if err != nil {
		return nil, err
	}
	switch x := tok.(type) {
	case nil:
		return &jt{K: "null"}, nil
	case bool:
		return &jt{K: "bool", B: x}, nil
	case json.Number:
		s := string(x)
		if intLit.MatchString(s) && s != "-0" {
			return &jt{K: "int", Z: s}, nil
		}
		f, err := strconv.ParseFloat(s, 64)
		if err != nil {
			return nil, err
		}
		return &jt{K: "flt", F: u(math.Float64bits(f))}, nil
	case string:
		return &jt{K: "str", S: hx(x)}, nil
	case json.Delim:
		if x == '[' {
			r := &jt{K: "arr", L: []*jt{}}
			for dec.More() {
				e, err := parseTok(dec)
				if err != nil {
					return nil, err
				}
				r.L = append(r.L, e)
			}
			_, err := dec.Token()
			return r, err
		}
		if x == '{' {
			r := &jt{K: "obj", E: [][]any{}}
			for dec.More() {
				kt, err := dec.Token()
				if err != nil {
					return nil, err
				}
				ks, _ := kt.(string)
				e, err := parseTok(dec)
				if err != nil {
					return nil, err
				}
				r.E = append(r.E, []any{hx(ks), e})
			}
			_, err := dec.Token()
			return r, err
		}
	}
	return nil, fmt.Errorf("unexpected token %v", tok)
}


// ---------------------------------------------------------------- heap graph dump (wrapper identity)
type hw9 struct {
	K     string   `json:"k"`
	I     string   `json:"i,omitempty"`
	F     string   `json:"f,omitempty"`
	S     string   `json:"s"`
	N     string   `json:"n"`
	P     int      `json:"p"`
	HasP  bool     `json:"hasp,omitempty"`
	Ps    []string `json:"ps,omitempty"`
	HasPs bool     `json:"hasps,omitempty"`
}
type hp9 struct {
	K  string   `json:"k"` // list | map
	L  []int    `json:"l"`
	Ks []string `json:"ks,omitempty"`
}
type heap9 struct {
	W    []*hw9 `json:"w"`
	P    []*hp9 `json:"p"`
	Root int    `json:"root"`
	Ok   bool   `json:"ok"`
}

type heapB struct {
	h    *heap9
	wid  map[*ds.VMValue]int
	pid  map[any]int
	fail bool
}

func (b *heapB) wrapper(v *ds.VMValue) int {
	if v == nil {
		b.fail = true
		return 0
	}
	if id, ok := b.wid[v]; ok {
		return id
	}
	id := len(b.h.W)
	b.wid[v] = id
	w := &hw9{}
	b.h.W = append(b.h.W, w)
	switch v.TypeId {
	case ds.VMTypeInt:
		x, ok := v.Value.(ds.IntType)
		b.fail = b.fail || !ok
		w.K, w.I = "int", i(int64(x))
	case ds.VMTypeFloat:
		x, ok := v.Value.(float64)
		b.fail = b.fail || !ok
		w.K, w.F = "flt", u(math.Float64bits(x))
	case ds.VMTypeString:
		x, ok := v.Value.(string)
		b.fail = b.fail || !ok
		w.K, w.S = "str", hx(x)
	case ds.VMTypeNull:
		w.K = "null"
	case ds.VMTypeArray:
		a, ok := v.Value.(*ds.ArrayData)
		if !ok || a == nil {
			b.fail = true
			return id
		}
		w.K = "arr"
		if pid, ok := b.pid[a]; ok {
			w.P = pid
			return id
		}
		pc := &hp9{K: "list", L: []int{}}
		w.P = len(b.h.P)
		b.pid[a] = w.P
		b.h.P = append(b.h.P, pc)
		for _, e := range a.List {
			pc.L = append(pc.L, b.wrapper(e))
		}
	case ds.VMTypeDict:
		dd, ok := v.Value.(*ds.DictData)
		if !ok || dd == nil || dd.Dict == nil {
			b.fail = true
			return id
		}
		w.K = "dict"
		w.P = b.vmap(dd.Dict)
	case ds.VMTypeComputedValue:
		c, ok := v.Value.(*ds.ComputedData)
		if !ok || c == nil {
			b.fail = true
			return id
		}
		w.K, w.S = "comp", hx(c.Expr)
		if c.Attrs != nil {
			w.HasP = true
			w.P = b.vmap(c.Attrs)
		}
	case ds.VMTypeFunction:
		f, ok := v.Value.(*ds.FunctionData)
		if !ok || f == nil {
			b.fail = true
			return id
		}
		w.K, w.S, w.N = "func", hx(f.Expr), hx(f.Name)
		if f.Params != nil {
			w.HasPs = true
			for _, p := range f.Params {
				w.Ps = append(w.Ps, hx(p))
			}
		}
	case ds.VMTypeNativeFunction:
		f, ok := v.Value.(*ds.NativeFunctionData)
		if !ok || f == nil {
			b.fail = true
			return id
		}
		w.K, w.S = "native", hx(f.Name)
	case ds.VMTypeNativeObject:
		f, ok := v.Value.(*ds.NativeObjectData)
		if !ok || f == nil {
			b.fail = true
			return id
		}
		w.K, w.S = "nobj", hx(f.Name)
	default:
		b.fail = true
		w.K = "null"
	}
	return id
}

func (b *heapB) vmap(m *ds.ValueMap) int {
	if pid, ok := b.pid[m]; ok {
		return pid
	}
	pc := &hp9{K: "map", L: []int{}, Ks: []string{}}
	id := len(b.h.P)
	b.pid[m] = id
	b.h.P = append(b.h.P, pc)
	for _, e := range sortedEntries(m) {
		pc.Ks = append(pc.Ks, hx(e.k))
		pc.L = append(pc.L, b.wrapper(e.v))
	}
	return id
}

func heapOf(v *ds.VMValue) *heap9 {
	b := &heapB{h: &heap9{W: []*hw9{}, P: []*hp9{}}, wid: map[*ds.VMValue]int{}, pid: map[any]int{}}
	b.h.Root = b.wrapper(v)
	b.h.Ok = !b.fail
	return b.h
}

// ---------------------------------------------------------------- value battery (API-built)
func fbits(b uint64) *ds.VMValue { return ds.NewFloatVal(math.Float64frombits(b)) }

func mkDict(kvs ...any) *ds.VMValue {
	m := &ds.ValueMap{}
	for k := 0; k+1 < len(kvs); k += 2 {
		m.Store(kvs[k].(string), kvs[k+1].(*ds.VMValue))
	}
	return (*ds.VMValue)(ds.NewDictVal(m))
}

func mkComputed(expr string, attrs *ds.ValueMap) *ds.VMValue {
	return ds.NewComputedValRaw(&ds.ComputedData{Expr: expr, Attrs: attrs})
}

func mkFunc(name string, params []string, expr string) *ds.VMValue {
	return ds.NewFunctionValRaw(&ds.FunctionData{Expr: expr, Name: name, Params: params})
}

var nativeNames = []string{"ceil", "floor", "round", "abs", "toInt", "toFloat", "toStr", "toBool", "repr", "load", "loadRaw", "store", "dir", "typeId"}

func nativeVal(name string) *ds.VMValue {
	vm := ds.NewVM()
	if err := vm.Run(name); err != nil || vm.Ret == nil {
		return nil
	}
	return vm.Ret
}

var strPool = []string{"", "a", "abc", "k", "x y", "\"q\"", "back\\slash", "new\nline", "tab\t", "<>&", " ", "é", "汉字", "\U0001F600", "\x00", "\x7f", "t", "v", "list", "dict", "'", "1", "null"}

var floatPool = []uint64{
	0, 0x8000000000000000, 0x3FF0000000000000, 0xBFF0000000000000, 0x4014000000000000, // 0 -0 1 -1 5
	0x3FB999999999999A, 0x3FE0000000000000, 0x400921FB54442D18, // 0.1 0.5 pi
	0x444B1AE4D6E2EF50, 0x444B1AE4D6E2EF4F, 0x3EB0C6F7A0B5ED8D, 0x3EB0C6F7A0B5ED8C, // 1e21, below, 1e-6, below
	0x0000000000000001, 0x000FFFFFFFFFFFFF, 0x0010000000000000, 0x7FEFFFFFFFFFFFFF, 0xFFEFFFFFFFFFFFFF, // denormals, min normal, max
	0x4340000000000000, 0x4340000000000001, 0x433FFFFFFFFFFFFF, 0x43E0000000000000, 0xC3E0000000000000, // 2^53.. 2^63
	0x41DFFFFFFFC00000, 0x4059000000000000, 0x3FF8000000000000,
}

func randValue(r *rng, depth int, pool *[]*ds.VMValue) *ds.VMValue {
	if len(*pool) > 0 && r.chance(1, 8) {
		return pick(r, *pool) // shared substructure (same wrapper)
	}
	k := r.intn(14)
	if depth <= 0 && k >= 6 && k <= 9 {
		k = r.intn(6)
	}
	var v *ds.VMValue
	switch k {
	case 0:
		v = ds.NewIntVal(ds.IntType(pick(r, []int64{0, 1, -1, 7, 42, 1 << 31, -(1 << 31), math.MaxInt64, math.MinInt64, 1 << 53, 1<<53 + 1})))
	case 1:
		v = ds.NewIntVal(ds.IntType(int64(r.u64())))
	case 2:
		v = fbits(pick(r, floatPool))
	case 3:
		b := r.u64()
		if (b>>52)&0x7ff == 0x7ff {
			b &^= 1 << 62
		}
		v = fbits(b)
	case 4:
		v = ds.NewStrVal(pick(r, strPool))
	case 5:
		v = ds.NewNullVal()
	case 6, 7:
		n := r.intn(4)
		l := []*ds.VMValue{}
		for j := 0; j < n; j++ {
			l = append(l, randValue(r, depth-1, pool))
		}
		v = ds.NewArrayValRaw(l)
		if r.chance(1, 6) {
			v = ds.NewArrayValRaw(nil)
		}
	case 8:
		n := r.intn(4)
		m := &ds.ValueMap{}
		for j := 0; j < n; j++ {
			m.Store(pick(r, strPool), randValue(r, depth-1, pool))
		}
		v = (*ds.VMValue)(ds.NewDictVal(m))
	case 9:
		var attrs *ds.ValueMap
		if r.chance(2, 3) {
			attrs = &ds.ValueMap{}
			n := r.intn(3)
			for j := 0; j < n; j++ {
				attrs.Store(pick(r, strPool), randValue(r, depth-1, pool))
			}
		}
		v = mkComputed(pick(r, []string{"1", "d6+1", "this.x + 1", "", "'s'"}), attrs)
	case 10:
		v = mkComputed(pick(r, []string{"1", "2d6", ""}), nil)
	case 11:
		var ps []string
		switch r.intn(4) {
		case 0:
			ps = nil
		case 1:
			ps = []string{}
		case 2:
			ps = []string{"a"}
		default:
			ps = []string{"a", "bb", ""}
		}
		v = mkFunc(pick(r, []string{"f", "g1", ""}), ps, pick(r, []string{"return 1", "a+1", "", "this"}))
	case 12:
		v = nativeVal(pick(r, nativeNames))
		if v == nil {
			v = ds.NewNullVal()
		}
	default:
		v = ds.NewNativeObjectVal(&ds.NativeObjectData{Name: pick(r, []string{"obj1", "", "o\"x"})})
	}
	if v.TypeId == ds.VMTypeArray || v.TypeId == ds.VMTypeDict || v.TypeId == ds.VMTypeComputedValue {
		*pool = append(*pool, v)
		if r.chance(1, 3) {
			*pool = append(*pool, v.Clone()) // other wrapper, same payload
		}
	}
	return v
}

func fixedBattery() (l []*ds.VMValue, cyc []*ds.VMValue) {
	for _, z := range []int64{0, 1, -1, 42, math.MaxInt64, math.MinInt64} {
		l = append(l, ds.NewIntVal(ds.IntType(z)))
	}
	for _, b := range floatPool {
		l = append(l, fbits(b))
	}
	for _, b := range []uint64{0x7FF0000000000000, 0xFFF0000000000000, 0x7FF8000000000001} { // +Inf -Inf NaN
		l = append(l, fbits(b))
		l = append(l, ds.NewArrayVal(ds.NewIntVal(1), fbits(b)))
		l = append(l, mkDict("k", fbits(b)))
		m := &ds.ValueMap{}
		m.Store("x", fbits(b))
		l = append(l, mkComputed("1", m))
	}
	for _, s := range strPool {
		l = append(l, ds.NewStrVal(s))
	}
	l = append(l, ds.NewStrVal("\xff"), ds.NewStrVal("a\xc3"), ds.NewStrVal("\xed\xa0\x80"), mkDict("\xff", ds.NewIntVal(1)))
	l = append(l, ds.NewNullVal(), ds.NewArrayValRaw(nil), ds.NewArrayVal(), mkDict(), mkComputed("d6", nil), mkComputed("", &ds.ValueMap{}))
	l = append(l, mkFunc("f", nil, "1"), mkFunc("f", []string{}, "1"), mkFunc("f", []string{"a", "b"}, "a+b"))
	for _, n := range nativeNames {
		if v := nativeVal(n); v != nil {
			l = append(l, v)
		}
	}
	l = append(l, ds.NewNativeObjectVal(&ds.NativeObjectData{Name: "obj1"}))
	l = append(l, ds.NewNativeFunctionVal(&ds.NativeFunctionData{Name: "hostfn"}))
	// shared substructure (a DAG is not a cycle)
	a := ds.NewArrayVal(ds.NewIntVal(1))
	l = append(l, ds.NewArrayVal(a, a), mkDict("p", a, "q", a), ds.NewArrayVal(a, mkDict("k", a)), ds.NewArrayVal(a, a.Clone()))
	m := &ds.ValueMap{}
	m.Store("x", ds.NewArrayVal(a, a))
	c := mkComputed("1", m)
	l = append(l, ds.NewArrayVal(c, c))
	// cycles: kept apart, each one is serialised in a process of its own (an unbounded recursion is fatal)
	cy := ds.NewArrayVal(ds.NewIntVal(1))
	ad, _ := cy.ReadArray()
	ad.List = append(ad.List, cy)
	cyc = append(cyc, cy)
	cy2 := ds.NewArrayVal(ds.NewIntVal(1))
	ad2, _ := cy2.ReadArray()
	ad2.List = append(ad2.List, cy2.Clone())
	cyc = append(cyc, cy2)
	dm := &ds.ValueMap{}
	dv := (*ds.VMValue)(ds.NewDictVal(dm))
	dm.Store("x", dv)
	cyc = append(cyc, dv)
	cm := &ds.ValueMap{}
	cv := mkComputed("1", cm)
	cm.Store("x", cv.Clone())
	cyc = append(cyc, cv)
	mix := ds.NewArrayVal(ds.NewIntVal(1))
	mixd := mkDict("k", mix)
	madd, _ := mix.ReadArray()
	madd.List[0] = mixd
	cyc = append(cyc, mix)
	return l, cyc
}

const nCyclicBattery = 5

type encRow struct {
	Kind string `json:"kind"`
	Val  *d9    `json:"val"`
	Heap *heap9 `json:"heap,omitempty"`
	Text string `json:"text,omitempty"` // hex of the ToJSON text
	Tree *jt    `json:"tree,omitempty"`
	Err  string `json:"err,omitempty"`
	Pan  string `json:"panic,omitempty"`
	// Go-side round trip
	RtErr  string `json:"rterr,omitempty"`
	RtVal  *d9    `json:"rtval,omitempty"`
	RtSame bool   `json:"rtsame"`
	RtEq   bool   `json:"rteq"` // ValueEqual(original, restored)
}

func encodeOne(v *ds.VMValue) (row encRow) {
	row.Kind = "value"
	row.Val = dump9(v)
	row.Heap = heapOf(v)
	defer func() {
		if r := recover(); r != nil {
			row.Pan = fmt.Sprint(r)
		}
	}()
	text, err := v.ToJSON()
	if err != nil {
		row.Err = err.Error()
		return
	}
	row.Text = hex.EncodeToString(text)
	tree, perr := parseTree(text)
	if perr != nil {
		row.Err = "harness: ToJSON text is not JSON: " + perr.Error()
		return
	}
	row.Tree = tree
	back, derr := ds.VMValueFromJSON(text)
	if derr != nil {
		row.RtErr = derr.Error()
		return
	}
	row.RtVal = dump9(back)
	row.RtSame = dumpJSON(row.RtVal) == dumpJSON(row.Val)
	row.RtEq = ds.ValueEqual(v, back, false)
	return
}

func encodeMap(m *ds.ValueMap) (row encRow) {
	row.Kind = "map"
	row.Val = dumpMap9(m)
	defer func() {
		if r := recover(); r != nil {
			row.Pan = fmt.Sprint(r)
		}
	}()
	text, err := m.ToJSON()
	if err != nil {
		row.Err = err.Error()
		return
	}
	row.Text = hex.EncodeToString(text)
	tree, perr := parseTree(text)
	if perr != nil {
		row.Err = "harness: ToJSON text is not JSON: " + perr.Error()
		return
	}
	row.Tree = tree
	back := &ds.ValueMap{}
	if derr := json.Unmarshal(text, back); derr != nil {
		row.RtErr = derr.Error()
		return
	}
	row.RtVal = dumpMap9(back)
	row.RtSame = dumpJSON(row.RtVal) == dumpJSON(row.Val)
	row.RtEq = row.RtSame
	return
}

// ---------------------------------------------------------------- C10 battery
var batteryScripts = []string{
	"x", "x+1", "1+x", "x-1", "x*2", "x/2", "x%2", "x**2", "-x", "+x", "x[0]", "x[-1]", "x['k']", "x[0:1]", "x.k", "x.len", "x.len()", "x.sum()", "x.keys()", "x.values()", "x.items()",
	"x()", "x(1)", "x(1,2)", "x==x", "x!=x", "x<x", "x>=1", "x==1", "x==null", "[x].sum()", "[x,x]", "[x]*2", "[x]+[x]", "{'a':x}", "{'a':x}.a", "toStr(x)", "repr(x)", "toBool(x)", "toInt(x)", "toFloat(x)",
	"typeId(x)", "dir(x)", "abs(x)", "ceil(x)", "floor(x)", "round(x)", "x ? 1 : 2", "x && 1", "x || 1", "!x", "x & 1", "x | 1", "`a{x}b`", "\x1e x \x1e", "x[0] = 1; x", "x.k = 1; x", "x.k = x; x", "x[0] = x; x",
	"y = x; y", "y = x; y == x", "load('x')", "loadRaw('x')", "store('y', x); y", "&z = x; z", "&z = x + 1; z", "x.compute()", "x.push(1); x", "x.pop()", "x.shift()", "x.kh()", "x.kl(1)", "x.rand()", "x.shuffle()", "x.randSize(1)",
	"if x { 1 } else { 2 }", "i = 0; while x { i = i + 1; if i > 3 { break } }; i", "func g(a) { return a }; g(x)", "func g(a) { return a == x }; g(x)", "x.x", "x.x.x", "x.a.b", "x[0][0]", "x.compute", "x.keys", "x.a()", "x.a(1)",
	"xd6", "2dx", "x d 6", "d(x)", "(x)d(x)", "x.k += 1; x", "x[0] += 1", "x += 1; x", "x = x; x",
}

// the battery re-uses one VM per configuration (NewVM is expensive); a VM that was left by a panic
// or an error path is dropped and rebuilt
var batVMs = map[bool]*ds.Context{}
var batVMClean = map[bool]bool{}

func batVM(cfgOn bool) *ds.Context {
	vm := batVMs[cfgOn]
	if vm == nil || !batVMClean[cfgOn] {
		c := vmCfg{OpLimit: 20000}
		if cfgOn {
			c = allOn()
			c.OpLimit = 20000
		}
		vm = newVM(c, 1, 2, true)
		batVMs[cfgOn] = vm
	}
	batVMClean[cfgOn] = false
	vm.Attrs = &ds.ValueMap{}
	vm.RandSrc = mkSrc(1, 2)
	return vm
}

func batVMDone(cfgOn bool) { batVMClean[cfgOn] = true }

type batOut struct {
	Panics []string `json:"panics,omitempty"` // "<operation>: <panic text>"
	N      int      `json:"n"`
	Errs   int      `json:"errs"`
}

func guard(name string, bo *batOut, f func()) {
	defer func() {
		if r := recover(); r != nil {
			bo.Panics = append(bo.Panics, name+": "+fmt.Sprint(r))
		}
	}()
	bo.N++
	f()
}

// applyBattery: every operation on a decoded value must be crash-free.  fresh() gives a new decoding
// of the same document for each script, so that scripts that mutate x do not influence each other.
func applyBattery(fresh func() *ds.VMValue, full bool) batOut {
	var bo batOut
	v := fresh()
	guard("ToString", &bo, func() { _ = v.ToString() })
	guard("ToRepr", &bo, func() { _ = v.ToRepr() })
	guard("AsBool", &bo, func() { _ = v.AsBool() })
	guard("GetTypeName", &bo, func() { _ = v.GetTypeName() })
	guard("Clone", &bo, func() { _ = v.Clone().ToString() })
	guard("ValueEqual(v,v)", &bo, func() { _ = ds.ValueEqual(v, v, true) })
	guard("ValueEqual(v,v')", &bo, func() { _ = ds.ValueEqual(v, fresh(), false) })
	guard("ValueEqual(v,1)", &bo, func() { _ = ds.ValueEqual(v, ds.NewIntVal(1), true); _ = ds.ValueEqual(ds.NewFloatVal(1), v, true) })
	guard("ToJSON", &bo, func() {
		text, err := v.ToJSON()
		if err == nil {
			if _, err2 := ds.VMValueFromJSON(text); err2 != nil {
				bo.Errs++
			}
		}
	})
	guard("AsDictKey", &bo, func() { _, _ = v.AsDictKey() })
	scripts := batteryScripts
	if !full {
		scripts = batteryScripts[:0]
		for k, s := range batteryScripts {
			if k%3 == 0 || k < 30 {
				scripts = append(scripts, s)
			}
		}
	}
	for _, cfgOn := range []bool{false, true} {
		if cfgOn && !full {
			break
		}
		for _, s := range scripts {
			s := s
			guard("script "+strconv.Quote(s), &bo, func() {
				vm := batVM(cfgOn)
				vm.Attrs.Store("x", fresh())
				if err := vm.Run(s); err != nil {
					bo.Errs++
					batVMDone(cfgOn)
					return
				}
				if vm.Ret != nil {
					_ = vm.Ret.ToString()
					_ = vm.Ret.ToRepr()
				}
				_ = vm.GetDetailText()
				_, _ = vm.Attrs.ToJSON()
				batVMDone(cfgOn)
			})
		}
	}
	return bo
}

type decIn struct {
	Id   int    `json:"id"`
	Kind string `json:"kind"` // value | map
	Doc  string `json:"doc"`  // hex of the document bytes
	Bat  int    `json:"bat"`  // 0 none, 1 reduced, 2 full
}

type decRow struct {
	Id   int     `json:"id"`
	Err  string  `json:"err,omitempty"`
	Pan  string  `json:"panic,omitempty"`
	Val  *d9     `json:"val,omitempty"`
	Bat  *batOut `json:"bat,omitempty"`
}

func decodeDoc(kind string, doc []byte) (v *ds.VMValue, m *ds.ValueMap, err error) {
	if kind == "map" {
		m = &ds.ValueMap{}
		err = json.Unmarshal(doc, m)
		return
	}
	v, err = ds.VMValueFromJSON(doc)
	return
}

func decodeOne(in decIn) (row decRow) {
	row.Id = in.Id
	doc, herr := hex.DecodeString(in.Doc)
	if herr != nil {
		row.Err = "harness: bad hex"
		return
	}
	defer func() {
		if r := recover(); r != nil {
			row.Pan = fmt.Sprint(r)
		}
	}()
	v, m, err := decodeDoc(in.Kind, doc)
	if err != nil {
		row.Err = err.Error()
		return
	}
	if in.Kind == "map" {
		row.Val = dumpMap9(m)
	} else {
		row.Val = dump9(v)
	}
	if in.Bat > 0 {
		if in.Kind == "map" {
			// every variable of the restored map is used by name
			bo := batOut{}
			names := []string{}
			m.Range(func(k string, _ *ds.VMValue) bool { names = append(names, k); return true })
			sort.Strings(names)
			guard("map.ToJSON", &bo, func() { _, _ = m.ToJSON() })
			for _, nm := range names {
				nm := nm
				sub := applyBattery(func() *ds.VMValue {
					_, m2, _ := decodeDoc("map", doc)
					x, _ := m2.Load(nm)
					return x
				}, in.Bat > 1)
				bo.N += sub.N
				bo.Errs += sub.Errs
				for _, p := range sub.Panics {
					bo.Panics = append(bo.Panics, "var "+strconv.Quote(nm)+" "+p)
				}
				guard("run var "+strconv.Quote(nm), &bo, func() {
					vm := newVM(vmCfg{OpLimit: 20000}, 1, 2, true)
					_, m2, _ := decodeDoc("map", doc)
					vm.Attrs = m2
					_ = vm.Run(nm)
					_ = vm.Run("loadRaw('" + strings.ReplaceAll(nm, "'", "") + "')")
				})
			}
			row.Bat = &bo
		} else {
			bo := applyBattery(func() *ds.VMValue {
				x, _, _ := decodeDoc("value", doc)
				return x
			}, in.Bat > 1)
			row.Bat = &bo
		}
	}
	return
}

// ---------------------------------------------------------------- transparency search
var transNames = []string{"v1", "v2", "v3", "m1", "m2", "g1", "g2", "h1", "w1", "w2"}

func genLit(r *rng, depth int, noShare bool) string {
	k := r.intn(9)
	if depth <= 0 && k >= 5 {
		k = r.intn(5)
	}
	switch k {
	case 0:
		return strconv.Itoa(r.intn(20))
	case 1:
		return pick(r, []string{"1.5", "0.25", "3.0", "100.125", "0.1"})
	case 2:
		return pick(r, []string{"'s'", "'abc'", "''", "'汉'", "'a b'"})
	case 3:
		return "null"
	case 4:
		if noShare {
			return pick(r, []string{"2d6", "d20", "(1+2)", "1d4+1", "3"})
		}
		return pick(r, []string{"2d6", "d20", "(1+2)", "v1", "v2", "m1", "w1", "1d4+1"})
	case 5, 6:
		n := r.intn(4)
		parts := []string{}
		for j := 0; j < n; j++ {
			parts = append(parts, genLit(r, depth-1, noShare))
		}
		return "[" + strings.Join(parts, ", ") + "]"
	default:
		n := r.intn(3)
		parts := []string{}
		for j := 0; j < n; j++ {
			parts = append(parts, "'"+pick(r, []string{"k", "x", "yy", "z1"})+"': "+genLit(r, depth-1, noShare))
		}
		return "{" + strings.Join(parts, ", ") + "}"
	}
}

func genStmt(r *rng, noShare bool) string {
	k := r.intn(16)
	if noShare && (k == 12 || k == 11) {
		k = 9
	}
	switch k {
	case 0, 1, 2:
		return pick(r, transNames[:5]) + " = " + genLit(r, 2, noShare)
	case 3:
		return "func " + pick(r, []string{"g1", "g2"}) + "(n) { return n + " + pick(r, []string{"1", "d6", "v1", "2d4", "this.k"}) + " }"
	case 4:
		if r.chance(1, 4) {
			return pick(r, []string{"func k1(n) { return n + 6a10 }", "func k2() { return [b2, p1] }", "&k3 = 5c8 + f", "func k4(n) { return n + 2a8k6 + b }", "&k5 = p2 + 3c9m10"})
		}
		if r.chance(1, 3) {
			// functions that call themselves / each other: a restored function is compiled on its first call, which may nest
			return pick(r, []string{
				"func r1(n) { if n < 2 { return n }; return r1(n-1) + r1(n-2) }",
				"func r2(n) { if n <= 0 { return 'landed' }; return r2(n-1) }",
				"func e1(n) { if n == 0 { return 1 }; return o1(n-1) }; func o1(n) { if n == 0 { return 0 }; return e1(n-1) }",
				"func r3(n) { if n <= 0 { return d6 }; return r3(n-1) + d4 }",
				"func r4(n) { &c4 = n + d2; if n <= 0 { return c4 }; return r4(n-1) + c4 }",
			})
		}
		return "func " + pick(r, []string{"g1", "g2", "h1"}) + "() { " + pick(r, []string{"return 2d6", "return [1,2,3].rand()", "v1 = 7; return v1", "return d20 + d20", "return [1,2,3,4].shuffle()", "if d2 == 1 { return 'one' }; return 'two'"}) + " }"
	case 5:
		return "&" + pick(r, []string{"w1", "w2"}) + " = " + pick(r, []string{"d6 + 1", "this.x + d4", "v1", "2d6k1", "[d4, d4]", "this.x"})
	case 6:
		return "&" + pick(r, []string{"w1", "w2"}) + ".x = " + genLit(r, 1, noShare)
	case 7:
		return pick(r, []string{"m1", "m2"}) + " = {'k': " + genLit(r, 1, noShare) + ", 'x': " + genLit(r, 1, noShare) + "}"
	case 8:
		return pick(r, []string{"m1", "m2"}) + "." + pick(r, []string{"k", "x", "q"}) + " = " + genLit(r, 1, noShare)
	case 9:
		return pick(r, []string{"v1", "v2", "v3"}) + " = [" + genLit(r, 1, noShare) + ", " + genLit(r, 1, noShare) + "]"
	case 10:
		return pick(r, []string{"v1", "v2", "v3"}) + "[0] = " + genLit(r, 1, noShare)
	case 11:
		return pick(r, []string{"v1", "v2"}) + ".push(" + genLit(r, 1, noShare) + ")"
	case 12:
		return "v3 = [v1, v1, m1]" // shared substructure
	case 13:
		if noShare {
			return "m2 = {'f': g1, 'l': [g2]}"
		}
		return "m2 = {'f': g1, 'c': &w1, 'l': [g2]}"
	case 14:
		return "v2 = g1(2)"
	default:
		if noShare {
			return "v3 = " + pick(r, []string{"1.5 * 2", "7 / 2.0", "2 ** 10", "v1 == v2", "toStr(v1)", "[1,2,3].sum()", "w1 + 0"})
		}
		return "v3 = " + pick(r, []string{"1.5 * 2", "7 / 2.0", "2 ** 10", "w1", "h1()", "v1 == v2", "toStr(v1)", "[1,2,3].sum()", "v1", "m1"})
	}
}

var followUps = []string{
	"v1", "v2", "v3", "m1", "m2", "w1", "w2", "g1", "g2", "h1", "g1(1)", "g2(3)", "h1()", "g1(1) + g1(2)", "w1 + w1", "&w1.x", "w1 + d6", "2d6 + g1(1)", "m2.f(1)", "m2.c", "m2.l[0]()", "m2.l[0](1)",
	"[v1, v2, v3]", "v1 == v2", "v3[0]", "m1.k", "m1.x", "m1.keys().len()", "v1.len()", "v1.sum()", "[1,2,3,4,5].shuffle()", "toStr(v1) + toStr(m1.k)", "repr(g1)", "repr(w1)", "loadRaw('w1')", "loadRaw('w1').x",
	"loadRaw('w2').compute()", "v1 = g1(5); v1", "m1.q = h1(); m1", "g1 = 5; g1", "func g1(n) { return n * 2 }; g1(4)", "&w1 = 3; w1", "w1.x", "h1() + h1()", "i = 0; s = 0; while i < 3 { s = s + g1(i); i = i + 1 }; s",
	"k1(100)", "k2()", "k3", "k4(1) + k3", "k5 + k5", "gold = 5; gold; gold + gold; [v1, v2, m1]", "zz9 = 1; zz9; zz9; zz9; [v1, v2, v3, m1, m2, zz9]", "qq = v1; qq; qq; g1(1)",
	"r1(10)", "r1(6) + r1(3)", "r2(3)", "e1(6)", "o1(5)", "r3(4)", "r4(3)", "r2(2) + toStr(e1(3))", "r1(5); r1(5)",
	"typeId(g1)", "typeId(w1)", "dir(v1).len()", "v1.push(g1); v1.len()", "v1.rand()", "d20", "`x{g1(1)}y{w1}`",
}

type transOut struct {
	Prog    []string `json:"prog"`
	Prefix  int      `json:"prefix"`
	Follow  string   `json:"follow,omitempty"`
	Stage   string   `json:"stage"` // snapshot | restore | structure | follow | ok
	Detail  string   `json:"detail,omitempty"`
	Orig    any      `json:"orig,omitempty"`
	Rest    any      `json:"rest,omitempty"`
	Snap    string   `json:"snap,omitempty"`
	Outside string   `json:"outside,omitempty"` // value outside the property's universe involved
	Hi      string   `json:"hi"`
	Lo      string   `json:"lo"`
	Shared  bool     `json:"shared,omitempty"` // the original variables alias a mutable payload (array / dict / computed) twice
}

type runObs struct {
	Class  string `json:"class"` // ok | err | panic
	Err    string `json:"err,omitempty"`
	Val    string `json:"val,omitempty"`
	Str    string `json:"str,omitempty"`
	Detail string `json:"detail,omitempty"`
	Match  string `json:"matched,omitempty"`
	RestIn string `json:"restinput,omitempty"`
	Vars   string `json:"vars,omitempty"`
	Seed   string `json:"seed,omitempty"`
	Ops    int64  `json:"ops"` // NumOpCount after the run: the work is accounted for alike on both VMs
}

func observe(vm *ds.Context, src string) (o runObs) {
	defer func() {
		if r := recover(); r != nil {
			o = runObs{Class: "panic", Err: fmt.Sprint(r)}
		}
	}()
	err := vm.Run(src)
	if err != nil {
		o.Class, o.Err = "err", err.Error()
	} else {
		o.Class = "ok"
		rd := dump9(vm.Ret)
		o.Val = dumpJSON(rd)
		o.Str = vm.Ret.ToString()
		o.Detail = vm.GetDetailText()
		o.Match, o.RestIn = vm.Matched, vm.RestInput
		// Go map iteration order shows in the text of dicts with 2+ entries (recorded finding, not C09's
		// business): such texts are not compared
		if multiDict(rd) {
			o.Str = "<dict order>"
		}
		if multiDict(rd) || multiDict(dumpMap9(vm.Attrs)) {
			o.Detail = "<dict order>"
		}
	}
	o.Vars = dumpJSON(dumpMap9(vm.Attrs))
	sd, _ := vm.GetCurSeed()
	o.Seed = hex.EncodeToString(sd)
	o.Ops = int64(vm.NumOpCount)
	return
}

// "outside the universe": native functions (incl. bound methods) are not among the values C09 quantifies over
func hasNative(d *d9) bool {
	if d == nil {
		return false
	}
	if d.T == int(ds.VMTypeNativeFunction) || d.T == int(ds.VMTypeNativeObject) {
		return true
	}
	for _, e := range d.L {
		if hasNative(e) {
			return true
		}
	}
	return false
}

func runQuiet(vm *ds.Context, src string) {
	defer func() { _ = recover() }()
	_ = vm.Run(src)
}

// snapshotAt: replay prog[:p] on a fresh VM, snapshot, restore, compare structure; then run the follow-ups
// on a replayed original and on the restored VM.  Returns false when no snapshot could be compared.
func snapshotAt(cfg vmCfg, hi, lo uint64, prog []string, p int, follow []string, report func(transOut)) (follows int) {
	base := transOut{Prog: prog, Prefix: p, Hi: u(hi), Lo: u(lo)}
	vm := newVM(cfg, hi, lo, true)
	for q := 0; q < p; q++ {
		runQuiet(vm, prog[q])
	}
	var text []byte
	var serr error
	pan := ""
	func() {
		defer func() {
			if x := recover(); x != nil {
				pan = fmt.Sprint(x)
			}
		}()
		text, serr = vm.Attrs.ToJSON()
	}()
	if pan != "" {
		base.Stage, base.Detail = "snapshot", "panic: "+pan
		report(base)
		return
	}
	origDump := dumpMap9(vm.Attrs)
	if serr != nil {
		// legitimate only for cycles / non-finite floats
		if !strings.Contains(dumpJSON(origDump), `"cyc":true`) && !hasNonFinite(origDump) {
			base.Stage, base.Detail = "snapshot", "error without cycle or non-finite float: "+serr.Error()
			report(base)
		}
		return
	}
	if strings.Contains(dumpJSON(origDump), `"cyc":true`) || hasNonFinite(origDump) {
		base.Stage, base.Detail, base.Snap = "snapshot", "a cycle / non-finite float was serialised without error", string(text)
		report(base)
		return
	}
	base.Snap = string(text)
	base.Shared = hasSharing(vm.Attrs)
	seedBytes, _ := vm.GetCurSeed()
	restored := &ds.ValueMap{}
	if rerr := json.Unmarshal(text, restored); rerr != nil {
		base.Stage, base.Detail = "restore", rerr.Error()
		if hasNative(origDump) {
			base.Outside = "native function value in the variables"
		}
		report(base)
		return
	}
	rd := dumpMap9(restored)
	if dumpJSON(rd) != dumpJSON(origDump) {
		base.Stage, base.Orig, base.Rest = "structure", origDump, rd
		report(base)
		return
	}
	for _, fu := range follow {
		a := newVM(cfg, hi, lo, true)
		for q := 0; q < p; q++ {
			runQuiet(a, prog[q])
		}
		// the original side is a replay of the prefix: if the replay itself is not deterministic (text of a
		// multi-entry dict stored by toStr / template: Go map order, recorded finding KF-C06-map-order) the case
		// says nothing about restore
		aSeed, _ := a.GetCurSeed()
		if dumpJSON(dumpMap9(a.Attrs)) != dumpJSON(origDump) || string(aSeed) != string(seedBytes) {
			t := base
			t.Stage, t.Follow = "nondeterministic-replay", fu
			report(t)
			continue
		}
		usedTarget := len(fu)%2 == 1
		mkB := func() *ds.Context {
			b := newVM(cfg, 0, 0, true)
			if usedTarget {
				// the receiving VM was used before (a pooled VM): restoring replaces its variables all the same
				runQuiet(b, "hp9 = 1; round9 = 7; v1 = 'old'")
				runQuiet(b, "hp9 + round9")
				_ = json.Unmarshal(text, b.Attrs)
			} else {
				b.Attrs = &ds.ValueMap{}
				_ = json.Unmarshal(text, b.Attrs)
			}
			_ = b.RandSrc.UnmarshalBinary(seedBytes)
			return b
		}
		b := mkB()
		oa, ob := observe(a, fu), observe(b, fu)
		follows++
		// the operation counter: a body compiled on first use (restored functions / computed values) executes one more instruction
		// (its `halt`) than the pre-compiled body of the original — at most one per body; anything else is a difference in accounting
		opsA, opsB := oa.Ops, ob.Ops
		oa.Ops, ob.Ops = 0, 0
		if oa == ob && (opsB < opsA || opsB > opsA+16) {
			oa.Ops, ob.Ops = opsA, opsB
		}
		if oa != ob {
			// is the follow-up deterministic at all?  (text of a multi-entry dict: Go map order, KF-C06-map-order.)  Repeat both
			// sides from scratch: a side that shows two different observations, or observations shared between the sides, says
			// nothing about restore
			seenA, seenB := map[any]bool{oa: true}, map[any]bool{ob: true}
			for rep := 0; rep < 12 && len(seenA) == 1 && len(seenB) == 1; rep++ {
				a2 := newVM(cfg, hi, lo, true)
				for q := 0; q < p; q++ {
					runQuiet(a2, prog[q])
				}
				b2 := mkB()
				x2, y2 := observe(a2, fu), observe(b2, fu)
				x2.Ops, y2.Ops = oa.Ops, ob.Ops
				seenA[x2] = true
				seenB[y2] = true
			}
			if len(seenA) > 1 || len(seenB) > 1 {
				t := base
				t.Stage, t.Follow = "nondeterministic-follow", fu
				report(t)
				continue
			}
			t := base
			t.Stage, t.Follow, t.Orig, t.Rest = "follow", fu, oa, ob
			if usedTarget {
				t.Detail = "restored into a VM that was used before: hp9 = 1; round9 = 7; v1 = 'old'; hp9 + round9"
			}
			if hasNative(origDump) {
				t.Outside = "native function value in the variables"
			}
			report(t)
		}
	}
	return
}

func transCase(r *rng, cfg vmCfg, nStmts int, report func(transOut)) (snaps, follows int) {
	noShare := r.chance(1, 2)
	prog := []string{}
	for j := 0; j < nStmts; j++ {
		prog = append(prog, genStmt(r, noShare))
	}
	// definitions whose meaning depends on the VM's configuration (dice dialects) or that recurse: always one of them,
	// used by a follow-up at the final snapshot
	special := [][2]string{{"func k1(n) { return n + 6a10 }", "k1(100)"}, {"func k2() { return [b2, p1] }", "k2()"}, {"&k3 = 5c8 + f", "k3 + k3"},
		{"func k4(n) { return n + 2a8k6 + b }", "k4(1)"}, {"&k5 = p2 + 3c9m10", "k5"},
		{"func r1(n) { if n < 2 { return n }; return r1(n-1) + r1(n-2) }", "r1(9)"},
		{"func e1(n) { if n == 0 { return 1 }; return o1(n-1) }; func o1(n) { if n == 0 { return 0 }; return e1(n-1) }", "e1(6)"}}
	sp := pick(r, special)
	at := r.intn(len(prog) + 1)
	prog = append(prog[:at], append([]string{sp[0]}, prog[at:]...)...)
	hi, lo := r.u64(), r.u64()
	deep := map[int]bool{r.intn(len(prog) + 1): true, len(prog): true}
	for p := 0; p <= len(prog); p++ {
		var fus []string
		if p == len(prog) {
			fus = append(fus, sp[1], "zz9 = 1; zz9; zz9; zz9; "+sp[1])
		}
		if deep[p] {
			for k := 0; k < 6; k++ {
				fu := pick(r, followUps)
				if r.chance(1, 5) {
					fu = genStmt(r, noShare) + "; " + pick(r, followUps)
				}
				fus = append(fus, fu)
			}
		}
		snaps++
		follows += snapshotAt(cfg, hi, lo, prog, p, fus, report)
	}
	return
}

// hasSharing: some mutable payload is reachable along two different paths (aliasing)
func hasSharing(m *ds.ValueMap) bool {
	seen := map[any]int{}
	var walkMap func(m *ds.ValueMap, depth int)
	var walk func(v *ds.VMValue, depth int)
	walk = func(v *ds.VMValue, depth int) {
		if v == nil || depth > 60 {
			return
		}
		switch v.TypeId {
		case ds.VMTypeArray:
			a, ok := v.Value.(*ds.ArrayData)
			if !ok || a == nil {
				return
			}
			seen[a]++
			if seen[a] > 1 {
				return
			}
			for _, e := range a.List {
				walk(e, depth+1)
			}
		case ds.VMTypeDict:
			dd, ok := v.Value.(*ds.DictData)
			if !ok || dd == nil || dd.Dict == nil {
				return
			}
			seen[dd.Dict]++
			if seen[dd.Dict] > 1 {
				return
			}
			walkMap(dd.Dict, depth+1)
		case ds.VMTypeComputedValue:
			c, ok := v.Value.(*ds.ComputedData)
			if !ok || c == nil {
				return
			}
			seen[c]++
			if seen[c] > 1 {
				return
			}
			if c.Attrs != nil {
				walkMap(c.Attrs, depth+1)
			}
		}
	}
	walkMap = func(m *ds.ValueMap, depth int) {
		m.Range(func(_ string, v *ds.VMValue) bool {
			walk(v, depth)
			return true
		})
	}
	walkMap(m, 0)
	for _, n := range seen {
		if n > 1 {
			return true
		}
	}
	return false
}

func multiDict(d *d9) bool {
	if d == nil {
		return false
	}
	if (d.T == int(ds.VMTypeDict) || d.T == int(ds.VMTypeComputedValue)) && len(d.K) >= 2 {
		return true
	}
	for _, e := range d.L {
		if multiDict(e) {
			return true
		}
	}
	return false
}

func hasNonFinite(d *d9) bool {
	if d == nil {
		return false
	}
	if d.T == int(ds.VMTypeFloat) && d.F != "" {
		b, _ := strconv.ParseUint(d.F, 10, 64)
		if (b>>52)&0x7ff == 0x7ff {
			return true
		}
	}
	for _, e := range d.L {
		if hasNonFinite(e) {
			return true
		}
	}
	return false
}

// ---------------------------------------------------------------- commands
func init() {
	cmds["c09-enc"] = func(args []string) {
		fs, seed, n := stdFlags("c09-enc")
		cycIdx := fs.Int("cyc", -1, "serialise only the k-th cyclic battery value")
		_ = fs.Parse(args)
		safe, cyc := fixedBattery()
		if *cycIdx >= 0 {
			if *cycIdx < len(cyc) {
				emit(map[string]any{"start": *cycIdx})
				out.Flush()
				emit(encodeOne(cyc[*cycIdx]))
			}
			return
		}
		for _, v := range safe {
			emit(encodeOne(v))
		}
		r := newRng(*seed)
		for k := 0; k < *n; k++ {
			pool := []*ds.VMValue{}
			if k%5 == 4 {
				m := &ds.ValueMap{}
				cnt := r.intn(4)
				for j := 0; j < cnt; j++ {
					m.Store(pick(r, strPool), randValue(r, 2, &pool))
				}
				emit(encodeMap(m))
			} else {
				emit(encodeOne(randValue(r, 3, &pool)))
			}
		}
	}

	cmds["c09-dec"] = func(args []string) {
		sc := bufio.NewScanner(os.Stdin)
		sc.Buffer(make([]byte, 1<<20), 1<<26)
		for sc.Scan() {
			var in decIn
			if err := json.Unmarshal(sc.Bytes(), &in); err != nil {
				continue
			}
			emit(decodeOne(in))
		}
	}

	cmds["c09-natives"] = func(args []string) {
		sc := bufio.NewScanner(os.Stdin)
		for sc.Scan() {
			name := sc.Text()
			doc, _ := json.Marshal(map[string]any{"t": int(ds.VMTypeNativeFunction), "v": map[string]string{"name": name}})
			v, err := ds.VMValueFromJSON(doc)
			row := map[string]any{"name": name, "accepted": err == nil}
			if err == nil {
				row["val"] = dump9(v)
				vm := ds.NewVM()
				if e2 := vm.Run(name); e2 == nil && vm.Ret != nil {
					row["script"] = dump9(vm.Ret)
				}
			}
			emit(row)
		}
		emit(map[string]any{"tags": map[string]int{"int": int(ds.VMTypeInt), "float": int(ds.VMTypeFloat), "str": int(ds.VMTypeString), "null": int(ds.VMTypeNull),
			"computed": int(ds.VMTypeComputedValue), "array": int(ds.VMTypeArray), "dict": int(ds.VMTypeDict), "func": int(ds.VMTypeFunction),
			"native": int(ds.VMTypeNativeFunction), "nobj": int(ds.VMTypeNativeObject)}})
	}

	cmds["c09-script"] = func(args []string) {
		sc := bufio.NewScanner(os.Stdin)
		sc.Buffer(make([]byte, 1<<20), 1<<26)
		for sc.Scan() {
			src, _ := hex.DecodeString(sc.Text())
			vm := newVM(vmCfg{OpLimit: 100000}, 1, 2, true)
			row := map[string]any{"src": sc.Text()}
			func() {
				defer func() {
					if r := recover(); r != nil {
						row["panic"] = fmt.Sprint(r)
					}
				}()
				if err := vm.Run(string(src)); err != nil {
					row["err"] = err.Error()
					return
				}
				row["val"] = dump9(vm.Ret)
				text, err := vm.Ret.ToJSON()
				if err != nil {
					row["jsonerr"] = err.Error()
				} else {
					row["json"] = hex.EncodeToString(text)
					back, e2 := ds.VMValueFromJSON(text)
					if e2 != nil {
						row["rterr"] = e2.Error()
					} else {
						row["rtsame"] = dumpJSON(dump9(back)) == dumpJSON(dump9(vm.Ret))
					}
				}
				mt, merr := vm.Attrs.ToJSON()
				if merr != nil {
					row["mapjsonerr"] = merr.Error()
				} else {
					m2 := &ds.ValueMap{}
					if e3 := json.Unmarshal(mt, m2); e3 != nil {
						row["maprterr"] = e3.Error()
					} else {
						row["maprtsame"] = dumpJSON(dumpMap9(m2)) == dumpJSON(dumpMap9(vm.Attrs))
					}
				}
			}()
			emit(row)
		}
	}

	// one cycle script per process: a fatal stack overflow cannot be recovered
	cmds["c09-cyc"] = func(args []string) {
		fs, _, _ := stdFlags("c09-cyc")
		src := fs.String("src", "", "script (hex)")
		repair := fs.String("repair", "", "script (hex) run after the first snapshot attempt; the value must then snapshot and restore")
		_ = fs.Parse(args)
		b, _ := hex.DecodeString(*src)
		vm := newVM(vmCfg{OpLimit: 100000}, 1, 2, true)
		row := map[string]any{"src": string(b)}
		if err := vm.Run(string(b)); err != nil {
			row["runerr"] = err.Error()
			emit(row)
			return
		}
		d := dumpMap9(vm.Attrs)
		row["cyclic"] = strings.Contains(dumpJSON(d), `"cyc":true`)
		out.Flush()
		_, err := vm.Attrs.ToJSON()
		if err != nil {
			row["maperr"] = err.Error()
		} else {
			row["mapok"] = true
		}
		if vm.Ret != nil {
			_, err2 := vm.Ret.ToJSON()
			if err2 != nil {
				row["valerr"] = err2.Error()
			} else {
				row["valok"] = true
			}
			_ = vm.Ret.ToString()
		}
		// a failed snapshot leaves nothing behind: the script repairs the value in place, the next snapshot of the same
		// variables succeeds and restores to equal values (repeated: a pooled helper may or may not be handed out again)
		if rb, _ := hex.DecodeString(*repair); len(rb) > 0 {
			rerr := vm.Run(string(rb))
			row["repair_runerr"] = rerr != nil
			bad := ""
			for k := 0; k < 24 && bad == ""; k++ {
				js, e := vm.Attrs.ToJSON()
				if e != nil {
					bad = "snapshot after the repair failed: " + e.Error()
					break
				}
				m := &ds.ValueMap{}
				if e := json.Unmarshal(js, m); e != nil {
					bad = "restore after the repair failed: " + e.Error()
					break
				}
				vm.Attrs.Range(func(key string, v *ds.VMValue) bool {
					w, ok := m.Load(key)
					if !ok || !ds.ValueEqual(v, w, false) {
						bad = "restored variable differs: " + key
						return false
					}
					return true
				})
				// and a failing snapshot of ANOTHER cyclic value in between must not poison the next round either
				other := ds.NewArrayVal(ds.NewIntVal(1))
				oa, _ := other.ReadArray()
				oa.List = append(oa.List, other)
				om := &ds.ValueMap{}
				om.Store("o", other)
				_, _ = om.ToJSON()
			}
			row["repair_bad"] = bad
		}
		emit(row)
	}

	cmds["c09-replay"] = func(args []string) {
		sc := bufio.NewScanner(os.Stdin)
		sc.Buffer(make([]byte, 1<<20), 1<<26)
		for sc.Scan() {
			var in transOut
			if err := json.Unmarshal(sc.Bytes(), &in); err != nil {
				continue
			}
			hi, _ := strconv.ParseUint(in.Hi, 10, 64)
			lo, _ := strconv.ParseUint(in.Lo, 10, 64)
			n := 0
			var fus []string
			if in.Follow != "" {
				fus = []string{in.Follow}
			}
			snapshotAt(vmCfg{OpLimit: 50000}, hi, lo, in.Prog, in.Prefix, fus, func(t transOut) { n++; emit(t) })
			emit(map[string]any{"summary": true, "reports": n})
		}
	}

	cmds["c09-trans"] = func(args []string) {
		fs, seed, n := stdFlags("c09-trans")
		_ = fs.Parse(args)
		r := newRng(*seed)
		snaps, follows, reports := 0, 0, 0
		byStage := map[string]int{}
		for k := 0; k < *n; k++ {
			cfg := vmCfg{OpLimit: 50000}
			if r.chance(1, 2) {
				// the dice dialects are part of the VM's configuration: functions / computed values that use them must mean the same
				// after a restore into a VM configured the same way
				cfg.WoD, cfg.CoC, cfg.Fate, cfg.DC = true, true, true, true
			}
			s, f := transCase(r, cfg, 3+r.intn(6), func(t transOut) {
				byStage[t.Stage]++
				if t.Stage == "nondeterministic-replay" || t.Stage == "nondeterministic-follow" {
					if byStage[t.Stage] <= 5 {
						emit(t)
					}
					return
				}
				reports++
				if reports <= 60 {
					emit(t)
				}
			})
			snaps += s
			follows += f
		}
		emit(map[string]any{"summary": true, "programs": *n, "snapshots": snaps, "followups": follows, "reports": reports, "by_stage": byStage})
	}
}
