"""K2 — correspondence of the byte-code VM model (coq/Model/VM.v) with the real VM, on byte-code produced by the real parser.
Internal check (not a registered property): `./check K2 [--tier thorough]`."""
import copy
import json
import os
import random
import re

import common
import gen
import k2cases
import pegcases
from common import Broken

LEVEL = "translation_validation"

NAMES = ["x", "y", "z", "v1", "val", "arr", "m", "力量", "_t", "hp", "n"]


# ---------------------------------------------------------------- targeted generators (one per opcode family)
def g_arith(r):
    n = lambda: str(r.choice([0, 1, 2, 3, 7, 10, -1, 512, 513, 9223372036854775807, 4611686018427387904, 3037000500, 65536]))
    ops = ["+", "-", "*", "/", "%", "^", "**", "&", "|", "<", "<=", "==", "!=", ">=", ">", "??", "&&", "||"]
    a = lambda: r.choice([n(), "(" + n() + ")", "(0-" + n() + ")", "'s'", "null", "[1]", "x", "-" + n().lstrip("-"), "+" + n().lstrip("-")])
    e = a()
    for _ in range(r.randrange(1, 4)):
        e = e + " " + r.choice(ops) + " " + a()
    return r.choice(["", "x = " + n() + "; "]) + e


def g_control(r):
    c = lambda: r.choice(["0", "1", "x", "x < 3", "''", "'a'", "null", "[]", "[0]", "{}", "x == 2"])
    v = lambda: r.choice(["1", "2", "x", "'s'", "x + 1", "y"])
    k = r.randrange(8)
    if k == 0:
        return f"x = {r.randrange(4)}; if {c()} {{ y = {v()} }} else if {c()} {{ y = {v()}; z = 1 }} else {{ y = 3 }}; y"
    if k == 1:
        return f"x = 0; y = 0; while x < {r.randrange(1, 6)} {{ x = x + 1; if x == 2 {{ continue }}; if x == 4 {{ break }}; y = y + x }}; y"
    if k == 2:
        return f"x = {r.randrange(3)}; {c()} ? {v()} : {v()}"
    if k == 3:
        return f"x = {r.randrange(3)}; {c()} ? {v()}, {c()} ? {v()}, 1 ? {v()}"
    if k == 4:
        return f"x = {r.randrange(3)}; {c()} || {c()} || {v()}"
    if k == 5:
        return f"x = {r.randrange(3)}; ({c()}) && ({v()})"
    if k == 6:
        return f"x = 0; while x < {r.choice([3, 50, 400, 1200])} {{ x = x + 1 }}; x"
    depth = r.choice([2, 5, 19, 20, 21])
    return "x = 1; " + "if x { " * depth + "x = x + 1" + " }" * depth + "; x"


def g_template(r):
    parts = []
    for _ in range(r.randrange(0, 5)):
        parts.append(r.choice(["ab", " ", "力", "x=", "{x}", "{1+2}", "{'s'}", "{[1,2]}", "{% x = 3; x %}", "{% if x {1} %}", "{null}", "{y}",
                               "{`in{x}`}", "{% %}", "{x ? 'a' : 'b'}", "{{'k':1}}"]))
    depth = r.choice([0, 0, 0, 3, 20, 21])
    t = "`" + "".join(parts) + "`"
    for _ in range(depth):
        t = "`a{" + t + "}`"
    return r.choice(["", "x = 2; ", "x = 'q'; y = [x]; "]) + t


def g_container(r):
    pre = r.choice(["x = [1,2,3]; ", "x = []; ", "x = [[1],[2,[3]]]; ", "x = {'a':1}; ", "x = {}; ", "x = 'a力b量c'; ", "x = [1,'s',null]; y = x; ",
                    "x = {'a':{'b':2}}; ", "x = [3,1,2]; y = [x, x]; "])
    i = lambda: r.choice(["0", "1", "2", "3", "-1", "-3", "-4", "5", "'a'", "'b'", "null", "x", "1+1"])
    k = r.randrange(14)
    if k == 0:
        e = f"x[{i()}]"
    elif k == 1:
        e = f"x[{i()}] = {r.choice(['9', 'x', 's', '[7]'])}; x"
    elif k == 2:
        e = f"x[{r.choice(['', i()])}:{r.choice(['', i()])}]"
    elif k == 3:
        e = f"x[{r.choice(['', i()])}:{r.choice(['', i()])}] = {r.choice(['[7,8]', '[]', 'x', '5', 'y'])}; x"
    elif k == 4:
        e = f"x.{r.choice(['a', 'b', 'len', 'keys', 'zz', 'kh', 'sum'])}"
    elif k == 5:
        e = f"x.{r.choice(['a', 'b', 'c'])} = {r.choice(['5', 'x', '[1]'])}; x"
    elif k == 6:
        e = f"x + {r.choice(['x', '[4]', '1', 's', 'y'])}"
    elif k == 7:
        e = f"x * {r.choice(['2', '0', '3', '600', '(0-1)', 'x', '513'])}"
    elif k == 8:
        e = f"{r.choice(['2', '0', '600'])} * x"
    elif k == 9:
        e = f"[{r.choice(['1', '0', '5', '(0-3)', '600', 'x'])}..{r.choice(['1', '0', '5', '(0-3)', '520', '3'])}]"
    elif k == 10:
        e = f"x == {r.choice(['x', '[1,2,3]', '[]', '{}', 'y', '1'])}"
    elif k == 11:
        e = "{" + ", ".join(f"{r.choice(['1', 'a', 'x', '2', 'k'])}: {r.randrange(5)}" for _ in range(r.randrange(0, 3))) + "}"
        e = e.replace("a:", "'a':").replace("k:", "'k':")
    elif k == 12:
        e = f"y = x; y[0] = 100; [x, y, x == y]"
    else:
        e = f"x.__proto__ = {{'p': 7, 'len': 1}}; [x.p, x.len, x.q]"
    return pre + e


def g_method(r):
    pre = r.choice(["x = [3,1,2]; ", "x = []; ", "x = [1,[2],'s',5]; ", "x = {'a':1}; ", "x = {}; ", "x = [4,4,1,9]; "])
    m = r.choice(["kh()", "kl()", "kh(2)", "kl(3)", "kh(0)", "kl(0-1)", "kh('a')", "sum()", "len()", "shuffle()", "rand()", "randSize(2)", "randSize(9)",
                  "randSize(0)", "randSize('a')", "pop()", "shift()", "push(5)", "push(x)", "keys()", "values()", "items()", "len(1)", "zz()", "kh(1,2)"])
    tail = r.choice(["", "; x", "; x.len()"])
    if r.random() < 0.2:
        return pre + "[1,5,3]" + r.choice(["kh", "kl", "kh2", "kl2", "kh0"]) + tail
    return pre + "x." + m + tail


def g_builtin(r):
    a = lambda: r.choice(["1", "0-5", "'12'", "'-7'", "'+3'", "'1x'", "''", "'9223372036854775808'", "null", "[1,2]", "{'a':1}", "{}", "x", "&x", "g",
                          "'x'", "[[1],'s']", "toStr", "this", "[1].len", "9223372036854775807 + 1"])
    f = r.choice(["ceil", "floor", "round", "abs", "toInt", "toStr", "toBool", "repr", "load", "loadRaw", "store", "dir", "typeId", "toFloat", "nosuch"])
    n = r.choice([1, 1, 1, 1, 0, 2])
    if f == "store":
        n = r.choice([2, 2, 2, 1])
    pre = r.choice(["", "x = 3; ", "&x = 1 + 1; ", "func g() { 1 }; ", "x = [1]; x[0] = x; "])
    return pre + f + "(" + ", ".join(a() for _ in range(n)) + ")" + r.choice(["", "; x", "; y"])


def g_func(r):
    k = r.randrange(10)
    if k == 0:
        return f"func g(u, w) {{ return u * w }}; g({r.randrange(5)}, {r.randrange(5)}" + r.choice([")", ", 1)", ")"])
    if k == 1:
        return f"func fib(n) {{ if n < 2 {{ return n }}; return fib(n-1) + fib(n-2) }}; fib({r.randrange(0, 9)})"
    if k == 2:
        return "x = 10; func g() { x }; func h() { x = 20; g() }; [g(), h(), x]"
    if k == 3:
        return "func g(u) { u[0] = 9; u = 1 }; x = [1]; g(x); x"
    if k == 4:
        return "func g() { this.q = 5; this.q + 1 }; [g(), this.q]"
    if k == 5:
        return "func g() { i = 0; while 1 { i = i + 1; if i > 3 { return i } } }; g()"
    if k == 6:
        return f"func g(u) {{ return g(u + 1) }}; g(0)"
    if k == 7:
        return "func g() { 1; 2 }; func h() { }; [g(), h()]"
    if k == 8:
        return f"func g(u) {{ {r.choice(['d6', '2d4', 'u d 6', 'b', 'f', '`{u}`'])} }}; g(3)"
    return "x = 5; x(1)" + r.choice(["", "; 2"])


def g_computed(r):
    k = r.randrange(10)
    if k == 0:
        return "&x = 1 + 2; [x, x * 2]"
    if k == 1:
        return "y = 2; &x = y * 10; y = 3; x"
    if k == 2:
        return "&x = this.v + 1; &x.v = 4; [x, &x.v, &x]"
    if k == 3:
        return "&x = d1 + d1; x"
    if k == 4:
        return "&x = y; func g() { y = 7; x }; [g(), x]"
    if k == 5:
        return "&x = x + 1; x"
    if k == 6:
        return "&x = (v = 3); x; &x.v"
    if k == 7:
        return "&x = null; func g() { x }; x = 5; g()"
    if k == 8:
        return "&x = 1; y = &x; [y, typeId(&x), toStr(&x), loadRaw('x'), load('x')]"
    return "&x = 2d1; func g() { x + x }; g()"


def g_dice(r):
    n = lambda: str(r.choice([1, 2, 3, 4, 6, 10, 20, 100, 0]))
    k = r.randrange(14)
    if k < 4:
        t = r.choice(["", n()]) + "d" + r.choice([n(), "(0-1)", "'a'", "(2)"])
        if r.random() < 0.5:
            t += r.choice(["k", "q", "kh", "kl", "dh", "dl"]) + r.choice(["", "1", "2", "0", "(0-1)", "('a')"])
        if r.random() < 0.3:
            t += r.choice(["min", "max"]) + r.choice([n(), "('a')"])
        return t
    if k == 4:
        return r.choice(["d", "2d", "d优势", "d劣势", "3dk2", "D优势 + 1"])
    if k == 5:
        return r.choice(["b", "p", "b2", "p3", "b(0-1)", "p('a')", "b0", "b(x)"])
    if k == 6:
        return "f + f"
    if k == 7:
        return n() + "a" + r.choice(["8", "9", "10", "11", "1", "0", "('a')"]) + r.choice(["", "m10", "k8", "q3", "m6k5", "m0", "k0", "m('a')"])
    if k == 8:
        return n() + "c" + r.choice(["8", "9", "10", "11", "1", "('a')"]) + r.choice(["", "m10", "m20", "m0"])
    if k == 9:
        return "(" + n() + "d" + n() + ")d" + n()
    if k == 10:
        return n() + "d" + n() + "d" + n()
    if k == 11:
        return f"('a')d6"
    if k == 12:
        return r.choice(["20001a10", "20001c10", "x a 10", "0a8"])
    return "x = 3; (x)d(x+3)k2 + 1d1"


def g_st(r):
    return gen.st_input(r).replace("1.5", "15")


def g_st2(r):
    return r.choice(["^st力量60 敏捷70", "^st力量+1d1", "^st力量-3", "^st力量-='a'", "^st力量-'a'", "^st&力量=1d1", "^st力量*2:50", "^st'hp 2'=5",
                     "^st力量+=2 敏捷-=1", "^st力量 - (1+2)", "^sthp[1]:3", "^st力量:[1,2]", "^st力量-[1]", "^st力量-null",
                     "^st力量-1&&'a'", "^st力量-1>0?'a':'b'", "^st力量-0||'x'", "^st力量-1 ?? 2", "^st力量-1-1", "^st力量+'a'", "^sthp-1&&[1] 敏捷+1"])


# fixed regression corpus: edge cases of the model and the inputs on which the real code panics today (model must panic too)
EDGE = [
    "func g() { d }; g()", "func g() { 2d }; g()", "&x = 2d; x", "&x = d优势; x", "&x = 3dk2; x + x", "d + 2d", "x = 3; (x)d",
    b"x = '\xff\xe5\x8aab\xe5\x8a\x9b'; [x[0], x[1], x[0:2], x[-1], x[2:], x[:-1]]", "x = 'a力b量c'; [x[1], x[-2], x[1:4], x[3:1], x[-9:9]]",
    "x = 'abc'; x[3]", "x = 'abc'; x[-4]", "x = ''; x[0]", "x = 'abc'; x['a']", "x = 5; x[0]", "x = null; x[0:1]", "x = {'a':1}; x[0:1]",
    "x = [1]; toStr([x, x])", "x = [1]; x[0] = x; toStr(x)", "x = {'a':[1]}; toStr(x)", "x = {'a':1}; x.a = x; toStr(x)", "x = {}; [toStr(x), repr('s'), toStr('s')]",
    "x = [1]; x[0] = x; x == x", "x = [1,[2]]; y = [1,[2]]; [x == y, x != y, x == [1,[3]], {'a':1} == {'a':1}, {'a':1} == {'b':1}, {'a':1} == {'a':1,'b':2}]",
    "func g() { 1 }; func h() { 1 }; [g == g, g == h, toStr == toStr, toStr == repr, [1].len == [2].len, this == this, null == null, &x == &y]",
    "&x = 1; &y = 1; &z = 2; [&x == &y, &x == &z, toBool(&x)]", "x = 5; x(1); 2", "x = 5; x(1)", "[1,2](3)", "null()",
    "[0..(0-9223372036854775807-1)]", "[(0-2)..9223372036854775807]", "[9223372036854775807..(0-9223372036854775807-1)]", "[1..512]", "[1..513]", "[512..1]",
    "[1 ? 2, 3]", "[0 ? 2, 3]", "[1 ? 2, 3 ? 4, 5]", "^st力量-1&&'a'", "^st力量-1>0?'a':'b'",
    "9223372036854775807 + 1", "(0-9223372036854775807-1) / (0-1)", "(0-9223372036854775807-1) % (0-1)", "0 - (0-9223372036854775807-1)", "-(0-9223372036854775807-1)",
    "abs(0-9223372036854775807-1)", "3037000500 * 3037000500", "7 / (0-2)", "(0-7) / 2", "(0-7) % 3", "7 % (0-3)", "(0-5) & 3", "(0-5) | 3", "2 ^ 53", "2 ^ 52 + 0", "(0-2) ^ 3", "(0-1) ^ 5", "1 ^ (0-5)", "2 ^ (0-1)",
    "x = [1,2,3]; x * 171", "x = [1,2,3]; x * 170", "x = []; x * 99999999999", "x = [1]; x * 9223372036854775807", "x = [1,2]; y = x + x; y[0] = 9; [x, y]",
    "x = [1,2,3,4]; x[1:3] = x; x", "x = [1,2,3,4]; x[3:1] = [9]; x", "x = [1,2,3]; x[:] = []; x", "x = [1]; x.push(x); x.len()", "x = [3,1,2]; x.pop(); x.shift(); x.push(7); x",
    "x = [1,2,3]; y = x.shuffle(); [x == y, x.len()]", "x = [1,2,3,4,5]; [x.rand(), x.randSize(3), x]", "[].rand()", "[1,2].randSize(3)", "[1,2].randSize(0-1)", "[5,'a',null,[1],7].sum()",
    "[9007199254740992, 1].sum()", "[9007199254740993].kh()", "{'a':1}.keys()", "{'a':1}.items()", "{}.values()", "{'a':1,'b':2}.len()", "x = {'len':5}; [x.len, x.keys]",
    "x = {'__proto__':{'v':1,'__proto__':{'u':2}}}; [x.v, x.u, x.t]", "x = {}; x.__proto__ = 5; x.y", "dir(&x)", "dir(1)", "dir('s')", "&x = 1; x.compute", "&x = 1; &x.compute",
    "toInt('  1')", "toInt('1_0')", "toInt('-')", "toInt('+')", "toInt('007')", "toInt('-9223372036854775808')", "toInt('9223372036854775808')", "toInt(null)", "toStr()", "toStr(1,2)", "store('q', 5); q", "store(5, 5)",
    "load('x')", "x = 7; load('x')", "&x = 8; [load('x'), loadRaw('x')]", "load(5)", "typeId(this)", "typeId(toStr)", "typeId([1].len)", "toStr(this)", "repr(this)", "toBool(this)", "this.x", "this.x = 3; this.x + x",
    "x = 1; this", "`{this}`", "`{% 1; 2 %}`", "`{% %}x`", "`a{}`", "x = 1; `{x}{x}{% x = 2 %}{x}`", "if 1 { 5 }", "if 0 { 5 }", "x = 0; if x { 1 } else if 1 { 2 }; x",
    "i = 0; while i < 5 { i = i + 1; if i == 2 { continue }; if i == 4 { break } }; i", "i = 0; while i < 400 { i = i + 1 }; i", "i = 0; while i < 1200 { i = i + 1 }; i",
    "func g(u, u) { u }; g(1, 2)", "func g(u) { u }; g()", "func g() { return; 5 }; g()", "func g() { g }; g()()", "func g(u) { if u < 1 { return 0 }; return u + g(u - 1) }; g(20)",
    "func g() { x = 1 }; g(); x", "x = 1; func g() { x = x + 1; x }; [g(), x]", "func g() { this.v = 1; h() }; func h() { v }; g()", "func g() { &t = 5; t }; g()",
    "&x = y + 1; func g() { y = 10; x }; func h() { y = 20; g() }; y = 1; [x, g(), h()]", "&x = (n = n + 1); n = 0; x; x; &x.n",
    "&x = this.n + 1; &x.n = 5; x", "&x = null; y = 3; func g() { x ?? y }; g()",
    "2d6k1", "2d6kh3", "4d6kl2", "4d6dh1", "4d6dl1", "4d6dl9", "3d6min5", "3d6max2", "(0)d6", "2d(0)", "2d6k(0)", "1d1d1d1", "b0", "p0", "b3", "p2", "3a10", "3a10m6", "3a8k5", "3a8q3", "1a2", "1a1", "0a5", "3c8", "3c8m6", "1c1", "f",
]
# need a budget (without one the real code rolls for minutes)
EDGE_BUDGET = ["9999999d1", "9223372036854775807d1", "b9223372036854775807", "&x = x; x", "&x = x + 1; x", "func g(u) { return g(u + 1) }; g(0)"]

FAMILIES = [("arith", g_arith), ("control", g_control), ("template", g_template), ("container", g_container), ("method", g_method),
            ("builtin", g_builtin), ("func", g_func), ("computed", g_computed), ("dice", g_dice), ("st", g_st), ("st2", g_st2)]


def rand_cfg(r, inp):
    if r.random() < 0.25:
        inp["div0"] = True
    if r.random() < 0.3:
        inp["mode"] = r.choice([-1, 1])
    if r.random() < 0.03:
        inp["bothmm"] = True
    if r.random() < 0.3:
        inp["oplimit"] = r.choice([1, 3, 5, 10, 20, 50, 100, 101, 110, 205, 1000, 30000])
    if inp["mode"] == 1 and not inp["oplimit"] and re.search(rb"[0-9)][ ]*[aAcC][ ]*[0-9(]", inp["src"] + b" ".join(inp["hist"])):
        inp["mode"] = 0      # without a budget WoD / Double Cross pools explode forever in max mode: keep them out of the bulk stream
    inp["hi"], inp["lo"] = r.getrandbits(64), r.getrandbits(64)
    inp["st"] = r.random() < 0.8
    return inp


def dangerous(src):
    """inputs on which the real code is known to hang / exhaust memory (kept out of the bulk stream; replayed separately)"""
    return False


def make_inputs(rnd, n, corpus):
    inputs, kinds = [], []
    for i in range(n):
        k = rnd.randrange(100)
        hist = []
        if k < 40:
            src, kind = gen.G(rnd, floats=False, max_depth=rnd.choice([1, 2, 3])).program(), "gen.program"
        elif k < 50:
            src, kind = gen.random_input(rnd), "gen.random_input"
        elif k < 60:
            src, kind = rnd.choice(corpus), "repo tests"
        else:
            name, f = rnd.choice(FAMILIES)
            src, kind = f(rnd), "family:" + name
        if rnd.random() < 0.25:
            for _ in range(rnd.randrange(1, 3)):
                hist.append(rnd.choice([gen.G(rnd, floats=False, max_depth=2).program(), "x = [1,2,3]", "func g(u) { u + 1 }", "&y = x", "x = {'a': 1}",
                                        "func h() { h() }", "&z = 2d1", "x = 1/0", rnd.choice(FAMILIES)[1](rnd)]))
        inp = k2cases.mk_input(src, hist=hist)
        rand_cfg(rnd, inp)
        if kind.startswith("family:st"):
            inp["st"] = rnd.random() < 0.9
        if kind in ("family:func", "family:computed") and inp["oplimit"] == 0:
            inp["oplimit"] = rnd.choice([150, 1000, 5000, 30000])   # unbounded recursion without a budget kills the process
        inputs.append(inp)
        kinds.append(kind)
    for src in EDGE + EDGE_BUDGET + REPAIRED:
        for cfg in ({}, {"oplimit": 1000}, {"mode": -1, "div0": True}):
            if (src in EDGE_BUDGET or b"&x = x" in k2cases.mk_input(src)["src"]) and not cfg.get("oplimit"):
                continue    # unbounded recursion / dice counts without a budget kill or stall the process
            inp = k2cases.mk_input(src, st=True, hi=rnd.getrandbits(64), lo=rnd.getrandbits(64), **cfg)
            inputs.append(inp)
            kinds.append("edge corpus")
    # left-over code of an abandoned parse branch inside a computed value whose text was cut: a default-sides dice with a detail span
    # behind the text (a slice panic until the repair e540a42)
    for hist, src in ((["&x = 0 ? 1, 2d ?"], "x"), (["&x = 0 || `{2d`"], "x"), (["&x = 0 ? 1, 2d ?"], "x + x"), (["&y = 1 ? 2, 3d ?"], "[y, y]")):
        for cfg in ({}, {"oplimit": 1000}, {"mode": -1}):
            inputs.append(k2cases.mk_input(src, hist=hist, hi=rnd.getrandbits(64), lo=rnd.getrandbits(64), **cfg))
            kinds.append("edge corpus")
    # exploding pools are charged round by round against OpCountLimit (also in max mode, where they never stop by themselves)
    for src in ["5a10", "3a8", "2c8", "10a6m10", "1a2m100", "3c5m10", "20000a2", "x = 3a8 + 2c8; x", "func g() { 4a8 }; g() + 1c9"]:
        for cfg in ({"mode": 1, "oplimit": 5}, {"mode": 1, "oplimit": 50}, {"mode": 1, "oplimit": 1000}, {"oplimit": 3}, {"oplimit": 7},
                    {"oplimit": 120}, {"oplimit": 30000}, {"mode": -1, "oplimit": 10}, {}):
            if src == "20000a2" and (not cfg.get("oplimit") or cfg["oplimit"] > 1000):     # model cost only
                continue
            inputs.append(k2cases.mk_input(src, hi=rnd.getrandbits(64), lo=rnd.getrandbits(64), **cfg))
            kinds.append("exploding pools")
    return inputs, kinds


# recursion depth is bounded only by the op budget: with OpCountLimit == 0 (no budget configured) these overflow the goroutine
# stack (fatal error) — outside the budgeted properties, recorded here; each is replayed in its own process
DEFECT_REPLAYS = [
    ("no budget: self-referential computed value recurses until the stack is exhausted", "&x = x + 1; x"),
    ("no budget: unbounded function recursion", "func g(u) { return g(u + 1) }; g(0)"),
]
# repaired meanwhile (kept in the compared corpus): kh/kl count clamp, __proto__ depth 64, == on cyclic containers, st.mod "-" on a non-number
REPAIRED = ["[1,2].kh(9223372036854775807)", "[5,1,2].kl(9223372036854775807)", "x = {}; x.__proto__ = x; x.y", "x = {}; y = {'__proto__': x}; x.__proto__ = y; [x.q, y.q]",
            "x = [0]; x[0] = x; y = [0]; y[0] = y; x == y", "x = {'a':1}; x.a = x; y = {'a':1}; y.a = y; [x == y, x == x, x != y]",
            "x = [0, 1]; x[0] = x; y = [0, 2]; y[0] = y; x == y", "x = [0]; y = [0]; x[0] = y; y[0] = x; [x == y, x == [x], [x] == [y]]",
            "x = {'p': 1}; y = {'__proto__': x}; z = {'__proto__': y}; [z.p, z.len, z.q, z.keys]",
            # work of a computed value found in a calling context is charged (and not lost when the callee returns)
            "&a = 20d1; func f() { a }; f(); f()", "&a = 20d1; func f() { a }; func g() { f() + a }; g(); g()", "&a = 300d1; func f() { a }; f(); f(); f(); f()",
            "&a = 20d1; &b = a + a; func f() { b + a }; f() + b", "&a = 2d1; func f() { &c = a + a; c }; func g() { f() + a }; g()"]


def opcode_cov(rows, statuses):
    seen, used = {}, {}

    def walk(code, acc):
        for op in code or []:
            acc.add(op.get("name") or "?")
            if op.get("fn") and op["fn"].get("code"):
                walk(op["fn"]["code"], acc)
    for row, st in zip(rows, statuses):
        acc = set()
        for s in row.get("steps") or []:
            walk(s.get("code"), acc)
        for a in acc:
            seen[a] = seen.get(a, 0) + 1
            if st[0] == "ok":
                used[a] = used.get(a, 0) + 1
    return {k: [seen[k], used.get(k, 0)] for k in sorted(seen)}


def run(res, tier, seed):
    common.build_harness()
    rnd = random.Random(seed)
    n = int(os.environ.get("K2_N", "0")) or (1500 if tier == "quick" else 12000)
    corpus = pegcases.scrape_test_sources()
    inputs, kinds = make_inputs(rnd, n, corpus)
    rows = k2cases.go_run(inputs)
    status = k2cases.correspond(inputs, rows, "k2")

    hist = {}
    by_kind = {}
    unsup = {}
    for inp, kind, st in zip(inputs, kinds, status):
        hist[st[0]] = hist.get(st[0], 0) + 1
        d = by_kind.setdefault(kind, {})
        d[st[0]] = d.get(st[0], 0) + 1
        if st[0] == "unsup":
            unsup[st[1]] = unsup.get(st[1], 0) + 1
        if st[0] in ("ok", "unsup", "bad"):
            res.count(inp["src"].decode("utf-8", "replace") + "|" + json.dumps([h.decode("utf-8", "replace") for h in inp["hist"]]) +
                      json.dumps([inp["div0"], inp["mode"], inp["oplimit"], inp["st"]]), nontrivial=st[0] == "ok")
    compared = hist.get("ok", 0) + hist.get("bad", 0)
    panics = k2cases.go_panics(inputs, rows)
    fatal = [{"src": i["src"].decode("utf-8", "replace"), "hist": [h.decode("utf-8", "replace") for h in i["hist"]], "what": s[1]}
             for i, s in zip(inputs, status) if s[0] == "gofatal"]
    res.cov["programs"] = compared
    res.cov["disagreements_checked"] = compared
    res.cov["disagreements"] = hist.get("bad", 0)
    res.cov["status_histogram"] = hist
    res.cov["unsupported_by_reason"] = dict(sorted(unsup.items(), key=lambda kv: -kv[1]))
    res.cov["unsupported_fraction_of_parsed"] = round(hist.get("unsup", 0) / max(1, compared + hist.get("unsup", 0)), 4)
    res.cov["by_generator"] = by_kind
    res.cov["opcode_coverage_[programs_containing,agreeing]"] = opcode_cov(rows, status)
    res.cov["go_panics_seen"] = panics[:40]
    res.cov["go_panics_count"] = len(panics)
    res.cov["go_hang_or_crash"] = fatal[:20]
    res.cov["rule"] = ("sources from gen.G programs (40%), gen.random_input (10%), the repository's test sources (10%), 11 targeted opcode-family "
                       "generators (40%); 25% with a 1-2 step history on the same VM; random IgnoreDiv0 / min / max mode / OpCountLimit / seed; "
                       "each source is parsed by the real parser, its byte-code dumped and run by the real VM and by Model/VM.v inside Coq; compared: "
                       "value, error class, NumOpCount, generator state, variables, st log after every step. distinct = (source, history, config); "
                       "non-trivial = parsed, inside the modelled fragment, and agreeing")
    res.cov["input_distribution"] = {k: sum(v.values()) for k, v in by_kind.items()}
    for inp, st, row in zip(inputs, status, rows):
        if st[0] == "ok" and len(res.cov["samples"]) < 5 and len(inp["src"]) > 12:
            last = row["steps"][-1]
            res.sample({"src": inp["src"].decode("utf-8", "replace"), "ops": last.get("ops"), "ok": last.get("ok"), "err": last.get("err")})
    res.cov["trusted_base"] += ["harness/k2.go dumpValue canonicalisation; lib/k2cases.py decoding of the dump into Coq terms and its error-class table",
                                "Model/VM.v is hand-written; agreement is checked, not proved; the Unsupported fragment (floats, dict order, ...) is not compared"]

    # the check of the checker: a corrupted expectation must be reported
    probe_in = [k2cases.mk_input("x = 2; x * 21")]
    probe_rows = k2cases.go_run(probe_in)
    bad_rows = copy.deepcopy(probe_rows)
    bad_rows[0]["steps"][-1]["ops"] += 1
    bad_rows2 = copy.deepcopy(probe_rows)
    bad_rows2[0]["steps"][-1]["val"]["i"] = "43"
    s0 = k2cases.correspond(probe_in, probe_rows, "k2probe0")[0][0]
    s1 = k2cases.correspond(probe_in, bad_rows, "k2probe1")[0][0]
    s2 = k2cases.correspond(probe_in, bad_rows2, "k2probe2")[0][0]
    res.cov["self_test"] = {"true_row": s0, "ops_corrupted": s1, "value_corrupted": s2}
    if (s0, s1, s2) != ("ok", "bad", "bad"):
        res.violation({"broken": "K2 checker self-test", "detail": res.cov["self_test"]}, no_input=True)

    # known hangs / crashes of the real code, each in its own process
    if tier != "quick" or True:
        rep = []
        for what, src in DEFECT_REPLAYS:
            r = k2cases.go_run([k2cases.mk_input(src)], timeout_ms=1500)
            rep.append({"what": what, "src": src, "observed": r[0].get("fatal") or "terminated"})
        res.cov["defect_replays"] = rep

    bads = [(inp, st, row) for inp, st, row in zip(inputs, status, rows) if st[0] == "bad"]
    for inp, st, row in bads[:5]:
        res.violation({"broken": "K2 correspondence (Model/VM.v vs real VM)", "why": st[1], "src": inp["src"].decode("utf-8", "replace"),
                       "hist": [h.decode("utf-8", "replace") for h in inp["hist"]],
                       "config": {k: inp[k] for k in ("flags", "div0", "mode", "bothmm", "oplimit", "hi", "lo", "st")},
                       "go": [{k: s.get(k) for k in ("parse_ok", "ok", "err", "panic", "val", "ops", "vark", "varv")} for s in row["steps"]]},
                      no_input=True)


def replay(path):
    p = json.load(open(path))
    print(json.dumps(p, indent=1, ensure_ascii=False))
    return 0
