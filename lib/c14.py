"""C14 — the calculation-process text explains the result; observing it is harmless."""
import json
import random
import re

import c04
import common
import gen
from common import Broken

LEVEL = "proof"

HEADER = ("From Coq Require Import String Ascii NArith ZArith List Bool.\n"
          "From DS Require Import Model.Str Model.Detail Corr.Corr05 Corr.Corr14.\n"
          "Import ListNotations.\nOpen Scope string_scope.\nSet Printing Width 1000000. Set Printing Depth 10000000.\n")

M64 = 1 << 64


def wrap64(z):
    return (z + (1 << 63)) % M64 - (1 << 63)


def unhex(x):
    return bytes.fromhex(x)


def utf(x):
    return bytes.fromhex(x).decode("utf-8", "replace")


# ---------------------------------------------------------------- Coq case files
def cs(b):
    """Coq `string` term for a byte string: a literal when printable ASCII, else s_of [bytes]"""
    if all(0x20 <= c <= 0x7e for c in b):
        return '"' + b.decode("ascii").replace('"', '""') + '"'
    return "(s_of [" + ";".join(str(c) for c in b) + "]%N)"


def span_term(s):
    return (f"(mkSpan ({s['b']})%Z ({s['e']})%Z {cs(unhex(s['ret']))} {cs(unhex(s['text']))} {cs(unhex(s['expr']))} "
            f"{cs(s['tag'].encode())} {'true' if s.get('textonly') else 'false'} {cs(unhex(s['suffix']))})")


def case_term(r):
    spans = "[" + ";".join(span_term(s) for s in r["spans"]) + "]"
    return f"({cs(unhex(r['srchex']))}, {max(r['offset'], 0)}%nat, {spans}, {cs(unhex(r['retstr']))}, {cs(unhex(r['d1']))})"


def cases_v(rows, evals):
    ev = ";\n".join(f"({cs(t)}, ({v})%Z)" for t, v in evals)
    return (HEADER + "Definition cases : list c14_case := [\n" + ";\n".join(case_term(r) for r in rows) + "].\n"
            "Definition bad := Eval vm_compute in bad_indices c14_ok 0%N cases.\nPrint bad.\n"
            "Definition bad2 := Eval vm_compute in bad_indices c14_twice_ok 0%N cases.\nPrint bad2.\n"
            "Definition ties := Eval vm_compute in neg_indices c14_tie_any 0%N cases.\nPrint ties.\n"
            "Definition risks := Eval vm_compute in neg_indices c14_tie_risk 0%N cases.\nPrint risks.\n"
            "Definition evals : list c14_eval_case := [\n" + ev + "].\n"
            "Definition badev := Eval vm_compute in bad_indices c14_eval_ok 0%N evals.\nPrint badev.\n")


def idx(out, name):
    return [int(x.replace("%N", "")) for x in common.parse_coq_list(out, name)]


# ---------------------------------------------------------------- the property, on Go's own text (independent of Coq)
def strip_annotations(text):
    """delete every top-level [...] group (bracket matcher with nesting); returns (stripped, [(start, body)])"""
    out, groups, depth, cur, start = [], [], 0, [], 0
    for ch in text:
        if ch == "[":
            if depth == 0:
                cur, start = [], len(out)
            else:
                cur.append(ch)
            depth += 1
        elif ch == "]" and depth > 0:
            depth -= 1
            if depth == 0:
                groups.append((start, "".join(cur)))
            else:
                cur.append(ch)
        elif depth > 0:
            cur.append(ch)
        else:
            out.append(ch)
    if depth != 0:
        return None, None
    return "".join(out), groups


class ArithError(Exception):
    pass


def py_eval(s):
    """integers, + - * (ASCII or full-width), parentheses, unary signs, white space; exact Python integers"""
    ops = {"＋": "+", "－": "-", "＊": "*"}
    toks, i = [], 0
    while i < len(s):
        ch = ops.get(s[i], s[i])
        if ch in " \t\r\n":
            i += 1
        elif ch.isascii() and ch.isdigit():
            j = i
            while j < len(s) and s[j].isascii() and s[j].isdigit():
                j += 1
            toks.append(int(s[i:j]))
            i = j
        elif ch in "+-*()":
            toks.append(ch)
            i += 1
        else:
            raise ArithError(f"unexpected character {ch!r} at {i}")
    pos = [0]

    def peek():
        return toks[pos[0]] if pos[0] < len(toks) else None

    def take():
        pos[0] += 1
        return toks[pos[0] - 1]

    def unary():
        t = peek()
        if t == "-":
            take()
            return -unary()
        if t == "+":
            take()
            return unary()
        if t == "(":
            take()
            v = expr()
            if peek() != ")":
                raise ArithError("missing )")
            take()
            return v
        if isinstance(t, int):
            return take()
        raise ArithError(f"unexpected token {t!r}")

    def term():
        v = unary()
        while peek() == "*":
            take()
            v *= unary()
        return v

    def expr():
        v = term()
        while peek() in ("+", "-"):
            v = v + term() if take() == "+" else v - term()
        return v

    v = expr()
    if pos[0] != len(toks):
        raise ArithError("trailing tokens")
    return v


BODY = re.compile(r"(.*?)((?:,[^=,\[\]]+=-?\d+)*)", re.S)   # main part, then the sub-details `,source=value`
RX = {
    "coc": re.compile(r"\(D100=\d+,(?:奖励|惩罚)[\d ]*\)"),
    "wod": re.compile(r"成功-?\d+/-?\d+(?: 轮数:\d+)?(?: \{[^}]*\}(?:,\{[^}]*\})*)?"),
    "dc": re.compile(r"(?:大失败 )?出目-?\d+/-?\d+(?: 轮数:\d+)?(?: \{[^}]*\}(?:,\{[^}]*\})*)?"),
    "fate": re.compile(r"[+\-0]{4}"),
    "common": re.compile(r"\{[^}]*\}|-?\d+(?:\+-?\d+)*"),
}
COMMON_LIT = re.compile(r"(\d+)?[dD](\d+)?(?:(kl|kh|dl|dh|k|q|K|Q)(\d+)?|(优势|優勢|劣势|劣勢))?(?:(min|max)(\d+))?$")
COC_LIT = re.compile(r"([bBpP])(\d+)?$")
WOD_LIT = re.compile(r"(\d+)?[aA](\d+)((?:[mMkKqQ]\d+)*)$")
DC_LIT = re.compile(r"(\d+)[cC](\d+)((?:[mM]\d+)*)$")


def check_annotation(values, body, default_sides):
    """values: candidate readings of the number before the bracket; body: text inside the bracket.
    Returns (None, kind) if the value is the total of the dice listed, else (reason, kind)."""
    if body == "略":
        return None, "elided"
    bm = BODY.fullmatch(body)
    main = bm.group(1)
    if "=" not in main:
        # rule 1.1: the dice text equals the value (a single die), or a variable load `[name]`; sub-details may follow
        return None, "value-only"
    expr, text = main.split("=", 1)
    fam = None
    for k in ("coc", "wod", "dc", "fate", "common"):
        if RX[k].fullmatch(text):
            fam = k
            break
    if not fam:
        return "annotation does not parse: " + body, "?"
    why = "no reading of the number before the bracket matches"
    for total in values:
        r = {"out": [total], "text": text, "mode": 0, "dmin": None, "dmax": None, "flag": True}
        if fam == "common":
            if text.startswith("{"):
                toks = text[1:-1].split(" ") if text[1:-1] else []
                if "|" not in toks:
                    return "bar missing", fam
                kept = [int(t) for t in toks[:toks.index("|")]]
            else:
                kept = [int(t) for t in text.split("+")]
            why = None if wrap64(sum(kept)) == total else f"value {total} != sum of the kept dice {sum(kept)}"
            lm = COMMON_LIT.fullmatch(expr)
            if why is None and lm:
                times = int(lm.group(1) or 1)
                sides = int(lm.group(2)) if lm.group(2) else default_sides
                keep, low, high = 0, 0, 0
                if lm.group(3):
                    kk = lm.group(3).lower()
                    cnt = int(lm.group(4) or 1)
                    keep = {"kl": 1, "q": 1, "kh": 2, "k": 2, "dl": 3, "dh": 4}[kk]
                    low, high = cnt, cnt
                if lm.group(5):
                    times, keep, low, high = 2, (2 if lm.group(5) in ("优势", "優勢") else 1), 1, 1
                if lm.group(6):
                    r["dmin" if lm.group(6) == "min" else "dmax"] = int(lm.group(7))
                if sides is not None:
                    r["args"] = [times, sides, keep, low, high]
                    why = c04.rule_common(r)
        elif fam == "fate":
            why = c04.rule_fate(r)
        elif fam == "coc":
            lm = COC_LIT.fullmatch(expr)
            r["args"] = [int(lm.group(2) or 1) if lm else -1]
            r["flag"] = "奖励" in text
            why = c04.rule_coc(r)
            if why is None and lm and (lm.group(1) in "bB") != r["flag"]:
                why = "bonus/penalty word does not match the dice head"
        elif fam in ("wod", "dc"):
            hm = re.match(r"(?:大失败 )?(?:成功|出目)(-?\d+)/(-?\d+)(?: 轮数:(\d+))?", text)
            head, allc, rounds = int(hm.group(1)), int(hm.group(2)), int(hm.group(3) or 1)
            why = None if head == total else f"value {total} != count in the text {head}"
            lm = (WOD_LIT if fam == "wod" else DC_LIT).fullmatch(expr)
            if why is None and lm:
                r["out"] = [total, allc, rounds]
                if fam == "wod":
                    pool, line, pts, thr, ge = int(lm.group(1) or 1), int(lm.group(2)), 10, 8, True
                    for k, v in re.findall(r"([mMkKqQ])(\d+)", lm.group(3)):
                        if k in "mM":
                            pts = int(v)
                        elif k in "kK":
                            thr, ge = int(v), True
                        else:
                            thr, ge = int(v), False
                    r["args"], r["flag"] = [line, pool, pts, thr], ge
                    why = c04.rule_wod(r)
                else:
                    pool, line, pts = int(lm.group(1)), int(lm.group(2)), 10
                    for _, v in re.findall(r"([mM])(\d+)", lm.group(3)):
                        pts = int(v)
                    r["args"] = [line, pool, pts]
                    why = c04.rule_dc(r)
                    if why == "KNOWN:dc-order":
                        why = None
        if why is None:
            return None, fam
    return why, fam


NUM_BEFORE = re.compile(r"(-?)(\d+)$")


def check_text(text, ret_int, default_sides):
    """The property on one Go text. Returns (reason or None, stats dict)."""
    stats = {"annotations": 0, "kinds": {}}
    stripped, groups = strip_annotations(text)
    if stripped is None:
        return "unbalanced brackets in the text", stats
    try:
        v = py_eval(stripped)
    except ArithError as e:
        return f"stripped text is not an arithmetic expression ({e}): {stripped!r}", stats
    if wrap64(v) != ret_int:
        return f"stripped text {stripped!r} evaluates to {v}, reported result {ret_int}", stats
    for start, body in groups:
        m = NUM_BEFORE.search(stripped[:start])
        if not m:
            return f"annotation [{body}] is not preceded by a number", stats
        vals = [int(m.group(2))]
        if m.group(1):
            vals.append(-int(m.group(2)))
        why, kind = check_annotation(vals, body, default_sides)
        stats["annotations"] += 1
        stats["kinds"][kind] = stats["kinds"].get(kind, 0) + 1
        if why:
            return f"annotation {m.group(0)}[{body}]: {why}", stats
    return None, stats


def default_sides_of(ds):
    try:
        return {"": 100, "20": 20, "6": 6, "10+2": 12, "面数 ?? 50": 50}[ds]
    except KeyError:
        return None


# ---------------------------------------------------------------- broad stream (validated only)
BROAD = ["x = 2d6; x + 1", "&cv = 2d6 + 1; cv", "&cv = 2d6 + 1; cv + cv", "func g(u){ u+2d6 }; g(3)", "func g(){ return d }; g() + 1",
         "`{2d6} and {力量}`", "'abc' + 'def'", "[2d6, 3, f]", "[2d6,2]kl", "[2d6, 2].kh()", "x = [1,2,3]; x[1] + d4", "{'a': 2d6}", "{'a': 2d6}.a",
         "力量 = 2d6; 力量 * 2", "x = 3; x d6", "1.5 + 2d6", "2d6 / 0", "2d6 ** 2", "2d6 % 4", "2d6 > 3 ? 1 : 0", "if 2d6 > 3 { 1 } else { 2 }",
         "i = 0; while i < 3 { i = i + d2 }; i", "[x,2]\n[x,2]", "5\n{'a':1", "5\n'abc", "x=1; x || [", "x=[1,2]\ny=3\ny", "this.x = 5", "&a = d; a",
         "力量\n2d6", "2d6\n3d6", "2d6;3d6", "str(2d6)", "int('3') + d6", "x = 'a'; x * 3", "val ?? 2d6", "null ?? f", "b + p + f + 3a8 + 2c8",
         "dk", "d k", "2d6k", "x", "x", "m", "敏捷", "val + 1", "arr", "y", "(1)＋2", "d6　", "　d6", "　", "2d6  ", "`x`", "`{'[' + 'a'}`", "'[' + ']'", "']' + 2d6", "'[a' ; 2d6",
         "x = '[略]'; x + 'y'", "[[1,2],[3]]", "[[2d6]]", "{}", "[]", "d6 ] ", "a10", "1a", "3c", "f1", "bb", "^st力量60", "^st 力量=2d6 敏捷=3"]


def broad_inputs(rnd, n):
    out = []
    for i in range(n):
        k = rnd.randrange(10)
        pre = rnd.choice([[], [], ["x=3; arr=[1,2,3]"], ["func g(u){ u+2d6 }", "&val = 2d4"], ["力量 = 60", "&敏捷 = 力量 + d6"], ["m = {'k': 2}", "y = 'str'"],
                          ["x = {'a':1,'b':2,'c':3,'d':4}"]])
        if k < 3:
            src = rnd.choice(BROAD).encode()
        elif k < 4:
            src = (rnd.choice(BROAD) + rnd.choice([" + ", "\n", "; ", " "]) + rnd.choice(BROAD)).encode()
        else:
            src = gen.random_input(rnd)
        out.append(("\x00".join(pre).encode().hex() + ":" + src.hex(), pre, src))
    return out


SNAP_KEYS = ("hi", "lo", "vars", "ret", "ops", "err")   # `ret`/`vars` are structural dumps with sorted dict keys (Ret.ToString() of a dict follows Go map order)


def purity_reason(r):
    if r.get("dpanic"):
        return "GetDetailText panicked: " + r["dpanic"]
    if r["d1"] != r["d2"]:
        return "second GetDetailText call returned a different text"
    s = r["snaps"]
    for k in SNAP_KEYS:
        if not (s[0].get(k) == s[1].get(k) == s[2].get(k)):
            what = {"hi": "generator state", "lo": "generator state", "vars": "variables", "ret": "result", "str": "result text",
                    "ops": "operation counter", "err": "error state"}[k]
            return f"GetDetailText changed the {what}"
    return None


def has_dict(r):
    """Go prints dicts in map-iteration order: the hook's rendering and GetDetailText's may differ for >= 2 keys"""
    txt = utf(r["retstr"]) + "".join(utf(s["ret"]) for s in r["spans"])
    return re.search(r"\{[^{}]*:[^{}]*,", txt) is not None


def replay_row(r):
    return {"pre": r.get("pre") or [], "src": r["src"], "src_hex": r["srchex"], "default_sides": r["ds"], "seed_state": [r["hi"], r["lo"]],
            "result": utf(r["retstr"]), "detail_first": utf(r["d1"]), "detail_second": utf(r["d2"]), "spans": r["spans"], "offset": r["offset"],
            "snapshots": r["snaps"],
            "how": "harness c14-src: vm.Run(pre...); reseed; vm.Run(src); vm.GetDetailText() twice"}


def run(res, tier, seed):
    common.build_harness()
    n = 2400 if tier == "quick" else 20000
    nb = 1500 if tier == "quick" else 12000
    rows, _ = common.run_harness(["c14", "-seed", seed, "-n", n], timeout=900)
    rnd = random.Random(int(seed) * 7919 + 14)
    binp = broad_inputs(rnd, nb)
    brows, _ = common.run_harness(["c14-src", "-seed", seed], stdin="\n".join(x[0] for x in binp) + "\n", timeout=900)
    if len(brows) != len(binp):
        raise Broken("harness c14-src", f"{len(brows)} rows for {len(binp)} inputs")

    fams, found = {}, 0
    stat = {"frag_ok": 0, "frag_err": 0, "frag_full_parse": 0, "frag_empty_text": 0, "frag_with_annotation": 0, "frag_elided": 0,
            "annotations_checked": 0, "annotation_kinds": {}, "broad_ok": 0, "broad_err": 0, "broad_run_panics": 0, "broad_nonempty_text": 0, "broad_map_order_nonidempotent": 0,
            "broad_rows_with_spans_outside_matched_text": 0}
    maporder, leftover = [], []
    evals = []

    # ---- property-level search: the fragment stream
    for r in rows:
        for f in r.get("fam") or []:
            fams[f] = fams.get(f, 0) + 1
        why = purity_reason(r)
        text = utf(r["d1"])
        if r["ok"]:
            stat["frag_ok"] += 1
            stat["frag_full_parse"] += utf(r["rest"]).strip() == ""
            if why is None and r["rett"] != 0:
                why = "fragment expression did not evaluate to an integer"
            if why is None and text == "":
                stat["frag_empty_text"] += 1
            elif why is None:
                ret_int = int(utf(r["retstr"]))
                why, st = check_text(text, ret_int, default_sides_of(r["ds"]))
                stat["annotations_checked"] += st["annotations"]
                stat["frag_with_annotation"] += st["annotations"] > 0
                stat["frag_elided"] += "elided" in st["kinds"]
                for k, v in st["kinds"].items():
                    stat["annotation_kinds"][k] = stat["annotation_kinds"].get(k, 0) + v
                if why is None and not re.search("[＋－＊]", text):  # the Coq evaluator reads ASCII operators only
                    evals.append((unhex(r["d1"]), ret_int, len(evals)))
        else:
            stat["frag_err"] += 1
        res.count(r["src"] + "|" + r["hi"], nontrivial=bool(r["ok"] and text != ""))
        if why and found < 4:
            res.violation(dict(replay_row(r), what="C14 fails on a fragment expression: " + why))
            found += 1

    # ---- broad stream: no panic, idempotence, purity only
    for r in brows:
        if r["ok"]:
            stat["broad_ok"] += 1
            stat["broad_nonempty_text"] += r["d1"] != ""
        else:
            stat["broad_err"] += 1
        if r.get("panic"):
            stat["broad_run_panics"] += 1
        res.count("b:" + r["srchex"] + "|" + r["hi"], nontrivial=r["d1"] != "")
        if r["ok"] and any(s["b"] < 0 or s["b"] > s["e"] or s["e"] > r["offset"] for s in r["spans"]):
            stat["broad_rows_with_spans_outside_matched_text"] += 1
            leftover.append(r)
        why = purity_reason(r)
        if why and found < 4:
            if "different text" in why and has_dict(r):
                # Go map order (recorded finding KF-C06-map-order): the text is compared with a second rendering of the
                # same dict, so the first call may return "" and the second the dict text; outside C14's quantifier
                stat["broad_map_order_nonidempotent"] += 1
                maporder.append(r)
                continue
            res.violation(dict(replay_row(r), what="C14 (observing is harmless) fails outside the fragment: " + why))
            found += 1

    for kf in common.known_for("C14"):
        if kf.get("key") == "leftover-code-of-abandoned-alternative" and leftover:
            r = leftover[0]
            res.known(f"{kf['id']}: left-over code leaves detail spans outside the matched text (skipped by makeDetailStr since the repair), "
                      f"e.g. input {r['src']!r}: offset {r['offset']}, spans {[(x['b'], x['e']) for x in r['spans']]}")
        if kf.get("key") == "go-map-order-visible-through-dict-iteration" and maporder:
            r = maporder[0]
            res.known(f"{kf['id']}: dict-valued text: first GetDetailText {utf(r['d1'])!r}, second {utf(r['d2'])!r} (pre {r.get('pre')}, input {r['src']!r})")
    res.cov["rule"] = ("(a) fragment: generated expressions over integer literals, multi-byte identifiers holding integers, parentheses, + - * (ASCII and "
                       "full-width), unary signs and dice terms of every family (XdY with k/q/kh/kl/dh/dl/min/max, dY, Xd, d with four default-side "
                       "settings, advantage forms, chains d4d6, b/p, f, XaY.., XcY.., sub-rolls as operands) printed with random blanks, tabs, CR/LF "
                       "between tokens, each on a freshly seeded VM; checked on Go's own text: brackets stripped with a bracket matcher, the rest "
                       "evaluated by an independent evaluator = Ret, every `value[expr=dice]` annotation re-derived from the dice it lists (C04 rule "
                       "predicates), second call identical, generator state / variables / result / op counter unchanged by both calls; the Coq model "
                       "make_detail on Go's spans must reproduce the text byte for byte. (b) broad stream (programs with variables, computed values, "
                       "functions, strings, arrays, mutated sources, statement lists, left-over-code inputs): no panic, idempotence, purity, and the "
                       "model correspondence. distinct = distinct (source, seed); non-trivial = a non-empty process text was produced")
    res.cov["input_distribution"] = {"fragment_cases": len(rows), "broad_cases": len(brows), "fragment_constructs": fams, **stat}
    for r in rows:
        if r["ok"] and r["d1"] and len(res.cov["samples"]) < 4 and len(r["src"]) < 60:
            res.sample({"src": r["src"], "pre": r.get("pre"), "result": utf(r["retstr"]), "detail": utf(r["d1"])})
    for r in brows:
        if r["ok"] and r["d1"] and len(res.cov["samples"]) < 6 and len(r["src"]) < 60:
            res.sample({"src": r["src"], "pre": r.get("pre"), "result": utf(r["retstr"]), "detail": utf(r["d1"])})
    res.cov["trusted_base"] += [
        "Model/Detail.v is a hand-written model of makeDetailStr / GetDetailText (default configuration, no Custom*Func hooks), tied by byte-exact "
        "correspondence on the spans, offset and result string exported by the verif hooks (VerifDetailSpans, VerifParsedOffset)",
        "sort.Sort(spanByEnd) is modelled by a stable insertion sort; Go's order for equal End values is implementation-defined above 12 spans per "
        "group — such cases are counted (tie_risk) and excluded from the exact comparison",
        "the spans themselves (what the parser and VM record) are taken from Go, not modelled; the link from a dice span's Ret/Text to the dice "
        "functions is the C04 correspondence",
        "int64 wrap: the evaluators use exact integers; the comparison with Ret is modulo 2^64, the Coq statement carries a no-overflow hypothesis",
        "dict-valued results print in Go map order (recorded finding): rows with a multi-key dict are excluded from the text comparison",
    ]

    broken = None
    try:
        info = common.check_property_file("C14")
        res.proof(info, "cd coq && make && coqc -Q . DS Properties/C14.v  (Print Assumptions parsed)")
        def nbytes(r):
            return (len(r["srchex"]) + len(r["retstr"]) + len(r["d1"]) + sum(len(x["ret"]) + len(x["text"]) + len(x["expr"]) for x in r["spans"])) // 2
        allrows = [r for r in rows + brows if r["ok"] and not r.get("dpanic") and not has_dict(r)]
        crows = [r for r in allrows if nbytes(r) <= 8000]   # very long strings (string doubling) overflow Coq's term parser
        res.cov["correspondence_skipped_large"] = len(allrows) - len(crows)
        shard = 300
        ks = list(range(0, len(crows), shard))
        esh = max(1, (len(evals) + len(ks) - 1) // max(1, len(ks)))
        jobs = []
        for j, k in enumerate(ks):
            jobs.append((f"c14_{k}", cases_v(crows[k:k + shard], [(t, v) for t, v, _ in evals[j * esh:(j + 1) * esh]])))
        outs = common.coq_eval_many(jobs)
        bad, bad2, ties, risks, badev, risk_bad = [], [], [], [], [], []
        for j, (k, out) in enumerate(zip(ks, outs)):
            rk = set(k + x for x in idx(out, "risks"))
            risks += sorted(rk)
            ties += [k + x for x in idx(out, "ties")]
            risk_bad += [k + x for x in idx(out, "bad") if k + x in rk]
            bad += [k + x for x in idx(out, "bad") if k + x not in rk]
            bad2 += [k + x for x in idx(out, "bad2") if k + x not in rk]
            badev += [j * esh + x for x in idx(out, "badev")]
        res.cov["correspondence"] = {"cases": len(crows), "disagreements": len(bad), "cache_disagreements": len(bad2),
                                     "groups_with_equal_End": len(ties), "tie_order_implementation_defined": len(risks),
                                     "tie_order_cases_where_stable_order_differs_from_go": len(risk_bad),
                                     "tie_order_examples": [crows[i]["src"][:200] for i in risks[:2]],
                                     "coq_strip_eval_cases": len(evals), "coq_strip_eval_disagreements": len(badev)}
        if bad or bad2:
            i0 = (bad or bad2)[0]
            broken = Broken("correspondence Corr14.c14_ok (Model/Detail.make_detail vs GetDetailText)",
                            {"first": [replay_row(crows[i]) for i in (bad or bad2)[:3]], "index": i0})
        elif badev:
            broken = Broken("Coq strip_annotations/eval_arith disagree with the Python evaluation of Go's text",
                            {"first": [{"text": evals[i][0].decode("utf-8", "replace"), "result": evals[i][1]} for i in badev[:3]]})
    except Broken as b:
        broken = b
    if broken and not found:
        res.violation({"broken": broken.what, "detail": broken.detail}, no_input=True)


def replay(path):
    p = json.load(open(path))
    print(json.dumps(p, indent=1, ensure_ascii=False))
    return 0
