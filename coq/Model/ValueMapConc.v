(* Interleaving (small-step, sequentially consistent) model of valuemap.go (sync.Map clone).
   Shared state: read map (with `amended`), dirty map, per-entry cells addressed by entry id
   (read and dirty share entries), misses, mutex holder.  Each thread has a program counter.
   One scheduler step = one atomic action of the Go code:
     - atomic load of m.read                       (P*0)
     - atomic load of e.p                          (PLoadE, PStoreTry, PDelE, PLosE)
     - compare-and-swap of e.p                     (PStoreCas, PDelCas, PLosCas)
     - m.mu.Lock(), enabled only when the mutex is free (P*Lock)
     - the whole lock-protected region, ONE step, only by the holder (P*Locked)
     - m.mu.Unlock()                               (PUnlock)
   plus one step for the invocation and one for the response of every operation.
   Pointer identity: every installed value gets a fresh tag, so CAS compares pointers
   (no ABA on equal values), like unsafe.Pointer(&value) in the Go code.
   Covered: Load, Store, LoadAndDelete (Delete = LoadAndDelete with the result dropped),
   LoadOrStore, including missLocked promotion (real misses counter against len(dirty)) and
   dirtyLocked rebuilding with tryExpungeLocked.  Not covered: Range, Length, Clear.
   Abstractions: sequentially consistent atomics; the body of a critical section is one
   atomic step (lock acquisition and release are separate steps); keys/values are numbers. *)
From stdpp Require Import gmap.
From Coq Require Import NArith.
From DS Require Import Model.ValueMap.

Inductive ccell := KNil | KExp | KVal (tag : N) (v : val).
Global Instance ccell_eq_dec : EqDecision ccell.
Proof. solve_decision. Defined.

Definition kload (c : ccell) : option val :=
  match c with KVal _ v => Some v | _ => None end.

Record shared := {
  s_rd : gmap key eid;               (* read.m *)
  s_am : bool;                       (* read.amended *)
  s_dirty : option (gmap key eid);   (* m.dirty, None = nil *)
  s_misses : nat;
  s_cell : eid -> ccell;             (* e.p for every entry id *)
  s_nexte : eid;                     (* entry allocator *)
  s_nextp : N;                       (* pointer-tag allocator *)
  s_lock : option nat;               (* mutex holder *)
}.

Definition sh_init : shared :=
  {| s_rd := ∅; s_am := false; s_dirty := None; s_misses := 0; s_cell := fun _ => KNil;
     s_nexte := 0%N; s_nextp := 0%N; s_lock := None |}.

(* operations covered *)
Inductive cop :=
| CLoad (k : key) | CStore (k : key) (v : val) | CLoadAndDelete (k : key)
| CLoadOrStore (k : key) (v : val).

Definition vop_of (o : cop) : vop :=
  match o with
  | CLoad k => OLoad k | CStore k v => OStore k v | CLoadAndDelete k => OLoadAndDelete k
  | CLoadOrStore k v => OLoadOrStore k v
  end.

Global Instance vres_eq_dec : EqDecision vres.
Proof. solve_decision. Defined.
Global Instance cop_eq_dec : EqDecision cop.
Proof. solve_decision. Defined.

Inductive pc :=
| PIdle
| PRet (r : vres)
| PUnlock (next : pc)
(* Load *)
| PLoad0 (k : key) | PLoadLock (k : key) | PLoadLocked (k : key) | PLoadE (k : key) (e : eid)
(* Store *)
| PStore0 (k : key) (v : val) | PStoreTry (k : key) (v : val) (e : eid)
| PStoreCas (k : key) (v : val) (e : eid) (c : ccell)
| PStoreLock (k : key) (v : val) | PStoreLocked (k : key) (v : val)
(* LoadAndDelete *)
| PDel0 (k : key) | PDelLock (k : key) | PDelLocked (k : key)
| PDelE (k : key) (e : eid) | PDelCas (k : key) (e : eid) (c : ccell)
(* LoadOrStore *)
| PLos0 (k : key) (v : val) | PLosE (k : key) (v : val) (e : eid)
| PLosCas (k : key) (v : val) (e : eid)
| PLosLock (k : key) (v : val) | PLosLocked (k : key) (v : val).

Definition start_pc (o : cop) : pc :=
  match o with
  | CLoad k => PLoad0 k | CStore k v => PStore0 k v | CLoadAndDelete k => PDel0 k
  | CLoadOrStore k v => PLos0 k v
  end.

(* ---- shared-state helpers ------------------------------------------------ *)
Definition set_cell (s : shared) (e : eid) (c : ccell) : shared :=
  {| s_rd := s_rd s; s_am := s_am s; s_dirty := s_dirty s; s_misses := s_misses s;
     s_cell := fun x => if N.eqb x e then c else s_cell s x;
     s_nexte := s_nexte s; s_nextp := s_nextp s; s_lock := s_lock s |}.
Definition set_lock (s : shared) (l : option nat) : shared :=
  {| s_rd := s_rd s; s_am := s_am s; s_dirty := s_dirty s; s_misses := s_misses s;
     s_cell := s_cell s; s_nexte := s_nexte s; s_nextp := s_nextp s; s_lock := l |}.
(* install a freshly allocated pointer to value v in entry e *)
Definition put_val (s : shared) (e : eid) (v : val) : shared :=
  {| s_rd := s_rd s; s_am := s_am s; s_dirty := s_dirty s; s_misses := s_misses s;
     s_cell := fun x => if N.eqb x e then KVal (s_nextp s) v else s_cell s x;
     s_nexte := s_nexte s; s_nextp := (s_nextp s + 1)%N; s_lock := s_lock s |}.
Definition set_dirty (s : shared) (d : option (gmap key eid)) : shared :=
  {| s_rd := s_rd s; s_am := s_am s; s_dirty := d; s_misses := s_misses s;
     s_cell := s_cell s; s_nexte := s_nexte s; s_nextp := s_nextp s; s_lock := s_lock s |}.
Definition dget (s : shared) (k : key) : option eid :=
  match s_dirty s with Some d => d !! k | None => None end.

(* missLocked *)
Definition promote (s : shared) : shared :=
  {| s_rd := default ∅ (s_dirty s); s_am := false; s_dirty := None; s_misses := 0;
     s_cell := s_cell s; s_nexte := s_nexte s; s_nextp := s_nextp s; s_lock := s_lock s |}.
Definition miss_locked (s : shared) : shared :=
  let ms := S (s_misses s) in
  if ms <? size (default ∅ (s_dirty s)) then
    {| s_rd := s_rd s; s_am := s_am s; s_dirty := s_dirty s; s_misses := ms;
       s_cell := s_cell s; s_nexte := s_nexte s; s_nextp := s_nextp s; s_lock := s_lock s |}
  else promote s.

Definition in_rng (m : gmap key eid) (e : eid) : bool :=
  existsb (fun ke => N.eqb (snd ke) e) (map_to_list m).
Definition is_val (c : ccell) : bool := match c with KVal _ _ => true | _ => false end.

(* dirtyLocked: shallow copy of read.m without nil/expunged entries; nil ones get expunged *)
Definition dirty_locked (s : shared) : shared :=
  match s_dirty s with
  | Some _ => s
  | None =>
    {| s_rd := s_rd s; s_am := s_am s;
       s_dirty := Some (filter (fun ke => is_val (s_cell s (snd ke)) = true) (s_rd s));
       s_misses := s_misses s;
       s_cell := fun e => match s_cell s e with
                          | KNil => if in_rng (s_rd s) e then KExp else KNil
                          | c => c end;
       s_nexte := s_nexte s; s_nextp := s_nextp s; s_lock := s_lock s |}
  end.
Definition set_am (s : shared) (b : bool) : shared :=
  {| s_rd := s_rd s; s_am := b; s_dirty := s_dirty s; s_misses := s_misses s;
     s_cell := s_cell s; s_nexte := s_nexte s; s_nextp := s_nextp s; s_lock := s_lock s |}.
(* m.dirty[k] = e  (on a nil map Go panics; the model leaves nil, the proofs show it never happens) *)
Definition dput (s : shared) (k : key) (e : eid) : shared :=
  match s_dirty s with Some d => set_dirty s (Some (<[k := e]> d)) | None => s end.
(* the final `else` of Store / LoadOrStore: key in neither map *)
Definition add_new (s : shared) (k : key) (v : val) : shared :=
  let s := if s_am s then s else set_am (dirty_locked s) true in
  let e := s_nexte s in
  let s := put_val s e v in
  dput {| s_rd := s_rd s; s_am := s_am s; s_dirty := s_dirty s; s_misses := s_misses s;
          s_cell := s_cell s; s_nexte := (e + 1)%N; s_nextp := s_nextp s; s_lock := s_lock s |} k e.
(* e.unexpungeLocked(); if it was expunged: m.dirty[k] = e *)
Definition unexpunge (s : shared) (k : key) (e : eid) : shared :=
  match s_cell s e with KExp => dput (set_cell s e KNil) k e | _ => s end.

(* ---- instrumentation output (never read back by the model) ---------------- *)
Inductive ann :=
| ATau | AInv (o : cop) | ARet (r : vres)
| ALin                    (* the operation takes effect on the abstract map at this step *)
| ALinPast (r : vres).    (* effect-free operation: result r was the abstract answer at some
                             moment since its invocation (possibly now) *)

Definition try_lock (t : nat) (s : shared) (here next : pc) : shared * pc * ann :=
  match s_lock s with
  | None => (set_lock s (Some t), next, ATau)
  | Some _ => (s, here, ATau)
  end.

(* tryLoadOrStore inside the locked region (no interference on the CAS: one step) *)
Definition los_locked_entry (s : shared) (e : eid) (v : val) : shared * vres :=
  match s_cell s e with
  | KVal _ x => (s, ROptB (Some x) true)
  | KNil => (put_val s e v, ROptB (Some v) false)
  | KExp => (s, ROptB None false)
  end.

Definition sstep (t : nat) (s : shared) (p : pc) : shared * pc * ann :=
  match p with
  | PIdle | PRet _ => (s, p, ATau)
  | PUnlock next => (set_lock s None, next, ATau)
  (* ---------------- Load ---------------- *)
  | PLoad0 k =>
    match s_rd s !! k with
    | Some e => (s, PLoadE k e, ATau)
    | None => if s_am s then (s, PLoadLock k, ATau)
              else (s, PRet (ROpt None), ALinPast (ROpt None))
    end
  | PLoadLock k => try_lock t s p (PLoadLocked k)
  | PLoadLocked k =>
    match s_rd s !! k with
    | Some e => (s, PUnlock (PLoadE k e), ATau)
    | None =>
      if s_am s then
        match dget s k with
        | Some e => (miss_locked s, PUnlock (PLoadE k e), ATau)
        | None => (miss_locked s, PUnlock (PRet (ROpt None)), ALinPast (ROpt None))
        end
      else (s, PUnlock (PRet (ROpt None)), ALinPast (ROpt None))
    end
  | PLoadE k e => let r := ROpt (kload (s_cell s e)) in (s, PRet r, ALinPast r)
  (* ---------------- Store ---------------- *)
  | PStore0 k v =>
    match s_rd s !! k with
    | Some e => (s, PStoreTry k v e, ATau)
    | None => (s, PStoreLock k v, ATau)
    end
  | PStoreTry k v e =>
    match s_cell s e with
    | KExp => (s, PStoreLock k v, ATau)
    | c => (s, PStoreCas k v e c, ATau)
    end
  | PStoreCas k v e c =>
    if bool_decide (s_cell s e = c) then (put_val s e v, PRet RNone, ALin)
    else (s, PStoreTry k v e, ATau)
  | PStoreLock k v => try_lock t s p (PStoreLocked k v)
  | PStoreLocked k v =>
    let s' := match s_rd s !! k with
              | Some e => put_val (unexpunge s k e) e v
              | None => match dget s k with
                        | Some e => put_val s e v
                        | None => add_new s k v
                        end
              end in
    (s', PUnlock (PRet RNone), ALin)
  (* ---------------- LoadAndDelete ---------------- *)
  | PDel0 k =>
    match s_rd s !! k with
    | Some e => (s, PDelE k e, ATau)
    | None => if s_am s then (s, PDelLock k, ATau)
              else (s, PRet (ROpt None), ALinPast (ROpt None))
    end
  | PDelLock k => try_lock t s p (PDelLocked k)
  | PDelLocked k =>
    match s_rd s !! k with
    | Some e => (s, PUnlock (PDelE k e), ATau)
    | None =>
      if s_am s then
        let s' := miss_locked (set_dirty s (delete k <$> s_dirty s)) in
        match dget s k with
        | Some e => (s', PUnlock (PDelE k e), ALin)
        | None => (s', PUnlock (PRet (ROpt None)), ALin)
        end
      else (s, PUnlock (PRet (ROpt None)), ALinPast (ROpt None))
    end
  | PDelE k e =>
    match s_cell s e with
    | KVal _ _ as c => (s, PDelCas k e c, ATau)
    | _ => (s, PRet (ROpt None), ALinPast (ROpt None))
    end
  | PDelCas k e c =>
    if bool_decide (s_cell s e = c) then (set_cell s e KNil, PRet (ROpt (kload c)), ALin)
    else (s, PDelE k e, ATau)
  (* ---------------- LoadOrStore ---------------- *)
  | PLos0 k v =>
    match s_rd s !! k with
    | Some e => (s, PLosE k v e, ATau)
    | None => (s, PLosLock k v, ATau)
    end
  | PLosE k v e =>
    match s_cell s e with
    | KExp => (s, PLosLock k v, ATau)
    | KVal _ x => let r := ROptB (Some x) true in (s, PRet r, ALinPast r)
    | KNil => (s, PLosCas k v e, ATau)
    end
  | PLosCas k v e =>
    match s_cell s e with
    | KNil => (put_val s e v, PRet (ROptB (Some v) false), ALin)
    | _ => (s, PLosE k v e, ATau)
    end
  | PLosLock k v => try_lock t s p (PLosLocked k v)
  | PLosLocked k v =>
    match s_rd s !! k with
    | Some e =>
      let '(s', r) := los_locked_entry (unexpunge s k e) e v in (s', PUnlock (PRet r), ALin)
    | None =>
      match dget s k with
      | Some e => let '(s', r) := los_locked_entry s e v in (miss_locked s', PUnlock (PRet r), ALin)
      | None => (add_new s k v, PUnlock (PRet (ROptB (Some v) false)), ALin)
      end
    end
  end.

(* ---- threads, configurations, schedules ----------------------------------- *)
Record tstate := { t_pc : pc; t_todo : list cop }.
Inductive hevent := EInv (t : nat) (o : cop) | ERet (t : nat) (r : vres).
Record conf := { c_sh : shared; c_thr : gmap nat tstate; c_hist : list hevent }.

(* thread t takes one step (a stuck or unknown thread stutters) *)
Definition cstep_ann (c : conf) (t : nat) : conf * ann :=
  match c_thr c !! t with
  | None => (c, ATau)
  | Some ts =>
    match t_pc ts with
    | PIdle =>
      match t_todo ts with
      | [] => (c, ATau)
      | o :: rest =>
        ({| c_sh := c_sh c; c_thr := <[t := {| t_pc := start_pc o; t_todo := rest |}]> (c_thr c);
            c_hist := c_hist c ++ [EInv t o] |}, AInv o)
      end
    | PRet r =>
      ({| c_sh := c_sh c; c_thr := <[t := {| t_pc := PIdle; t_todo := t_todo ts |}]> (c_thr c);
          c_hist := c_hist c ++ [ERet t r] |}, ARet r)
    | p =>
      let '(s', p', a) := sstep t (c_sh c) p in
      ({| c_sh := s'; c_thr := <[t := {| t_pc := p'; t_todo := t_todo ts |}]> (c_thr c);
          c_hist := c_hist c |}, a)
    end
  end.
Definition cstep (c : conf) (t : nat) : conf := fst (cstep_ann c t).

Definition init_conf (threads : list (list cop)) : conf :=
  {| c_sh := sh_init;
     c_thr := list_to_map (imap (fun i ops => (i, {| t_pc := PIdle; t_todo := ops |})) threads);
     c_hist := [] |}.

Definition run_sched (c : conf) (sched : list nat) : conf := fold_left cstep sched c.
Definition history_of (c : conf) : list hevent := c_hist c.

(* ---- linearizability, declaratively ---------------------------------------
   A history h is linearizable w.r.t. the finite-map specification (spec_step of
   Model/ValueMap.v) iff one can insert into h, for every completed operation and for some of
   the pending ones, a linearization mark MLin t lying between the operation's invocation and
   its response, such that executing the marked operations sequentially, in the order of their
   marks, on an initially empty map, gives every operation exactly the response it returned.
   (Marks between invocation and response <=> the order respects real-time precedence.) *)
Inductive mark := MInv (t : nat) (o : cop) | MLin (t : nat) | MRet (t : nat) (r : vres).
Inductive lstatus := SInv (o : cop) | SLin (r : vres).

Definition replay1 (st : spec * gmap nat lstatus) (m : mark) : option (spec * gmap nat lstatus) :=
  let '(s, th) := st in
  match m with
  | MInv t o => match th !! t with None => Some (s, <[t := SInv o]> th) | Some _ => None end
  | MLin t =>
    match th !! t with
    | Some (SInv o) => let '(s', r) := spec_step s (vop_of o) in Some (s', <[t := SLin r]> th)
    | _ => None
    end
  | MRet t r =>
    match th !! t with
    | Some (SLin r') => if bool_decide (r = r') then Some (s, delete t th) else None
    | _ => None
    end
  end.
Fixpoint replay (st : spec * gmap nat lstatus) (l : list mark) : option (spec * gmap nat lstatus) :=
  match l with
  | [] => Some st
  | m :: r => match replay1 st m with Some st' => replay st' r | None => None end
  end.
Definition erase (l : list mark) : list hevent :=
  omap (fun m => match m with MInv t o => Some (EInv t o) | MRet t r => Some (ERet t r)
                         | MLin _ => None end) l.
Definition linearizable (h : list hevent) : Prop :=
  exists l, erase l = h /\ is_Some (replay (∅, ∅) l).
