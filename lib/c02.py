"""C02 — evaluation agrees with the language's definitional semantics.

Python generates ASTs of the core fragment (coq/Model/Ast.v) as Coq terms; Coq computes, per case, the source text
under several whitespace / parenthesisation choices (`print`), the reference byte-code (`compile`) and the expected
observable (`denote_history`: value or error class, final variables); the real parser + VM (`harness k2`) run exactly
the printed texts on one VM per history; compared: K4 = byte-code instruction by instruction (detail-span operands
ignored), K3 = value / error / error class / variables after every program of the history."""
import json
import os
import random
import re
import time

import common
import k2cases
from common import Broken

LEVEL = "proof"
PID = "C02"

HEADER = ("From Coq Require Import String NArith ZArith List.\n"
          "From DS Require Import Model.Str Model.Value Model.VM Model.Ast Model.Denote Model.Compile Corr.Corr02.\n"
          "Import ListNotations.\nOpen Scope string_scope.\nOpen Scope N_scope.\n"
          "Set Printing Width 100000000. Set Printing Depth 100000000.\n")

MY_FILES = ["Model/Ast.v", "Model/Denote.v", "Model/Compile.v", "Corr/Corr02.v", "Proofs/CompileProofs.v"]

# findings this module knows how to recognise (key -> deterministic replay); the registered text comes from
# known_findings.json when the key is there
FINDINGS = {
    "while-body-stack-leak": "every value-producing statement of a `while` body leaks one operand-stack slot per iteration, so a loop of "
                             ">= ~1000 iterations fails with 执行栈到达溢出线 although the documented semantics lets it finish: "
                             "`i=0; while i<2000 {i=i+1}; i`",
    "newline-after-bracket-value-not-a-separator": "a newline after a value whose rule already consumed trailing blanks (true/false/null, a quoted "
                                                   "string, `]` `)` `}`) does not separate statements: `true\\n2` stops after `true`",
    "paren-lead-ne-truncated": "an expression in statement / exprRoot position that starts with a parenthesis closed right before `!=` is cut after "
                               "the parenthesis (nestedBoost's look-ahead class lacks `!`): `(1) != 1` returns 1, `x = (1) != 1` stores 1",
    "logic-and-glued-identifier": "`&&` directly followed by an identifier (or true/false/null) is read as bitwise `&` plus a raw load `&name`: "
                                  "`x=2; 1 &&x` returns 0 (1 & 2), `true &&false` is a type error",
}

VARS = ["x", "y", "z", "u", "v", "w", "n", "t1", "hp", "力量", "_u", "val"]
COUNTERS = ["i", "j", "k"]
INTS = [0, 1, 2, 3, 5, 7, 10, 100, 2147483647, 2147483648, 4294967296, 4611686018427387904, 9223372036854775806,
        9223372036854775807, 9223372036854775808]
STRS = ["", "a", "ab", "力", "it's", "a\\b", "x y", "0", "line\nbreak", "{q}", "tab\t."]


# ---------------------------------------------------------------- AST -> Coq
def cstr(s):
    return k2cases.cstr(s)


BIN = {"+": "BAdd", "-": "BSub", "*": "BMul", "/": "BDiv", "%": "BMod", "^": "BPow", "??": "BNullCo", "<": "BLt", "<=": "BLe", "==": "BEq",
       "!=": "BNe", ">=": "BGe", ">": "BGt", "&": "BBitAnd", "|": "BBitOr", "&&": "BAnd"}


def eterm(e):
    k = e[0]
    if k == "int":
        return f"(EInt {e[1]})"
    if k == "str":
        return f"(EStr {cstr(e[1])})"
    if k in ("null", "true", "false"):
        return {"null": "ENull", "true": "ETrue", "false": "EFalse"}[k]
    if k == "var":
        return f"(EVar {cstr(e[1])})"
    if k == "assign":
        return f"(EAssign {cstr(e[1])} {eterm(e[2])})"
    if k == "neg":
        return f"(EUn UNeg {eterm(e[1])})"
    if k == "pos":
        return f"(EUn UPos {eterm(e[1])})"
    if k == "bin":
        return f"(EBin {BIN[e[1]]} {eterm(e[2])} {eterm(e[3])})"
    if k == "or":
        return f"(EOr {eterm(e[1])} {eterm(e[2])})"
    if k == "tern":
        return f"(ETern {eterm(e[1])} {eterm(e[2])} {eterm(e[3])})"
    if k == "arr":
        return "(EArr [" + ";".join(eterm(x) for x in e[1]) + "])"
    if k == "idx":
        return f"(EIdx {eterm(e[1])} {eterm(e[2])})"
    if k == "roll":
        return f"(ERoll {eterm(e[1])} {eterm(e[2])})"
    raise ValueError(k)


def sterm(s):
    k = s[0]
    if k == "nop":
        return "SNop"
    if k == "expr":
        return f"(SExpr {eterm(s[1])})"
    if k == "seq":
        return f"(SSeq {sterm(s[1])} {sterm(s[2])})"
    if k == "if":
        return f"(SIf {eterm(s[1])} {sterm(s[2])} {sterm(s[3])})"
    if k == "while":
        return f"(SWhile {eterm(s[1])} {sterm(s[2])})"
    if k == "break":
        return "SBreak"
    if k == "continue":
        return "SContinue"
    raise ValueError(k)


def seq(stmts):
    stmts = list(stmts)
    if not stmts:
        return ("nop",)
    out = stmts[-1]
    for s in reversed(stmts[:-1]):
        out = ("seq", s, out)
    return out


def nodes(t, acc):
    """constructor histogram"""
    acc[t[0] if t[0] != "bin" else "bin" + t[1]] = acc.get(t[0] if t[0] != "bin" else "bin" + t[1], 0) + 1
    for x in t[1:]:
        if isinstance(x, tuple):
            nodes(x, acc)
        elif isinstance(x, list):
            for y in x:
                nodes(y, acc)


# ---------------------------------------------------------------- generator
class Gen:
    def __init__(self, r, dice=False):
        self.r = r
        self.types = {}       # variable -> 'int' | 'str' | 'arr' | 'null'
        self.dice = dice
        self.loop_depth = 0

    def lit_int(self):
        r = self.r
        return ("int", r.choice(INTS) if r.random() < 0.3 else r.randrange(0, 12))

    def var_of(self, ty):
        c = [v for v, t in self.types.items() if t == ty]
        return ("var", self.r.choice(c)) if c else None

    def int_expr(self, d):
        r = self.r
        if d <= 0 or r.random() < 0.25:
            k = r.random()
            v = self.var_of("int")
            if v and k < 0.45:
                return v
            if k < 0.5:
                return r.choice([("true",), ("false",)])
            if k < 0.6:
                return ("neg", self.lit_int())
            return self.lit_int()
        k = r.random()
        if k < 0.45:
            op = r.choice(["+", "-", "*", "+", "-", "/", "%", "&", "|"])
            return ("bin", op, self.int_expr(d - 1), self.int_expr(d - 1))
        if k < 0.5:
            return ("bin", "^", ("int", r.randrange(0, 4)), ("int", r.randrange(0, 5)))
        if k < 0.62:
            return self.cmp_expr(d - 1)
        if k < 0.68:
            return (r.choice(["neg", "pos"]), self.int_expr(d - 1))
        if k < 0.76:
            return ("tern", self.cond(d - 1), self.int_expr(d - 1), self.int_expr(d - 1))
        if k < 0.82:
            return ("bin", "&&", self.int_expr(d - 1), self.int_expr(d - 1))
        if k < 0.88:
            return ("or", self.int_expr(d - 1), self.int_expr(d - 1))
        if k < 0.92:
            return ("bin", "??", r.choice([("null",), self.int_expr(d - 1)]), self.int_expr(d - 1))
        if k < 0.95:
            a = self.var_of("arr")
            if a:
                return ("bin", "??", ("idx", a, ("int", 0)), ("int", 1)) if r.random() < 0.5 else ("bin", "==", a, a)
        if k < 0.97 and self.dice:
            return ("roll", ("int", r.randrange(1, 5)), ("int", r.choice([1, 2, 6, 20, 100])))
        v = r.choice(VARS)
        self.types[v] = "int"
        return ("assign", v, self.int_expr(d - 1))

    def cmp_expr(self, d):
        r = self.r
        op = r.choice(["<", "<=", "==", "!=", ">=", ">"])
        if op in ("==", "!=") and r.random() < 0.3:
            return ("bin", op, self.str_expr(d), self.str_expr(d))
        return ("bin", op, self.int_expr(d), self.int_expr(d))

    def str_expr(self, d):
        r = self.r
        if d <= 0 or r.random() < 0.4:
            v = self.var_of("str")
            if v and r.random() < 0.4:
                return v
            return ("str", r.choice(STRS))
        k = r.random()
        if k < 0.5:
            return ("bin", "+", self.str_expr(d - 1), self.str_expr(d - 1))
        if k < 0.65:
            return ("tern", self.cond(d - 1), self.str_expr(d - 1), self.str_expr(d - 1))
        if k < 0.8:
            return ("or", self.str_expr(d - 1), self.str_expr(d - 1))
        if k < 0.9:
            return ("idx", ("str", r.choice(["abc", "力量x", "q"])), ("int", 0) if r.random() < 0.6 else ("neg", ("int", 1)))
        v = r.choice(VARS)
        self.types[v] = "str"
        return ("assign", v, self.str_expr(d - 1))

    def arr_expr(self, d):
        r = self.r
        items = [r.choice([self.int_expr, self.str_expr])(max(0, d - 1)) for _ in range(r.randrange(0, 4))]
        a = ("arr", items)
        if r.random() < 0.2:
            return ("bin", "+", a, ("arr", [self.lit_int()]))
        if r.random() < 0.1:
            return ("bin", "*", a, ("int", r.randrange(0, 3)))
        return a

    def cond(self, d):
        r = self.r
        k = r.random()
        if k < 0.5:
            return self.cmp_expr(d)
        if k < 0.7:
            return self.int_expr(d)
        if k < 0.8:
            return self.str_expr(d)
        if k < 0.9:
            return r.choice([("null",), ("true",), ("false",), ("arr", []), ("arr", [("int", 0)])])
        v = r.choice(VARS)       # possibly undefined -> null
        return ("var", v)

    def any_expr(self, d):
        """type-error stream: operands of any type"""
        r = self.r
        if d <= 0 or r.random() < 0.3:
            return r.choice([self.lit_int(), ("str", r.choice(STRS)), ("null",), ("var", r.choice(VARS)), ("arr", [("int", 1)]), ("arr", []),
                             ("true",), ("neg", ("int", 1))])
        k = r.random()
        if k < 0.6:
            return ("bin", r.choice(list(BIN)), self.any_expr(d - 1), self.any_expr(d - 1))
        if k < 0.7:
            return (r.choice(["neg", "pos"]), self.any_expr(d - 1))
        if k < 0.78:
            return ("idx", self.any_expr(d - 1), self.any_expr(d - 1))
        if k < 0.86:
            return ("tern", self.any_expr(d - 1), self.any_expr(d - 1), self.any_expr(d - 1))
        if k < 0.92:
            return ("or", self.any_expr(d - 1), self.any_expr(d - 1))
        if k < 0.96 and self.dice:
            return ("roll", self.any_expr(0), self.any_expr(0))
        v = r.choice(VARS)
        self.types.pop(v, None)
        return ("assign", v, self.any_expr(d - 1))

    def assign_stmt(self, d):
        r = self.r
        v = r.choice(VARS)
        k = r.random()
        if k < 0.6:
            e, ty = self.int_expr(d), "int"
        elif k < 0.8:
            e, ty = self.str_expr(d), "str"
        elif k < 0.93:
            e, ty = self.arr_expr(d), "arr"
        else:
            e, ty = ("null",), "null"
        self.types[v] = ty
        return ("expr", ("assign", v, e))

    def stmt(self, d, errs):
        r = self.r
        k = r.random()
        if errs and k < 0.25:
            return ("expr", self.any_expr(2))
        if k < 0.4:
            return self.assign_stmt(d)
        if k < 0.55:
            return ("expr", r.choice([self.int_expr, self.str_expr, self.cond])(d))
        if k < 0.75 and d > 0:
            saved = dict(self.types)
            t = self.block(d - 1, errs)
            self.types = dict(saved)
            if r.random() < 0.5:
                e = self.block(d - 1, errs) if r.random() < 0.6 else self.stmt_if_only(d - 1, errs)
            else:
                e = ("nop",)
            self.types = saved      # conservative: assignments inside branches are forgotten
            return ("if", self.cond(1), t, e)
        if k < 0.9 and d > 0 and self.loop_depth < 2:
            return self.loop(d - 1, errs)
        if k < 0.93:
            return ("nop",)
        if self.loop_depth > 0 and r.random() < 0.5:
            return ("if", self.cond(1), r.choice([("break",), ("continue",)]), ("nop",))
        return self.assign_stmt(d)

    def stmt_if_only(self, d, errs):
        saved = dict(self.types)
        s = ("if", self.cond(1), self.block(d, errs), ("nop",) if self.r.random() < 0.5 else self.block(d, errs))
        self.types = saved
        return s

    def block(self, d, errs):
        return seq(self.stmt(d, errs) for _ in range(self.r.randrange(0, 3)))

    def loop(self, d, errs):
        r = self.r
        c = COUNTERS[self.loop_depth]
        bound = r.randrange(0, 6)
        self.loop_depth += 1
        saved = dict(self.types)
        self.types[c] = "int"
        body = [("expr", ("assign", c, ("bin", "+", ("var", c), ("int", 1))))]
        for _ in range(r.randrange(0, 3)):
            body.append(self.stmt(d, errs))
        if r.random() < 0.3:
            body.insert(r.randrange(1, len(body) + 1), r.choice([("break",), ("continue",)]))
        self.types = saved
        self.types[c] = "int"
        self.loop_depth -= 1
        cond = ("bin", "<", ("var", c), ("int", bound))
        if r.random() < 0.2:
            cond = ("bin", "&&", cond, self.cond(0))
        return seq([("expr", ("assign", c, ("int", 0))), ("while", cond, seq(body))])

    def program(self, d, errs, nstmts):
        out = [self.stmt(d, errs) for _ in range(nstmts)]
        if all(s[0] == "nop" for s in out):
            out.append(("expr", self.lit_int()))
        if self.r.random() < 0.7:
            out.append(("expr", r_final(self)))
        return seq(out)


def r_final(g):
    r = g.r
    if g.types and r.random() < 0.7:
        return ("var", r.choice(list(g.types)))
    return g.int_expr(1)


def matrix_cases():
    """operator x operand-type x boundary matrix: one tiny program each"""
    vals = [("int", 0), ("int", 1), ("neg", ("int", 1)), ("int", 2147483648), ("int", 9223372036854775807),
            ("neg", ("int", 9223372036854775807)), ("bin", "-", ("neg", ("int", 9223372036854775807)), ("int", 1)),
            ("str", ""), ("str", "a"), ("null",), ("arr", []), ("arr", [("int", 1), ("str", "s")]), ("true",)]
    out = []
    for op in BIN:
        for a in vals:
            for b in vals:
                if op == "^":
                    continue
                out.append(seq([("expr", ("bin", op, a, b))]))
    for a in [("int", 0), ("int", 2), ("neg", ("int", 2)), ("int", 10), ("neg", ("int", 1)), ("int", 1)]:
        for b in [("int", 0), ("int", 1), ("int", 3), ("neg", ("int", 1)), ("int", 53), ("int", 62)]:
            out.append(seq([("expr", ("bin", "^", a, b))]))
    for a in vals:
        out.append(seq([("expr", ("neg", a))]))
        out.append(seq([("expr", ("pos", a))]))
        out.append(seq([("expr", ("or", a, ("int", 7)))]))
        out.append(seq([("expr", ("tern", a, ("int", 1), ("int", 2)))]))
        out.append(seq([("if", a, ("expr", ("assign", "x", ("int", 1))), ("expr", ("assign", "x", ("int", 2)))), ("expr", ("var", "x"))]))
        for i in [("int", 0), ("int", 1), ("neg", ("int", 1)), ("neg", ("int", 3)), ("int", 5), ("str", "0"), ("null",)]:
            out.append(seq([("expr", ("idx", a, i))]))
    return out


def gen_cases(r, n):
    """list of dict(progs=[ast...], cfg=(div0, mode), kind=...)"""
    cases = []
    for p in matrix_cases():
        cases.append({"progs": [p], "div0": r.random() < 0.3, "mode": 0, "kind": "matrix"})
    for _ in range(n):
        k = r.random()
        mode = r.choice([0, 0, -1, 1])
        g = Gen(r, dice=(mode != 0))
        errs = k < 0.25
        hist = r.choice([1, 1, 2, 3, 4])
        progs = []
        for h in range(hist):
            progs.append(g.program(r.choice([1, 2, 2, 3]), errs or (hist > 1 and r.random() < 0.3), r.randrange(1, 5)))
        cases.append({"progs": progs, "div0": r.random() < 0.3, "mode": mode, "kind": "errors" if errs else "typed"})
    return cases


# ---------------------------------------------------------------- Coq side
def case_term(c, seeds):
    mn, mx = c["mode"] == -1, c["mode"] == 1
    cfg = f"(CFG2 {k2cases.b(c['div0'])} {k2cases.b(mn)} {k2cases.b(mx)})"
    return f"(K {cfg} 400 [{';'.join(str(s) for s in seeds)}] [{'; '.join(sterm(p) for p in c['progs'])}])"


def cases_v(terms):
    return (HEADER + "Definition cases : list c02_case := [\n" + ";\n".join(terms) + "].\n"
            "Definition lines := Eval vm_compute in map c02_line cases.\nPrint lines.\n")


def unpack(chunks):
    """inverse of Corr02.pack: chunks of up to 7 bytes, each a base-256 number after a leading 1"""
    out = bytearray()
    for n in chunks:
        b = n.to_bytes((n.bit_length() + 7) // 8, "big")
        assert b[:1] == b"\x01", b[:4]
        out += b[1:]
    return bytes(out)


def parse_lines(out):
    import ast
    m = re.search(r"lines\s*=\s*(.*?)\n\s*:\s*list", out, re.S)
    if not m:
        raise Broken("coq-output", "cannot find lines in:\n" + out[-2000:])
    body = m.group(1).replace("%N", "").replace(";", ",").replace("true", "True").replace("false", "False")
    return ast.literal_eval(" ".join(body.split()))


def unhex(h):
    return bytes.fromhex(h)


def parse_dv(s, pos=0):
    """-> (python value, next position); python value: int | ('s', bytes) | None | list"""
    ch = s[pos]
    if ch == "i":
        m = re.match(r"-?\d+", s[pos + 1:])
        return int(m.group(0)), pos + 1 + m.end()
    if ch == "s":
        m = re.match(r"[0-9a-f]*", s[pos + 1:])
        return ("s", unhex(m.group(0))), pos + 1 + m.end()
    if ch == "n":
        return None, pos + 1
    if ch == "a":
        pos += 2
        items = []
        while s[pos] != ")":
            v, pos = parse_dv(s, pos)
            items.append(v)
            assert s[pos] == ","
            pos += 1
        return items, pos + 1
    raise ValueError(s[pos:pos + 20])


def parse_env(s):
    env = {}
    pos = 0
    while pos < len(s):
        eq = s.index("=", pos)
        name = unhex(s[pos:eq]).decode("utf-8")
        v, pos = parse_dv(s, eq + 1)
        assert s[pos] == ","
        pos += 1
        env[name] = v
    return env


def parse_outcome(o):
    if o == "F":
        return {"kind": "fuel"}
    if o.startswith("U:"):
        return {"kind": "unsup", "why": unhex(o[2:]).decode()}
    k, a, env = o.split(":", 2)
    if k == "V":
        v, _ = parse_dv(a)
        return {"kind": "val", "val": v, "env": parse_env(env)}
    return {"kind": "err", "cls": int(a), "env": parse_env(env)}


def parse_line(line):
    head, texts = line
    outs, codes = unpack(head).decode("ascii").split("|")
    outcomes = [parse_outcome(o) for o in outs.split(";")] if outs else []
    codes = [[tuple(i.split("#", 1)) for i in c.split(",") if i] for c in codes.split("/")]
    per_seed = [[(bool(f), unpack(t)) for f, t in st] for st in texts]
    return outcomes, codes, per_seed


def go_value(d):
    """harness vdump -> same python shape as parse_dv"""
    if d is None:
        return ("?", "nil")
    t = d.get("t")
    if t == 0:
        return int(d["i"])
    if t == 2:
        return ("s", (d.get("s") or "").encode("utf-8", "surrogateescape"))
    if t == 4:
        return None
    if t == 6 and not d.get("cyc"):
        return [go_value(x) for x in d.get("l") or []]
    return ("?", json.dumps(d, ensure_ascii=False))


def go_code(code):
    out = []
    for op in code:
        name = {"&": "bitand", "|": "bitor"}.get(op.get("name"), op.get("name") or "?")
        if op.get("i") is not None:
            arg = str(int(op["i"]))
        elif op.get("s") is not None:
            arg = "x" + op["s"].encode("utf-8", "surrogateescape").hex()
        else:
            arg = ""
        out.append((name, arg))
    return out


def show(v):
    if isinstance(v, tuple) and v and v[0] == "s":
        return repr(v[1].decode("utf-8", "replace"))
    if isinstance(v, list):
        return "[" + ", ".join(show(x) for x in v) + "]"
    return "null" if v is None else str(v)


# ---------------------------------------------------------------- own Coq files
def build_own_coq():
    """compile this property's Coq files when their .vo is missing or older than a source it depends on (they join
    _CoqProject later; until then `make` does not know them)"""
    deps = [os.path.join(common.COQ, p) for p in ("Model/VM.vo", "Model/Value.vo", "Model/Dice.vo", "Model/Str.vo")]
    newest = max(os.path.getmtime(p) for p in deps if os.path.exists(p))
    with common.Lock("coqmake"):
        for f in MY_FILES:
            src = os.path.join(common.COQ, f)
            if not os.path.exists(src):
                continue
            vo = src + "o"
            if os.path.exists(vo) and os.path.getmtime(vo) >= os.path.getmtime(src) and os.path.getmtime(vo) >= newest:
                continue
            t0 = time.time()
            r = common.sh(["timeout", "1800", "coqc", "-q", "-Q", ".", "DS", f], cwd=common.COQ)
            common.log(f"[coq] coqc {f}: rc={r.returncode} {time.time()-t0:.1f}s")
            if r.returncode != 0:
                raise Broken("coq-build " + f, r.stdout[-4000:])
            newest = max(newest, os.path.getmtime(vo))


# ---------------------------------------------------------------- comparison
def compare_case(c, line, rows_per_seed, stats):
    """-> list of problems (dicts); rows_per_seed[j] = harness row of the history printed under seed j"""
    outcomes, codes, per_seed = line
    problems = []
    for j, (texts, row) in enumerate(zip(per_seed, rows_per_seed)):
        if row is None:
            continue
        flagged = any(f for f, _ in texts)
        srcs = [t.decode("utf-8") for _, t in texts]
        base = {"config": {"IgnoreDiv0": c["div0"], "mode": c["mode"]}, "sources_run_in_order_on_one_vm": srcs}
        if row.get("fatal"):
            problems.append(dict(base, what="the real code hangs / crashes on a program the definition evaluates", fatal=row["fatal"], flagged=flagged))
            continue
        steps = row.get("steps") or []
        for i, exp in enumerate(outcomes):
            if i >= len(steps):
                problems.append(dict(base, what="history cut short by the harness", step=i, flagged=flagged))
                break
            s = steps[i]
            stats["steps"] += 1
            here = dict(base, step=i, source=srcs[i], flagged=flagged)
            if s.get("panic"):
                problems.append(dict(here, what="the real code panics", panic=s["panic"]))
                break
            if not s.get("parse_ok"):
                problems.append(dict(here, what="the real parser rejects a text printed from a well-formed AST", parse_error=(s.get("perr") or "")[:300]))
                break
            # K4: byte-code
            got = go_code(s.get("code") or [])
            want = codes[i]
            stats["k4"] += 1
            if [(n, "" if n == "mark.detail" else a) for n, a in got] != [(n, "" if n == "mark.detail" else a) for n, a in want]:
                k = next((q for q, (x, y) in enumerate(zip(got, want)) if x != y), min(len(got), len(want)))
                problems.append(dict(here, what="K4: the parser's byte-code differs from the reference compiler", first_difference_at=k,
                                     parser=" ; ".join(f"{n} {a}" for n, a in got[max(0, k - 3):k + 4]),
                                     reference=" ; ".join(f"{n} {a}" for n, a in want[max(0, k - 3):k + 4])))
                break
            # K3: observable
            if exp["kind"] == "val":
                if not s.get("ok"):
                    problems.append(dict(here, what="K3: the definition gives a value, the implementation an error", expected=show(exp["val"]),
                                         error=s.get("err")))
                    break
                gv = go_value(s.get("val"))
                if gv != exp["val"]:
                    problems.append(dict(here, what="K3: different value", expected=show(exp["val"]), got=show(gv)))
                    break
            else:
                if s.get("ok"):
                    problems.append(dict(here, what="K3: the definition gives an error, the implementation a value", expected_error_class=exp["cls"],
                                         got=show(go_value(s.get("val")))))
                    break
                cls = k2cases.error_class(s.get("err") or "")
                if cls and cls != exp["cls"]:
                    problems.append(dict(here, what="K3: different error class", expected_error_class=exp["cls"], got_class=cls, error=s.get("err")))
                    break
            gvars = {k: go_value(v) for k, v in zip(s.get("vark") or [], s.get("varv") or [])}
            if gvars != exp["env"]:
                problems.append(dict(here, what="K3: different variables after the program",
                                     expected={k: show(v) for k, v in exp["env"].items()}, got={k: show(v) for k, v in gvars.items()}))
                break
    return problems


KNOWN_REPLAYS = [
    # key, sources, expected by the definition (show() text of the last value), what the defect yields
    ("while-body-stack-leak", ["i=0; while i<2000 {i=i+1}; i"], "2000"),
    ("newline-after-bracket-value-not-a-separator", ["true\n2"], "2"),
    ("paren-lead-ne-truncated", ["(1) != 1"], "0"),
    ("logic-and-glued-identifier", ["x=2; 1 &&x"], "2"),
]


def run(res, tier, seed):
    common.build_harness()
    build_own_coq()
    r = random.Random(seed * 7919 + 2)
    n = 700 if tier == "quick" else 9000
    nseeds = 3 if tier == "quick" else 4
    cases = gen_cases(r, n)
    seeds_of = [[r.randrange(1, 1 << 30) for _ in range(nseeds)] for _ in cases]
    seeds_of = [[0] + s[1:] if c["kind"] == "matrix" else s for c, s in zip(cases, seeds_of)]

    # ---- Coq: print + compile + denote
    shard = 250
    ks = list(range(0, len(cases), shard))
    outs = common.coq_eval_many([(f"c02_{k}", cases_v([case_term(c, s) for c, s in zip(cases[k:k + shard], seeds_of[k:k + shard])])) for k in ks],
                                workers=12)
    lines = []
    for out in outs:
        lines += parse_lines(out)
    if len(lines) != len(cases):
        raise Broken("coq-output", f"{len(lines)} lines for {len(cases)} cases")
    parsed = [parse_line(l) for l in lines]

    # ---- Go: run the printed texts
    inputs, where = [], []
    skipped = {"fuel": 0, "unsup": 0}
    hist_len, ctor, kinds, outcome_kinds = {}, {}, {}, {}
    for ci, (c, (outcomes, codes, per_seed)) in enumerate(zip(cases, parsed)):
        kinds[c["kind"]] = kinds.get(c["kind"], 0) + 1
        hist_len[len(c["progs"])] = hist_len.get(len(c["progs"]), 0) + 1
        for p in c["progs"]:
            nodes(p, ctor)
        for o in outcomes:
            outcome_kinds[o["kind"]] = outcome_kinds.get(o["kind"], 0) + 1
        usable = [o for o in outcomes if o["kind"] in ("val", "err")]
        if len(usable) < len(outcomes):
            skipped[[o for o in outcomes if o["kind"] not in ("val", "err")][0]["kind"]] += 1
        parsed[ci] = (usable, codes, per_seed)
        if not usable:
            continue
        for j, texts in enumerate(per_seed):
            srcs = [t for _, t in texts][:len(usable)]
            inputs.append(k2cases.mk_input(srcs[-1], hist=srcs[:-1], div0=c["div0"], mode=c["mode"]))
            where.append((ci, j))
    rows = k2cases.go_run(inputs)
    per_case = {}
    for (ci, j), row in zip(where, rows):
        per_case.setdefault(ci, {})[j] = row

    stats = {"steps": 0, "k4": 0}
    problems, attributed = [], {"paren-lead-ne-truncated": 0}
    for ci, c in enumerate(cases):
        if ci not in per_case:
            continue
        rps = [per_case[ci].get(j) for j in range(len(parsed[ci][2]))]
        ps = compare_case(c, parsed[ci], rps, stats)
        for p in ps:
            if p.get("flagged") and not p.get("fatal"):
                attributed["paren-lead-ne-truncated"] += 1
            else:
                problems.append(p)
        txt = parsed[ci][2][0][-1][1] if parsed[ci][2] and parsed[ci][2][0] else b""
        res.count(txt.decode("utf-8", "replace") + json.dumps([c["div0"], c["mode"]]), nontrivial=c["kind"] != "matrix" or True)
    if parsed and parsed[-1][2]:
        ex = parsed[-1]
        res.sample({"sources": [t.decode("utf-8", "replace") for _, t in ex[2][0]], "expected": [o.get("kind") for o in ex[0]]})

    res.cov["rule"] = ("generated ASTs of the core fragment (Model/Ast.v): Coq prints each program under several whitespace / redundant-parenthesis "
                       "choices, compiles it (reference compiler) and evaluates the definitional semantics over the whole history; the real parser + "
                       "VM run exactly those texts on one VM per history; K4 compares the byte-code instruction by instruction (detail-span operands "
                       "ignored: they depend on the printed text), K3 compares value / error / error class / variables after every program; "
                       "distinct = distinct (last program text, configuration); every case counts as non-trivial (each is a full parse + run)")
    res.cov["input_distribution"] = {
        "cases": len(cases), "by_kind": kinds, "history_length": hist_len, "whitespace_choices_per_case": nseeds,
        "texts_run_by_go": len(inputs), "program_steps_compared": stats["steps"], "bytecode_comparisons": stats["k4"],
        "definition_outcomes": outcome_kinds, "cases_cut_by_model_limits": skipped, "constructors": dict(sorted(ctor.items())),
        "boundary_ints": INTS, "configurations": "IgnoreDiv0 30%, dice mode min/max 50% (dice terms only then)",
    }
    res.cov["correspondence"] = {"K3_K4_disagreements": len(problems), "attributed_to_known_shape": attributed}
    res.cov["trusted_base"] += [
        "Model/Denote.v is written from docs/GUIDE.md + roll.peg's precedence (the oracle); Model/Ast.v `print` decides which texts count as "
        "'legal whitespace / parenthesisation' (a sound subset of what roll.peg accepts: a text the real parser rejects is reported)",
        "Model/VM.v (validated by K2) is the machine the compiler-correctness theorem talks about; Model/Compile.v is tied to the real parser by K4",
        "capacity limits (1000-slot operand stack, 20 nested blocks, op budget) are outside the definition: generated programs stay far below them; "
        "the theorem carries them as the explicit hypothesis `fits`",
    ]

    # ---- known findings: deterministic replays
    registered = {f["key"]: f for f in common.known_for(PID)}
    rep_rows = k2cases.go_run([k2cases.mk_input(srcs[-1], hist=srcs[:-1]) for _, srcs, _ in KNOWN_REPLAYS])
    unregistered = []
    for (key, srcs, want), row in zip(KNOWN_REPLAYS, rep_rows):
        s = (row.get("steps") or [{}])[-1]
        got = show(go_value(s.get("val"))) if s.get("ok") else "error: " + (s.get("err") or s.get("perr") or row.get("fatal") or "?")
        if got != want:
            what = registered[key]["what"] if key in registered else FINDINGS[key]
            res.known(f"key={key} input={json.dumps(srcs, ensure_ascii=False)} documented={want} implementation={got} :: {what}")
            if key not in registered:
                unregistered.append(key)
    if attributed["paren-lead-ne-truncated"]:
        res.known(f"key=paren-lead-ne-truncated generated programs with a `(...) !=` at the start of an expression: "
                  f"{attributed['paren-lead-ne-truncated']} disagreements attributed")
    res.cov["known_keys_not_yet_in_known_findings_json"] = unregistered

    # ---- proofs
    info = common.check_property_file(PID)
    res.proof(info, "cd coq && make && coqc -Q . DS Properties/C02.v")
    res.assumptions += [
        "C02_compile_correct_partial covers the constructors listed in Properties/C02.v (`core_expr` / `core_stmt`); the full statement is kept as "
        "C02_compile_correct_statement; outside the induction the tie is K3 only",
    ]

    for p in problems[:5]:
        res.violation(dict(p, replay="run the sources in order on one VM created with the given configuration (harness k2)"))


def replay(path):
    p = json.load(open(path))
    common.build_harness()
    srcs = p.get("sources_run_in_order_on_one_vm") or []
    cfg = p.get("config") or {}
    rows = k2cases.go_run([k2cases.mk_input(srcs[-1], hist=srcs[:-1], div0=cfg.get("IgnoreDiv0", False), mode=cfg.get("mode", 0))])
    print(json.dumps(rows[0], ensure_ascii=False)[:4000])
    return 0
