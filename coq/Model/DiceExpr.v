(* A small expression language over dice terms, for C15 (min/max modes bracket every
   roll of an expression that is monotone in its dice):
     e ::= c | XdY-with-modifiers | Fate | CoC bonus n | CoC penalty n | e + e | c * e (c >= 0)
   Evaluation threads the die source left to right, as the VM does.  Arithmetic is in Z
   (the no-overflow side condition is part of wf_expr's users). *)
From Coq Require Import String NArith ZArith List Bool.
From DS Require Import Model.PCG Model.Roll Model.Str Model.Dice.
Import ListNotations.
Open Scope Z_scope.

Inductive dexpr :=
| EConst (c : Z)
| ECommon (times d : Z) (dmin dmax : option Z) (keep lowNum highNum : Z)
| EFate
| ECoC (isBonus : bool) (n : Z)
| EAdd (a b : dexpr)
| EMulC (c : Z) (a : dexpr).

Section Source.
  Variable S : Type.
  Variable next : S -> N * S.

  Fixpoint deval (fuel : nat) (mode : Z) (e : dexpr) (s : S) : outcome (Z * S) :=
    match e with
    | EConst c => Done (c, s)
    | ECommon t d mn mx k lo hi_ =>
      match roll_common next fuel t d mn mx k lo hi_ mode s with
      | Done ((num, _), s') => Done (num, s') | OutOfFuel => OutOfFuel end
    | EFate =>
      match roll_fate next fuel mode s with
      | Done ((num, _), s') => Done (num, s') | OutOfFuel => OutOfFuel end
    | ECoC b n =>
      match roll_coc next fuel b n mode s with
      | Done ((num, _), s') => Done (num, s') | OutOfFuel => OutOfFuel end
    | EAdd a b =>
      match deval fuel mode a s with
      | OutOfFuel => OutOfFuel
      | Done (x, s1) =>
        match deval fuel mode b s1 with
        | OutOfFuel => OutOfFuel
        | Done (y, s2) => Done (x + y, s2)
        end
      end
    | EMulC c a =>
      match deval fuel mode a s with
      | OutOfFuel => OutOfFuel
      | Done (x, s1) => Done (c * x, s1)
      end
    end.

  (* legal parameters, non-negative multipliers, dice totals that cannot overflow int64 *)
  Fixpoint wf_dexpr (e : dexpr) : Prop :=
    match e with
    | EConst _ => True
    | ECommon t d mn mx k lo hi_ =>
      0 <= t /\ 1 <= d <= MaxInt64 - 1 /\
      t * Z.max (Z.abs (clampdie mn mx 1)) (Z.abs (clampdie mn mx d)) < two63
    | EFate => True
    | ECoC _ n => 0 <= n
    | EAdd a b => wf_dexpr a /\ wf_dexpr b
    | EMulC c a => 0 <= c /\ wf_dexpr a
    end.
End Source.
Arguments deval {S} next fuel mode e s.
