"""C06 — seeded evaluation is reproducible and resumable."""
import base64
import json
import random

import c11
import common
import gen
from common import Broken

LEVEL = "proof"
KEY_ORDER = "go-map-order-visible-through-dict-iteration"

DICE = ["d6148914691236517206", "3d6148914691236517206", "2d9223372036854775806k1", "2d6", "3d20k2", "4d6dl1", "d", "2d", "b2", "p", "f", "5a8", "3a9m6k4", "3c8", "4c9m10", "(2d4)d6", "d优势", "[1,2,3,4,5].shuffle()",
        "[1,2,3].rand()", "[1,2,3,4].randSize(2)", "2d6+3c8*f", "x=3d6; y=x+b", "[2d6, 3c8, f]", "`{2d6} {3c8}`"]


NESTED = ["func r(){ &hp = 3d1000; hp }; r()+r()", "func t(){ func u(){ &k = 2d1000; k }; u() }; t() + t()", "&o = d1000; &w = o + d1000; func t(){ &z = w + d1000; z }; t()",
          "&o = d1000; func q(){ o }; q() + q()", "`{% &k = d1000; k %}` + `{% func m(){ &j = d1000; j }; m() %}`", "func t(a){ &c = a + 2d6; [c, c] }; t(1)",
          "&o = 2d1000; &w = `{o} {% &i = d1000; i %}`; w", "func t(){ &c = [1,2,3,4,5].shuffle(); c }; t()", "func t(){ &c = 5a8 + 3c8 + f + b; c }; t()"]


def make_inputs(rnd, n):
    out = []
    for i in range(n):
        k = rnd.randrange(10)
        if k < 2:
            src = rnd.choice(NESTED)        # dice inside computed values evaluated from nested contexts (function bodies, other computed values)
        elif k < 6:
            src = rnd.choice(DICE)
            if rnd.random() < 0.5:
                src += rnd.choice([" + ", " - ", "; "]) + rnd.choice(DICE)
        else:
            src = gen.G(rnd, max_depth=rnd.choice([1, 2])).program()
        pre = rnd.choice(["", "x=3; arr=[1,2,3]", "func g(u){ u+2d6 }; &val = 2d4", "func g(u){ u+2d6 }; &val = 2d4; &hp = 3d6 + b"])
        restore = False
        if "&val" in pre and rnd.random() < 0.6:
            # use the history's dice-rolling function / computed value, half of the time after a JSON snapshot + restore (lazy compilation path)
            src = rnd.choice(["val + 1", "g(1) + val", "[val, val]", "val + 2d6", "g(2)"]) + (" + hp" if "&hp" in pre else "")
            restore = rnd.random() < 0.6
        nxt = rnd.choice(DICE[:14])
        # a third of the programs that reach a random array method run on VMs in min / max mode (dice draw nothing there, the array
        # methods still draw from the VM's own generator)
        mode = rnd.choice([-1, 1]) if (any(m in src + pre for m in ("shuffle", "rand")) and rnd.random() < 0.6) or rnd.random() < 0.1 else 0
        out.append({"mode": mode, "b64": base64.b64encode(src.encode()).decode(), "pre": base64.b64encode(pre.encode()).decode(),
                    "next": base64.b64encode(nxt.encode()).decode(), "restore": restore, "_src": src, "_pre": pre, "_next": nxt})
    return out


def pcg_cases_v(rows):
    def nl(l):
        return "[" + ";".join(str(x) for x in (l or [])) + "]"
    items = [f"({nl(r['seed'])}, ({r['hi0']},{r['lo0']}), {nl(r['draws'])}, {nl(r['cur'])}, ({r['hi1']},{r['lo1']}))" for r in rows]
    return ("From Coq Require Import NArith List.\nFrom DS Require Import Model.PCG Corr.Corr06.\nImport ListNotations.\nOpen Scope N_scope.\n"
            "Set Printing Width 1000000. Set Printing Depth 10000000.\nDefinition cases : list c06_case := [\n" + ";\n".join(items) + "].\n"
            "Definition bad := Eval vm_compute in bad06 0 cases.\nPrint bad.\n")


def run(res, tier, seed):
    common.build_harness()
    rnd = random.Random(seed)
    gstats = c11.regenerate_globals()
    n = 600 if tier == "quick" else 5000
    inputs = make_inputs(rnd, n)
    rows, _ = common.run_harness(["c06", "-seed", seed], stdin="\n".join(json.dumps({k: v for k, v in i.items() if not k.startswith("_")}) for i in inputs) + "\n", timeout=900)
    pcg_rows, _ = common.run_harness(["c06-pcg", "-seed", seed, "-n", 400 if tier == "quick" else 3000])
    nosrc = [pr for pr in pcg_rows if pr.get("nosrc")]
    if nosrc:
        res.violation({"what": "a context created with a seed has no generator of its own after Init (it then rolls on the package-level, time-seeded "
                               "generator: not reproducible)", "seed_bytes": nosrc[0]["seed"], "seed_length": len(nosrc[0]["seed"] or []),
                       "how": "ctx := &Context{Seed: seed_bytes}; ctx.Init(); ctx.RandSrc == nil"})
    pcg_rows = [pr for pr in pcg_rows if not pr.get("nosrc")]
    for pr in pcg_rows:
        if (pr["hi0"], pr["lo0"]) != (pr.get("fresh_hi0", pr["hi0"]), pr.get("fresh_lo0", pr["lo0"])):
            res.violation({"what": "seeding a context that was seeded and used before does not start the sequence a fresh context starts from the same seed",
                           "seed_bytes": pr["seed"], "history": "ctx.Seed = other; Init(); draws; Run(\"2d6 + d20\"); ctx.Seed = seed_bytes; Init()",
                           "generator_state_after_Init": [pr["hi0"], pr["lo0"]], "fresh_context_same_seed": [pr["fresh_hi0"], pr["fresh_lo0"]]})
            break
    for i, r in zip(inputs, rows):
        res.count(i["_src"] + "|" + i["_pre"], nontrivial=r["a"]["ok"])
    res.cov["rule"] = ("dice-using programs (every family incl. Double Cross, default sides, nested rolls, the random array methods, templates, functions and "
                       "computed values from the history) each run from random 16-byte seeds: (a) twice from the same seed, (b) with the package-level "
                       "generator advanced and an unrelated unseeded VM rolling in between, (c) continued on the same VM vs on a fresh VM seeded with "
                       "GetCurSeed, (d) on one context seeded a second time from the same bytes; a share of the programs with array draws on VMs in min / max mode; compared: value, process text, error, final generator state; plus Init/Uint64/GetCurSeed against the PCG model; "
                       "distinct = distinct (program, history); non-trivial = evaluations that succeed")
    res.cov["input_distribution"] = {"programs": len(inputs), "succeeded": sum(1 for r in rows if r["a"]["ok"]),
                                     "with_resume": sum(1 for r in rows if "resume_same" in r), "with_reseed_same_bytes": sum(1 for r in rows if "reseed_same" in r),
                                     "min_max_mode_programs": sum(1 for i in inputs if i["mode"]), "min_max_mode_with_array_draws": sum(1 for i in inputs if i["mode"] and any(m in i["_src"] + i["_pre"] for m in ("shuffle", "rand"))), "pcg_cases": len(pcg_rows),
                                     "short_seed_cases": sum(1 for r in pcg_rows if len(r["seed"] or []) < 16)}
    res.cov["translator"] = gstats
    res.sample({"src": inputs[0]["_src"], "a": rows[0]["a"]})
    res.sample(pcg_rows[0])
    res.cov["trusted_base"] += [
        "Model/PCG.v hand-written (constants of golang.org/x/exp/rand), tied by exact Init / Uint64 / GetCurSeed correspondence",
        "footprint table Gen/Globals.v regenerated from /repo by tools/globals (go/ast): confinement of the package-level generator",
        "non-interference for every VM opcode is a Go-vs-Go search here (perturbing the package generator); the VM-level theorem awaits the VM model",
    ]
    known = {k["key"]: k for k in common.known_for("C06")}
    found = 0
    order_hits = 0
    for i, r in zip(inputs, rows):
        if r["a"].get("panic") or r["b"].get("panic"):
            continue
        if not r["same"]:
            if r.get("unstable") and KEY_ORDER in known:
                order_hits += 1
                continue
            res.violation({"what": "same program, same seed, same history: different outcome after the package generator / another VM was used in between",
                           "src": i["_src"], "history": i["_pre"], "mode": i["mode"], "first": r["a"], "second": r["b"]})
            found += 1
        elif "reseed_same" in r and not r["reseed_same"]:
            res.violation({"what": "seeding one context again from the SAME seed bytes (ctx.Seed = same bytes; ctx.Init()) does not give the run these bytes give "
                                   "on a fresh context", "src": i["_src"], "mode": i["mode"], "fresh_context": r["a"], "first_run_on_context": r["r1"],
                           "after_reseeding_same_bytes": r["r2"]})
            found += 1
        elif "resume_same" in r and not r["resume_same"]:
            res.violation({"what": "continuing on a fresh VM seeded from GetCurSeed differs from continuing on the same VM",
                           "first_program": i["_src"], "history": i["_pre"], "continued_with": i["_next"], "same_vm": r["c1"], "fresh_vm": r["c3"]})
            found += 1
        if found >= 3:
            break
    if KEY_ORDER in known:
        res.known(known[KEY_ORDER]["what"] + f" [programs skipped for this reason in this run: {order_hits}]")

    broken = None
    try:
        info = common.check_property_file("C06")
        res.proof(info, "tools/globals (regenerate Gen/Globals.v); cd coq && make && coqc -Q . DS Properties/C06.v")
        shard = 200
        ks = list(range(0, len(pcg_rows), shard))
        outs = common.coq_eval_many([(f"c06_{k}", pcg_cases_v(pcg_rows[k:k + shard])) for k in ks])
        bad = []
        for k, out in zip(ks, outs):
            bad += [k + int(x.replace("%N", "")) for x in common.parse_coq_list(out, "bad")]
        res.cov["correspondence"] = {"pcg_cases": len(pcg_rows), "disagreements": len(bad)}
        if bad:
            broken = Broken("correspondence Corr06.c06_ok (Init/Uint64/GetCurSeed vs Model/PCG.v)", {"first": [pcg_rows[i] for i in bad[:3]]})
    except Broken as b:
        broken = b
    if broken and not found:
        res.violation({"broken": broken.what, "detail": broken.detail}, no_input=True)


def replay(path):
    p = json.load(open(path))
    print(json.dumps(p, indent=1, ensure_ascii=False))
    return 0
